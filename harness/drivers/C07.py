"""C07 — every covariance handed out is a valid covariance.
Tie C.  The driver builds every exported kernel that is positive definite on its documented domain,
evaluates it on adversarial input geometries (exact duplicates, rows 1e-8 apart, collinear / clustered /
equispaced / far-from-origin points, extreme lengthscales), builds exact and variational GP posteriors and
their marginals on such inputs, and checks on the IMPLEMENTATION's matrices:
  * symmetry, smallest eigenvalue >= -1e-8*scale (float64 eigvalsh), and for sizes <= 12 an exact PSD
    certificate checked by the Coq model (Models/C07_psd.v: A = Lf Lf^T + F diag(c) F^T, c >= 0, with Lf the
    rounded float Cholesky factor as an untrusted hint; proved sound in Props/C07.v) on the matrix rounded to a dyadic grid plus the stated shift;
  * prior - posterior PSD, posterior variance <= prior variance, variance non-increasing when observations
    are added one at a time, variance >= settings.min_variance (exactly the Coq clamp max(diag, min_variance)),
    stddev real, likelihood noise >= the constraint's lower bound (value compared with the Coq model's
    softplus(raw)+lb term), FixedGaussianNoise >= settings.min_fixed_noise (exactly the Coq clamp);
  * part F: the same oracles on the covariances handed out under observation_nan_policy('mask' / 'fill') (single-output,
    FixedNoise, batch, multitask; also: never smaller than the posterior of the same data without holes), by fantasy models
    (get_fantasy_model with / without noise=, 1..3 steps, fast_pred_var on / off; each step's covariance is below its
    source's: c07_more_data_less_variance), and after short histories of set_train_data (inputs only / targets only /
    both / resized) / load_state_dict / train-eval on a model that has already predicted; F.d: eval -> predict -> train() ->
    hyper-parameter change (setters / initialize / load_state_dict / optimizer steps / moved inducing points) -> eval -> predict on
    models with cached factors (ExactGP, SGPR, KISS-GP, RFF, variational strategies), compared with a fresh model of the same state;
  * part G: the noise floor (added diagonal >= the constraint's lower bound, = transform(raw); marginal variance >= latent variance;
    marginal covariance PSD) for every noise model / likelihood class incl. HeteroskedasticNoise with noise_indices,
    MultitaskGaussianLikelihood rank 0 / > 0, DirichletClassificationLikelihood, custom constraints."""
import json
import math
import random
import warnings
from fractions import Fraction

import torch

import gpytorch
from gpytorch import settings as gs
from harness.lib import common as C

COQ_TARGETS = ["Models/C07_psd.vo", "Proofs/C07_psd.vo", "Proofs/C07_real.vo", "Proofs/C07_policy.vo", "Proofs/C07_noise.vo"]
ROUNDING_RULE = ("thresholds are max(fixed scale-relative tolerance, 8 * n * b) (eigenvalues) / max(.., 8 * b) (symmetry, monotonicity) "
                 "where b is an input-dependent bound on the float64 error of one matrix entry, computed and recorded per case: "
                 "kernels.kernel.sq_dist forms r^2 = |x|^2+|y|^2-2x.y on inputs/lengthscale centred on their mean, so "
                 "eps_sq = (d+2)*eps64*2*max|x-mean|^2/lengthscale^2; kernels of r^2 (RBF, RQ) err by <= eps_sq, kernels of r = sqrt(r^2) "
                 "(Matern, PiecewisePolynomial, Cosine, Arc, Cylindrical) by <= L*sqrt(eps_sq) when two rows are closer than sqrt(eps_sq) "
                 "(sqrt is not Lipschitz at 0) and by L*eps_sq/(2 r_min) otherwise; posteriors multiply b by the amplification "
                 "(1+|A^-1 k|_1)^2 of the solve (variational: also by 1+|S| cond(K_zz)); b ~ 1e-15 on ordinary geometries, so the "
                 "fixed tolerances (1e-10*scale symmetry, 1e-8*scale eigenvalues / monotonicity) apply there")
LEVEL_NOTE = ("theorems: PSD of Gram-type kernels / closure / conditioning / clamps for all sizes (Coq); PSD of RBF, Matern, "
              "RQ, Periodic, ... Gram matrices is NOT proved (Bochner) and is tested: float64 eigvalsh plus an exact, "
              "proved-sound PSD certificate check run by the Coq model on the implementation's matrices (tie C, differential); "
              + ROUNDING_RULE)
IMPORTS = ("From Coq Require Import List ZArith QArith Qcanon.\n"
           "From GPV Require Import Base.LinAlg Base.Exec Base.Expr Models.C07_psd.")
RUN_DEF = "Definition run := run_job."

torch.set_default_dtype(torch.float64)
K = gpytorch.kernels
T = torch.tensor

EIG_TOL = 1e-8          # smallest eigenvalue >= -EIG_TOL * scale
SYM_TOL = 1e-10         # |A - A^T| <= SYM_TOL * scale
CERT_SLACK = 1.25       # the exact certificate is for round(A) + CERT_SLACK*EIG_TOL*scale*I
CERT_MAX = 12           # exact certificate for sizes <= CERT_MAX
GRID_BITS = 44          # entries rounded to scale * 2^-GRID_BITS before the exact check
MONO_TOL = 1e-8         # variance may not increase by more than MONO_TOL * scale when data are added
ITER_TOL = 1e-5         # Lanczos (fast_pred_var) path


# --------------------------------------------------------------------------- kernels

def _ls(rng, mode, k=1):
    if mode == "tiny":
        return [1e-3] * k
    if mode == "huge":
        return [1e3] * k
    return [rng.uniform(0.3, 3.0) for _ in range(k)]


# family -> dict(d=input dims allowed, domain=..., lsmodes=bool)
FAMILIES = {
    "rbf": {}, "rbf_ard": {}, "matern05": {}, "matern15": {}, "matern25": {}, "rq": {}, "periodic": {},
    "cosine": {"d": 1}, "linear": {"nols": 1}, "linear_ard": {"nols": 1}, "poly1": {"nols": 1}, "poly2": {"nols": 1},
    "poly3": {"nols": 1}, "poly4": {"nols": 1}, "const": {"nols": 1},
    "pp0": {}, "pp1": {}, "pp2": {}, "pp3": {},
    "scale_rbf": {}, "scale_matern": {}, "rbf+linear": {}, "matern+periodic": {}, "rbf*periodic": {},
    "linear*matern": {}, "rbf*rq": {}, "sm": {"nols": 1}, "sdelta": {}, "rff": {}, "arc": {}, "cyl": {"domain": "ball"},
    "hamming": {"domain": "onehot", "nols": 1}, "index": {"domain": "index", "nols": 1},
    "rbfgrad": {"multi": 1}, "m52grad": {"multi": 1}, "polygrad": {"multi": 1, "nols": 1}, "rbfgg": {"multi": 1},
    "multitask": {"multi": 1}, "lcm": {"multi": 1}, "inducing": {}, "gridinterp": {"domain": "box", "d": 1},
    "addstruct": {}, "prodstruct": {}, "ng": {}, "active": {},
}


def gen_spec(rng, fam, lsmode):
    """JSON-able kernel description (all random choices stored)"""
    info = FAMILIES[fam]
    d = info.get("d") or rng.randint(1, 3)
    if fam in ("rbf_ard", "linear_ard", "addstruct", "prodstruct", "ng", "active"):
        d = rng.randint(2, 3)
    if info.get("multi"):
        d = rng.randint(1, 2)
    s = dict(fam=fam, d=d, lsmode=lsmode, hseed=rng.randint(0, 10 ** 9))
    if fam == "hamming":
        s["vocab"] = rng.randint(2, 3); s["T"] = d; s["d"] = d * s["vocab"]
    if fam == "index":
        s["d"] = 1; s["tasks"] = rng.randint(2, 4); s["rank"] = rng.randint(0, 2)
    return s


def build_kernel(spec):
    rng = random.Random(spec["hseed"])
    torch.manual_seed(spec["hseed"] % (2 ** 31))
    f, d, mode = spec["fam"], spec["d"], spec["lsmode"]
    ls = lambda k=1: T(_ls(rng, mode, k))  # noqa: E731
    u = rng.uniform

    def stationary(name, dd=None):
        if name == "rbf":
            m = K.RBFKernel()
        elif name.startswith("matern"):
            m = K.MaternKernel(nu={"05": 0.5, "15": 1.5, "25": 2.5}[name[-2:]])
        elif name == "rq":
            m = K.RQKernel(); m.alpha = u(0.3, 3.0)
        elif name == "periodic":
            m = K.PeriodicKernel(); m.period_length = u(0.7, 3.0)
        m.lengthscale = ls()
        return m
    if f in ("rbf", "matern05", "matern15", "matern25", "rq", "periodic"):
        return stationary(f)
    if f == "rbf_ard":
        m = K.RBFKernel(ard_num_dims=d); m.lengthscale = ls(d); return m
    if f == "cosine":
        m = K.CosineKernel(); m.period_length = {"tiny": 1e-3, "huge": 1e3}.get(mode, u(0.5, 3.0)); return m
    if f == "linear":
        m = K.LinearKernel(); m.variance = u(0.2, 2.0); return m
    if f == "linear_ard":
        m = K.LinearKernel(ard_num_dims=d); m.variance = T([u(0.2, 2.0) for _ in range(d)]); return m
    if f.startswith("poly") and f != "polygrad":
        m = K.PolynomialKernel(power=int(f[-1])); m.offset = u(0.0, 2.0); return m
    if f == "const":
        m = K.ConstantKernel(); m.constant = T(u(0.1, 3.0)); return m
    if f.startswith("pp"):
        m = K.PiecewisePolynomialKernel(q=int(f[2])); m.lengthscale = ls(); return m
    if f == "scale_rbf":
        m = K.ScaleKernel(stationary("rbf")); m.outputscale = rng.choice([1e-6, u(0.2, 3.0), 1e4]); return m
    if f == "scale_matern":
        m = K.ScaleKernel(stationary("matern15")); m.outputscale = rng.choice([1e-6, u(0.2, 3.0), 1e4]); return m
    if f == "rbf+linear":
        b = K.LinearKernel(); b.variance = u(0.2, 2.0); return stationary("rbf") + b
    if f == "matern+periodic":
        return stationary("matern25") + stationary("periodic")
    if f == "rbf*periodic":
        return stationary("rbf") * stationary("periodic")
    if f == "linear*matern":
        b = K.LinearKernel(); b.variance = u(0.2, 2.0); return b * stationary("matern15")
    if f == "rbf*rq":
        return stationary("rbf") * stationary("rq")
    if f == "sm":
        nq = rng.randint(1, 3)
        m = K.SpectralMixtureKernel(num_mixtures=nq, ard_num_dims=d)
        m.mixture_weights = T([u(0.2, 1.5) for _ in range(nq)])
        m.mixture_means = T([[u(0.05, 0.6) for _ in range(d)] for _ in range(nq)]).unsqueeze(-2)
        m.mixture_scales = T([[u(0.05, 0.5) for _ in range(d)] for _ in range(nq)]).unsqueeze(-2)
        return m
    if f == "sdelta":
        m = K.SpectralDeltaKernel(num_dims=d, num_deltas=rng.randint(1, 6)); m.lengthscale = ls(); return m
    if f == "rff":
        m = K.RFFKernel(num_samples=rng.randint(1, 6), num_dims=d); m.lengthscale = ls(); return m
    if f == "arc":
        m = K.ArcKernel(stationary(rng.choice(["matern25", "rbf"])), ard_num_dims=d)
        m.radius = T([u(0.5, 2.0) for _ in range(d)]); m.angle = T([u(0.15, 0.85) for _ in range(d)])
        return m
    if f == "cyl":
        m = K.CylindricalKernel(num_angular_weights=rng.randint(1, 4), radial_base_kernel=stationary(rng.choice(["matern25", "rbf", "matern05"])))
        m.angular_weights = T([u(0.2, 1.5) for _ in range(m.num_angular_weights)])
        m.alpha = u(0.5, 2.0); m.beta = u(0.5, 2.0)
        return m
    if f == "hamming":
        m = K.HammingIMQKernel(vocab_size=spec["vocab"]); m.alpha = u(0.3, 3.0); m.beta = u(0.3, 2.5); return m
    if f == "index":
        m = K.IndexKernel(num_tasks=spec["tasks"], rank=spec["rank"])
        m.covar_factor.data = T([[u(-1.5, 1.5) for _ in range(spec["rank"])] for _ in range(spec["tasks"])]).reshape(spec["tasks"], spec["rank"])
        m.var = T([rng.choice([1e-9, u(0.05, 1.5)]) for _ in range(spec["tasks"])])
        return m
    if f == "rbfgrad":
        m = K.RBFKernelGrad(); m.lengthscale = ls(); return m
    if f == "rbfgg":
        m = K.RBFKernelGradGrad(); m.lengthscale = ls(); return m
    if f == "m52grad":
        m = K.Matern52KernelGrad(); m.lengthscale = ls(); return m
    if f == "polygrad":
        m = K.PolynomialKernelGrad(power=rng.randint(1, 3)); m.offset = u(0.1, 2.0); return m
    if f == "multitask":
        m = K.MultitaskKernel(stationary(rng.choice(["rbf", "matern25"])), num_tasks=2, rank=1)
        m.task_covar_module.covar_factor.data = T([[u(-1, 1)], [u(-1, 1)]])
        m.task_covar_module.var = T([rng.choice([1e-9, u(0.1, 1.0)]) for _ in range(2)])
        return m
    if f == "lcm":
        m = K.LCMKernel([stationary("rbf"), stationary("matern15")], num_tasks=2, rank=1)
        for cm in m.covar_module_list:
            cm.task_covar_module.covar_factor.data = T([[u(-1, 1)], [u(-1, 1)]])
            cm.task_covar_module.var = T([u(0.01, 1.0) for _ in range(2)])
        return m
    if f == "inducing":
        z = T([[u(-3, 3) for _ in range(d)] for _ in range(rng.randint(1, 4))])
        lik = gpytorch.likelihoods.GaussianLikelihood()
        return K.InducingPointKernel(stationary(rng.choice(["rbf", "matern25"])), inducing_points=z, likelihood=lik)
    if f == "gridinterp":
        return K.GridInterpolationKernel(stationary(rng.choice(["rbf", "matern25"])), grid_size=rng.randint(8, 16), num_dims=d,
                                         grid_bounds=[(-3.5, 3.5)] * d)
    if f in ("addstruct", "prodstruct"):
        b = stationary(rng.choice(["rbf", "matern15", "periodic"]))
        return (K.AdditiveStructureKernel if f == "addstruct" else K.ProductStructureKernel)(b, num_dims=d)
    if f == "ng":
        m = K.NewtonGirardAdditiveKernel(stationary(rng.choice(["rbf", "matern25"])), num_dims=d, max_degree=rng.randint(1, d))
        m.outputscale = T([u(0.2, 1.5) for _ in range(m.max_degree)])
        return m
    if f == "active":
        dims = tuple(sorted(rng.sample(range(d), rng.randint(1, d - 1))))
        m = K.RBFKernel(active_dims=dims); m.lengthscale = ls(); return m
    raise ValueError(f)


# --------------------------------------------------------------------------- input geometries

GEOMS = ["random", "dup", "near", "collinear", "cluster", "grid", "far"]


def gen_points(rng, spec, n, geom):
    """n rows on the kernel's documented domain arranged adversarially"""
    f, d = spec["fam"], spec["d"]
    dom = FAMILIES[f].get("domain")
    if dom == "onehot":
        def one():
            r = []
            for _ in range(spec["T"]):
                k = rng.randrange(spec["vocab"]); r += [1.0 if i == k else 0.0 for i in range(spec["vocab"])]
            return r
        base = [one() for _ in range(n)]
        if geom in ("dup", "near"):
            base = [base[i % max(1, (n + 1) // 2)] for i in range(n)]
        return base
    if dom == "index":
        if geom in ("dup", "near"):
            return [[float(i % max(1, min(spec["tasks"], (n + 1) // 2)))] for i in range(n)]
        return [[float(rng.randrange(spec["tasks"]))] for _ in range(n)]
    span = 3.0
    rnd = lambda: [rng.uniform(-span, span) for _ in range(d)]  # noqa: E731
    if geom == "random":
        pts = [rnd() for _ in range(n)]
    elif geom == "dup":
        base = [rnd() for _ in range(max(1, (n + 1) // 2))]
        pts = [list(base[i % len(base)]) for i in range(n)]
    elif geom == "near":
        base = [rnd() for _ in range(max(1, (n + 1) // 2))]
        pts = [[v + (1e-8 * rng.choice([-1, 1]) if i >= len(base) else 0.0) for v in base[i % len(base)]] for i in range(n)]
    elif geom == "collinear":
        x0, v = rnd(), [rng.uniform(-1, 1) for _ in range(d)]
        ts = [rng.uniform(-1, 1) for _ in range(n)]
        pts = [[a + t * b for a, b in zip(x0, v)] for t in ts]
    elif geom == "cluster":
        c = [rnd(), rnd()]
        pts = [[a + rng.uniform(-1e-3, 1e-3) for a in c[i % 2]] for i in range(n)]
    elif geom == "grid":
        h = rng.choice([0.5, 0.1, 1e-3])
        x0, v = rnd(), [1.0] + [0.0] * (d - 1)
        pts = [[a + (i - n / 2) * h * b for a, b in zip(x0, v)] for i in range(n)]
    else:  # far from the origin: exercises the centring in sq_dist
        off = [rng.choice([-1, 1]) * 1e3 for _ in range(d)]
        pts = [[o + rng.uniform(-1, 1) for o in off] for _ in range(n)]
    if dom == "ball":  # CylindricalKernel: strictly inside the unit ball
        if geom == "far":
            pts = [rnd() for _ in range(n)]
        mx = max(math.sqrt(sum(v * v for v in p)) for p in pts) or 1.0
        r = rng.uniform(0.3, 0.95)
        pts = [[v / mx * r for v in p] for p in pts]
    if dom == "box":   # GridInterpolationKernel: inside the grid bounds
        pts = [[max(-3.2, min(3.2, v if geom != "far" else v - math.copysign(1e3, v))) for v in p] for p in pts]
    return pts


# --------------------------------------------------------------------------- oracles

def scale_of(A):
    return max(A.abs().max().item(), 1e-300)


EPS64 = 2.220446049250313e-16
KB = 8.0                # safety constant on the rounding bound
# kernels that take sqrt(r^2) (sqrt is not Lipschitz at 0): Lipschitz constant of k in the scaled distance r
SQRT_MODS = [(K.MaternKernel, 1.0), (K.Matern52KernelGrad, 4.0), (K.PiecewisePolynomialKernel, 12.0), (K.CosineKernel, math.pi),
             (K.CylindricalKernel, 4.0), (K.ArcKernel, 4.0)]
# kernels that never form |x|^2+|y|^2-2x.y (direct differences / explicit features): no cancellation term
NO_SQDIST = (K.PeriodicKernel, K.RFFKernel, K.SpectralDeltaKernel, K.SpectralMixtureKernel)


def entry_rounding(kern, pts):
    """Relative (to the matrix scale) bound on the float64 error of one kernel entry caused by kernels.kernel.sq_dist, which
    evaluates r^2 = |x|^2 + |y|^2 - 2 x.y on inputs divided by the lengthscale and centred on their mean:
        eps_sq = (d+2) * eps64 * 2 * max_i |x_i - mean|^2 / lengthscale^2         (cancellation; d+2 accumulated terms)
    kernels that are functions of r^2 (RBF, RQ, ...; |dk/dr^2| <= 1):  eps_sq
    kernels that take r = sqrt(r^2) (Matern, PiecewisePolynomial, Cosine, Arc, Cylindrical; Lipschitz constant L in r):
        L * r_err,  r_err = sqrt(eps_sq) if some pair of rows is closer than sqrt(eps_sq) (duplicates included)
                            else eps_sq / (2 r_min)        (r_min = smallest scaled distance, from direct differences)
    summed over the distance-based sub-kernels of `kern`.  Returns (bound, details)."""
    pts = pts.reshape(-1, pts.shape[-1])
    xc = pts - pts.mean(0, keepdim=True)
    d = pts.shape[-1]
    total, det = 0.0, []
    for m in kern.modules():
        if not isinstance(m, K.Kernel) or isinstance(m, NO_SQDIST):
            continue
        if isinstance(m, K.CosineKernel):
            ell = m.period_length.min().item()
        elif getattr(m, "has_lengthscale", False) and m.lengthscale is not None:
            ell = m.lengthscale.min().item()
        else:
            continue
        R2 = (xc / ell).pow(2).sum(-1).max().item()
        eps_sq = (d + 2) * EPS64 * 2.0 * R2
        L = next((l for cls, l in SQRT_MODS if isinstance(m, cls)), None)
        if L is None:
            total += eps_sq
            det.append(dict(mod=type(m).__name__, ell=ell, eps_sq=eps_sq))
            continue
        r = torch.cdist(pts / ell, pts / ell)
        n = r.shape[0]
        r_min = (r + torch.eye(n) * 1e300).min().item() if n > 1 else 1e300
        r_err = math.sqrt(eps_sq) if r_min <= math.sqrt(eps_sq) else eps_sq / (2.0 * r_min)
        total += L * r_err
        det.append(dict(mod=type(m).__name__, ell=ell, eps_sq=eps_sq, r_min=r_min, r_err=r_err, L=L))
    return total, det


def check_matrix(out, key, what, desc, A, jobs, owner, tol=EIG_TOL, cert=True, ref=None, symtol=SYM_TOL, rb=0.0):
    """float checks now; queue the exact certificate.  A: square float64 tensor.  `ref` = magnitude of the quantities A
    was computed from (a posterior is prior - explained: its rounding error is relative to the PRIOR's size).
    `rb` = absolute bound on the rounding error of one entry of A (entry_rounding * scale * amplification), so
    symmetry threshold = max(symtol*scale, KB*rb), eigenvalue threshold = max(tol*scale, KB*n*rb)."""
    n = A.shape[-1]
    if not torch.isfinite(A).all():
        out.fail(key + ":nonfinite", what + ": non-finite entries", desc, impl=A.tolist())
        return False
    sc = max(scale_of(A), ref or 0.0)
    symthr = max(symtol * sc, KB * rb)
    eigthr = max(tol * sc, KB * n * rb)
    if eigthr > tol * sc:
        out.count("threshold widened by the sq_dist rounding bound")
    asym = (A - A.T).abs().max().item()
    if asym > symthr:
        out.fail(key + ":asymmetric", "%s is not symmetric: max|A-A^T| = %.3e > %.3e (scale %.3e, entry rounding bound %.3e)"
                 % (what, asym, symthr, sc, rb), desc, impl=A.tolist())
        return False
    As = (A + A.T) / 2
    ev = torch.linalg.eigvalsh(As)
    lmin = ev.min().item()
    if lmin < -eigthr:
        out.fail(key + ":eig", "%s is not PSD: smallest eigenvalue %.6e < -%.3e (scale %.3e, entry rounding bound %.3e)"
                 % (what, lmin, eigthr, sc, rb), desc, impl=A.tolist(), model="eigenvalues " + repr(ev.tolist()))
        return False
    if cert and n <= CERT_MAX:
        # float oracle: lambda_min >= -eigthr; exact certificate: round(A) + CERT_SLACK*eigthr*I is PSD.  The slack makes
        # the certificate succeed on every matrix that passes the float oracle (hint = chol(A + (1+slack)/2 * eigthr))
        jobs.append(psd_job(As, CERT_SLACK * eigthr, sc, eigthr)); owner.append(("psd", key, what, desc, A.tolist(), CERT_SLACK * eigthr / sc))
    return True


def _round_grid(x, g):
    return Fraction(round(C.frac(x) / g)) * g


def psd_job(As, shift, sc, base):
    """JPsd on the symmetrised matrix rounded to sc*2^-GRID_BITS, shifted by `shift` (exact value of the float); the
    certificate hint is the float64 Cholesky factor of As + (shift+base)/2 (base = the float oracle's tolerance < shift),
    rounded to sqrt(sc)*2^-40"""
    n = As.shape[-1]
    g = Fraction(2) ** (math.frexp(sc)[1] - GRID_BITS)
    rows = [[None] * n for _ in range(n)]
    for i in range(n):
        for j in range(i + 1):
            rows[i][j] = rows[j][i] = _round_grid(As[i, j].item(), g)
    try:
        L = torch.linalg.cholesky(As + 0.5 * (shift + base) * torch.eye(n))
    except Exception:
        L = torch.zeros(n, n)
    gl = Fraction(2) ** (math.frexp(math.sqrt(sc))[1] - 40)
    lf = [[_round_grid(L[i, j].item(), gl) if j <= i else Fraction(0) for j in range(n)] for i in range(n)]
    return "(JPsd %d%%nat %s %s %s)" % (n, C.qc_mat(rows), C.qc_lit(shift), C.qc_mat(lf))


# --------------------------------------------------------------------------- part A: Gram matrices

def gram_cases(rng, tier):
    cases = []
    reps = 1 if tier == "quick" else 6
    for fam, info in FAMILIES.items():
        for geom in GEOMS:
            modes = ["mid"] if info.get("nols") else ["mid", "tiny", "huge"]
            for mode in modes:
                for _ in range(reps):
                    spec = gen_spec(rng, fam, mode)
                    nmax = 12 if not info.get("multi") else 4
                    n = rng.choice([2, 3, 4, 5, rng.randint(6, nmax) if nmax > 6 else rng.randint(2, nmax)])
                    if info.get("multi"):
                        n = rng.randint(2, 3)
                    cases.append(dict(kind="gram", spec=spec, n=n, geom=geom, pseed=rng.randint(0, 10 ** 9)))
    return cases


def gram_matrix(case):
    spec = case["spec"]
    kern = build_kernel(spec)
    X = T(gen_points(random.Random(case["pseed"]), spec, case["n"], case["geom"]))
    kern.eval()
    with torch.no_grad():
        Kd = kern(X).to_dense()
        gram_matrix.last_rounding = entry_rounding(kern, X)
        try:
            diag = kern(X, diag=True)
            diag = diag if isinstance(diag, torch.Tensor) else diag.to_dense()
        except Exception:       # the diag=True call form is C06's subject; here it is only a second view of the variances
            diag = None
    return X, Kd, diag


def run_gram(out, case, jobs, owner):
    spec = case["spec"]
    key = "gram:%s:%s:%s" % (spec["fam"], case["geom"], spec["lsmode"])
    desc = dict(case)
    try:
        X, Kd, diag = gram_matrix(case)
    except Exception as e:
        out.fail("gram-exception:%s:%s" % (spec["fam"], type(e).__name__), "kernel evaluation raised %r" % e, desc)
        return
    nt = Kd.shape[-1] >= 2 and (Kd - torch.diag(torch.diagonal(Kd))).abs().max().item() > 0
    rel, det = gram_matrix.last_rounding
    rb = rel * scale_of(Kd)
    desc["rounding"] = dict(entry_bound=rb, parts=det)
    out.case(dict(kind="gram", fam=spec["fam"], geom=case["geom"], ls=spec["lsmode"], n=case["n"], d=spec["d"], pseed=case["pseed"],
                  entry_rounding_bound=rb), nt, label="gram:" + spec["fam"])
    out.count("geom=" + case["geom"]); out.count("ls=" + spec["lsmode"]); out.count("size=%d" % Kd.shape[-1])
    ok = check_matrix(out, key, "Gram matrix K(x,x) of %s" % spec["fam"], desc, Kd, jobs, owner, rb=rb)
    if ok:
        # the diag=True shortcut must report the same non-negative variances
        sc = scale_of(Kd)
        dd = diag.reshape(-1) if diag is not None else torch.zeros(0)
        if diag is None:
            out.count("gram: diag=True call form unavailable")
        if dd.shape[0] == Kd.shape[-1]:
            if (dd < -EIG_TOL * sc).any() or (dd - torch.diagonal(Kd)).abs().max().item() > max(1e-8 * sc, KB * rb):
                out.fail(key + ":diag", "kernel(x, diag=True) is negative or differs from the diagonal of K(x,x)", desc,
                         impl=dd.tolist(), model=torch.diagonal(Kd).tolist())


# --------------------------------------------------------------------------- part B: exact GP posteriors

class GP(gpytorch.models.ExactGP):
    def __init__(self, x, y, lik, kern, mean=None):
        super().__init__(x, y, lik)
        self.mean_module, self.covar_module = mean or gpytorch.means.ConstantMean(), kern

    def forward(self, x):
        return gpytorch.distributions.MultivariateNormal(self.mean_module(x), self.covar_module(x))


POST_FAMS = ["rbf", "matern05", "matern15", "matern25", "rq", "periodic", "linear", "poly2", "scale_rbf", "rbf+linear",
             "rbf*periodic", "rbf_ard", "pp1", "sm", "rff", "cosine"]
POST_GEOMS = ["random", "dup", "near", "collinear", "cluster", "grid"]


def post_cases(rng, tier):
    cases = []
    reps = 1 if tier == "quick" else 5
    for fam in POST_FAMS:
        for geom in POST_GEOMS:
            for _ in range(reps):
                mode = rng.choice(["mid", "mid", "tiny", "huge"]) if not FAMILIES[fam].get("nols") else "mid"
                spec = gen_spec(rng, fam, mode)
                n = rng.randint(2, 5 if tier == "quick" else 8)
                t = rng.randint(1, 4)
                cases.append(dict(kind="post", spec=spec, n=n, t=t, geom=geom, pseed=rng.randint(0, 10 ** 9),
                                  noise=rng.choice([1e-4, 1e-2, 0.3]), lik=rng.choice(["gaussian", "gaussian", "fixed"]),
                                  test=rng.choice(["fresh", "on-train", "mixed"])))
    return cases


def post_setup(case):
    spec = case["spec"]
    prng = random.Random(case["pseed"])
    n, t = case["n"], case["t"]
    pts = gen_points(prng, spec, n + t, case["geom"])
    prng.shuffle(pts)
    X, Xs = pts[:n], pts[n:]
    if case["test"] == "on-train":
        Xs = [list(X[i % n]) for i in range(t)]
    elif case["test"] == "mixed":
        Xs = [list(X[i % n]) if i % 2 == 0 else Xs[i] for i in range(t)]
    y = [prng.uniform(-2, 2) for _ in range(n)]
    return T(X), T(y), T(Xs)


def train_noise(case, n):
    if case["lik"] == "gaussian":
        return T([case["noise"]] * n)
    nr = random.Random(case["pseed"] + 17)
    return T([case["noise"] * nr.choice([1.0, 3.0, 10.0]) for _ in range(n)])


def amplification(kern, X, Xs, noise):
    """how an entry error delta of the kernel matrices shows up in K** - K*x A^-1 Kx*:
    |d entry| <= (1 + |w_i|_1)(1 + |w_j|_1) delta  with  w_j = A^-1 K_x*[:, j]  (first-order perturbation of the quadratic form);
    computed from the implementation's own float matrices, maximum over the prefixes used by the monotonicity check"""
    amp = 1.0
    with torch.no_grad():
        for k in range(1, X.shape[0] + 1):
            A = kern(X[:k]).to_dense() + torch.diag(noise[:k])
            W = torch.linalg.solve(A, kern(X[:k], Xs).to_dense())
            amp = max(amp, (1.0 + W.abs().sum(0).max().item()) ** 2)
    return amp


def make_gp(case, X, y, k=None):
    """exact GP on the first k training points (same hyper-parameters for every k)"""
    k = len(X) if k is None else k
    kern = build_kernel(case["spec"])
    if case["lik"] == "gaussian":
        lik = gpytorch.likelihoods.GaussianLikelihood(); lik.noise = case["noise"]
    else:
        lik = gpytorch.likelihoods.FixedNoiseGaussianLikelihood(train_noise(case, len(X))[:k])
    m = GP(X[:k], y[:k], lik, kern)
    m.eval(); lik.eval()
    return m, lik


class _multi:
    def __init__(self, *cms):
        self.cms = cms

    def __enter__(self):
        for c in self.cms:
            c.__enter__()

    def __exit__(self, *a):
        for c in reversed(self.cms):
            c.__exit__(*a)
        return False


def flag_cm(flag):
    if flag == "eager":
        return _multi(gs.lazily_evaluate_kernels(False))
    if flag == "noeager":           # joint covariance stays a LinearOperator (as for > max_eager_kernel_size points)
        return _multi(gs.max_eager_kernel_size(1))
    if flag == "fast_pred_var":
        return _multi(gs.fast_pred_var(True), gs.max_root_decomposition_size(100))
    if flag == "fast_pred_var+noeager":
        return _multi(gs.fast_pred_var(True), gs.max_root_decomposition_size(100), gs.max_eager_kernel_size(1))
    if flag == "cg":
        return _multi(gs.max_cholesky_size(0), gs.cg_tolerance(1e-12), gs.eval_cg_tolerance(1e-12), gs.max_cg_iterations(2000),
                      gs.min_preconditioning_size(10 ** 6))
    return _multi()


def external_frame(e):
    """name of the raising function if the innermost Python frame of the traceback is inside linear_operator"""
    import traceback
    tb = traceback.extract_tb(e.__traceback__)
    if tb and "/linear_operator/" in tb[-1].filename:
        return tb[-1].name
    return None


def run_post(out, case, jobs, owner, rng):
    spec = case["spec"]
    X, y, Xs = post_setup(case)
    n, t = case["n"], case["t"]
    base = dict(case)
    with torch.no_grad():
        kern = build_kernel(spec)
        Kss = kern(Xs).to_dense()
        A = kern(X).to_dense() + case["noise"] * torch.eye(n)
    sc = max(scale_of(Kss), 1e-300)
    cond = torch.linalg.cond(A).item()
    # input-dependent rounding bound of one posterior-covariance entry (sq_dist cancellation, amplified by the solve)
    rel, det = entry_rounding(kern, torch.cat([X, Xs]))
    amp = amplification(kern, X, Xs, train_noise(case, n))
    rb = rel * sc * amp
    base["rounding"] = dict(entry_bound=rb, kernel_entry_bound=rel * sc, amplification=amp, parts=det)
    flags = ["default", "eager", "noeager"]
    if cond < 300.0:
        flags += ["fast_pred_var", "fast_pred_var+noeager", "cg"]
    else:
        out.count("post: iterative paths skipped (cond(Kxx+S) >= 300)")
    for flag in flags:
        iterative = flag in ("fast_pred_var", "fast_pred_var+noeager", "cg")
        # iterative solves are accurate to ITER_TOL RELATIVE to the solve they perform; the posterior amplifies that by the
        # same factor (1 + |A^-1 k|_1)^2 that amplifies entry rounding (amp, recorded in the case)
        iter_tol = ITER_TOL * max(1.0, amp)
        tol = iter_tol if iterative else EIG_TOL
        desc = dict(base, flag=flag)
        key = "post:%s:%s:%s" % (spec["fam"], case["geom"], flag)
        out.case(dict(kind="post", fam=spec["fam"], geom=case["geom"], ls=spec["lsmode"], n=n, t=t, noise=case["noise"], lik=case["lik"],
                      test=case["test"], flag=flag, pseed=case["pseed"], entry_rounding_bound=rb), n >= 2, label="post:" + flag)
        out.count("post-fam=" + spec["fam"])
        try:
            with torch.no_grad(), warnings.catch_warnings(), flag_cm(flag):
                warnings.simplefilter("ignore")
                model, lik = make_gp(case, X, y)
                post = model(Xs)
                cov = post.covariance_matrix
                var = post.variance
                sd = post.stddev
                if case["lik"] == "gaussian":
                    marg = lik(post)
                    lb = 1e-4
                else:
                    tn = T([case["noise"]] * t)
                    marg = lik(post, noise=tn)
                    lb = case["noise"]
                mcov = marg.covariance_matrix
                mvar = marg.variance
        except Exception as e:
            ext = external_frame(e)
            if ext and iterative:
                # raised inside the installed linear_operator under a non-default solver setting: located outside /repo
                out.fail("external:linear_operator:%s:%s:%s" % (ext, type(e).__name__, flag),
                         "installed linear_operator raised %r in %s under the %s settings (kernel %s)" % (e, ext, flag, spec["fam"]), desc)
            else:
                out.fail("post-exception:%s:%s:%s" % (spec["fam"], flag, type(e).__name__), "posterior computation raised %r" % e, desc)
            continue
        cert = flag in ("default",)
        st = iter_tol if iterative else SYM_TOL
        check_matrix(out, key + ":cov", "exact posterior covariance", desc, cov, jobs, owner, tol, cert, ref=sc, symtol=st, rb=rb)
        check_matrix(out, key + ":prior-minus-post", "prior minus posterior covariance", desc, Kss - cov, jobs, owner, tol, cert,
                     ref=sc, symtol=st, rb=rb)
        check_matrix(out, key + ":marginal", "likelihood(posterior) covariance", desc, mcov, jobs, owner, tol, cert, ref=sc, symtol=st,
                     rb=rb)
        mv = gs.min_variance.value(var.dtype)
        if (var < mv).any() or not torch.isfinite(sd).all() or (sd < 0).any():
            out.fail(key + ":variance-floor", "posterior variance below settings.min_variance or stddev not a non-negative real",
                     desc, impl=dict(var=var.tolist(), stddev=sd.tolist()), model=mv)
        if (var > torch.diagonal(Kss) + max(tol * sc, KB * rb) + mv).any():
            out.fail(key + ":variance-gt-prior", "posterior variance exceeds the prior variance", desc, impl=var.tolist(),
                     model=torch.diagonal(Kss).tolist())
        if (mvar - var < lb - 1e-9 * max(sc, 1.0)).any():
            out.fail(key + ":noise-floor", "the likelihood added less than its noise lower bound %g to the variance" % lb, desc,
                     impl=(mvar - var).tolist(), model=lb)
    # batched inputs (two replicas, the second shifted): the non-2D branch of exact_predictive_covar
    desc = dict(base, flag="batch")
    key = "post:%s:%s:batch" % (spec["fam"], case["geom"])
    if FAMILIES[spec["fam"]].get("domain") is None:
        try:
            with torch.no_grad(), warnings.catch_warnings():
                warnings.simplefilter("ignore")
                Xb, yb, Xsb = torch.stack([X, X + 0.25]), torch.stack([y, -y]), torch.stack([Xs, Xs + 0.25])
                kern = build_kernel(spec)
                lik = gpytorch.likelihoods.GaussianLikelihood(); lik.noise = case["noise"]
                model = GP(Xb, yb, lik, kern); model.eval(); lik.eval()
                covb = model(Xsb).covariance_matrix
                Kb = build_kernel(spec)(Xsb).to_dense()
            out.case(dict(kind="post", fam=spec["fam"], geom=case["geom"], n=n, t=t, flag="batch", pseed=case["pseed"]), n >= 2,
                     label="post:batch")
            for b in range(2):
                scb = scale_of(Kb[b])
                rbb = rel * scb * amplification(kern, Xb[b], Xsb[b], T([case["noise"]] * n))
                check_matrix(out, key + ":cov", "batched exact posterior covariance (element %d)" % b, desc, covb[b], jobs, owner, ref=scb,
                             rb=rbb)
                check_matrix(out, key + ":prior-minus-post", "batched prior minus posterior covariance (element %d)" % b, desc,
                             Kb[b] - covb[b], jobs, owner, ref=scb, rb=rbb)
        except Exception as e:
            out.fail("post-exception:%s:batch:%s" % (spec["fam"], type(e).__name__), "batched posterior computation raised %r" % e, desc)
    # monotonicity: add the observations one at a time (fresh model per prefix, same hyper-parameters)
    desc = dict(base, flag="monotone")
    key = "post:%s:%s:%s:monotone" % (spec["fam"], case["geom"], spec["lsmode"])
    try:
        with torch.no_grad(), warnings.catch_warnings():
            warnings.simplefilter("ignore")
            prev = torch.diagonal(Kss).clone()
            trail = [prev.tolist()]
            for k in range(1, n + 1):
                model, lik = make_gp(case, X, y, k)
                cur = torch.diagonal(model(Xs).covariance_matrix).clone()
                trail.append(cur.tolist())
                if (cur > prev + max(MONO_TOL * sc, KB * rb)).any():
                    out.fail(key, "posterior variance increased when observation %d was added" % k, dict(desc, k=k), impl=trail)
                    break
                prev = cur
            out.case(dict(kind="monotone", fam=spec["fam"], geom=case["geom"], n=n, t=t, pseed=case["pseed"]), n >= 2, label="post:monotone")
    except Exception as e:
        out.fail("post-exception:%s:monotone:%s" % (spec["fam"], type(e).__name__), "posterior computation raised %r" % e, desc)


# --------------------------------------------------------------------------- part C: variational posteriors

class SVGP(gpytorch.models.ApproximateGP):
    def __init__(self, Z, strat, dist, kern, learn=False):
        m = Z.shape[-2]
        vd = {"chol": gpytorch.variational.CholeskyVariationalDistribution, "meanfield": gpytorch.variational.MeanFieldVariationalDistribution,
              "delta": gpytorch.variational.DeltaVariationalDistribution}[dist](m)
        if strat == "whitened":
            vs = gpytorch.variational.VariationalStrategy(self, Z, vd, learn_inducing_locations=learn)
        else:
            vs = gpytorch.variational.UnwhitenedVariationalStrategy(self, Z, vd, learn_inducing_locations=learn)
        super().__init__(vs)
        self.mean_module, self.covar_module = gpytorch.means.ConstantMean(), kern

    def forward(self, x):
        return gpytorch.distributions.MultivariateNormal(self.mean_module(x), self.covar_module(x))


VAR_FAMS = ["rbf", "matern15", "matern25", "rq", "scale_rbf", "rbf+linear", "periodic", "linear"]
VAR_GEOMS = ["random", "dup", "near", "cluster", "grid"]


def var_cases(rng, tier):
    cases = []
    reps = 1 if tier == "quick" else 4
    for fam in VAR_FAMS:
        for geom in VAR_GEOMS:
            for strat in ("whitened", "unwhitened"):
                for _ in range(reps):
                    spec = gen_spec(rng, fam, "mid")
                    cases.append(dict(kind="var", spec=spec, m=rng.randint(1, 4), t=rng.randint(2, 5), geom=geom, strat=strat,
                                      dist=rng.choice(["chol", "meanfield", "delta"]), pseed=rng.randint(0, 10 ** 9),
                                      zmode=rng.choice(["separate", "subset"]), mode=rng.choice(["eval", "eval", "train"])))
    return cases


def run_var(out, case, jobs, owner):
    spec = case["spec"]
    prng = random.Random(case["pseed"])
    m, t = case["m"], case["t"]
    Xs = gen_points(prng, spec, t, case["geom"])
    if case["zmode"] == "subset":
        # (UnwhitenedVariationalStrategy refuses x == Z for a Delta distribution by design: keep Z a strict subset there)
        mm = min(m, t - 1) if (case["strat"] == "unwhitened" and case["dist"] == "delta") else min(m, t)
        Z = [list(Xs[i % t]) for i in range(mm)]
        # distinct rows only: duplicated inducing points make K_zz singular, which the strategies do not claim to support
        Z = [z for i, z in enumerate(Z) if all(max(abs(a - b) for a, b in zip(z, w)) > 1e-6 for w in Z[:i])]
    else:
        Z = gen_points(prng, spec, m, "random")
    m = len(Z)
    desc = dict(case)
    key = "var:%s:%s:%s:%s" % (case["strat"], case["dist"], spec["fam"], case["geom"])
    out.case(dict(kind="var", fam=spec["fam"], geom=case["geom"], strat=case["strat"], dist=case["dist"], m=m, t=t, zmode=case["zmode"],
                  mode=case["mode"], pseed=case["pseed"]), True, label="var:" + case["strat"] + ":" + case["dist"])
    try:
        with torch.no_grad(), warnings.catch_warnings():
            warnings.simplefilter("ignore")
            kern = build_kernel(spec)
            model = SVGP(T(Z), case["strat"], case["dist"], kern)
            vd = model.variational_strategy._variational_distribution
            vd.variational_mean.data = T([prng.uniform(-1, 1) for _ in range(m)])
            snorm = 0.0
            if case["dist"] == "chol":
                L = torch.tril(T([[prng.uniform(-1, 1) for _ in range(m)] for _ in range(m)]))
                L = L - torch.diag(torch.diagonal(L)) + torch.diag(T([prng.choice([1e-3, prng.uniform(0.2, 1.5)]) for _ in range(m)]))
                vd.chol_variational_covar.data = L
                snorm = (L @ L.T).abs().sum(0).max().item()
            elif case["dist"] == "meanfield":
                vd._variational_stddev.data = T([prng.choice([1e-3, prng.uniform(0.2, 1.5)]) for _ in range(m)])
                snorm = vd._variational_stddev.data.pow(2).max().item()
            lik = gpytorch.likelihoods.GaussianLikelihood(); lik.noise = prng.choice([1e-4, 1e-2, 0.3])
            if case["mode"] == "eval":
                model.eval(); lik.eval()
            else:
                model.train(); lik.train()
            qf = model(T(Xs))
            cov = qf.covariance_matrix; var = qf.variance; sd = qf.stddev
            marg = lik(qf)
            mcov = marg.covariance_matrix; mvar = marg.variance
    except Exception as e:
        out.fail("var-exception:%s:%s:%s:%s" % (case["strat"], case["dist"], spec["fam"], type(e).__name__),
                 "variational posterior raised %r" % e, desc)
        return
    with torch.no_grad():
        k0 = build_kernel(spec)
        sc = max(scale_of(cov), scale_of(k0(T(Xs)).to_dense()))
        # rounding bound of one entry of K** + A^T (S - I) A: kernel-entry bound, amplified by the interpolation weights
        # w = (K_zz + jitter)^-1 K_zx and by |S| cond(K_zz + jitter) (perturbation of w inside w^T S' w)
        rel, det = entry_rounding(k0, torch.cat([T(Z), T(Xs)]))
        Kzz = k0(T(Z)).to_dense() + 1e-6 * torch.eye(m)
        Kzzi = torch.linalg.inv(Kzz)
        W = Kzzi @ k0(T(Z), T(Xs)).to_dense()
        amp = (1.0 + W.abs().sum(0).max().item()) ** 2 * (1.0 + snorm * Kzz.abs().sum(0).max().item() * Kzzi.abs().sum(0).max().item())
        rb = rel * sc * amp
    desc["rounding"] = dict(entry_bound=rb, kernel_entry_bound=rel * sc, amplification=amp, parts=det)
    check_matrix(out, key + ":cov", "variational predictive covariance q(f)", desc, cov, jobs, owner, ref=sc, rb=rb)
    check_matrix(out, key + ":marginal", "likelihood(q(f)) covariance", desc, mcov, jobs, owner, ref=sc, rb=rb)
    mv = gs.min_variance.value(var.dtype)
    if (var < mv).any() or not torch.isfinite(sd).all() or (sd < 0).any():
        out.fail(key + ":variance-floor", "variational variance below settings.min_variance or stddev not a non-negative real", desc,
                 impl=dict(var=var.tolist(), stddev=sd.tolist()), model=mv)
    if (mvar - var < 1e-4 - 1e-9 * max(sc, 1.0)).any():
        out.fail(key + ":noise-floor", "the likelihood added less than its noise lower bound 1e-4 to the variance", desc,
                 impl=(mvar - var).tolist(), model=1e-4)


# --------------------------------------------------------------------------- part F: non-default policies, state changes
# "Every covariance handed out" includes the ones handed out under observation_nan_policy('mask' / 'fill'), by fantasy
# models, and after state-changing operations (set_train_data, load_state_dict, train/eval) on a model that has already
# made predictions.  The oracles are the ones of part B (symmetric PSD, prior - posterior PSD, variance floor, posterior
# variance <= prior variance, exact certificate on the default path) plus monotonicity in the data: a posterior that has
# seen MORE observations (the same data without the holes; the fantasy model vs its source) has the smaller covariance.

class MTGP(gpytorch.models.ExactGP):
    def __init__(self, x, y, lik, kern, consts):
        super().__init__(x, y, lik)
        self.mean_module = gpytorch.means.MultitaskMean(gpytorch.means.ConstantMean(), num_tasks=2)
        for m, c in zip(self.mean_module.base_means, consts):
            m.constant.data.fill_(c)
        self.covar_module = kern

    def forward(self, x):
        return gpytorch.distributions.MultitaskMultivariateNormal(self.mean_module(x), self.covar_module(x))


STATE_FAMS = ["rbf", "matern15", "matern25", "rq", "scale_rbf", "rbf+linear", "periodic", "rbf_ard", "pp1", "poly2"]
STATE_GEOMS = ["random", "dup", "near", "cluster", "grid"]
NAN_FORMS = ["single", "fixed", "batch", "multitask"]


def _mt_spec(rng):
    return gen_spec(rng, "multitask", "mid")


def _separated(prng, spec, k, geom):
    return gen_points(prng, spec, k, geom)


def psd_suite(out, key, desc, cov, Kss, var, sd, jobs, owner, tol, cert, sc, rb, st, what):
    """the part-B oracles on one covariance handed out"""
    ok = check_matrix(out, key + ":cov", what, desc, cov, jobs, owner, tol, cert, ref=sc, symtol=st, rb=rb)
    ok = check_matrix(out, key + ":prior-minus-post", "prior minus " + what, desc, Kss - cov, jobs, owner, tol, cert, ref=sc,
                      symtol=st, rb=rb) and ok
    mv = gs.min_variance.value(var.dtype)
    var, sd = var.reshape(-1), sd.reshape(-1)
    if (var < mv).any() or not torch.isfinite(sd).all() or (sd < 0).any():
        out.fail(key + ":variance-floor", "%s: variance below settings.min_variance or stddev not a non-negative real" % what,
                 desc, impl=dict(var=var.tolist(), stddev=sd.tolist()), model=mv)
        ok = False
    if (var > torch.diagonal(Kss) + max(tol * sc, KB * rb) + mv).any():
        out.fail(key + ":variance-gt-prior", "%s: variance exceeds the prior variance" % what, desc, impl=var.tolist(),
                 model=torch.diagonal(Kss).tolist())
        ok = False
    return ok


def more_data_suite(out, key, desc, cov_less, cov_more, jobs, owner, tol, cert, sc, rb, st, what):
    """cov_less - cov_more PSD and no variance larger with more data (c07_more_data_less_variance / _variance_monotone)"""
    d = torch.diagonal(cov_more) - torch.diagonal(cov_less)
    if (d > max(max(MONO_TOL, tol) * sc, KB * rb)).any():
        out.fail(key + ":monotone", "%s: a posterior variance is LARGER with more observations" % what, desc,
                 impl=dict(fewer_observations=torch.diagonal(cov_less).tolist(), more_observations=torch.diagonal(cov_more).tolist()))
        return False
    return check_matrix(out, key + ":less-minus-more", "%s: covariance with fewer minus covariance with more observations" % what,
                        desc, cov_less - cov_more, jobs, owner, tol, cert, ref=sc, symtol=st, rb=rb)


# ---- F.a  observation_nan_policy posteriors

def nan_cases(rng, tier):
    cases = []
    reps = 1 if tier == "quick" else 4
    for form in NAN_FORMS:
        for pol in ("mask", "fill"):
            for geom in STATE_GEOMS:
                for fpv in (False, True):
                    for _ in range(reps):
                        fam = rng.choice(STATE_FAMS)
                        spec = _mt_spec(rng) if form == "multitask" else gen_spec(rng, fam, "mid")
                        n = rng.randint(2, 3) if form == "multitask" else rng.randint(2, 5)
                        t = rng.randint(1, 2) if form == "multitask" else rng.randint(1, 4)
                        cases.append(dict(kind="nanpost", spec=spec, form=form, policy=pol, n=n, t=t, geom=geom, fpv=fpv,
                                          pseed=rng.randint(0, 10 ** 9), noise=rng.choice([1e-3, 1e-2, 0.3]),
                                          test=rng.choice(["fresh", "on-missing", "mixed"])))
    return cases


def nan_setup(case):
    """inputs, targets with holes (at least one hole and one observation per batch element), per-row noise"""
    spec, form, n, t = case["spec"], case["form"], case["n"], case["t"]
    prng = random.Random(case["pseed"])
    B = 2 if form == "batch" else 1
    Tn = 2 if form == "multitask" else 1
    Xb, Xsb, yb, mb = [], [], [], []
    N = n * Tn
    keep = prng.randrange(N)      # observed in every batch element ('mask' drops a row for the whole batch)
    for b in range(B):
        pts = gen_points(prng, spec, n + t, case["geom"])
        prng.shuffle(pts)
        X, Xs = pts[:n], pts[n:]
        k = prng.randint(1, N - 1)
        miss = [False] * N
        for i in prng.sample([j for j in range(N) if j != keep], k):
            miss[i] = True
        mrows = [i // Tn for i in range(N) if miss[i]]
        if case["test"] == "on-missing":      # test points on the locations whose observation is missing
            Xs = [list(X[mrows[i % len(mrows)]]) for i in range(t)]
        elif case["test"] == "mixed":
            Xs = [list(X[mrows[i % len(mrows)]]) if i % 2 == 0 else Xs[i] for i in range(t)]
        y = [prng.uniform(-2, 2) for _ in range(N)]
        Xb.append(X); Xsb.append(Xs); yb.append(y); mb.append(miss)
    nr = random.Random(case["pseed"] + 17)
    noise = [case["noise"] * nr.choice([1.0, 3.0, 10.0]) for _ in range(n)]
    return Xb, Xsb, yb, mb, noise


def nan_model(case, X, y, noise):
    """X: (B x) n x d, y: (B x) n (x T) tensor (NaN = missing)"""
    form = case["form"]
    kern = build_kernel(case["spec"])
    if form == "multitask":
        lik = gpytorch.likelihoods.MultitaskGaussianLikelihood(num_tasks=2, rank=0)
        lik.noise = case["noise"]; lik.task_noises = T([case["noise"] * 2.0, case["noise"] * 0.5])
        m = MTGP(X, y, lik, kern, (0.3, -0.4))
    else:
        if form == "fixed":
            lik = gpytorch.likelihoods.FixedNoiseGaussianLikelihood(T(noise))
        else:
            lik = gpytorch.likelihoods.GaussianLikelihood(); lik.noise = case["noise"]
        m = GP(X, y, lik, kern)
    m.eval(); lik.eval()
    return m, lik


def run_nan(out, case, jobs, owner):
    spec, form, n, t = case["spec"], case["form"], case["n"], case["t"]
    Xb, Xsb, yb, mb, noise = nan_setup(case)
    B = len(Xb)
    Tn = 2 if form == "multitask" else 1
    desc = dict(case)
    key = "nanpost:%s:%s:%s" % (form, case["policy"], "fast_pred_var" if case["fpv"] else "default")
    out.case(dict(kind="nanpost", fam=spec["fam"], form=form, policy=case["policy"], geom=case["geom"], n=n, t=t, fpv=case["fpv"],
                  test=case["test"], missing=[sum(m) for m in mb], pseed=case["pseed"]), True, label="nanpost:%s:%s" % (form, case["policy"]))
    X, Xs = T(Xb), T(Xsb)
    y = T(yb)
    miss = torch.tensor(mb)
    if form == "multitask":
        y, miss = y.reshape(B, n, Tn), miss.reshape(B, n, Tn)
    if B == 1:
        X, Xs, y, miss = X[0], Xs[0], y[0], miss[0]
    yh = y.clone(); yh[miss] = float("nan")
    cms = [gs.observation_nan_policy(case["policy"])]
    if case["fpv"]:
        cms += [gs.fast_pred_var(True), gs.max_root_decomposition_size(100)]
    try:
        with torch.no_grad(), warnings.catch_warnings():
            warnings.simplefilter("ignore")
            with _multi(*cms):
                model, lik = nan_model(case, X, yh, noise)
                post = model(Xs)
                cov, var, sd = post.covariance_matrix, post.variance, post.stddev
            # the same data without the holes: MORE observations (default policy, dense path)
            full, _ = nan_model(case, X, y, noise)
            cov_full = full(Xs).covariance_matrix
            k0 = build_kernel(spec)
            Kss = k0(Xs).to_dense()
    except Exception as e:
        out.fail("nanpost-exception:%s:%s:%s" % (form, case["policy"], type(e).__name__),
                 "posterior under observation_nan_policy(%r) raised %r" % (case["policy"], e), desc)
        return
    for b in range(B):
        sel = (lambda a: a[b]) if B > 1 else (lambda a: a)
        Kb, cb, cfb = sel(Kss), sel(cov), sel(cov_full)
        sc = scale_of(Kb)
        with torch.no_grad():
            rel, det = entry_rounding(k0, torch.cat([sel(X), sel(Xs)]))
            # amplification of the solve on the observed rows (missing rows carry no weight)
            A = k0(sel(X)).to_dense()
            if form == "multitask":
                amp = 1.0
                Kx = k0(sel(X), sel(Xs)).to_dense()
                obs = ~sel(miss).reshape(-1)
                Ao = A[obs][:, obs] + case["noise"] * 0.5 * torch.eye(int(obs.sum()))
                amp = (1.0 + torch.linalg.solve(Ao, Kx[obs]).abs().sum(0).max().item()) ** 2
                Af = A + case["noise"] * 0.5 * torch.eye(A.shape[-1])
                amp = max(amp, (1.0 + torch.linalg.solve(Af, Kx).abs().sum(0).max().item()) ** 2)
            else:
                amp = amplification(k0, sel(X), sel(Xs), T(noise) if form == "fixed" else T([case["noise"]] * n))
                obs = ~sel(miss).reshape(-1)
                nz = (T(noise) if form == "fixed" else T([case["noise"]] * n))[obs]
                Ao = A[obs][:, obs] + torch.diag(nz)
                amp = max(amp, (1.0 + torch.linalg.solve(Ao, k0(sel(X)[obs], sel(Xs)).to_dense()).abs().sum(0).max().item()) ** 2)
        rb = rel * sc * amp
        d = dict(desc, batch_element=b, rounding=dict(entry_bound=rb, amplification=amp, parts=det))
        what = "posterior covariance under observation_nan_policy(%r) (%s%s)" % (case["policy"], form, ", element %d" % b if B > 1 else "")
        tol, st = EIG_TOL, SYM_TOL
        ok = psd_suite(out, key, d, cb, Kb, sel(var), sel(sd), jobs, owner, tol, True, sc, rb, st, what)
        if ok:
            more_data_suite(out, key, d, cb, cfb, jobs, owner, tol, True, sc, rb, st, what + " vs the same data without holes")


# ---- F.b  fantasy models

def fant_cases(rng, tier):
    cases = []
    reps = 1 if tier == "quick" else 4
    for lik in ("gaussian", "fixed", "fixed+learned"):
        for geom in STATE_GEOMS:
            for fpv in (False, True):
                for steps in (1, 2, 3):
                    for _ in range(reps):
                        spec = gen_spec(rng, rng.choice(STATE_FAMS), "mid")
                        cases.append(dict(kind="fantasy", spec=spec, lik=lik, geom=geom, fpv=fpv, steps=steps, n=rng.randint(1, 4),
                                          t=rng.randint(1, 4), ms=[rng.randint(1, 2) for _ in range(steps)],
                                          pseed=rng.randint(0, 10 ** 9), noise=rng.choice([1e-3, 1e-2, 0.3]),
                                          # fantasy noise relative to the training noise: heteroskedastic in both directions
                                          fnoise=[rng.choice([0.01, 1.0, 1.0, 30.0, 1000.0]) for _ in range(steps)],
                                          test=rng.choice(["fresh", "on-train", "mixed"])))
    return cases


def run_fant(out, case, jobs, owner):
    spec, n, t, steps = case["spec"], case["n"], case["t"], case["steps"]
    prng = random.Random(case["pseed"])
    tot = n + t + sum(case["ms"])
    pts = gen_points(prng, spec, tot, case["geom"])
    prng.shuffle(pts)
    X, Xs, rest = pts[:n], pts[n:n + t], pts[n + t:]
    if case["test"] == "on-train":
        Xs = [list(X[i % n]) for i in range(t)]
    elif case["test"] == "mixed":
        Xs = [list(X[i % n]) if i % 2 == 0 else Xs[i] for i in range(t)]
    y = [prng.uniform(-2, 2) for _ in range(n)]
    nr = random.Random(case["pseed"] + 17)
    noise = [case["noise"] * nr.choice([1.0, 3.0, 10.0]) for _ in range(n)]
    X, Xs, y = T(X), T(Xs), T(y)
    desc = dict(case)
    flag = "fast_pred_var" if case["fpv"] else "default"
    key = "fantasy:%s:%s" % (case["lik"], flag)
    iterative = case["fpv"]
    tol, st = (ITER_TOL, ITER_TOL) if iterative else (EIG_TOL, SYM_TOL)
    with torch.no_grad():
        k0 = build_kernel(spec)
        Kss = k0(Xs).to_dense()
        sc = scale_of(Kss)
        Xall = torch.cat([X, T(rest)]) if rest else X
        learned = 0.05 if case["lik"] == "fixed+learned" else 0.0
        nall, off = list(noise) if case["lik"] != "gaussian" else [case["noise"]] * n, 0
        for s, m in enumerate(case["ms"]):
            nall += [case["noise"] * case["fnoise"][s]] * m if case["lik"] != "gaussian" else [case["noise"]] * m
        nall_t = T(nall) + learned
        cond = torch.linalg.cond(k0(Xall).to_dense() + torch.diag(nall_t)).item()
        rel, det = entry_rounding(k0, torch.cat([Xall, Xs]))
        amp = amplification(k0, Xall, Xs, nall_t)
    if iterative and cond >= 300.0:
        out.count("fantasy: fast_pred_var history skipped (cond >= 300)")
        return
    rb = rel * sc * amp
    desc["rounding"] = dict(entry_bound=rb, amplification=amp, parts=det)
    out.case(dict(kind="fantasy", fam=spec["fam"], lik=case["lik"], geom=case["geom"], n=n, t=t, ms=case["ms"], fnoise=case["fnoise"],
                  fpv=case["fpv"], test=case["test"], pseed=case["pseed"]), True, label="fantasy:%s:%s" % (case["lik"], flag))
    cms = [gs.fast_pred_var(True), gs.max_root_decomposition_size(100)] if case["fpv"] else []
    try:
        with torch.no_grad(), warnings.catch_warnings(), _multi(*cms):
            warnings.simplefilter("ignore")
            kern = build_kernel(spec)
            if case["lik"] == "gaussian":
                lik = gpytorch.likelihoods.GaussianLikelihood(); lik.noise = case["noise"]
            else:
                lik = gpytorch.likelihoods.FixedNoiseGaussianLikelihood(T(noise), learn_additional_noise=(case["lik"] == "fixed+learned"))
                if case["lik"] == "fixed+learned":
                    lik.second_noise = learned
            cur = GP(X, y, lik, kern); cur.eval(); lik.eval()
            post = cur(Xs)
            covs = [(post.covariance_matrix, post.variance, post.stddev)]
            for s, m in enumerate(case["ms"]):
                Xf = T(rest[off:off + m]); off += m
                yf = T([prng.uniform(-2, 2) for _ in range(m)])
                kw = {} if case["lik"] == "gaussian" else dict(noise=T([case["noise"] * case["fnoise"][s]] * m))
                cur = cur.get_fantasy_model(Xf, yf, **kw)
                post = cur(Xs)
                covs.append((post.covariance_matrix, post.variance, post.stddev))
    except Exception as e:
        ext = external_frame(e)
        if ext and iterative:
            out.fail("external:linear_operator:%s:%s:fantasy:%s" % (ext, type(e).__name__, flag),
                     "installed linear_operator raised %r in %s on a fantasy model under fast_pred_var" % (e, ext), desc)
        else:
            out.fail("fantasy-exception:%s:%s:%s" % (case["lik"], flag, type(e).__name__), "fantasy model raised %r" % e, desc)
        return
    cert = not iterative
    for s, (cov, var, sd) in enumerate(covs):
        d = dict(desc, step=s)
        what = "posterior covariance of the %s" % ("source model" if s == 0 else "fantasy model after %d step(s)" % s)
        ok = psd_suite(out, key + (":source" if s == 0 else ":step"), d, cov, Kss, var, sd, jobs, owner, tol, cert, sc, rb, st, what)
        if ok and s > 0:
            more_data_suite(out, key, d, covs[s - 1][0], cov, jobs, owner, tol, cert, sc, rb, st,
                            "fantasy step %d vs the model it was made from" % s)


# ---- F.c  short histories of state-changing operations on one model

HIST_OPS = ["set_inputs", "set_targets", "set_both", "set_both_resized", "load_state_dict", "train_eval", "predict"]


def hist_cases(rng, tier):
    cases = []
    reps = 1 if tier == "quick" else 4
    for lik in ("gaussian", "fixed"):
        for geom in STATE_GEOMS:
            for first in HIST_OPS[:-1]:
                for _ in range(reps):
                    spec = gen_spec(rng, rng.choice(STATE_FAMS), "mid")
                    ops = [first] + [rng.choice(HIST_OPS) for _ in range(rng.randint(0, 2))]
                    if lik == "fixed":      # the stored noise vector has one entry per training row
                        ops = [o if o != "set_both_resized" else "set_both" for o in ops]
                    cases.append(dict(kind="history", spec=spec, lik=lik, geom=geom, ops=ops, n=rng.randint(2, 5), t=rng.randint(1, 4),
                                      pseed=rng.randint(0, 10 ** 9), noise=rng.choice([1e-3, 1e-2, 0.3]),
                                      flag=rng.choice(["default", "default", "eager", "fast_pred_var"])))
    return cases


def run_hist(out, case, jobs, owner):
    spec, n, t = case["spec"], case["n"], case["t"]
    prng = random.Random(case["pseed"])
    desc = dict(case)
    flag = case["flag"]
    iterative = flag == "fast_pred_var"
    tol, st = (ITER_TOL, ITER_TOL) if iterative else (EIG_TOL, SYM_TOL)
    out.case(dict(kind="history", fam=spec["fam"], lik=case["lik"], geom=case["geom"], ops=case["ops"], n=n, t=t, flag=flag,
                  pseed=case["pseed"]), True, label="history:" + case["ops"][0])
    for o in case["ops"]:
        out.count("history-op=" + o)

    def fresh_pts(k):
        p = gen_points(prng, spec, k, case["geom"]); prng.shuffle(p); return p
    pts = fresh_pts(n + t)
    X, Xs = T(pts[:n]), T(pts[n:])
    y = T([prng.uniform(-2, 2) for _ in range(n)])
    nr = random.Random(case["pseed"] + 17)
    noise = T([case["noise"] * nr.choice([1.0, 3.0, 10.0]) for _ in range(n)])
    cur_spec = spec
    step = -1
    try:
        with torch.no_grad(), warnings.catch_warnings(), flag_cm(flag):
            warnings.simplefilter("ignore")
            kern = build_kernel(spec)
            if case["lik"] == "gaussian":
                lik = gpytorch.likelihoods.GaussianLikelihood(); lik.noise = case["noise"]
            else:
                lik = gpytorch.likelihoods.FixedNoiseGaussianLikelihood(noise.clone())
            model = GP(X, y, lik, kern); model.eval(); lik.eval()
            outs = []
            for step, op in enumerate(["predict"] + case["ops"]):
                if op == "set_inputs":
                    X = T(fresh_pts(X.shape[0])); model.set_train_data(inputs=X)
                elif op == "set_targets":
                    y = T([prng.uniform(-2, 2) for _ in range(X.shape[0])]); model.set_train_data(targets=y)
                elif op == "set_both":
                    X = T(fresh_pts(X.shape[0])); y = T([prng.uniform(-2, 2) for _ in range(X.shape[0])])
                    model.set_train_data(inputs=X, targets=y)
                elif op == "set_both_resized":
                    k = prng.choice([v for v in range(1, 7) if v != X.shape[0]])
                    X = T(fresh_pts(k)); y = T([prng.uniform(-2, 2) for _ in range(k)])
                    model.set_train_data(inputs=X, targets=y, strict=False)
                elif op == "load_state_dict":
                    # the parameters of another model of the same family (other lengthscale / outputscale / ...; other noise)
                    cur_spec = dict(cur_spec, hseed=prng.randint(0, 10 ** 9))
                    donor_k = build_kernel(cur_spec)
                    if case["lik"] == "gaussian":
                        dl = gpytorch.likelihoods.GaussianLikelihood(); dl.noise = case["noise"] * prng.choice([0.5, 2.0, 5.0])
                    else:
                        dl = gpytorch.likelihoods.FixedNoiseGaussianLikelihood(noise.clone())
                    donor = GP(X, y, dl, donor_k)
                    model.load_state_dict(donor.state_dict())
                elif op == "train_eval":
                    model.train(); lik.train(); model.eval(); lik.eval()
                if op != "predict":
                    # the test points move as well: every prediction is a new call
                    Xs = T(fresh_pts(t))
                post = model(Xs)
                nz = model.likelihood.noise.detach().reshape(-1)
                nz = nz.expand(X.shape[0]).clone() if nz.numel() == 1 else nz.clone()
                outs.append(dict(step=step, op=op, X=X.clone(), Xs=Xs.clone(), cov=post.covariance_matrix, var=post.variance,
                                 sd=post.stddev, spec=cur_spec, noise=nz))
    except Exception as e:
        ext = external_frame(e)
        if ext and iterative:
            out.fail("external:linear_operator:%s:%s:history:%s" % (ext, type(e).__name__, flag),
                     "installed linear_operator raised %r in %s under the %s settings" % (e, ext, flag), desc)
        else:
            out.fail("history-exception:%s:%s:%s" % (case["ops"][min(max(step - 1, 0), len(case["ops"]) - 1)], flag, type(e).__name__),
                     "history %r raised %r at step %d" % (["predict"] + case["ops"], e, step), desc)
        return
    for o in outs:
        with torch.no_grad():
            k0 = build_kernel(o["spec"])
            Kss = k0(o["Xs"]).to_dense()
            sc = scale_of(Kss)
            rel, det = entry_rounding(k0, torch.cat([o["X"], o["Xs"]]))
            amp = amplification(k0, o["X"], o["Xs"], o["noise"])
            cond = torch.linalg.cond(k0(o["X"]).to_dense() + torch.diag(o["noise"])).item()
        if iterative and cond >= 300.0:
            out.count("history: fast_pred_var output not judged (cond >= 300)")
            continue
        rb = rel * sc * amp
        d = dict(desc, step=o["step"], op=o["op"], rounding=dict(entry_bound=rb, amplification=amp, parts=det))
        what = "posterior covariance after %s (step %d of predict, %s)" % (o["op"], o["step"], ", ".join(case["ops"]))
        psd_suite(out, "history:%s:%s" % (o["op"], flag), d, o["cov"], Kss, o["var"], o["sd"], jobs, owner, tol, not iterative, sc, rb, st,
                  what)


# ---- F.d  cached factors: eval -> predict -> train() -> hyper-parameters change -> eval -> predict
# Models whose kernels / strategies keep eval-mode caches (SGPR: K_ZZ and K_ZZ^{-1/2} of InducingPointKernel; KISS-GP:
# interpolation / covar caches; RFF features; variational strategies: Cholesky factor of K_ZZ; plain ExactGP: the
# prediction strategy).  After every cycle the covariance handed out must be a valid covariance FOR THE CURRENT
# hyper-parameters: the part-B oracles, and equality with the covariance of a FRESH model (never evaluated before) that
# received the final state through load_state_dict.  Changes are large (lengthscale x0.2 .. x5) so a stale cache shows.

CACHE_KINDS = ["exact", "sgpr", "kissgp", "rff", "svgp-whitened", "svgp-unwhitened"]
CACHE_OPS = ["setter", "initialize", "load_state_dict", "optimizer", "inducing"]
FRESH_TOL = 1e-6


def _cache_ops_for(kind):
    return [o for o in CACHE_OPS if o != "inducing" or kind in ("sgpr", "svgp-whitened", "svgp-unwhitened")]


def cache_cases(rng, tier):
    cases = []
    reps = 1 if tier == "quick" else 4
    for kind in CACHE_KINDS:
        for op in _cache_ops_for(kind):
            for geom in ("random", "grid"):
                for _ in range(reps):
                    ops = [op] + [rng.choice(_cache_ops_for(kind)) for _ in range(rng.randint(0, 1))]
                    cases.append(dict(kind="cache", model=kind, ops=ops, geom=geom, d=1 if kind == "kissgp" else rng.randint(1, 2),
                                      base=rng.choice(["rbf", "matern25"]), n=rng.randint(3, 6), t=rng.randint(2, 4), m=rng.randint(2, 4),
                                      grid=rng.randint(10, 16), rff=rng.randint(3, 6), pseed=rng.randint(0, 10 ** 9),
                                      hyp=dict(ls=rng.uniform(0.4, 1.5), os=rng.uniform(0.3, 3.0), noise=rng.choice([0.01, 0.05, 0.3])),
                                      factors=[dict(ls=rng.choice([0.2, 0.4, 2.5, 5.0]), os=rng.choice([0.25, 1.0, 4.0]),
                                                    noise=rng.choice([0.5, 1.0, 3.0])) for _ in ops],
                                      train_pass=rng.random() < 0.5, same_test=rng.random() < 0.5, lr=rng.choice([0.3, 1.0])))
    return cases


def cache_build(case, X, y, Z, hyp):
    kind = case["model"]
    mk = (lambda: K.RBFKernel()) if case["base"] == "rbf" else (lambda: K.MaternKernel(nu=2.5))
    lik = gpytorch.likelihoods.GaussianLikelihood()
    if kind.startswith("svgp"):
        model = SVGP(Z.clone(), kind.split("-")[1], "chol", K.ScaleKernel(mk()), learn=True)
        vr = random.Random(case["pseed"] + 3)
        m = Z.shape[0]
        vd = model.variational_strategy._variational_distribution
        vd.variational_mean.data = T([vr.uniform(-1, 1) for _ in range(m)])
        L = torch.tril(T([[vr.uniform(-0.5, 0.5) for _ in range(m)] for _ in range(m)]))
        vd.chol_variational_covar.data = L - torch.diag(torch.diagonal(L)) + torch.diag(T([vr.uniform(0.3, 1.2) for _ in range(m)]))
    else:
        if kind == "exact":
            kern = K.ScaleKernel(mk())
        elif kind == "sgpr":
            kern = K.InducingPointKernel(K.ScaleKernel(mk()), inducing_points=Z.clone(), likelihood=lik)
        elif kind == "kissgp":
            kern = K.ScaleKernel(K.GridInterpolationKernel(mk(), grid_size=case["grid"], num_dims=1, grid_bounds=[(-3.5, 3.5)]))
        else:
            torch.manual_seed(case["pseed"] % (2 ** 31))
            kern = K.ScaleKernel(K.RFFKernel(num_samples=case["rff"], num_dims=case["d"]))
        model = GP(X, y, lik, kern)
    for _, mod in _cache_ls(model):
        mod.lengthscale = hyp["ls"]
    for _, mod in _cache_os(model):
        mod.outputscale = hyp["os"]
    lik.noise = hyp["noise"]
    return model, lik


def _cache_ls(model):
    return [(nm, m) for nm, m in model.named_modules() if isinstance(m, K.Kernel) and getattr(m, "has_lengthscale", False)]


def _cache_os(model):
    return [(nm, m) for nm, m in model.named_modules() if isinstance(m, K.ScaleKernel)]


def _cache_hyp(model, lik):
    return dict(ls=_cache_ls(model)[0][1].lengthscale.detach().mean().item(), os=_cache_os(model)[0][1].outputscale.detach().mean().item(),
                noise=lik.noise.detach().mean().item())


def _cache_Z(model):
    if hasattr(model, "variational_strategy"):
        return model.variational_strategy.inducing_points
    return getattr(model.covar_module, "inducing_points", None)


def cache_apply(case, op, f, model, lik, X, y, prng):
    """one hyper-parameter change, in train mode"""
    kind = case["model"]
    if op == "setter":
        for _, m in _cache_ls(model):
            m.lengthscale = m.lengthscale.detach() * f["ls"]
        for _, m in _cache_os(model):
            m.outputscale = m.outputscale.detach() * f["os"]
        lik.noise = lik.noise.detach() * f["noise"]
    elif op == "initialize":
        kw = {nm + ".lengthscale": (m.lengthscale.detach() * f["ls"]).clone() for nm, m in _cache_ls(model)}
        kw.update({nm + ".outputscale": (m.outputscale.detach() * f["os"]).clone() for nm, m in _cache_os(model)})
        model.initialize(**kw)
        lik.initialize(noise=(lik.noise.detach() * f["noise"]).clone())
    elif op == "load_state_dict":
        h = _cache_hyp(model, lik)
        Zc = _cache_Z(model)
        donor, dlik = cache_build(case, X, y, Zc.detach().clone() if Zc is not None else None,
                                  dict(ls=h["ls"] * f["ls"], os=h["os"] * f["os"], noise=h["noise"] * f["noise"]))
        model.load_state_dict(donor.state_dict())
        lik.load_state_dict(dlik.state_dict())
    elif op == "optimizer":
        params = {id(p): p for p in list(model.parameters()) + list(lik.parameters())}
        opt = torch.optim.Adam(list(params.values()), lr=case["lr"])
        if kind.startswith("svgp"):
            mll = gpytorch.mlls.VariationalELBO(lik, model, num_data=X.shape[0])
        else:
            mll = gpytorch.mlls.ExactMarginalLogLikelihood(lik, model)
        with torch.enable_grad():
            for _ in range(2):
                opt.zero_grad()
                loss = -mll(model(X), y)
                loss.backward()
                opt.step()
    elif op == "inducing":
        Zc = _cache_Z(model)
        newZ = Zc.detach() + T([[prng.choice([-1, 1]) * prng.uniform(0.3, 1.0) for _ in range(Zc.shape[-1])] for _ in range(Zc.shape[-2])])
        if kind == "kissgp":
            newZ = newZ.clamp(-3.2, 3.2)
        owner_mod = model.variational_strategy if hasattr(model, "variational_strategy") else model.covar_module
        owner_mod.initialize(inducing_points=newZ)


def run_cache(out, case, jobs, owner):
    kind, n, t, d = case["model"], case["n"], case["t"], case["d"]
    prng = random.Random(case["pseed"])
    spec = dict(fam="gridinterp" if kind == "kissgp" else "rbf", d=d, lsmode="mid", hseed=0)
    desc = dict(case)
    out.case(dict(kind="cache", model=kind, ops=case["ops"], geom=case["geom"], n=n, t=t, base=case["base"], pseed=case["pseed"]), True,
             label="cache:" + kind)
    for o in case["ops"]:
        out.count("cache-op=" + o)

    def pts(k, geom):
        p = gen_points(prng, spec, k, geom); prng.shuffle(p); return T(p)
    X, Xs = pts(n, case["geom"]), pts(t, "random")
    y = T([prng.uniform(-2, 2) for _ in range(n)])
    Z = pts(case["m"], "random")
    svgp = kind.startswith("svgp")

    def predict(model, lik, Xq):
        with torch.no_grad():
            post = model(Xq)
            return dict(cov=post.covariance_matrix.clone(), var=post.variance.clone(), sd=post.stddev.clone(),
                        mcov=lik(post).covariance_matrix.clone())
    step, op = 0, "predict"
    outs = []
    try:
        with warnings.catch_warnings():
            warnings.simplefilter("ignore")
            model, lik = cache_build(case, X, y, Z, case["hyp"])
            model.eval(); lik.eval()
            predict(model, lik, Xs)                      # fills every eval-mode cache with the initial hyper-parameters
            for step, (op, f) in enumerate(zip(case["ops"], case["factors"]), 1):
                model.train(); lik.train()
                cache_apply(case, op, f, model, lik, X, y, prng)
                if case["train_pass"]:                   # one training-mode evaluation, as a training loop would do
                    with torch.enable_grad():
                        mll = (gpytorch.mlls.VariationalELBO(lik, model, num_data=n) if svgp
                               else gpytorch.mlls.ExactMarginalLogLikelihood(lik, model))
                        (-mll(model(X), y)).backward()
                        for p in list(model.parameters()) + list(lik.parameters()):
                            p.grad = None
                model.eval(); lik.eval()
                if not case["same_test"]:
                    Xs = pts(t, "random")
                got = predict(model, lik, Xs)
                # the oracle: a model that has never been evaluated, holding the same state
                Zc = _cache_Z(model)
                fresh, flik = cache_build(case, X, y, Zc.detach().clone() if Zc is not None else None, case["hyp"])
                fresh.load_state_dict(model.state_dict()); flik.load_state_dict(lik.state_dict())
                fresh.eval(); flik.eval()
                want = predict(fresh, flik, Xs)
                with torch.no_grad():
                    # SGPR's predictive prior is the base kernel's K** (SGPRPredictionStrategy.exact_prediction)
                    Kss = (fresh.covar_module.base_kernel if kind == "sgpr" else fresh.covar_module)(Xs).to_dense()
                outs.append(dict(step=step, op=op, got=got, want=want, Kss=Kss, hyp=_cache_hyp(model, lik), Xs=Xs.tolist()))
    except Exception as e:
        out.fail("cache-exception:%s:%s:%s" % (kind, op, type(e).__name__), "history predict, %s raised %r at step %d (%s)"
                 % (", ".join(case["ops"]), e, step, op), desc)
        return
    for o in outs:
        got, want, Kss = o["got"], o["want"], o["Kss"]
        sc = max(scale_of(Kss), scale_of(want["cov"]))
        key = "cache:%s:%s" % (kind, o["op"])
        dd = dict(desc, step=o["step"], op=o["op"], hyp_now=o["hyp"], Xs=o["Xs"])
        what = "%s posterior covariance after eval, predict, train(), %s, eval (step %d of %s)" % (kind, o["op"], o["step"], ", ".join(case["ops"]))
        if svgp:       # q(f) may exceed the prior (S > I): PSD + variance floor only
            ok = check_matrix(out, key + ":cov", what, dd, got["cov"], jobs, owner, ref=sc)
            mv = gs.min_variance.value(got["var"].dtype)
            if (got["var"] < mv).any() or not torch.isfinite(got["sd"]).all():
                out.fail(key + ":variance-floor", what + ": variance below settings.min_variance", dd, impl=got["var"].tolist(), model=mv)
        else:
            ok = psd_suite(out, key, dd, got["cov"], Kss, got["var"], got["sd"], jobs, owner, EIG_TOL, True, sc, 0.0, SYM_TOL, what)
        check_matrix(out, key + ":marginal", "likelihood(" + what + ")", dd, got["mcov"], jobs, owner, ref=sc)
        for nm in ("cov", "mcov"):
            err = (got[nm] - want[nm]).abs().max().item()
            if not err <= FRESH_TOL * sc:
                out.fail(key + ":vs-fresh", "%s differs from the covariance of a fresh model with the same state by %.3e (scale %.3e): "
                         "a cache of the previous hyper-parameters survived" % (what, err, sc), dd, impl=got[nm].tolist(), model=want[nm].tolist())
                break


# --------------------------------------------------------------------------- part D: variance clamp

CLAMP_DIAGS = [
    [1.0, 0.5, 2.0], [1e-12, 0.5, 1e-11], [-1e-9, 0.3, 0.0], [0.0, 0.0], [1e-10, 1e-10 * (1 + 2 ** -40), 1e-10 * (1 - 2 ** -40)],
    [-1.0, 5e-7, 1e-6, 2e-6], [1e-300, 1e300], [3e-4, 1e-3, 2e-3],
]
CLAMP_MV = [None, 1e-6, 1e-3, 0.25, 1e-20]


def clamp_cases(rng, tier):
    cases = []
    for diag in CLAMP_DIAGS + [[rng.choice([-1, 1]) * 10.0 ** rng.uniform(-14, 1) for _ in range(rng.randint(1, 5))]
                               for _ in range(6 if tier == "quick" else 60)]:
        for mv in CLAMP_MV:
            for form in ("diagop", "denseop", "tensor", "batch"):
                cases.append(dict(kind="clamp", diag=diag, mv=mv, form=form))
    return cases


def clamp_impl(case):
    d = T(case["diag"])
    n = d.shape[0]
    from linear_operator.operators import DenseLinearOperator, DiagLinearOperator
    if case["form"] == "diagop":
        cov = DiagLinearOperator(d)
    elif case["form"] == "denseop":
        cov = DenseLinearOperator(torch.diag(d))
    elif case["form"] == "batch":
        cov = DiagLinearOperator(torch.stack([d, d]))
    else:
        cov = torch.diag(d.clamp_min(1e-30)) if (d <= 0).any() else torch.diag(d)   # torch MVN needs a PD tensor
    mean = torch.zeros(2, n) if case["form"] == "batch" else torch.zeros(n)
    cm = gs.min_variance(double_value=case["mv"]) if case["mv"] is not None else _multi()
    with warnings.catch_warnings(), cm:
        warnings.simplefilter("ignore")
        mvn = gpytorch.distributions.MultivariateNormal(mean, cov)
        var = mvn.variance
        sd = mvn.stddev
        mvv = gs.min_variance.value(torch.float64)
    if case["form"] == "batch":
        if not torch.equal(var[0], var[1]):
            raise AssertionError("batch elements differ")
        var, sd = var[0], sd[0]
    used = d.clamp_min(1e-30) if (case["form"] == "tensor" and (d <= 0).any()) else d
    return used.tolist(), var.tolist(), sd.tolist(), mvv


# --------------------------------------------------------------------------- part E: noise lower bounds

NOISE_LB = [1e-4, 1e-6, 1e-2, 0.5]
NOISE_RAW = [-800.0, -100.0, -40.0, -20.0, -5.0, -1.0, 0.0, 0.5413248546129181, 3.0, 19.5, 20.5, 50.0, 800.0]
FIXED_NOISES = [[1e-9, 0.0, 1e-5, 0.3], [1e-6, 1e-6 * (1 - 2 ** -30), 2e-6], [-1.0, 0.5], [1e-3, 5e-4, 2e-3]]
FIXED_MIN = [None, 1e-3, 1e-8]


def noise_cases(rng, tier):
    cases = []
    for lb in NOISE_LB:
        for raw in NOISE_RAW + [rng.uniform(-30, 30) for _ in range(3 if tier == "quick" else 30)]:
            for lik in ("gaussian", "gaussian-default", "multitask", "fixed+learned"):
                if lik == "gaussian-default" and lb != 1e-4:
                    continue
                cases.append(dict(kind="noise", lb=lb, raw=raw, lik=lik))
    for ns in FIXED_NOISES:
        for mn in FIXED_MIN:
            cases.append(dict(kind="fixednoise", noise=ns, mn=mn))
    return cases


def noise_impl(case):
    lb, raw = case["lb"], case["raw"]
    GT = gpytorch.constraints.GreaterThan
    L = gpytorch.likelihoods
    n = 3
    base = gpytorch.distributions.MultivariateNormal(torch.zeros(n), torch.eye(n) * 0.7 + 0.1)
    with torch.no_grad(), warnings.catch_warnings():
        warnings.simplefilter("ignore")
        if case["lik"] in ("gaussian", "gaussian-default"):
            lik = L.GaussianLikelihood() if case["lik"] == "gaussian-default" else L.GaussianLikelihood(noise_constraint=GT(lb))
            lik.raw_noise.data.fill_(raw)
            noise = lik.noise.reshape(-1)
            added = torch.diagonal(lik(base).covariance_matrix) - torch.diagonal(base.covariance_matrix)
        elif case["lik"] == "multitask":
            lik = L.MultitaskGaussianLikelihood(num_tasks=2, noise_constraint=GT(lb), has_task_noise=True, rank=0)
            lik.raw_noise.data.fill_(raw)
            lik.raw_task_noises.data.fill_(raw)
            noise = torch.cat([lik.noise.reshape(-1), lik.task_noises.reshape(-1)])
            mt = gpytorch.distributions.MultitaskMultivariateNormal(torch.zeros(n, 2), torch.eye(2 * n))
            added = torch.diagonal(lik(mt).covariance_matrix) - 1.0
            # multitask adds noise + task_noise; each is >= its bound (task noise default bound: 1e-4)
            added = added - lik.task_noises.reshape(-1).repeat(n)
        else:
            lik = L.FixedNoiseGaussianLikelihood(T([0.1] * n), learn_additional_noise=True, noise_constraint=GT(lb))
            lik.second_noise_covar.raw_noise.data.fill_(raw)
            noise = lik.second_noise.reshape(-1)
            added = torch.diagonal(lik(base).covariance_matrix) - torch.diagonal(base.covariance_matrix) - 0.1
    return noise.tolist(), added.tolist()


def fixed_impl(case):
    ns = T(case["noise"])
    cm = gs.min_fixed_noise(double_value=case["mn"]) if case["mn"] is not None else _multi()
    with torch.no_grad(), warnings.catch_warnings(), cm:
        warnings.simplefilter("ignore")
        lik = gpytorch.likelihoods.FixedNoiseGaussianLikelihood(ns.clone())
        mn = gs.min_fixed_noise.value(torch.float64)
        got = lik.noise.reshape(-1)
        n = len(case["noise"])
        base = gpytorch.distributions.MultivariateNormal(torch.zeros(n), torch.eye(n))
        lik.eval()
        added = torch.diagonal(lik(base).covariance_matrix) - 1.0
    return got.tolist(), added.tolist(), mn


# --------------------------------------------------------------------------- part G: noise floor of EVERY noise model
# "the noise a likelihood adds is at least its constraint's lower bound" for every noise model / likelihood class of
# gpytorch.likelihoods: HomoskedasticNoise (GaussianLikelihood, batch shape, GaussianLikelihoodWithMissingObs),
# MultitaskHomoskedasticNoise, FixedGaussianNoise (+ learned second noise), HeteroskedasticNoise without / with
# noise_indices over single- and multi-output noise models whose mean is negative somewhere, MultitaskGaussianLikelihood
# (rank 0 / rank > 0, global / task noise, interleaved or not), DirichletClassificationLikelihood.  Custom constraints
# (GreaterThan, Interval, Positive, default), raw values -30..30 (and +-800).  Per case, on the implementation:
#   (a) diag(likelihood(dist).covariance - dist.covariance) >= lb, = the value computed here from the raw numbers with
#       math.log1p / exp (softplus(raw)+lb, lo+(hi-lo)*sigmoid(raw)); the same for noise_covar(...) evaluated directly and
#       for the conditional variance of likelihood(f);  the added operator is diagonal (rank 0) / added - lb*I is PSD (rank>0)
#   (b) marginal variance >= latent variance + lb        (c) marginal covariance symmetric PSD (float + exact certificate)

NF_MODELS = ["homoskedastic", "homoskedastic-batch", "missingobs", "multitask-homoskedastic", "fixed", "fixed+learned",
             "heteroskedastic", "heteroskedastic-exactgp", "heteroskedastic-posterior", "multitask", "dirichlet"]
NF_CONS = ["default", "gt", "gt", "interval", "positive"]


def _nf_cons_spec(rng, kind):
    if kind == "gt":
        return dict(kind="gt", lb=rng.choice([1e-6, 1e-3, 0.05, 0.5]))
    if kind == "interval":
        lo = rng.choice([1e-5, 0.01, 0.05, 0.3]); return dict(kind="interval", lo=lo, hi=lo + rng.choice([0.5, 2.0, 40.0]))
    return dict(kind=kind)


def _nf_cons(cs):
    """(constraint object or None, lower bound, upper bound)"""
    Cn = gpytorch.constraints
    if cs["kind"] == "default":
        return None, 1e-4, math.inf
    if cs["kind"] == "gt":
        return Cn.GreaterThan(cs["lb"]), cs["lb"], math.inf
    if cs["kind"] == "interval":
        return Cn.Interval(cs["lo"], cs["hi"]), cs["lo"], cs["hi"]
    return Cn.Positive(), 0.0, math.inf


def _softplus(x):
    return x + math.log1p(math.exp(-x)) if x > 0 else math.log1p(math.exp(x))


def _nf_value(cs, raw):
    """the documented transform of the constraint, from the raw number (plain math, independent of gpytorch.constraints)"""
    if cs["kind"] == "interval":
        s = 1.0 / (1.0 + math.exp(-raw)) if raw > -700 else 0.0
        return cs["lo"] + (cs["hi"] - cs["lo"]) * s
    lb = {"default": 1e-4, "positive": 0.0}.get(cs["kind"], cs.get("lb"))
    return lb + _softplus(raw)


def _nf_raw(rng):
    return rng.choice([rng.uniform(-30, 30), rng.uniform(-30, 0), rng.uniform(-6, 3), rng.choice([-800.0, -40.0, -20.0, -5.0, 0.0, 19.5, 20.5, 50.0])])


def nf_cases(rng, tier):
    cases = []
    reps = 2 if tier == "quick" else 8
    for model in NF_MODELS:
        for ck in NF_CONS:
            for var in range(3 if model in ("heteroskedastic", "multitask") else 2 if model.startswith("hetero") else 1):
                for _ in range(reps):
                    c = dict(kind="noisefloor", model=model, cons=_nf_cons_spec(rng, ck), n=rng.randint(2, 4), pseed=rng.randint(0, 10 ** 9),
                             raws=[_nf_raw(rng) for _ in range(8)], geom=rng.choice(["random", "dup", "grid"]))
                    if ck == "positive":    # lower bound 0: keep softplus(raw) > 0 in float64 (a zero scale is refused by torch's Normal)
                        c["raws"] = [max(v, -30.0) for v in c["raws"]]
                    if model == "heteroskedastic-posterior":
                        # a posterior needs an invertible K + S: with the noise allowed down to ~1e-15 (lower bound 0, raw -35)
                        # duplicated inputs make it exactly singular and torch.linalg.solve rightly refuses
                        c["geom"] = rng.choice(["random", "grid"])
                    if model.startswith("heteroskedastic"):
                        c["outputs"] = [1, 2, 3][var] if model == "heteroskedastic" else rng.choice([1, 2])
                        c["index"] = None if c["outputs"] == 1 else rng.choice(([None] if model != "heteroskedastic-posterior" else [])
                                                                               + list(range(-1, c["outputs"])))
                        c["callform"] = rng.choice(["tensor", "list"])
                    if model == "multitask":
                        c["rank"] = [0, 1, 2][var]; c["tasks"] = rng.randint(2, 3)
                        c["has"] = rng.choice(["global+task", "global+task", "task", "global"])
                        c["interleaved"] = rng.choice([True, False])
                    if model == "dirichlet":
                        c["learn"] = rng.choice([True, False]); c["alpha_eps"] = rng.choice([0.01, 1.0, 1e3, 1e7])
                    if model in ("fixed", "fixed+learned"):
                        c["fixed"] = [rng.choice([0.0, 1e-9, -0.5, 1e-6 * (1 - 2 ** -30), rng.uniform(1e-3, 1.0)]) for _ in range(c["n"])]
                    cases.append(c)
    return cases


class _LevelModel(gpytorch.models.GP):
    """deterministic raw noise levels: `outputs` columns, level[i, j] = a_j + b_j * sin(c_j * x_i0 + p_j) (negative in places)"""

    def __init__(self, coef):
        super().__init__()
        self.coef = coef

    def levels(self, x):
        x0 = x[..., 0]
        return torch.stack([a + b * torch.sin(c * x0 + p) for a, b, c, p in self.coef], -1)

    def forward(self, x):
        lv = self.levels(x)
        if lv.shape[-1] == 1:
            return gpytorch.distributions.MultivariateNormal(lv[..., 0], 1e-3 * torch.eye(lv.shape[-2]))
        return gpytorch.distributions.MultitaskMultivariateNormal(lv, 1e-3 * torch.eye(lv.shape[-2] * lv.shape[-1]))


class _BatchGP(gpytorch.models.ExactGP):
    """independent multi-output exact GP (batch of `o` GPs -> MultitaskMultivariateNormal), o = 1: plain MultivariateNormal"""

    def __init__(self, x, y, lik, o, consts):
        super().__init__(x, y, lik)
        self.o = o
        bs = torch.Size([o]) if o > 1 else torch.Size()
        self.mean_module = gpytorch.means.ConstantMean(batch_shape=bs)
        self.mean_module.constant.data = T(consts) if o > 1 else T(consts[0])
        self.covar_module = K.ScaleKernel(K.RBFKernel(batch_shape=bs), batch_shape=bs)

    def forward(self, x):
        mvn = gpytorch.distributions.MultivariateNormal(self.mean_module(x), self.covar_module(x))
        return mvn if self.o == 1 else gpytorch.distributions.MultitaskMultivariateNormal.from_batch_mvn(mvn)


def _nf_latent(prng, spec, n, geom):
    X = T(gen_points(prng, spec, n, geom))
    kern = build_kernel(spec)
    kern.eval()
    with torch.no_grad():
        Kxx = kern(X).to_dense()
    return X, kern, (Kxx + Kxx.T) / 2


def nf_build(case):
    """-> dict(lik, dist, K (n x n or B x n x n latent covariance), args, kwargs, expected (tensor, same leading shape as the
    diagonal of K; None if not diagonal), lb, ub, diagonal(bool), full_expected (rank > 0), direct (callable or None))"""
    L = gpytorch.likelihoods
    from linear_operator.operators import DenseLinearOperator as DLO

    def MVN(m, c):     # lazy covariance: singular (duplicated-input) latent covariances are legitimate here
        return gpytorch.distributions.MultivariateNormal(m, DLO(c))
    model, cs, n = case["model"], case["cons"], case["n"]
    prng = random.Random(case["pseed"])
    cons, lb, ub = _nf_cons(cs)
    raws = case["raws"]
    spec = gen_spec(prng, prng.choice(["rbf", "matern25", "scale_rbf", "rbf+linear"]), "mid")
    X, kern, Kxx = _nf_latent(prng, spec, n, case["geom"])
    mean = T([prng.uniform(-1, 1) for _ in range(n)])
    r = dict(args=(), kwargs={}, lb=lb, ub=ub, diagonal=True, full_expected=None, direct=None, X=X)
    if model in ("homoskedastic", "missingobs"):
        lik = (L.GaussianLikelihood if model == "homoskedastic" else L.GaussianLikelihoodWithMissingObs)(noise_constraint=cons)
        lik.raw_noise.data.fill_(raws[0])
        r.update(lik=lik, dist=MVN(mean, Kxx), K=Kxx, expected=T([_nf_value(cs, raws[0])] * n),
                 direct=lambda: lik.noise_covar(shape=torch.Size([n])))
    elif model == "homoskedastic-batch":
        lik = L.GaussianLikelihood(noise_constraint=cons, batch_shape=torch.Size([2]))
        lik.raw_noise.data = T([[raws[0]], [raws[1]]])
        Kb = torch.stack([Kxx, 0.5 * Kxx + 0.1 * torch.eye(n)])
        r.update(lik=lik, dist=MVN(torch.stack([mean, -mean]), Kb), K=Kb,
                 expected=T([[_nf_value(cs, raws[0])] * n, [_nf_value(cs, raws[1])] * n]),
                 direct=lambda: lik.noise_covar(shape=torch.Size([2, n])))
    elif model == "multitask-homoskedastic":
        # the noise module on its own (no likelihood class in gpytorch.likelihoods wires it in): n x t diagonal
        t = 2
        nm = L.noise_models.MultitaskHomoskedasticNoise(num_tasks=t, noise_constraint=cons)
        nm.raw_noise.data = T(raws[:t])
        r.update(lik=None, dist=None, K=None, expected=T([[_nf_value(cs, raws[j])] * n for j in range(t)]),
                 direct=lambda: nm(shape=torch.Size([n])))
    elif model in ("fixed", "fixed+learned"):
        mn = gs.min_fixed_noise.value(torch.float64)
        fx = T(case["fixed"])
        lik = L.FixedNoiseGaussianLikelihood(fx.clone(), learn_additional_noise=(model == "fixed+learned"), noise_constraint=cons)
        exp = torch.clamp(fx, min=mn)
        r["lb"] = mn
        if model == "fixed+learned":
            lik.second_noise_covar.raw_noise.data.fill_(raws[0])
            exp = exp + _nf_value(cs, raws[0]); r["lb"] = mn + lb; r["ub"] = math.inf
        else:
            r["ub"] = math.inf
        r.update(lik=lik, dist=MVN(mean, Kxx), K=Kxx, expected=exp, direct=None)
    elif model in ("heteroskedastic", "heteroskedastic-exactgp", "heteroskedastic-posterior"):
        o, idx = case["outputs"], case["index"]
        if model == "heteroskedastic-exactgp":
            # a trained exact GP (o = 1: MultivariateNormal, o = 2: batch-independent MultitaskMultivariateNormal) as noise model;
            # its targets (raw noise levels) are negative / below the bound
            m = 4
            Xn = T(gen_points(prng, spec, m, "random"))
            Yn = T([[raws[(i + 3 * j) % 8] for j in range(o)] for i in range(m)])
            nl = L.GaussianLikelihood() if o == 1 else L.MultitaskGaussianLikelihood(num_tasks=o)
            nm = _BatchGP(Xn, Yn[:, 0] if o == 1 else Yn, nl, o, [min(raws[:3])] * o)
        else:
            coef = [(raws[j], abs(raws[j + 3]) * 0.5 + 1.0, prng.uniform(0.5, 3.0), prng.uniform(0, 6.0)) for j in range(o)]
            nm = _LevelModel(coef)
        hn = L.HeteroskedasticNoise(nm, noise_indices=idx, noise_constraint=cons)
        lik = L.gaussian_likelihood._GaussianLikelihoodBase(noise_covar=hn)
        nm.eval()
        with torch.no_grad():
            lv = nm(X).mean
        lv = lv if idx is None else lv[..., idx]
        lv = lv.reshape(n, -1)
        nm.train()
        exp = T([[_nf_value(cs, v) for v in row] for row in lv.tolist()])
        r["levels"] = lv.tolist()
        args = (X,) if case["callform"] == "tensor" else ([X],)
        if idx is None and o > 1:
            # every output's level at once: a batch of n diagonal t x t operators (no likelihood class consumes it directly)
            r.update(lik=None, dist=None, K=None, expected=exp, direct=lambda: hn(*args, shape=torch.Size([n])))
        else:
            r.update(lik=lik, dist=MVN(mean, Kxx), K=Kxx, expected=exp[:, 0], args=args, direct=lambda: hn(*args, shape=torch.Size([n])))
        r["kern"], r["spec"], r["mean"] = kern, spec, mean
    elif model == "multitask":
        t, rank, has = case["tasks"], min(case["rank"], case["tasks"]), case["has"]
        hg, ht = "global" in has, "task" in has
        lik = L.MultitaskGaussianLikelihood(num_tasks=t, rank=rank, noise_constraint=cons, has_global_noise=hg, has_task_noise=ht)
        g = 0.0
        if hg:
            lik.raw_noise.data.fill_(raws[0]); g = _nf_value(cs, raws[0])
        tn = [0.0] * t
        F = None
        if ht and rank == 0:
            lik.raw_task_noises.data = T(raws[1:1 + t]); tn = [_nf_value(cs, v) for v in raws[1:1 + t]]
        elif ht:
            F = T([[prng.uniform(-1.5, 1.5) for _ in range(rank)] for _ in range(t)])
            lik.task_noise_covar_factor.data = F.clone()
        il = case["interleaved"]
        kt = build_kernel(dict(gen_spec(prng, "index", "mid"), tasks=t, rank=1))
        with torch.no_grad():
            B = kt.covar_matrix.to_dense()
        B = (B + B.T) / 2
        Kmt = torch.kron(Kxx, B) if il else torch.kron(B, Kxx)
        dist = gpytorch.distributions.MultitaskMultivariateNormal(T([[prng.uniform(-1, 1) for _ in range(t)] for _ in range(n)]), DLO(Kmt),
                                                                  interleaved=il)
        D = torch.diag(T(tn)) + g * torch.eye(t) if (F is None) else F @ F.T + g * torch.eye(t)
        full = torch.kron(torch.eye(n), D) if il else torch.kron(D, torch.eye(n))
        # floor: the global noise and each diagonal task noise are >= lb each
        floor = (lb if hg else 0.0) + (lb if (ht and rank == 0) else 0.0)
        r.update(lik=lik, dist=dist, K=Kmt, expected=torch.diagonal(full).clone(), full_expected=full, diagonal=(F is None), lb=floor,
                 ub=math.inf, cond_expected=torch.diagonal(D).repeat(n))     # likelihood(f): n x t, row-major
    elif model == "dirichlet":
        # transformed classification noise log(1/alpha + 1), stored through FixedGaussianNoise (floor: min_fixed_noise of its dtype)
        ncls = 2
        tg = torch.tensor([i % ncls for i in range(n)])
        dt = torch.float64
        lik = L.DirichletClassificationLikelihood(tg, alpha_epsilon=case["alpha_eps"], learn_additional_noise=case["learn"], dtype=dt,
                                                   noise_constraint=cons)
        mn = gs.min_fixed_noise.value(dt)
        al = torch.full((ncls, n), case["alpha_eps"], dtype=dt)
        al[tg, torch.arange(n)] += 1.0
        exp = torch.clamp(torch.log1p(1.0 / al), min=mn)
        r["lb"] = mn; r["ub"] = math.inf
        if case["learn"]:
            lik.second_noise_covar.raw_noise.data = T([[raws[0]], [raws[1]]])
            exp = exp + T([[_nf_value(cs, raws[0])], [_nf_value(cs, raws[1])]]); r["lb"] = mn + lb
        Kb = torch.stack([Kxx, 0.5 * Kxx + 0.1 * torch.eye(n)])
        r.update(lik=lik, dist=MVN(torch.stack([mean, -mean]), Kb), K=Kb, expected=exp)
    else:
        raise ValueError(model)
    return r


def _nf_variant(case):
    m = case["model"]
    if m.startswith("heteroskedastic"):
        return "%s:%s" % (m, "all-outputs" if (case["index"] is None and case["outputs"] > 1) else
                          "no-indices" if case["index"] is None else "noise_indices")
    if m == "multitask":
        return "multitask:%s:%s" % ("rank0" if case["rank"] == 0 else "rank>0", case["has"])
    if m == "dirichlet":
        return "dirichlet" + ("+learned" if case["learn"] else "")
    return m


def run_nf(out, case, jobs, owner):
    desc = dict(case)
    key = "noise:" + _nf_variant(case)
    out.case(dict(kind="noisefloor", variant=_nf_variant(case), cons=case["cons"], n=case["n"], pseed=case["pseed"], raws=case["raws"][:3]),
             True, label=key)
    out.count("noisefloor-constraint=" + case["cons"]["kind"])
    try:
        with torch.no_grad(), warnings.catch_warnings():
            warnings.simplefilter("ignore")
            r = nf_build(case)
            lik, dist, Kl, exp, lb, ub = r["lik"], r["dist"], r["K"], r["expected"], r["lb"], r["ub"]
            direct = r["direct"]().to_dense() if r["direct"] is not None else None
            if lik is not None:
                if hasattr(lik, "eval"):
                    lik.eval()
                marg = lik(dist, *r["args"], **r["kwargs"])
                mcov, mvar = marg.covariance_matrix, marg.variance
                lvar = dist.variance
                try:
                    cvar = lik(dist.mean.clone(), *r["args"], **r["kwargs"]).variance
                except Exception as e:     # judged below, after the marginal (a NaN scale is the symptom of a negative noise)
                    cvar, cexc = None, e
    except Exception as e:
        out.fail(key + ":exception:" + type(e).__name__, "noise model / likelihood raised %r" % e, desc)
        return
    desc["lower_bound"] = lb
    if r.get("levels") is not None:
        desc["raw_levels"] = r["levels"]

    def floor_and_value(name, got, want, sc, what):
        """got, want: tensors of the same shape; sc: magnitude of the operands got was computed from"""
        tolabs = 1e-13 * max(sc, 1e-300)
        if not torch.isfinite(got).all():
            out.fail(key + ":" + name + ":nonfinite", what + " is not finite", desc, impl=got.tolist()); return False
        if (got < lb * (1 - 1e-9) - tolabs).any():
            out.fail(key + ":" + name + ":lower-bound", "%s is below the lower bound %g of the noise constraint: min %.6e"
                     % (what, lb, got.min().item()), desc, impl=got.tolist(), model=dict(lower_bound=lb, expected=want.tolist()))
            return False
        if (got > ub * (1 + 1e-9) + tolabs).any():
            out.fail(key + ":" + name + ":upper-bound", "%s is above the upper bound %g of the noise constraint" % (what, ub), desc,
                     impl=got.tolist(), model=dict(upper_bound=ub, expected=want.tolist()))
            return False
        if ((got - want).abs() > 1e-8 * want.abs() + tolabs).any():
            out.fail(key + ":" + name + ":value", "%s differs from transform(raw) computed from the raw numbers" % what, desc,
                     impl=got.tolist(), model=want.tolist())
            return False
        return True

    if direct is not None:
        dd = torch.diagonal(direct, dim1=-1, dim2=-2)
        want = exp if exp.dim() == dd.dim() else exp.reshape(dd.shape)
        ok = floor_and_value("direct", dd, want, scale_of(dd), "the diagonal of noise_covar(...) evaluated directly")
        off = (direct - torch.diag_embed(dd)).abs().max().item()
        if ok and off > 0:
            out.fail(key + ":direct:offdiag", "noise_covar(...) has non-zero off-diagonal entries (max %.3e)" % off, desc, impl=direct.tolist())
    if lik is None:
        return
    B = 1 if Kl.dim() == 2 else Kl.shape[0]
    for b in range(B):
        sel = (lambda a: a[b]) if Kl.dim() == 3 else (lambda a: a)
        Kb, mc, mv, lv, eb = sel(Kl), sel(mcov), sel(mvar).reshape(-1), sel(lvar).reshape(-1), sel(exp).reshape(-1)
        sc = scale_of(mc)
        added = mc - Kb
        ad = torch.diagonal(added)
        d = dict(desc, batch_element=b) if B > 1 else desc
        ok = floor_and_value("added", ad, eb, sc, "diag(likelihood(dist).covariance - dist.covariance)")
        if cvar is None:
            if ok:
                out.fail(key + ":conditional-variance:exception:" + type(cexc).__name__, "likelihood(f) raised %r" % cexc, d)
            ok = False
        else:
            cv = sel(cvar).reshape(-1)
            ok = floor_and_value("conditional-variance", cv, r.get("cond_expected", eb), scale_of(cv),
                                 "the variance of likelihood(f) (conditional p(y|f))") and ok
        if not ok:
            continue
        if r["diagonal"]:
            off = (added - torch.diag(ad)).abs().max().item()
            if off > 1e-13 * sc:
                out.fail(key + ":added:offdiag", "the added noise covariance is not diagonal (max off-diagonal %.3e)" % off, d,
                         impl=added.tolist())
                continue
        else:
            fe = r["full_expected"]
            if (added - fe).abs().max().item() > 1e-8 * scale_of(fe) + 1e-13 * sc:
                out.fail(key + ":added:value", "the added noise covariance differs from I (x) (F F^T + noise I)", d, impl=added.tolist(),
                         model=fe.tolist())
                continue
            check_matrix(out, key + ":added-minus-floor", "added noise covariance minus lower bound * I", d, added - lb * torch.eye(added.shape[-1]),
                         jobs, owner, cert=False, ref=sc)
        mvfloor = gs.min_variance.value(mv.dtype)
        if (mv < lv + lb * (1 - 1e-9) - 1e-13 * sc - mvfloor).any():
            out.fail(key + ":marginal-variance", "marginal variance is below latent variance + noise lower bound %g" % lb, d,
                     impl=dict(marginal=mv.tolist(), latent=lv.tolist()), model=lb)
            continue
        check_matrix(out, key + ":marginal", "likelihood(dist) covariance (K + noise)", d, mc, jobs, owner, ref=sc)
    if case["model"] == "heteroskedastic-posterior":
        run_nf_posterior(out, case, r, key, desc, jobs, owner)


def run_nf_posterior(out, case, r, key, desc, jobs, owner):
    """an exact GP whose likelihood is _GaussianLikelihoodBase(HeteroskedasticNoise(...)): posterior at fresh points and its
    marginal; reference: dense K** - K*x (Kxx + diag(transform(level(X))))^-1 Kx* from the raw levels"""
    prng = random.Random(case["pseed"] + 5)
    X, spec, lik, cs = r["X"], r["spec"], r["lik"], case["cons"]
    n, t = X.shape[0], prng.randint(1, 3)
    Xs = T(gen_points(prng, spec, t, "random"))
    y = T([prng.uniform(-2, 2) for _ in range(n)])
    nm = lik.noise_covar.noise_model
    idx = case["index"]
    try:
        with torch.no_grad(), warnings.catch_warnings():
            warnings.simplefilter("ignore")
            model = GP(X, y, lik, build_kernel(spec))
            model.eval(); lik.eval()
            post = model(Xs)
            cov, var, sd = post.covariance_matrix, post.variance, post.stddev
            marg = lik(post, Xs)
            mcov, mvar = marg.covariance_matrix, marg.variance
            k0 = build_kernel(spec)
            Kss, Kxs, Kxx = k0(Xs).to_dense(), k0(X, Xs).to_dense(), k0(X).to_dense()
            lx, ls = nm.levels(X), nm.levels(Xs)
            lx, ls = (lx[..., 0], ls[..., 0]) if idx is None else (lx[..., idx], ls[..., idx])
            nx = T([_nf_value(cs, v) for v in lx.tolist()]); nsx = T([_nf_value(cs, v) for v in ls.tolist()])
            A = Kxx + torch.diag(nx)
            ref = Kss - Kxs.T @ torch.linalg.solve(A, Kxs)
            cond = torch.linalg.cond(A).item()
            amp = (1.0 + torch.linalg.solve(A, Kxs).abs().sum(0).max().item()) ** 2
            rel, det = entry_rounding(k0, torch.cat([X, Xs]))
    except Exception as e:
        out.fail(key + ":posterior:exception:" + type(e).__name__, "exact GP with a heteroskedastic likelihood raised %r" % e, desc)
        return
    sc = scale_of(Kss)
    rb = rel * sc * amp
    d = dict(desc, t=t, rounding=dict(entry_bound=rb, amplification=amp, cond=cond))
    out.case(dict(kind="noisefloor-posterior", variant=_nf_variant(case), n=n, t=t, pseed=case["pseed"]), True, label=key + ":posterior")
    ok = psd_suite(out, key + ":posterior", d, cov, Kss, var, sd, jobs, owner, EIG_TOL, True, sc, rb, SYM_TOL,
                   "posterior covariance of an exact GP with heteroskedastic noise")
    if ok and (cov - ref).abs().max().item() > max(1e-7 * sc * max(1.0, cond * 1e-4), KB * rb):
        out.fail(key + ":posterior:reference", "posterior covariance differs from K** - K*x (Kxx + diag(transform(level)))^-1 Kx*", d,
                 impl=cov.tolist(), model=ref.tolist())
    lb = r["lb"]
    if (mvar - var < lb * (1 - 1e-9) - 1e-13 * max(sc, scale_of(mcov)) - gs.min_variance.value(var.dtype)).any() or \
            ((torch.diagonal(mcov) - torch.diagonal(cov) - nsx).abs() > 1e-8 * nsx + 1e-13 * scale_of(mcov)).any():
        out.fail(key + ":posterior:marginal-variance", "the predictive marginal adds less than the noise lower bound %g / not transform(level(x*))" % lb,
                 d, impl=(torch.diagonal(mcov) - torch.diagonal(cov)).tolist(), model=nsx.tolist())
    check_matrix(out, key + ":posterior:marginal", "likelihood(posterior, x*) covariance with heteroskedastic noise", d, mcov, jobs, owner,
                 ref=sc, rb=rb)


# --------------------------------------------------------------------------- run

def run(out, ctx):
    tier, seed = ctx["tier"], ctx["seed"]
    rng = random.Random(seed * 104729 + 7)
    torch.manual_seed(seed)
    jobs, owner = [], []
    out.rule = ("every exported kernel that is PD on its documented domain (%d families incl. sums/products/scale/structure/grad/"
                "multitask kernels) x 7 adversarial geometries (random, exact duplicates, rows 1e-8 apart, collinear, two tight "
                "clusters, equispaced, 1e3 from the origin) x lengthscale {mid, 1e-3, 1e3}, n in 2..12; exact GP posteriors "
                "(16 kernels x 6 geometries x noise {1e-4,1e-2,0.3} x Gaussian/FixedNoise x test points fresh / on training "
                "points, paths default / eager kernels / max_eager_kernel_size(1) / fast_pred_var (both) / CG) with marginals and one-at-a-time monotonicity; variational "
                "posteriors (whitened/unwhitened x Cholesky/MeanField/Delta); variance clamp and noise-floor grids; "
                "part F (own random stream): observation_nan_policy mask/fill posteriors (single / FixedNoise / batch of 2 / multitask "
                "T=2, >= 1 hole and >= 1 observation per element, test points fresh or on the holes, fast_pred_var on/off; also "
                "compared with the posterior of the same data without holes), fantasy histories (Gaussian / FixedNoise / "
                "FixedNoise+learned, 1..3 get_fantasy_model steps of 1..2 points, fantasy noise 0.01x..1000x the training noise, "
                "fast_pred_var on/off; every step PSD, below the prior and below its source), and histories predict -> 1..3 of "
                "{set_train_data(inputs) / (targets) / (both) / (both, resized, strict=False), load_state_dict of another "
                "parameter set, train-eval, predict} -> predict under default / eager / fast_pred_var; "
                "F.d: models with eval-mode caches (plain ExactGP, SGPR = InducingPointKernel, KISS-GP = GridInterpolationKernel, "
                "RFFKernel, whitened / unwhitened variational strategies) through eval -> predict -> 1..2 x [train() -> "
                "hyper-parameter change by property setters / initialize() / load_state_dict of a differently parameterised "
                "copy / 2 Adam steps on the mll / moved inducing points (lengthscale x0.2..x5, outputscale x0.25..x4, noise "
                "x0.5..x3), optionally one training-mode mll forward+backward -> eval -> predict]: part-B oracles and equality "
                "(1e-6*scale) with a FRESH model that received the final state; "
                "part G: noise floor of every noise model / likelihood class (Homoskedastic, batch, MissingObs, "
                "MultitaskHomoskedastic, Fixed, Fixed+learned, Heteroskedastic without / with noise_indices over 1..3-output "
                "deterministic or exact-GP noise models with negative levels, an exact GP with heteroskedastic likelihood, "
                "MultitaskGaussianLikelihood rank 0 / >0 x global / task noise x interleaved, DirichletClassification) x "
                "constraint {default, GreaterThan, Interval, Positive} x raw in -30..30 and +-800: added diagonal >= lower bound "
                "and = transform(raw) from plain math, noise_covar evaluated directly, conditional variance, marginal variance "
                ">= latent + bound, marginal covariance PSD. "
                "non-trivial = matrix has a non-zero off-diagonal / n_train >= 2. " % len(FAMILIES)) + ROUNDING_RULE
    out.extra["tolerances"] = {"eig": "lambda_min >= -max(%g*scale, 8*n*b)" % EIG_TOL, "symmetry": "max(%g*scale, 8*b)" % SYM_TOL,
                                "b": "per-case entry rounding bound (see rule); recorded as entry_rounding_bound / rounding in every case",
                                "certificate": "exact: round(A, scale*2^-%d) + %g*scale*I = Lf Lf^T + diagonally dominant remainder, sizes <= %d" % (GRID_BITS, CERT_SLACK * EIG_TOL, CERT_MAX),
                                "lanczos/cg paths (cond < 300 only)": "%g * max(1, solve amplification)" % ITER_TOL, "monotone": "max(%g*scale, 8*b)" % MONO_TOL,
                                "clamps": "exact", "noise value vs model": "rtol 1e-9 (torch softplus threshold 20)"}
    for case in gram_cases(rng, tier):
        run_gram(out, case, jobs, owner)
    for case in post_cases(rng, tier):
        run_post(out, case, jobs, owner, rng)
    for case in var_cases(rng, tier):
        run_var(out, case, jobs, owner)
    # part F draws from its own stream so that parts A-E generate the same cases as before it existed
    rng_f = random.Random(seed * 7919 + 13)
    for case in nan_cases(rng_f, tier):
        run_nan(out, case, jobs, owner)
    for case in fant_cases(rng_f, tier):
        run_fant(out, case, jobs, owner)
    for case in hist_cases(rng_f, tier):
        run_hist(out, case, jobs, owner)
    # F.d and part G draw from a third stream (the cases of the older parts stay the same)
    rng_g = random.Random(seed * 6151 + 29)
    for case in cache_cases(rng_g, tier):
        run_cache(out, case, jobs, owner)
    for case in nf_cases(rng_g, tier):
        run_nf(out, case, jobs, owner)
    # clamps and noise floors: implementation now, model answers with the certificate batch
    for case in clamp_cases(rng, tier):
        try:
            used, var, sd, mvv = clamp_impl(case)
        except Exception as e:
            out.fail("clamp-exception:%s:%s" % (case["form"], type(e).__name__), "MultivariateNormal.variance raised %r" % e, case)
            continue
        out.case(case, any(v < mvv for v in used), label="clamp:" + case["form"])
        jobs.append("(JClamp %s %s)" % (C.qc_lit(mvv), C.qc_vec(used))); owner.append(("clamp", case, var, sd, mvv))
    for case in noise_cases(rng, tier):
        try:
            if case["kind"] == "noise":
                noise, added = noise_impl(case)
                out.case(case, True, label="noise:" + case["lik"])
                lb = 1e-4 if case["lik"] == "gaussian-default" else case["lb"]
                jobs.append("(JNoise %s %s)" % (C.qc_lit(lb), C.qc_lit(case["raw"]))); owner.append(("noise", case, noise, added, lb))
            else:
                got, added, mn = fixed_impl(case)
                out.case(case, any(v < mn for v in case["noise"]), label="noise:fixed")
                jobs.append("(JFixedNoise %s %s)" % (C.qc_lit(mn), C.qc_vec(case["noise"]))); owner.append(("fixed", case, got, added, mn))
        except Exception as e:
            out.fail("noise-exception:%s:%s" % (case.get("lik", "fixed"), type(e).__name__), "likelihood noise raised %r" % e, case)
    # the big Gram matrices come first: deal the jobs round-robin so that the 16 coqc shards are balanced
    order = list(range(len(jobs)))
    random.Random(0).shuffle(order)
    res_p = C.coq_run_cases("C07", IMPORTS, RUN_DEF, [jobs[i] for i in order], shard=max(8, (len(jobs) + 15) // 16))
    res = [None] * len(jobs)
    for k, i in enumerate(order):
        res[i] = res_p[k]
    for ow, r in zip(owner, res):
        judge(out, ow, r)
    out.extra["certificates"] = sum(1 for o in owner if o[0] == "psd")
    out.tested_not_proved = [
        "PSD of RBF / Matern / RQ / Periodic / PiecewisePolynomial / SpectralMixture / Arc / Cylindrical / HammingIMQ Gram matrices "
        "for all inputs (Bochner/Schoenberg; DESIGN 9.1) - proved only: symmetry, unit diagonal, |k(x,y)| <= k(x,x)",
        "PSD of derivative kernels (RBFKernelGrad, Matern52KernelGrad, PolynomialKernelGrad, RBFKernelGradGrad)",
        "the general Schur product / Kronecker theorem over fields without square roots (Qc): proved over R for arbitrary PSD "
        "factors (c07_product_psd, c07_kronecker_psd), over any ordered field with one factor F diag(c) F^T",
        "GridInterpolationKernel (W K W^T), AdditiveStructure / ProductStructure / NewtonGirard kernels",
        "agreement of float64 Cholesky/Lanczos/CG numerics with exact algebra (thresholds are scale-relative)",
        "for the whitened variational covariance K** - A^T A >= 0 is a hypothesis of c07_variational_cov_psd (it is the "
        "Schur complement of the jittered prior, c07_posterior_psd); the unwhitened one is proved PSD from the joint prior "
        "(c07_unwhitened_variational_cov_psd), compared here only numerically with the implementation"]
    out.extra["not_covered"] = ["GaussianSymmetrizedKLKernel / DistributionalInputKernel (not documented as positive definite)",
                                "MultiDeviceKernel, keops kernels (need CUDA / KeOps)", "GridKernel (inputs must be the full grid)",
                                "kernel(x, diag=True) failures of the deprecated structure kernels are C06's subject"]


def judge(out, ow, r):
    kind = ow[0]
    rd = C.Reader(r)
    if kind == "psd":
        _, key, what, desc, A, tol = ow
        sym, ok = rd.int(), rd.int()
        if sym != 1 or ok != 1:
            out.fail(key + ":certificate", "%s: the Coq model found no exact PSD certificate for round(A) + %g*scale*I" % (what, tol),
                     desc, impl=A, model=dict(symmetric=sym, psd=ok))
    elif kind == "clamp":
        _, case, var, sd, mvv = ow
        want = [rd.q() for _ in range(len(var))]
        if case["form"] == "tensor":   # torch's own MVN: variance = (chol(diag))^2, equal to the diagonal only up to rounding
            bad = [i for i, (v, w) in enumerate(zip(var, want)) if abs(v - float(w)) > 1e-14 * abs(float(w))]
        else:
            bad = [i for i, (v, w) in enumerate(zip(var, want)) if C.frac(v) != w]
        sdbad = [i for i, (s, v) in enumerate(zip(sd, var)) if not (s >= 0 and abs(s * s - v) <= 1e-12 * abs(v))]
        if bad or any(v < mvv for v in var):
            out.fail("clamp:%s:value" % case["form"], "MultivariateNormal.variance != max(diag, min_variance=%g)" % mvv, case,
                     impl=var, model=[float(w) for w in want])
        elif sdbad:
            out.fail("clamp:%s:stddev" % case["form"], "stddev is not the non-negative root of the variance", case, impl=sd, model=var)
    elif kind == "noise":
        _, case, noise, added, lb = ow
        want = float(rd.expr())
        for v in noise:
            if not (v >= lb) or abs(v - want) > 1e-9 * abs(want) + 1e-300:   # torch softplus switches to the identity above 20
                out.fail("noise:%s:value" % case["lik"], "likelihood noise %.17g is below the bound %g or differs from softplus(raw)+lb = %.17g"
                         % (v, lb, want), case, impl=noise, model=want)
                break
        else:
            if any(a < lb * (1 - 1e-9) - 1e-13 for a in added):
                out.fail("noise:%s:added" % case["lik"], "noise added to the covariance diagonal is below the lower bound %g" % lb, case,
                         impl=added, model=lb)
    elif kind == "fixed":
        _, case, got, added, mn = ow
        want = [rd.q() for _ in range(len(got))]
        if any(C.frac(g) != w for g, w in zip(got, want)) or any(g < mn for g in got):
            out.fail("noise:fixed:value", "FixedGaussianNoise != max(noise, min_fixed_noise=%g)" % mn, case, impl=got,
                     model=[float(w) for w in want])
        elif any(abs(a - float(w)) > 1e-12 * max(1.0, abs(float(w))) for a, w in zip(added, want)):
            out.fail("noise:fixed:added", "noise added to the covariance diagonal differs from the clamped fixed noise", case, impl=added,
                     model=[float(w) for w in want])


def replay(path):
    d = json.load(open(path))
    case = d["case"]
    out = C.Outcome("C07", "quick", 0)
    jobs, owner = [], []
    kind = case.get("kind")
    if kind == "gram":
        X, Kd, _ = gram_matrix(case)
        print("inputs", X.tolist()); print("K", Kd.tolist())
        print("eigenvalues", torch.linalg.eigvalsh((Kd + Kd.T) / 2).tolist())
        run_gram(out, case, jobs, owner)
    elif kind == "post":
        run_post(out, case, jobs, owner, random.Random(0))
    elif kind == "var":
        run_var(out, case, jobs, owner)
    elif kind == "nanpost":
        run_nan(out, case, jobs, owner)
    elif kind == "fantasy":
        run_fant(out, case, jobs, owner)
    elif kind == "history":
        run_hist(out, case, jobs, owner)
    elif kind == "cache":
        run_cache(out, case, jobs, owner)
    elif kind == "noisefloor":
        run_nf(out, case, jobs, owner)
    elif kind == "clamp":
        used, var, sd, mvv = clamp_impl(case)
        print("diag", used, "variance", var, "min_variance", mvv)
        jobs.append("(JClamp %s %s)" % (C.qc_lit(mvv), C.qc_vec(used))); owner.append(("clamp", case, var, sd, mvv))
    elif kind == "noise":
        noise, added = noise_impl(case)
        lb = 1e-4 if case["lik"] == "gaussian-default" else case["lb"]
        print("noise", noise, "added", added, "bound", lb)
        jobs.append("(JNoise %s %s)" % (C.qc_lit(lb), C.qc_lit(case["raw"]))); owner.append(("noise", case, noise, added, lb))
    elif kind == "fixednoise":
        got, added, mn = fixed_impl(case)
        print("noise", got, "added", added, "min_fixed_noise", mn)
        jobs.append("(JFixedNoise %s %s)" % (C.qc_lit(mn), C.qc_vec(case["noise"]))); owner.append(("fixed", case, got, added, mn))
    if jobs:
        res = C.coq_run_cases("C07_replay", IMPORTS, RUN_DEF, jobs)
        for ow, r in zip(owner, res):
            print("model:", r[:12], "...")
            judge(out, ow, r)
    for f in out.failures:
        print("FAILS:", f["key"], "-", f["what"])
    print("FAILS" if out.failures else "agrees")
    return 1 if out.failures else 0
