"""C02 — exact marginal log likelihood, LOO pseudo-likelihood and SumMarginalLogLikelihood equal
their dense definitions.
Tie C: the implementation supplies its own prior pieces on the training inputs (K, m), the noise
operator S = cov(likelihood(f)) - K and the targets as exact rationals; the values of the
registered log-prior terms are computed by the harness with mpmath from the prior's parameters
and the constrained parameter value (independently of gpytorch.priors), the added-loss values
are the constants the harness registered.  The Coq model (Models/C02_mll.v, vm_compute over Qc)
computes the dense objective exactly: rational quadratic form, rational determinant inside a
single ELog node, then (log N + added + priors) / num_data; the LOO model conditions y_i on
all other observations BY DEFINITION (n inversions of the (n-1)x(n-1) sub-matrices).
The gradient half of the property is a labelled TEST: autograd gradient w.r.t. every raw
hyper-parameter against central differences of the Coq-evaluated objective."""
import copy
import itertools
import json
import math
import random

import mpmath as mp
import torch

import gpytorch
from gpytorch import settings as gs
from harness.lib import common as C

COQ_TARGETS = ["Models/C02_mll.vo", "Models/C02_priors.vo"]
LEVEL_NOTE = ("theorems are about the Gallina model; tie to /repo is differential (public outputs, float64 vs exact "
              "rationals + mpmath, tolerances in coverage.tolerances); gradients are tested, not proved")
IMPORTS = ("From Coq Require Import List ZArith QArith Qcanon.\n"
           "From GPV Require Import Base.LinAlg Base.Exec Base.Expr Models.C02_mll Models.C02_priors.")
RUN_DEF = ("Inductive ccase := CM (c : mll_case) | CL (c : nat * list (list Qc) * list Qc * list (list Qc) * list Qc * list Qc * list Qc)"
           " | CS (c : list mll_case) | CMB (c : mll_case) (bp : list bprior) (idx : list nat)"
           " | CLB (c : nat * list (list Qc) * list Qc * list (list Qc) * list Qc * list Qc * list Qc) (bp : list bprior) (idx : list nat)"
           " | CN (t : mtree) | CNA (t : mtree).\n"
           "Definition run (c : ccase) : list Z := match c with CM x => run_mll x | CL x => run_loo x | CS x => run_summll x"
           " | CMB x bp idx => run_mll_b x bp idx | CLB x bp idx => run_loo_b x bp idx | CN t => run_named t | CNA t => run_named_added t end.")

torch.set_default_dtype(torch.float64)
mp.mp.dps = 40
TOL = 1e-8
GRAD_RTOL, GRAD_ATOL, GRAD_H = 1e-5, 1e-7, 1e-4

KERNELS = ["rbf", "matern05", "matern15", "matern25", "rq", "scale_rbf", "rbf+linear", "ard_rbf", "poly", "scale_matern",
           "ard_matern", "scale_ard_rbf", "scale_rbf+scale_matern", "rbf*matern15"]
# kernels made of two components of the same kind: both components own a lengthscale (and an outputscale), so priors
# registered under the constructor's names (lengthscale_prior, ...) collide by NAME but belong to different modules
TWO_COMPONENT = ["scale_rbf+scale_matern", "rbf*matern15"]
NAMINGS = ["unique", "canonical", "same"]
MEANS = ["zero", "constant", "linear"]
LIKS = ["gaussian", "fixed", "fixed+learned"]
PRIOR_KINDS = ["gamma", "lognormal", "normal", "smoothedbox"]
CLOSURES = ["id", "log", "square"]


# --------------------------------------------------------------------------- priors (independent oracle)

def prior_logpdf(spec, x):
    """log density of the prior described by spec at the (already transformed) value x, with mpmath"""
    x = mp.mpf(x)
    k = spec["kind"]
    if k == "normal":
        loc, sc = mp.mpf(spec["a"]), mp.mpf(spec["b"])
        return -((x - loc) ** 2) / (2 * sc ** 2) - mp.log(sc) - mp.log(2 * mp.pi) / 2
    if k == "lognormal":
        loc, sc = mp.mpf(spec["a"]), mp.mpf(spec["b"])
        lx = mp.log(x)
        return -((lx - loc) ** 2) / (2 * sc ** 2) - mp.log(sc) - mp.log(2 * mp.pi) / 2 - lx
    if k == "gamma":
        a, b = mp.mpf(spec["a"]), mp.mpf(spec["b"])
        return a * mp.log(b) + (a - 1) * mp.log(x) - b * x - mp.loggamma(a)
    if k == "smoothedbox":
        a, b, s = mp.mpf(spec["a"]), mp.mpf(spec["b"]), mp.mpf(spec["c"])
        dist = max(abs(x - (a + b) / 2) - (b - a) / 2, mp.mpf(0))
        return -(dist ** 2) / (2 * s ** 2) - mp.log(s) - mp.log(2 * mp.pi) / 2 - mp.log(1 + (b - a) / (mp.sqrt(2 * mp.pi) * s))
    raise ValueError(k)


def make_prior(spec):
    P = gpytorch.priors
    k = spec["kind"]
    if k == "normal":
        return P.NormalPrior(spec["a"], spec["b"])
    if k == "lognormal":
        return P.LogNormalPrior(spec["a"], spec["b"])
    if k == "gamma":
        return P.GammaPrior(spec["a"], spec["b"])
    return P.SmoothedBoxPrior(spec["a"], spec["b"], spec["c"])


def gen_prior(rng, positive_only=True):
    k = rng.choice(PRIOR_KINDS)
    if k == "normal":
        return dict(kind=k, a=rng.randint(-8, 16) / 8.0, b=rng.randint(4, 16) / 8.0)
    if k == "lognormal":
        return dict(kind=k, a=rng.randint(-8, 8) / 8.0, b=rng.randint(4, 12) / 8.0)
    if k == "gamma":
        return dict(kind=k, a=rng.randint(8, 32) / 8.0, b=rng.randint(4, 32) / 8.0)
    lo = rng.randint(1, 8) / 8.0
    return dict(kind=k, a=lo, b=lo + rng.randint(2, 16) / 8.0, c=rng.choice([0.125, 0.25, 0.5]))


CLOSURE_T = {"id": lambda t: t, "log": lambda t: t.log(), "square": lambda t: t * t}
CLOSURE_M = {"id": lambda v: v, "log": lambda v: mp.log(v), "square": lambda v: v * v}


# --------------------------------------------------------------------------- model construction

KBITS = 16


class DyadicKernel(gpytorch.kernels.Kernel):
    """k(x, x') rounded entrywise to a 2^-KBITS grid.  The objectives are generic in the kernel; rounding keeps the
    exact-rational model cheap (operands of ~20 instead of 53 bits) so that larger n fit in the budget.  Unrounded
    kernels are used for n <= 3 and in the gradient family."""

    def __init__(self, base):
        super().__init__()
        self.base_kernel = base

    @property
    def batch_shape(self):
        return self.base_kernel.batch_shape

    def forward(self, x1, x2, diag=False, **params):
        from linear_operator import to_dense
        k = to_dense(self.base_kernel.forward(x1, x2, diag=diag, **params))
        return torch.round(k * 2.0 ** KBITS) / 2.0 ** KBITS


def _dy(rng, lo, hi, den=64):
    return rng.randint(int(math.ceil(lo * den)), int(math.floor(hi * den))) / den


class ConstLoss(gpytorch.mlls.AddedLossTerm):
    def __init__(self, value):
        self.value = value

    def loss(self, *params):
        return self.value.clone()


class Leaf(gpytorch.Module):
    """a user module with one positive parameter w (it can carry a prior on w and an added-loss term)"""

    def __init__(self, w):
        super().__init__()
        self.register_parameter("raw_w", torch.nn.Parameter(torch.zeros(())))
        self.register_constraint("raw_w", gpytorch.constraints.Positive())
        self.initialize(raw_w=self.raw_w_constraint.inverse_transform(torch.tensor(float(w))))

    @property
    def w(self):
        return self.raw_w_constraint.transform(self.raw_w)

    def forward(self, x):
        return x


class Holder(gpytorch.Module):
    """a gpytorch Module without registrations of its own that holds one child"""

    def __init__(self, child):
        super().__init__()
        self.child = child

    def forward(self, x):
        return x


CONTAINER_KINDS = ["list", "dict", "seq", "holder"]


def gen_extras(rng, depth=0, counter=None):
    """a nested structure of PLAIN torch containers (nn.ModuleList / nn.ModuleDict / nn.Sequential: tree nodes that are not gpytorch
    Modules and carry no registrations) and registration-free gpytorch Modules, with Leaf modules below them; ["ref", j] = the
    very Leaf object number j again (a module reachable along two paths)"""
    counter = counter if counter is not None else [0]
    kind = rng.choice(CONTAINER_KINDS if depth else CONTAINER_KINDS[:3])
    ch = []
    for _ in range(1 if kind == "holder" else rng.randint(1, 2)):
        r = rng.random()
        if depth < 2 and r < 0.4:
            ch.append(gen_extras(rng, depth + 1, counter))
        elif counter[0] > 0 and r > 0.85:
            ch.append(["ref", rng.randrange(counter[0])])
        else:
            ch.append(["leaf", _dy(rng, 0.25, 2)]); counter[0] += 1
    return [kind, ch]


def count_leaves(spec):
    return 1 if spec[0] == "leaf" else 0 if spec[0] == "ref" else sum(count_leaves(c) for c in spec[1])


def build_extras(spec, leaves):
    if spec[0] == "leaf":
        leaves.append(Leaf(spec[1]))
        return leaves[-1]
    if spec[0] == "ref":
        return leaves[spec[1]]
    mods = [build_extras(c, leaves) for c in spec[1]]
    if spec[0] == "list":
        return torch.nn.ModuleList(mods)
    if spec[0] == "dict":
        return torch.nn.ModuleDict({"k%d" % i: m for i, m in enumerate(mods)})
    if spec[0] == "seq":
        return torch.nn.Sequential(*mods)
    return Holder(mods[0])


class GP(gpytorch.models.ExactGP):
    def __init__(self, x, y, lik, mean, kern, added=(), shared_handle=False, extras=None):
        super().__init__(x, y, lik)
        self.mean_module, self.covar_module = mean, kern
        if shared_handle:
            # the pattern of gpytorch's own SGPR example: keep a handle to the inner kernel next to the outer one
            inner = kern.base_kernel if isinstance(kern, DyadicKernel) else kern
            self.base_covar_module = inner.base_kernel
        self._leaves = []
        if extras is not None:
            self.extras = build_extras(extras, self._leaves)
        self._added = list(added)
        self._verif_terms = {}      # the harness' own record: registration index -> (module, name, current term object)
        for i, (where, _) in enumerate(self._added):
            self._site(where).register_added_loss_term("verif_loss_%d" % i)

    def _site(self, where):
        """model | kernel (the outer kernel) | shared (the INNER kernel: with shared_handle it is reachable from the model under
        two names, its added-loss terms must still enter the objective once) | comp<i> (component i of a sum / product kernel:
        below the kernel's torch.nn.ModuleList) | leaf:<i> (a Leaf below the plain containers of `extras`)"""
        if where == "model":
            return self
        if where == "shared":
            k = self.covar_module
            while hasattr(k, "base_kernel"):
                k = k.base_kernel
            return k
        if where.startswith("comp"):
            k = self.covar_module.base_kernel if isinstance(self.covar_module, DyadicKernel) else self.covar_module
            return k.kernels[int(where[4:])]
        if where.startswith("leaf:"):
            return self._leaves[int(where[5:])]
        return self.covar_module

    def _ipks(self):
        return [m for m in self.covar_module.modules() if isinstance(m, gpytorch.kernels.InducingPointKernel)]

    def forward(self, x):
        for i, (where, val) in enumerate(self._added):
            term = ConstLoss(val)
            self._site(where).update_added_loss_term("verif_loss_%d" % i, term)
            self._verif_terms[i] = (self._site(where), "verif_loss_%d" % i, term)
        return gpytorch.distributions.MultivariateNormal(self.mean_module(x), self.covar_module(x))

    def record_library_terms(self):
        """the library's own added-loss terms (SGPR trace term of every InducingPointKernel): the current term object of the
        module itself, read on that very module (its own registrations come first; no recursion through containers involved)"""
        for j, ipk in enumerate(self._ipks()):
            for nm, t in ipk.named_added_loss_terms():
                if "." not in nm:
                    self._verif_terms[1000 + j] = (ipk, nm, t)


def _bt(rng, lo, hi, bs, tail=()):
    """a parameter value: python float without batch shape, else tensor of shape bs + tail"""
    if not bs and not tail:
        return rng.uniform(lo, hi)
    shape = tuple(bs) + tuple(tail)
    return torch.tensor([rng.uniform(lo, hi) for _ in range(int(torch.Size(shape).numel()))]).reshape(shape)


def make_kernel(name, d, rng, bs=(), cp=None):
    """cp: prior objects handed to the library's own CONSTRUCTORS (<parameter>_prior=...), keyed by the harness' target name"""
    k = gpytorch.kernels
    B = torch.Size(bs)
    cp = cp or {}
    L1, L2 = dict(lengthscale_prior=cp.get("lengthscale")), dict(lengthscale_prior=cp.get("lengthscale2"))
    O1, O2 = dict(outputscale_prior=cp.get("outputscale")), dict(outputscale_prior=cp.get("outputscale2"))
    ls = lambda: _bt(rng, 0.4, 2.0, bs, (1, 1) if bs else ())  # noqa: E731
    if name == "rbf":
        m = k.RBFKernel(batch_shape=B, **L1); m.lengthscale = ls()
    elif name.startswith("matern"):
        m = k.MaternKernel(nu={"05": 0.5, "15": 1.5, "25": 2.5}[name[-2:]], batch_shape=B, **L1); m.lengthscale = ls()
    elif name == "rq":
        m = k.RQKernel(batch_shape=B, **L1)     # (RQKernel has no alpha_prior argument)
        m.lengthscale = ls(); m.alpha = _bt(rng, 0.5, 3, bs, (1,) if bs else ())
    elif name in ("scale_rbf", "scale_matern"):
        base = k.RBFKernel(batch_shape=B, **L1) if name == "scale_rbf" else k.MaternKernel(nu=2.5, batch_shape=B, **L1)
        base.lengthscale = ls()
        m = k.ScaleKernel(base, batch_shape=B, **O1); m.outputscale = _bt(rng, 0.3, 3, bs)
    elif name == "rbf+linear":
        a = k.RBFKernel(batch_shape=B, **L1); a.lengthscale = ls()
        b = k.LinearKernel(batch_shape=B, variance_prior=cp.get("variance")); b.variance = _bt(rng, 0.2, 2, bs, (1, 1) if bs else ())
        m = a + b
    elif name in ("ard_rbf", "ard_matern"):
        m = k.RBFKernel(ard_num_dims=d, batch_shape=B, **L1) if name == "ard_rbf" else k.MaternKernel(nu=1.5, ard_num_dims=d, batch_shape=B, **L1)
        m.lengthscale = _bt(rng, 0.4, 2.0, bs, (1, d))
    elif name == "scale_ard_rbf":
        base = k.RBFKernel(ard_num_dims=d, batch_shape=B, **L1); base.lengthscale = _bt(rng, 0.4, 2.0, bs, (1, d))
        m = k.ScaleKernel(base, batch_shape=B, **O1); m.outputscale = _bt(rng, 0.3, 3, bs)
    elif name == "scale_rbf+scale_matern":
        a = k.ScaleKernel(k.RBFKernel(batch_shape=B, **L1), batch_shape=B, **O1)
        b = k.ScaleKernel(k.MaternKernel(nu=2.5, batch_shape=B, **L2), batch_shape=B, **O2)
        a.base_kernel.lengthscale = ls(); a.outputscale = _bt(rng, 0.3, 2, bs)
        b.base_kernel.lengthscale = ls(); b.outputscale = _bt(rng, 0.3, 2, bs)
        m = a + b
    elif name == "rbf*matern15":
        a = k.RBFKernel(batch_shape=B, **L1); a.lengthscale = ls()
        b = k.MaternKernel(nu=1.5, batch_shape=B, **L2); b.lengthscale = ls()
        m = a * b
    elif name == "poly":
        m = k.PolynomialKernel(power=2, batch_shape=B, offset_prior=cp.get("offset")); m.offset = _bt(rng, 0.2, 2, bs, (1,) if bs else ())
    return m


def make_mean(name, d, rng, bs=(), cp=None):
    B = torch.Size(bs)
    cp = cp or {}
    if name == "zero":
        return gpytorch.means.ZeroMean(batch_shape=B)
    if name == "constant":
        m = gpytorch.means.ConstantMean(batch_shape=B, constant_prior=cp.get("constant"))
        # never exactly 0: positive-support priors are placed on constant**2 (log density undefined at 0)
        m.constant.data = torch.tensor([_dy(rng, 1 / 64, 2) * rng.choice([-1, 1]) for _ in range(max(1, B.numel()))]).reshape(B)
        return m
    m = gpytorch.means.LinearMean(d, batch_shape=B)
    m.weights.data = torch.tensor([_dy(rng, -1, 1) for _ in range(max(1, B.numel()) * d)]).reshape(*B, d, 1)
    m.bias.data = torch.tensor([_dy(rng, -1, 1) for _ in range(max(1, B.numel()))]).reshape(*B, 1)
    return m


def make_lik(name, n, rng, bs=(), full=(), cp=None):
    B = torch.Size(bs)
    cp = cp or {}
    if name == "gaussian":
        l = gpytorch.likelihoods.GaussianLikelihood(batch_shape=B, noise_prior=cp.get("noise"))
        l.noise = _bt(rng, 0.05, 0.8, bs, (1,) if bs else ())
        return l
    F = torch.Size(full)
    noise = torch.tensor([_dy(rng, 0.05, 0.8) for _ in range(max(1, F.numel()) * n)]).reshape(*F, n)
    l = gpytorch.likelihoods.FixedNoiseGaussianLikelihood(noise, learn_additional_noise=(name == "fixed+learned"),
                                                          batch_shape=B, **({"noise_prior": cp["second_noise"]} if cp.get("second_noise") is not None else {}))
    if name == "fixed+learned":
        l.second_noise = _bt(rng, 0.05, 0.5, bs, (1,) if bs else ())
    return l


def prior_targets(model, lik, case):
    """name -> (module, attribute, component) of every constrained parameter that can carry a prior in this case;
    component in kernel / mean / lik names the batch shape the owning module was built with"""
    t = {}
    kern = model.covar_module
    if isinstance(kern, DyadicKernel):
        kern = kern.base_kernel
    kn = case["kernel"]
    if kn in ("rbf", "matern05", "matern15", "matern25", "rq", "ard_rbf", "ard_matern"):
        t["lengthscale"] = (kern, "lengthscale", "kernel")
    if kn in ("scale_rbf", "scale_matern", "scale_ard_rbf"):
        t["lengthscale"] = (kern.base_kernel, "lengthscale", "kernel")
        t["outputscale"] = (kern, "outputscale", "kernel")
    if kn == "rbf+linear":
        t["lengthscale"] = (kern.kernels[0], "lengthscale", "kernel")
        t["variance"] = (kern.kernels[1], "variance", "kernel")
    if kn == "scale_rbf+scale_matern":
        t["lengthscale"] = (kern.kernels[0].base_kernel, "lengthscale", "kernel")
        t["outputscale"] = (kern.kernels[0], "outputscale", "kernel")
        t["lengthscale2"] = (kern.kernels[1].base_kernel, "lengthscale", "kernel")
        t["outputscale2"] = (kern.kernels[1], "outputscale", "kernel")
    if kn == "rbf*matern15":
        t["lengthscale"] = (kern.kernels[0], "lengthscale", "kernel")
        t["lengthscale2"] = (kern.kernels[1], "lengthscale", "kernel")
    if kn == "rq":
        t["alpha"] = (kern, "alpha", "kernel")
    if kn == "poly":
        t["offset"] = (kern, "offset", "kernel")
    if kn in SGPR_KERNELS:
        ipk = model._ipks()[0]
        t["lengthscale"] = (ipk.base_kernel.base_kernel, "lengthscale", "kernel")
        t["outputscale"] = (ipk.base_kernel, "outputscale", "kernel")
        for o in (kern.kernels if hasattr(kern, "kernels") else []):
            if o is not ipk:
                t["variance"] = (o, "variance", "kernel")
    for i, lf in enumerate(getattr(model, "_leaves", [])):
        t["leaf:%d" % i] = (lf, "w", "leaf")
    if case["lik"] == "gaussian":
        t["noise"] = (lik.noise_covar, "noise", "lik")
    if case["lik"] == "fixed+learned":
        t["second_noise"] = (lik.second_noise_covar, "noise", "lik")
    if case["mean"] == "constant":
        t["constant"] = (model.mean_module, "constant", "mean")
    return t


COMPONENT = dict(noise="lik", second_noise="lik", constant="mean")
SGPR_KERNELS = ["ipk", "ipk+linear", "linear+ipk", "ipk*linear"]
# parameters for which the library's constructors take a `<parameter>_prior=` argument (of the components built here)
CTOR_TARGETS = {"lengthscale", "lengthscale2", "outputscale", "outputscale2", "variance", "offset", "noise", "second_noise", "constant"}


def ctor_priors(case):
    """prior objects that go through the library's own constructors: harness target name -> prior object"""
    return {p["target"]: make_prior(p["spec"]) for p in case.get("priors", []) if p.get("ctor")}


def make_sgpr_kernel(name, d, rng, lik, Z, cp=None):
    """InducingPointKernel(ScaleKernel(RBF), Z, lik) alone / as a summand / as a factor (then it sits below the torch.nn.ModuleList
    of the Additive / Product kernel); well separated inducing points and short lengthscales keep K_ZZ well conditioned"""
    k = gpytorch.kernels
    cp = cp or {}
    base = k.ScaleKernel(k.RBFKernel(lengthscale_prior=cp.get("lengthscale")), outputscale_prior=cp.get("outputscale"))
    base.base_kernel.lengthscale = rng.uniform(0.4, 1.0); base.outputscale = rng.uniform(0.5, 2.0)
    ipk = k.InducingPointKernel(base, torch.tensor(Z), lik)
    if name == "ipk":
        return ipk
    lin = k.LinearKernel(variance_prior=cp.get("variance")); lin.variance = rng.uniform(0.2, 1.0)
    return {"ipk+linear": lambda: ipk + lin, "linear+ipk": lambda: lin + ipk, "ipk*linear": lambda: ipk * lin}[name]()


def sgpr_terms(model, X, Sdiag):
    """the documented value of the SGPR trace term of every InducingPointKernel of the model: -1/2 sum_i (K_XX - Q)_ii / noise_i,
    Q = K_XZ K_ZZ^-1 K_ZX, computed densely from the BASE kernel (independent of the term objects)"""
    from linear_operator import to_dense
    out = []
    with torch.no_grad(), gs.debug(False):
        for ipk in model._ipks():
            Z = ipk.inducing_points
            Kxx = to_dense(ipk.base_kernel(X, X)); Kxz = to_dense(ipk.base_kernel(X, Z)); Kzz = to_dense(ipk.base_kernel(Z, Z))
            dg = (Kxx - Kxz @ torch.linalg.solve(Kzz, Kxz.transpose(-1, -2))).diagonal(dim1=-1, dim2=-2)
            out.append(float(-0.5 * sum(dg[i].item() / float(Sdiag[i]) for i in range(dg.shape[-1]))))
    return out


def prior_component(case, p):
    return COMPONENT.get(p["target"], "kernel")


def attach_priors(model, lik, case):
    """register the case's priors.  Registration NAMES (case["naming"]): `unique` = a fresh name per prior, `canonical` =
    the name gpytorch's constructors use (<parameter>_prior, so two kernels of the same kind collide by name), `same` =
    one common name for every prior of the model (a second prior on the same module falls back to a fresh name, since
    names are unique per module).  A prior entry with share_with=j registers the very prior OBJECT of entry j."""
    tg = prior_targets(model, lik, case)
    used, objs = {}, {}
    model._verif_regs = []          # what the harness registered: (module, registration name, prior object)
    for i, p in enumerate(case.get("priors", [])):
        if p["target"] not in tg or p.get("ctor"):
            continue            # ctor: the library's constructor registered it
        mod, attr, _ = tg[p["target"]]
        f = CLOSURE_T[p["closure"]]
        # (with constructor-registered priors around, the harness' own registrations keep out of the library's names)
        name = {"unique": "verif_prior_%d" % i, "canonical": attr + "_prior", "same": "prior"}[
            "unique" if case.get("ctor") else case.get("naming", "unique")]
        if name in used.setdefault(id(mod), set()):
            name = "verif_prior_%d" % i
        used[id(mod)].add(name)
        obj = objs[p["share_with"]] if p.get("share_with") in objs else make_prior(p["spec"])
        objs[i] = obj
        model._verif_regs.append((mod, name, obj))
        if p["closure"] == "id" and p.get("by_name"):
            mod.register_prior(name, obj, attr)
        else:
            mod.register_prior(name, obj, (lambda a, g: (lambda m: g(getattr(m, a))))(attr, f))


def expected_priors(model, lik, case, nb):
    """per batch element: list of expected log-prior values (mpmath), from the constrained values.
    Batch semantics: a module with batch shape P broadcasts against the full batch shape F from the right
    (torch broadcasting), so element idx of F is governed by the parameter element idx[-len(P):] (size-1 dims -> 0);
    every parameter has shape P + (non-batch dims), all of whose entries belong to that element.  P is the batch shape
    the owning component (kernel / mean / likelihood) was BUILT with (case["_shapes"]), () for a non-batch module: then
    every entry of the parameter (e.g. all ARD lengthscales) counts for every batch element."""
    tg = prior_targets(model, lik, case)
    res = [[] for _ in range(nb)]
    F = tuple(case.get("_bshape", ()))
    shapes = case.get("_shapes", {})
    for p in case.get("priors", []):
        if p["target"] not in tg:
            continue
        mod, attr, comp = tg[p["target"]]
        P = tuple(shapes.get(comp, ()))
        v = getattr(mod, attr).detach()
        fm = CLOSURE_M[p["closure"]]
        memo = {}
        for b in range(nb):
            idx, rem = [], b
            for s_ in reversed(F):
                idx.append(rem % s_); rem //= s_
            idx = list(reversed(idx))
            pidx = tuple((i if s_ > 1 else 0) for i, s_ in zip(idx[len(F) - len(P):], P)) if P else ()
            if pidx not in memo:
                elems = v[pidx].reshape(-1).tolist() if P else v.reshape(-1).tolist()
                memo[pidx] = sum((prior_logpdf(p["spec"], fm(mp.mpf(e))) for e in elems), mp.mpf(0))
            res[b].append(memo[pidx])
    return res


def slot_priors(model, lik, case):
    """every prior term as the model's `bprior`: (batch shape P the owning component was built with, entries per
    batch element, per-entry log densities in row-major order over the parameter's shape P + tail); which entries count
    for which batch element of the objective is decided by the Coq model (Models/C02_priors.v: slot_sum)"""
    tg = prior_targets(model, lik, case)
    shapes = case.get("_shapes", {})
    out = []
    for p in case.get("priors", []):
        if p["target"] not in tg:
            continue
        mod, attr, comp = tg[p["target"]]
        P = tuple(shapes.get(comp, ()))
        v = getattr(mod, attr).detach()
        fm = CLOSURE_M[p["closure"]]
        vals = [float(prior_logpdf(p["spec"], fm(mp.mpf(e)))) for e in v.reshape(-1).tolist()]
        out.append((P, len(vals) // max(1, int(torch.Size(P).numel())), vals))
    return out


def nat_list(l):
    return "[" + "; ".join("%d%%nat" % i for i in l) + "]" if len(l) else "(@nil nat)"


def slot_term(bps):
    return "[" + "; ".join("(%s, %d%%nat, %s)" % (nat_list(P), t, C.qc_vec(v)) for P, t, v in bps) + "]" if bps else "(@nil bprior)"


def unravel(b, F):
    idx, rem = [], b
    for s_ in reversed(F):
        idx.append(rem % s_); rem //= s_
    return list(reversed(idx))


def module_tree(model):
    """the model as the Coq model's `mtree`: structure from named_children (public torch API), the priors of a module
    from the harness' own registration record.  -> (Coq term, {python id -> module number}, {name -> number},
    {python id of prior -> number})"""
    ids, names, pids, by_mod = {}, {}, {}, {}
    for mod, name, pr in getattr(model, "_verif_regs", []):
        by_mod.setdefault(id(mod), []).append((names.setdefault(name, len(names)), pids.setdefault(id(pr), len(pids))))

    def walk(mod):
        me = ids.setdefault(id(mod), len(ids))
        ps = "; ".join("(%d%%nat, %d%%nat)" % q for q in by_mod.get(id(mod), []))
        ch = "; ".join(walk(c) for _, c in mod.named_children())
        return "(MNode %d%%nat [%s] [%s])" % (me, ps, ch)
    return walk(model), ids, names, pids


def added_tree(model):
    """the model's module tree with its ADDED-LOSS registrations (harness' own record; call after a forward pass)
    -> (Coq term, {name -> number}, {python id of term object -> number})"""
    ids, names, oids, by_mod = {}, {}, {}, {}
    if hasattr(model, "record_library_terms"):
        model.record_library_terms()
    for i in sorted(getattr(model, "_verif_terms", {})):
        mod, name, term = model._verif_terms[i]
        by_mod.setdefault(id(mod), []).append((names.setdefault(name, len(names)), oids.setdefault(id(term), len(oids))))

    def walk(mod):
        me = ids.setdefault(id(mod), len(ids))
        ps = "; ".join("(%d%%nat, %d%%nat)" % q for q in by_mod.get(id(mod), []))
        ch = "; ".join(walk(c) for _, c in mod.named_children())
        return "(MNode %d%%nat [%s] [%s])" % (me, ps, ch)
    return walk(model), names, oids


def reg_tree(model, own):
    """the module tree (structure from named_children) with, per module, its OWN registrations own(mod) -> [(name, object)]
    -> (Coq term, {name -> number}, {python id of object -> number})"""
    names, oids, ids = {}, {}, {}

    def walk(mod):
        me = ids.setdefault(id(mod), len(ids))
        ps = "; ".join("(%d%%nat, %d%%nat)" % (names.setdefault(n, len(names)), oids.setdefault(id(o), len(oids))) for n, o in own(mod))
        ch = "; ".join(walk(c) for _, c in mod.named_children())
        return "(MNode %d%%nat [%s] [%s])" % (me, ps, ch)
    return walk(model), names, oids


def own_constraints(mod):
    """the constraints registered on the module itself, through the public per-parameter accessor"""
    out = []
    if isinstance(mod, gpytorch.Module):
        for nm, _ in mod.named_parameters(recurse=False):
            c = mod.constraint_for_parameter_name(nm)
            if c is not None:
                out.append((nm + "_constraint", c))
    return out


def own_params(mod):
    return list(mod.named_parameters(recurse=False))


def impl_named_regs(it, names, oids):
    return sorted((names.get(full.rsplit(".", 1)[-1], -1), oids.get(id(o), -1)) for full, o in it)


TRAVERSALS = {"named-constraints": (own_constraints, lambda m: m.named_constraints()),
              "named-hyperparameters": (own_params, lambda m: m.named_hyperparameters())}
TRAVERSAL_FAMS = ("container", "shared", "sgpr", "samename")


def impl_named_added(model, names, oids):
    """model.named_added_loss_terms() as sorted (name number, term object number) pairs"""
    return sorted((names.get(full.rsplit(".", 1)[-1], -1), oids.get(id(term), -1)) for full, term in model.named_added_loss_terms())


def impl_named_priors(model, ids, names, pids):
    """model.named_priors() as sorted (module number, name number, prior number) triples (-1 = not a registered one)"""
    out = []
    for full, mod, pr, _closure, _ in model.named_priors():
        out.append((ids.get(id(mod), -1), names.get(full.rsplit(".", 1)[-1], -1), pids.get(id(pr), -1)))
    return sorted(out)


# --------------------------------------------------------------------------- case generation

def sep_points(rng, k, d):
    grid = lambda: rng.randint(-24, 24) / 8.0  # noqa: E731
    for _ in range(300):
        pts = [[grid() for _ in range(d)] for _ in range(k)]
        if all(max(abs(a - b) for a, b in zip(p, q)) >= 0.25 for p, q in itertools.combinations(pts, 2)):
            return pts
    return pts


def gen_priors(rng, p_any=0.75):
    out = []
    if rng.random() > p_any:
        return out
    for target in ("lengthscale", "outputscale", "noise", "constant", "variance", "alpha", "offset", "second_noise",
                   "lengthscale2", "outputscale2"):
        if rng.random() < 0.55:
            spec = gen_prior(rng)
            closure = rng.choice(CLOSURES)
            if target in ("outputscale", "outputscale2", "constant") and spec["kind"] == "smoothedbox":
                # SmoothedBoxPrior is a multivariate prior over the LAST dimension (it sums over it); outputscale and the
                # mean constant have shape batch_shape, so their last dimension would be a batch dimension
                spec = dict(kind="gamma", a=rng.randint(8, 32) / 8.0, b=rng.randint(4, 32) / 8.0)
            if target == "constant":
                closure = rng.choice(["id", "square"])
                if closure == "id":
                    spec = dict(kind="normal", a=rng.randint(-8, 8) / 8.0, b=rng.randint(4, 16) / 8.0)
            elif closure == "log":
                spec = dict(kind="normal", a=rng.randint(-8, 8) / 8.0, b=rng.randint(4, 16) / 8.0)
            out.append(dict(target=target, spec=spec, closure=closure, by_name=rng.random() < 0.5))
    if out and rng.random() < 0.3:      # a second prior on the same parameter (both must count)
        out.append(dict(target=out[0]["target"], spec=gen_prior(rng), closure="square" if out[0]["target"] == "constant" else "id",
                        by_name=False))
        if out[-1]["target"] == "constant":
            out[-1]["spec"] = dict(kind="gamma", a=1.5, b=0.75)
    return out


def _sub_shape(rng, F):
    """a batch shape that broadcasts (from the right) against F: a suffix of F with dims replaced by 1 at random"""
    k = rng.randint(0, len(F))
    return tuple(1 if rng.random() < 0.25 else s_ for s_ in F[len(F) - k:])


BATCH_REGIMES = ["same", "independent", "nonbatch-kernel", "independent", "nonbatch-lik+mean"]


def _pos_prior(rng):
    """a prior for a positive scalar through the identity closure (no SmoothedBox: it sums over the last dimension)"""
    while True:
        spec = gen_prior(rng)
        if spec["kind"] != "smoothedbox":
            return spec


def gen_case(rng, tier, family, regime=None, ctor=False):
    n = rng.choice([1, 2, 2, 3, 3, 3, 4, 4, 5] if tier == "quick" else [1, 2, 3, 3, 4, 4, 5, 5, 6, 7])
    d = rng.randint(1, 3)
    c = dict(family=family, n=n, d=d, kernel=rng.choice(KERNELS), mean=rng.choice(MEANS), lik=rng.choice(LIKS),
             hseed=rng.randint(0, 10 ** 9), priors=gen_priors(rng),
             added=[dict(where=rng.choice(["model", "kernel"]), value=rng.randint(-40, 40) / 16.0)
                    for _ in range(rng.choice([0, 0, 1, 2]))],
             fast_log_prob=rng.random() < 0.7, naming=rng.choice(NAMINGS))
    if family == "batch":
        # every component (kernel, mean, likelihood) and the data get their OWN batch shape: a right-aligned sub-shape of
        # a full shape F (a suffix of F, dims replaced by 1 at random; () = a non-batch module shared by all elements)
        F = rng.choice([(2,), (3,), (2, 2), (2, 3), (3, 2), (2, 1, 2)] if tier == "quick" else
                       [(2,), (3,), (2, 2), (2, 3), (3, 2), (2, 1, 2), (2, 2, 2), (4,), (3, 3)])
        regime = regime or rng.choice(BATCH_REGIMES)
        if regime.startswith("nonbatch"):
            F = rng.choice([f for f in [(2, 2), (2, 3), (3, 2), (2, 1, 2), (2, 2, 2), (3, 3)] if tier != "quick" or f not in [(2, 2, 2), (3, 3)]])
        sub = lambda: _sub_shape(rng, F)  # noqa: E731
        if regime == "same":
            P = rng.choice([F, F, sub()])
            shapes = dict(kernel=P, mean=P, lik=P, data=rng.choice([F, (), sub()]))
        elif regime == "independent":
            shapes = dict(kernel=sub(), mean=sub(), lik=sub(), data=sub())
        elif regime == "nonbatch-kernel":
            shapes = dict(kernel=(), mean=sub(), lik=sub(), data=sub())
            shapes[rng.choice(["mean", "lik", "data"])] = F
        else:
            shapes = dict(kernel=sub(), mean=(), lik=(), data=sub())
            shapes[rng.choice(["kernel", "data"])] = F
        if rng.random() < 0.5:      # the targets carry the full shape (otherwise: whatever the components broadcast to)
            shapes["y"] = F
        c.update(n=rng.randint(1, 3), shapes={k: list(v) for k, v in shapes.items()}, regime=regime,
                 kernel=rng.choice(["rbf", "matern15", "rq", "scale_rbf", "ard_rbf", "ard_rbf", "scale_ard_rbf", "ard_matern",
                                    "scale_rbf+scale_matern", "poly"]),
                 mean=rng.choice(["zero", "constant", "constant"]), lik=rng.choice(["gaussian", "gaussian", "fixed", "fixed+learned"]),
                 d=rng.randint(2, 3))
        if regime.startswith("nonbatch") and rng.random() < 0.7:
            # coincident sizes are where silent mis-broadcasts hide: let the number of input dimensions (= length of an ARD
            # lengthscale vector) equal the last batch size, so that a `1 x d` parameter is shape-compatible with the batch
            c["d"] = max(2, F[-1])
        d = c["d"]
        if regime == "nonbatch-kernel":
            # a shared (non-batch) kernel with a vector parameter and a prior on it inside a batched objective
            c["kernel"] = rng.choice(["ard_rbf", "ard_matern", "scale_ard_rbf", "rq", "scale_rbf+scale_matern"])
            if not any(p["target"] == "lengthscale" for p in c["priors"]):
                c["priors"].append(dict(target="lengthscale", spec=gen_prior(rng), closure=rng.choice(["id", "square"]), by_name=rng.random() < 0.5))
        if regime == "nonbatch-lik+mean":
            c["lik"] = rng.choice(["gaussian", "fixed+learned"]); c["mean"] = "constant"
            tgt = "noise" if c["lik"] == "gaussian" else "second_noise"
            if not any(p["target"] == tgt for p in c["priors"]):
                c["priors"].append(dict(target=tgt, spec=gen_prior(rng), closure="id", by_name=rng.random() < 0.5))
        c["pattern"] = "k%s:m%s:l%s:x%s" % tuple("x".join(map(str, shapes[k])) or "-" for k in ("kernel", "mean", "lik", "data"))
    if family == "multitask":
        c.update(n=rng.randint(1, 3), tasks=2, rank=rng.choice([0, 1]), noise_rank=rng.choice([0, 1]),
                 kernel=rng.choice(["rbf", "matern25", "rq"]), mean="constant", lik="multitask", added=[],
                 priors=[p for p in c["priors"] if p["target"] in ("lengthscale", "alpha")])
    if family == "shared":
        c.update(kernel=rng.choice(["scale_rbf", "scale_matern"]), shared_handle=True, n=rng.randint(2, 3),
                 priors=[dict(target="lengthscale", spec=gen_prior(rng), closure="id", by_name=rng.random() < 0.5)]
                 + [p for p in c["priors"] if p["target"] in ("outputscale", "noise")],
                 # an added-loss term ON the shared inner kernel (+ whatever was drawn for the model / outer kernel)
                 added=[dict(where="shared", value=rng.randint(4, 40) / 16.0)] + c["added"][:1])
    if family == "samename":
        # two components of the same kind, a prior on the same-named parameter of BOTH, registered under colliding names
        kn = rng.choice(TWO_COMPONENT)
        tgts = ["lengthscale", "lengthscale2"] + (["outputscale", "outputscale2"] if kn.startswith("scale") else [])
        pri = []
        for t in tgts:
            if t.startswith("lengthscale") or rng.random() < 0.7:
                spec = gen_prior(rng)
                if t.startswith("outputscale") and spec["kind"] == "smoothedbox":
                    spec = dict(kind="gamma", a=rng.randint(8, 32) / 8.0, b=rng.randint(4, 32) / 8.0)
                pri.append(dict(target=t, spec=spec, closure="id", by_name=rng.random() < 0.5))
        c.update(kernel=kn, n=rng.randint(2, 3), naming=rng.choice(["canonical", "same"]),
                 priors=pri + [p for p in c["priors"] if p["target"] in ("noise", "constant", "second_noise")])
    if family == "sharedprior":
        # ONE prior object registered on two different modules (prior = GammaPrior(..); RBF(lengthscale_prior=prior) +
        # Matern(lengthscale_prior=prior)): both parameters have a registered prior, both terms count
        kn = rng.choice(TWO_COMPONENT)
        spec = gen_prior(rng)
        c.update(kernel=kn, n=rng.randint(2, 3), naming=rng.choice(NAMINGS),
                 priors=[dict(target="lengthscale", spec=spec, closure="id", by_name=True),
                         dict(target="lengthscale2", spec=spec, closure="id", by_name=True, share_with=0)]
                 + [p for p in c["priors"] if p["target"] in ("noise", "constant")])
    if family == "container":
        # registrations BELOW plain torch containers: components of a sum / product kernel (kept in a torch.nn.ModuleList) and user
        # modules below nested ModuleList / ModuleDict / Sequential / registration-free gpytorch Modules of the model
        kn = rng.choice(TWO_COMPONENT + ["rbf+linear", "rbf+linear", "scale_rbf", "rbf"])
        extras = gen_extras(rng)
        nl = count_leaves(extras)
        below = ["leaf:%d" % i for i in range(nl)] + (["comp0", "comp1"] if ("+" in kn or "*" in kn) else [])
        added = [dict(where=rng.choice(below), value=rng.randint(4, 40) / 16.0 * rng.choice([-1, 1]))]
        for _ in range(rng.choice([0, 1, 2])):
            added.append(dict(where=rng.choice(below + ["model", "kernel"]), value=rng.randint(-40, 40) / 16.0))
        pri = list(c["priors"])
        for i in range(nl):
            if rng.random() < 0.6:
                pri.append(dict(target="leaf:%d" % i, spec=_pos_prior(rng), closure=rng.choice(["id", "square"]), by_name=False))
        c.update(kernel=kn, n=rng.randint(2, 3), extras=extras, added=added, priors=pri)
    if family == "sgpr":
        # the library's own added-loss term (SGPR trace term): InducingPointKernel alone, as a summand and as a factor
        n = rng.randint(2, 3)
        c.update(kernel=rng.choice(SGPR_KERNELS), n=n, lik=rng.choice(["gaussian", "gaussian", "fixed", "fixed+learned"]), added=c["added"][:1],
                 priors=[p for p in c["priors"] if p["target"] in ("lengthscale", "outputscale", "noise", "variance", "constant", "second_noise")])
        while True:
            Z = [[float(rng.randint(-3, 3)) for _ in range(d)] for _ in range(rng.randint(1, n))]
            if len({tuple(z) for z in Z}) == len(Z):
                break
        c["Z"] = Z
    if family == "mtlik-taskprior":
        # task_prior of MultitaskGaussianLikelihood (rank > 0): a prior over the task noise covariance matrix F F^T + noise I
        T = rng.choice([2, 3])
        glob = rng.random() < 0.7
        pri = [dict(target="mt_task_prior", spec=dict(kind="normal", a=rng.randint(-8, 8) / 8.0, b=rng.randint(4, 16) / 8.0), closure="id", ctor=True)]
        if glob and rng.random() < 0.5:
            pri.append(dict(target="mt_noise", spec=_pos_prior(rng), closure="id", ctor=True))
        c.update(n=rng.randint(1, 2), tasks=T, rank=rng.choice([0, 1]), noise_rank=rng.randint(1, 2), has_global_noise=glob,
                 has_task_noise=True, kernel=rng.choice(["rbf", "matern25"]), mean="constant", lik="multitask", added=[], priors=pri)
    if family == "mtlik":
        # MultitaskGaussianLikelihood in all rank / has_global_noise / has_task_noise configurations with the priors its own
        # constructor registers (noise_prior), + task_covar_prior of MultitaskKernel, constant_prior of the per-task means
        T = rng.choice([2, 3])
        glob, task = rng.choice([(True, True), (True, True), (True, True), (True, False), (False, True)])
        pri = [dict(target="mt_noise", spec=_pos_prior(rng), closure="id", ctor=True)]    # (SmoothedBox has event shape [1])
        nrm = lambda: dict(kind="normal", a=rng.randint(-8, 8) / 8.0, b=rng.randint(4, 16) / 8.0)  # noqa: E731
        if rng.random() < 0.4:
            pri.append(dict(target="mt_task_covar", spec=nrm(), closure="id", ctor=True))
        if rng.random() < 0.4:
            pri.append(dict(target="mt_constant", spec=nrm(), closure="id", ctor=True))
        if rng.random() < 0.5:
            pri.append(dict(target="lengthscale", spec=gen_prior(rng), closure="id", ctor=True))
        c.update(n=rng.randint(1, 2), tasks=T, rank=rng.choice([0, 1]), noise_rank=rng.choice([0, 0, 1]) if task else 0,
                 has_global_noise=glob, has_task_noise=task, kernel=rng.choice(["rbf", "matern25", "rq"]), mean="constant",
                 lik="multitask", added=[], priors=pri)
    if ctor:
        # priors handed to the library's own constructors (<parameter>_prior=...): the expected term is the prior's log density at
        # the parameter the argument name refers to
        seen = set()
        for p in c["priors"]:
            if p["target"] in CTOR_TARGETS and p["target"] not in seen and not p.get("share_with"):
                seen.add(p["target"])
                p.update(ctor=True, closure="id")
                if p["target"] == "constant":
                    p["spec"] = dict(kind="normal", a=rng.randint(-8, 8) / 8.0, b=rng.randint(4, 16) / 8.0)
        for t in (["offset"] if c["kernel"] == "poly" else ["lengthscale"]) + (["noise"] if c["lik"] == "gaussian" else []):
            if t not in seen:
                c["priors"].append(dict(target=t, spec=gen_prior(rng), closure="id", ctor=True))
        c["ctor"] = True
    if family == "grad":
        c.update(n=rng.randint(2, 4), lik=rng.choice(["gaussian", "fixed+learned"]),
                 kernel=rng.choice(["rbf", "matern25", "rq", "scale_rbf", "ard_rbf", "rbf+linear", "scale_rbf+scale_matern"]),
                 fast_log_prob=rng.random() < 0.5)
    c["dyadic"] = family != "grad" and c["n"] * c.get("tasks", 1) >= 4
    c["X"] = sep_points(rng, c["n"], d)
    c["y"] = [rng.randint(-16, 16) / 8.0 for _ in range(c["n"])]
    if family in MT_FAMS:
        c["y"] = [[rng.randint(-16, 16) / 8.0 for _ in range(c["tasks"])] for _ in range(c["n"])]
    return c


MT_FAMS = ("multitask", "mtlik", "mtlik-taskprior")


class MTGP(gpytorch.models.ExactGP):
    def __init__(self, x, y, lik, T, rank, kern, mean_prior=None, task_covar_prior=None):
        super().__init__(x, y, lik)
        self.mean_module = gpytorch.means.MultitaskMean(gpytorch.means.ConstantMean(constant_prior=mean_prior), num_tasks=T)
        self.covar_module = gpytorch.kernels.MultitaskKernel(kern, num_tasks=T, rank=rank, task_covar_prior=task_covar_prior)

    def forward(self, x):
        return gpytorch.distributions.MultitaskMultivariateNormal(self.mean_module(x), self.covar_module(x))


def case_shapes(case):
    """batch shapes the components are built with: kernel / mean / lik / data (+ optional y), and what they broadcast to"""
    if case["family"] != "batch":
        sh = dict(kernel=(), mean=(), lik=(), data=())
    else:
        sh = {k: tuple(v) for k, v in case["shapes"].items()}
    sh["full"] = tuple(torch.broadcast_shapes(*sh.values()))
    # batch shape of likelihood(model(X)) itself; the targets may carry more batch dims (several target vectors, one model)
    sh["output"] = tuple(torch.broadcast_shapes(*[v for k, v in sh.items() if k not in ("y", "full")]))
    return sh


def build(case):
    """-> (model, lik, X, y).  Deterministic in the case."""
    rng = random.Random(case["hseed"])
    torch.manual_seed(case["hseed"] % (2 ** 31))
    fam = case["family"]
    n, d = case["n"], case["d"]
    if fam in MT_FAMS:
        T = case["tasks"]
        X = torch.tensor(case["X"]); y = torch.tensor(case["y"])
        cp = ctor_priors(case)
        glob, task = case.get("has_global_noise", True), case.get("has_task_noise", True)
        lik = gpytorch.likelihoods.MultitaskGaussianLikelihood(num_tasks=T, rank=case["noise_rank"], noise_prior=cp.get("mt_noise"),
                                                               task_prior=cp.get("mt_task_prior"),
                                                               has_global_noise=glob, has_task_noise=task)
        if glob:
            lik.noise = rng.uniform(0.05, 0.5)
        if task and case["noise_rank"] == 0:
            lik.task_noises = torch.tensor([rng.uniform(0.05, 0.5) for _ in range(T)])
        elif task:
            lik.task_noise_covar_factor.data = torch.tensor([[rng.uniform(-0.7, 0.7) for _ in range(case["noise_rank"])] for _ in range(T)])
        kern = make_kernel(case["kernel"], d, rng, cp=cp)
        model = MTGP(X, y, lik, T, case["rank"], DyadicKernel(kern) if case.get("dyadic") else kern,
                     mean_prior=cp.get("mt_constant"), task_covar_prior=cp.get("mt_task_covar"))
        for bm in model.mean_module.base_means:
            bm.constant.data.fill_(rng.uniform(-1, 1))
        model.covar_module.task_covar_module.covar_factor.data = torch.tensor(
            [[rng.uniform(-1, 1) for _ in range(case["rank"])] for _ in range(T)]).reshape(T, case["rank"])
        model.covar_module.task_covar_module.var = torch.tensor([rng.uniform(0.2, 1.5) for _ in range(T)])
        # priors on the data kernel registered by the harness
        tg = {"lengthscale": (kern, "lengthscale"), "alpha": (kern, "alpha")}
        for i, p in enumerate(case.get("priors", [])):
            if p["target"] in tg and hasattr(kern, p["target"]) and not p.get("ctor"):
                mod, attr = tg[p["target"]]
                mod.register_prior("verif_prior_%d" % i, make_prior(p["spec"]),
                                   (lambda a, g: (lambda m: g(getattr(m, a))))(attr, CLOSURE_T[p["closure"]]))
        return model, lik, X, y
    sh = case_shapes(case)
    dshape, full = sh["data"], sh["full"]
    cp = ctor_priors(case)
    sgpr = case["kernel"] in SGPR_KERNELS
    if sgpr:
        lik = make_lik(case["lik"], n, rng, sh["lik"], full, cp=cp)
        kern = make_sgpr_kernel(case["kernel"], d, rng, lik, case["Z"], cp=cp)
    else:
        kern = make_kernel(case["kernel"], d, rng, sh["kernel"], cp=cp)
    if case.get("dyadic"):
        kern = DyadicKernel(kern)
    mean = make_mean(case["mean"], d, rng, sh["mean"], cp=cp)

    def expand_pts(pts, shape):
        base = torch.tensor(pts)
        if not shape:
            return base
        return torch.stack([base + 0.125 * i for i in range(torch.Size(shape).numel())]).reshape(*shape, *base.shape)
    X = expand_pts(case["X"], dshape)
    if fam == "batch":
        y = torch.tensor([[rng.randint(-16, 16) / 8.0 for _ in range(n)] for _ in range(max(1, torch.Size(full).numel()))]).reshape(*full, n)
    else:
        y = torch.tensor(case["y"])
    if not sgpr:
        lik = make_lik(case["lik"], n, rng, sh["lik"], full, cp=cp)
    added = []
    for a in case.get("added", []):
        val = torch.tensor(a["value"])
        if full:
            val = val + 0.25 * torch.arange(torch.Size(full).numel(), dtype=torch.float64).reshape(full)
        added.append((a["where"], val))
    model = GP(X, y, lik, mean, kern, added, shared_handle=bool(case.get("shared_handle")), extras=case.get("extras"))
    attach_priors(model, lik, case)
    if case.get("copied"):
        # the objective of a DEEP COPY of the model whose hyper-parameters are changed afterwards (what get_fantasy_model,
        # pyro sampling and user code do): every term is a function of the copy's own current parameter values
        model = copy.deepcopy(model)
        lik = model.likelihood
        crng = random.Random(case["hseed"] + 99)
        with torch.no_grad():
            for _, prm in model.named_parameters():
                prm.add_(torch.tensor([crng.choice([-0.5, -0.25, 0.25, 0.5]) for _ in range(prm.numel())]).reshape(prm.shape))
    return model, lik, X, y


def dense_inputs(model, lik, X, y, multitask=False):
    """the implementation's own K, m on the training inputs and S = cov(lik(f)) - K, per batch element"""
    model.train(); lik.train()
    with torch.no_grad(), gs.debug(False):
        tp = model.forward(X)
        K = tp.covariance_matrix
        mu = tp.mean
        A = lik(tp).covariance_matrix
    if multitask:
        mu = mu.reshape(*mu.shape[:-2], -1)
        y = y.reshape(*y.shape[:-2], -1)
    N = K.shape[-1]
    bshape = torch.broadcast_shapes(K.shape[:-2], A.shape[:-2], y.shape[:-1], mu.shape[:-1])
    K = K.expand(*bshape, N, N).reshape(-1, N, N); A = A.expand(*bshape, N, N).reshape(-1, N, N)
    mu = mu.expand(*bshape, N).reshape(-1, N); yy = y.expand(*bshape, N).reshape(-1, N)
    res = []
    for b in range(K.shape[0]):
        S = [[C.frac(A[b, i, j].item()) - C.frac(K[b, i, j].item()) for j in range(N)] for i in range(N)]
        res.append((K[b].tolist(), mu[b].tolist(), S, yy[b].tolist()))
    return tuple(bshape), res


def added_values(case, nb):
    vals = [[] for _ in range(nb)]
    for a in case.get("added", []):
        for b in range(nb):
            vals[b].append(a["value"] + 0.25 * b)
    return vals


def _ctx(case):
    return gs.fast_computations(log_prob=bool(case.get("fast_log_prob", True)))


def impl_objective(case, which, model=None, lik=None, X=None, y=None, grad=False):
    """public value of the objective (flattened over the batch)"""
    if model is None:
        model, lik, X, y = build(case)
    model.train(); lik.train()
    cls = gpytorch.mlls.ExactMarginalLogLikelihood if which == "mll" else gpytorch.mlls.LeaveOneOutPseudoLikelihood
    mll = cls(lik, model)
    with _ctx(case), gs.debug(False):
        if grad:
            v = mll(model(X), y)
            return v
        with torch.no_grad():
            v = mll(model(X), y)
    return v.reshape(-1).tolist()


# --------------------------------------------------------------------------- Coq terms

def mll_term(N, K, mu, S, y, priors, added, ndata):
    return "(%d%%nat, %s, %s, %s, %s, %s, %s, %s)" % (N, C.qc_mat(K), C.qc_vec(mu), C.qc_mat(S), C.qc_vec(y),
                                                      C.qc_vec(priors) if priors else "(@nil Qc)",
                                                      C.qc_vec(added) if added else "(@nil Qc)", C.qc_lit(ndata))


def loo_term(N, K, mu, S, y, priors, added):
    return "(%d%%nat, %s, %s, %s, %s, %s, %s)" % (N, C.qc_mat(K), C.qc_vec(mu), C.qc_mat(S), C.qc_vec(y),
                                                  C.qc_vec(priors) if priors else "(@nil Qc)",
                                                  C.qc_vec(added) if added else "(@nil Qc)")


def plan_case(case, model=None, lik=None, X=None, y=None, which=("mll", "loo"), slots=True):
    """Coq terms for one case: per batch element an MLL and (single-output) a LOO term.  slots=True: the prior values
    of a batch element are assembled by the Coq model from the per-entry log densities (CMB / CLB); slots=False (members
    of a SumMarginalLogLikelihood, multitask): one value per prior, summed here"""
    if model is None:
        model, lik, X, y = build(case)
    mt = case["family"] in MT_FAMS
    bshape, els = dense_inputs(model, lik, X, y, mt)
    case["_bshape"] = bshape
    case["_shapes"] = case_shapes(case)
    nb = len(els)
    slots = slots and not mt
    if slots:
        bpt = slot_term(slot_priors(model, lik, case))
    else:
        pri = expected_priors(model, lik, case, nb) if not mt else mt_priors(model, case, nb)
    add = added_values(case, nb)
    if case["kernel"] in SGPR_KERNELS:
        for b, (K, mu, S, yy) in enumerate(els):
            add[b] = add[b] + sgpr_terms(model, X, [S[i][i] for i in range(len(mu))])
    terms = []
    for b, (K, mu, S, yy) in enumerate(els):
        N = len(mu)
        pf = [] if slots else [float(v) for v in pri[b]]
        idx = nat_list(unravel(b, bshape))
        if "mll" in which:
            t = mll_term(N, K, mu, S, yy, pf, add[b], N)
            terms.append(("mll", b, "CMB %s %s %s" % (t, bpt, idx) if slots else "CM " + t))
        # LeaveOneOutPseudoLikelihood reshapes the marginal's mean to the targets' shape: it is only defined when the targets
        # have the batch shape of the model output (ExactMarginalLogLikelihood broadcasts); not compared otherwise
        if "loo" in which and not mt and N >= 2 and case["_shapes"]["output"] == case["_shapes"]["full"]:
            t = loo_term(N, K, mu, S, yy, pf, add[b])
            terms.append(("loo", b, "CLB %s %s %s" % (t, bpt, idx) if slots else "CL " + t))
    return terms


def mt_priors(model, case, nb):
    """expected log-prior terms of a multitask model: log density of the prior at the DOCUMENTED target of the constructor
    argument (constrained values, read through the public properties), independent of the registered closures"""
    kern = model.covar_module.data_covar_module
    if isinstance(kern, DyadicKernel):
        kern = kern.base_kernel
    lik = model.likelihood
    lp = lambda p, vals: sum((prior_logpdf(p["spec"], CLOSURE_M[p["closure"]](mp.mpf(e))) for e in vals), mp.mpf(0))  # noqa: E731
    out = []
    for p in case.get("priors", []):
        t = p["target"]
        if t == "mt_noise":
            # noise_prior: the prior of the noise variances -- every task noise (diagonal task noise, rank 0) and the global noise
            if case.get("has_task_noise", True) and case["noise_rank"] == 0:
                out.append(lp(p, lik.task_noises.detach().reshape(-1).tolist()))
            if case.get("has_global_noise", True):
                out.append(lp(p, lik.noise.detach().reshape(-1).tolist()))
        elif t == "mt_task_prior":
            # task_prior (rank > 0): prior over the task noise covariance matrix F F^T + noise I
            F = lik.task_noise_covar_factor.detach()
            M = F @ F.transpose(-1, -2) + (lik.noise.detach() if case.get("has_global_noise", True) else 0.0) * torch.eye(F.shape[-2])
            out.append(lp(p, M.reshape(-1).tolist()))
        elif t == "mt_task_covar":
            # task_covar_prior: prior over the inter-task covariance matrix B B^T + diag(v)
            tc = model.covar_module.task_covar_module
            Bf = tc.covar_factor.detach()
            out.append(lp(p, (Bf @ Bf.transpose(-1, -2) + torch.diag_embed(tc.var.detach())).reshape(-1).tolist()))
        elif t == "mt_constant":
            # constant_prior of the ConstantMean that MultitaskMean copies once per task
            out.append(lp(p, [bm.constant.detach().item() for bm in model.mean_module.base_means]))
        elif hasattr(kern, t):
            out.append(lp(p, getattr(kern, t).detach().reshape(-1).tolist()))
    return [list(out) for _ in range(nb)]


def decode(kind, r, N=None):
    rd = C.Reader(r)
    if rd.int() != 1:
        return None
    if kind == "mll":
        v = rd.expr(); lp = rd.expr()
        return dict(value=v, logp=lp)
    if kind == "sum":
        return dict(value=rd.expr())
    mus = rd.qs(N); s2 = rd.qs(N); same = rd.int(); v = rd.expr()
    return dict(value=v, mu=mus, s2=s2, same=same)


# --------------------------------------------------------------------------- sum MLL family

def gen_sum_case(rng, tier, form="plain", hetero=False):
    """form: "plain" = mll(outputs, targets); "params" = mll(outputs, targets, [x_1], ..., [x_k]) (every member gets its own
    argument list: its training inputs).  hetero: members of pairwise different sizes, mostly with fixed per-point noise
    (a likelihood whose noise operator depends on the number of points it is told about)"""
    k = rng.randint(2, 3)
    subs = []
    sizes = rng.sample([1, 2, 3, 4], k) if hetero else None
    for i in range(k):
        c = gen_case(rng, tier, "single")
        if hetero:
            c["n"] = sizes[i]
            c["lik"] = rng.choice(["fixed", "fixed", "fixed+learned", "gaussian"])
            c["X"] = sep_points(rng, c["n"], c["d"])
            c["y"] = [rng.randint(-16, 16) / 8.0 for _ in range(c["n"])]
            c["dyadic"] = c["n"] >= 4
        else:
            c["n"] = min(c["n"], 3); c["X"] = c["X"][:c["n"]]; c["y"] = c["y"][:c["n"]]
        c["fast_log_prob"] = True
        subs.append(c)
    return dict(family="sum", members=subs, kernel="+".join(s["kernel"] for s in subs), n=[s["n"] for s in subs], form=form,
                liks=[s["lik"] for s in subs])


def external_sum_kronecker_logdet_defect(case):
    """True iff, on this very case, the marginal covariance is a linear_operator SumKroneckerLinearOperator whose logdet
    (linear_operator code, outside /repo) disagrees with the dense log-determinant while its inverse quadratic form and its
    dense matrix are consistent - i.e. the disagreement of the MLL is caused outside /repo."""
    try:
        r = build(case)
        model, lik, X, y = r[0], r[1], r[2], r[3]
        model.train(); lik.train()
        with torch.no_grad(), gs.debug(False):
            marg = lik(model(X))
            L = marg.lazy_covariance_matrix
            if type(L).__name__ != "SumKroneckerLinearOperator":
                return False
            Kd = L.to_dense()
            rhs = torch.ones(*Kd.shape[:-1], 1, dtype=Kd.dtype)
            iq, ld = L.inv_quad_logdet(inv_quad_rhs=rhs, logdet=True)
            iq_ok = torch.allclose(iq, (rhs.transpose(-1, -2) @ torch.linalg.solve(Kd, rhs)).reshape(iq.shape), rtol=1e-8, atol=1e-8)
            ld_bad = not torch.allclose(ld, torch.logdet(Kd).reshape(ld.shape), rtol=1e-6, atol=1e-6)
            return bool(iq_ok and ld_bad)
    except Exception:  # noqa: BLE001
        return False


def build_sum(case):
    ms = [build(s) for s in case["members"]]
    ml = gpytorch.models.IndependentModelList(*[m[0] for m in ms])
    ll = gpytorch.likelihoods.LikelihoodList(*[m[1] for m in ms])
    return ms, ml, ll


def impl_sum(case):
    ms, ml, ll = build_sum(case)
    ml.train(); ll.train()
    mll = gpytorch.mlls.SumMarginalLogLikelihood(ll, ml)
    with torch.no_grad(), gs.debug(False):
        out = ml(*[m[2] for m in ms])
        if case.get("form", "plain") == "params":
            v = mll(out, [m[3] for m in ms], *[[m[2]] for m in ms])
        else:
            v = mll(out, [m[3] for m in ms])
    return float(v)


def plan_sum(case):
    ms, _, _ = build_sum(case)
    parts = []
    for sub, (model, lik, X, y) in zip(case["members"], ms):
        t = plan_case(sub, model, lik, X, y, which=("mll",), slots=False)
        parts.append(t[0][2][3:])
    return "CS [" + "; ".join(parts) + "]"


# --------------------------------------------------------------------------- gradients (TEST, not proved)

def raw_params(model):
    return [(nm, p) for nm, p in model.named_parameters() if p.requires_grad]


def grad_plan(case):
    """for every scalar raw hyper-parameter: Coq terms of the dense objective at theta +- h"""
    model, lik, X, y = build(case)
    params = raw_params(model)
    v = impl_objective(case, "mll", model, lik, X, y, grad=True)
    g = torch.autograd.grad(v, [p for _, p in params], allow_unused=True)
    model2, lik2, X2, y2 = build(case)
    v2 = impl_objective(case, "loo", model2, lik2, X2, y2, grad=True) if case["n"] >= 2 else None
    g2 = torch.autograd.grad(v2, [p for _, p in raw_params(model2)], allow_unused=True) if v2 is not None else None
    plan = []
    for pi, (nm, p) in enumerate(params):
        for ei in range(p.numel()):
            ag = 0.0 if g[pi] is None else g[pi].reshape(-1)[ei].item()
            ag2 = None if g2 is None else (0.0 if g2[pi] is None else g2[pi].reshape(-1)[ei].item())
            terms = {}
            for sgn in (+1, -1):
                m3, l3, X3, y3 = build(case)
                with torch.no_grad():
                    dict(m3.named_parameters())[nm].reshape(-1)[ei] += sgn * GRAD_H
                terms[sgn] = plan_case(dict(case), m3, l3, X3, y3)
            plan.append(dict(param=nm, elem=ei, autograd=dict(mll=ag, loo=ag2), terms=terms))
    return plan


# --------------------------------------------------------------------------- run

def run(out, ctx):
    tier, seed = ctx["tier"], ctx["seed"]
    rng = random.Random(seed * 104729 + 2)
    nc = dict(single=46, batch=15, multitask=8, shared=4, samename=8, sharedprior=3, sum=8, grad=6,
              container=14, sgpr=8, mtlik=12, ctor=6, ctor_batch=4) if tier == "quick" else \
        dict(single=200, batch=80, multitask=40, shared=15, samename=30, sharedprior=10, sum=40, grad=16,
             container=60, sgpr=32, mtlik=60, ctor=30, ctor_batch=16)   # ~4-5x the quick tier (sized to 15-20 min on an idle machine)
    nc = {k: max(1, int(v * ctx.get("scale", 1.0))) for k, v in nc.items()}   # scale < 1 only in builder sensitivity runs
    cases = [gen_case(rng, tier, fam, regime=BATCH_REGIMES[j % len(BATCH_REGIMES)] if fam == "batch" else None)
             for fam in ("single", "batch", "multitask", "shared", "samename", "sharedprior") for j in range(nc[fam])]
    # objectives of deep copies with changed hyper-parameters (own stream)
    crng = random.Random(seed * 7919 + 203)
    for _ in range(max(1, int((12 if tier == "quick" else 48) * ctx.get("scale", 1.0)))):
        c = gen_case(crng, tier, "single")
        c["n"] = min(c["n"], 4); c["X"] = c["X"][:c["n"]]; c["y"] = c["y"][:c["n"]]; c["dyadic"] = c["n"] >= 4
        if not c["priors"]:
            c["priors"] = gen_priors(crng, p_any=1.0)
        c["copied"] = True
        cases.append(c)
    # registrations below plain torch containers, the library's own added-loss term (SGPR) alone / as summand / as factor, priors
    # registered by the library's own constructors (own stream)
    trng = random.Random(seed * 7919 + 204)
    cases += [gen_case(trng, tier, fam) for fam in ("container", "sgpr", "mtlik") for _ in range(nc[fam])]
    cases += [gen_case(trng, tier, "mtlik-taskprior") for _ in range(max(2, nc["mtlik"] // 6))]
    cases += [gen_case(trng, tier, "single", ctor=True) for _ in range(nc["ctor"])]
    cases += [gen_case(trng, tier, "batch", regime=BATCH_REGIMES[j % len(BATCH_REGIMES)], ctor=True) for j in range(nc["ctor_batch"])]
    sums = [gen_sum_case(rng, tier) for _ in range(nc["sum"])]
    # the per-member-params call form and members of different sizes (own stream: the cases above stay what they were)
    srng = random.Random(seed * 7919 + 202)
    sums += [gen_sum_case(srng, tier, form=("params" if j % 4 != 3 else "plain"), hetero=(j % 4 != 2)) for j in range(nc["sum"])]
    grads = [gen_case(rng, tier, "grad") for _ in range(nc["grad"])]
    coq, owner = [], []
    named_impl, added_impl, trav_impl = {}, {}, {}
    build_err = {}
    for ci, c in enumerate(cases):
        try:
            built = build(c)
            planned = plan_case(c, *built)
        except Exception as e:  # noqa: BLE001  (constructing the model / evaluating its prior pieces raised)
            build_err[ci] = e
            continue
        for kind, b, term in planned:
            coq.append(term); owner.append(("case", ci, kind, b))
        if c["family"] not in MT_FAMS and not c.get("ctor"):
            # which registrations Module.named_priors yields, against the model's traversal of the same module tree
            tree, ids, names, pids = module_tree(built[0])
            coq.append("CN " + tree); owner.append(("named", ci, "named", 0))
            if c["added"] or c["kernel"] in SGPR_KERNELS:
                # ... and which added-loss terms Module.named_added_loss_terms yields (the terms exist after the forward pass
                # of plan_case)
                atree, anames, aoids = added_tree(built[0])
                coq.append("CNA " + atree); owner.append(("named-added", ci, "named-added", 0))
                try:
                    added_impl[ci] = impl_named_added(built[0], anames, aoids)
                except Exception as e:  # noqa: BLE001
                    added_impl[ci] = e
            try:
                named_impl[ci] = impl_named_priors(built[0], ids, names, pids)
            except Exception as e:  # noqa: BLE001
                named_impl[ci] = e
            if c["family"] in TRAVERSAL_FAMS:
                # the other traversals of the same module tree: every distinct constraint / parameter object exactly once
                for what, (own, call) in TRAVERSALS.items():
                    ttree, tn, to = reg_tree(built[0], own)
                    coq.append("CNA " + ttree); owner.append((what, ci, what, 0))
                    try:
                        trav_impl[(what, ci)] = impl_named_regs(call(built[0]), tn, to)
                    except Exception as e:  # noqa: BLE001
                        trav_impl[(what, ci)] = e
    for si, c in enumerate(sums):
        coq.append(plan_sum(c)); owner.append(("sum", si, "sum", 0))
    gplans = []
    for gi, c in enumerate(grads):
        gp = grad_plan(c)
        gplans.append(gp)
        for pi, ent in enumerate(gp):
            for sgn in (+1, -1):
                for kind, b, term in ent["terms"][sgn]:
                    coq.append(term); owner.append(("grad", gi, kind, (pi, sgn)))
    # heavier cases first inside every shard is not needed: shard small so that 16 coqc run in parallel
    res = C.coq_run_cases(ctx.get("tag", "C02"), IMPORTS, RUN_DEF, coq, shard=max(4, len(coq) // 48))
    out.rule = ("random exact-GP problems (n<=%d, d<=3; 14 kernels incl. ARD and sums/products of two components of the same kind x 3 means x Gaussian / fixed-noise / fixed+learned noise; "
                "Gamma / LogNormal / Normal / SmoothedBox priors on lengthscale, outputscale, noise, mean constant, ... (of either component) through "
                "identity / log / square closures, registered under fresh names / the constructors' names (<param>_prior) / one common name; 0-2 added-loss terms registered on the model or on the kernel (family shared: also ON the shared inner kernel; Module.named_added_loss_terms compared exactly with the traversal model, memo on term objects); "
                "fast_computations.log_prob on/off), batched models (full batch shapes of 1-3 dims; kernel, mean, likelihood and data each with their OWN batch shape: any right-aligned sub-shape "
                "with size-1 dims, incl. NON-batch modules with vector parameters (ARD) inside a batched objective and module batch shapes shorter than the data batch shape; every batch element "
                "against its own dense objective), two same-kind kernel components with same-named priors on both (family samename), one prior object registered on two modules (family sharedprior), Kronecker multitask (2 tasks, num_data = n*t), models that keep a second handle to the inner kernel (the SGPR example's base_covar_module pattern) with a prior on it, IndependentModelList + "
                "the same objectives on a deep copy of the model whose raw hyper-parameters were all shifted afterwards (family single, "
                ">= 1 prior, registered by parameter name or by closure), "
                "registrations BELOW plain torch containers (family container: added-loss terms and priors on the components of a sum / product kernel -- kept in a torch.nn.ModuleList -- and on user "
                "modules below nested nn.ModuleList / nn.ModuleDict / nn.Sequential / registration-free gpytorch Modules of the model, also reachable along two paths; "
                "named_priors, named_added_loss_terms, named_constraints and named_hyperparameters compared exactly with the traversal model, objective values with the dense definition), "
                "the library's own added-loss term (family sgpr: InducingPointKernel alone, as a summand and as a factor; expected trace term computed densely from the base kernel), "
                "priors registered by the library's OWN constructors (lengthscale_prior / outputscale_prior / variance_prior / offset_prior / constant_prior / noise_prior of kernels, means, "
                "Gaussian and fixed+learned likelihoods, non-batch and batched: label :ctor-priors; family mtlik: MultitaskGaussianLikelihood(noise_prior=) with 2-3 tasks in every rank / has_global_noise / "
                "has_task_noise configuration, MultitaskKernel(task_covar_prior=), per-task ConstantMean(constant_prior=); family mtlik-taskprior: task_prior with rank 1-2): the expected term is the prior's "
                "log density at the documented target, computed by the harness independently of the registered closure, "
                "SumMarginalLogLikelihood (2-3 members; called as mll(outputs, targets) and as mll(outputs, targets, [x_1], ..., [x_k]) "
                "with every member's own argument list; members of equal sizes and of pairwise different sizes 1..4 with "
                "fixed / fixed+learned / Gaussian noise).  ExactMarginalLogLikelihood and LeaveOneOutPseudoLikelihood are both "
                "compared on every single-output case; Module.named_priors is compared exactly (as (module, name, prior object) triples) with the model's "
                "traversal of the same module tree; which entries of a prior term count for which batch element is decided by the model (slot_sum).  non-trivial = n>=2 and the objective has at least one prior or added "
                "term, or n>=3" % (5 if tier == "quick" else 7))
    out.extra["tolerances"] = {"objective (dense/cholesky)": TOL, "LOO mu/sigma2 exact code-vs-definition": 0,
                                "gradient (autograd vs central differences of the Coq-evaluated objective, h=%g)" % GRAD_H:
                                    "rtol %g atol %g" % (GRAD_RTOL, GRAD_ATOL)}
    by = {}
    for o, r in zip(owner, res):
        by.setdefault(o[:2], []).append((o[2], o[3], r))
    # ---- values
    for ci, case in enumerate(cases):
        if ci in build_err:
            lab = "mll:%s%s" % (case["family"], ":ctor-priors" if case.get("ctor") else "")
            out.case(dict(objective="mll", family=case["family"], n=case["n"], kernel=case["kernel"], lik=case["lik"], hseed=case["hseed"],
                          build_error=True), False, label=lab)
            out.fail("impl-exception:build:%s:%s" % (lab, type(build_err[ci]).__name__),
                     "constructing the model / its prior pieces on the training inputs raised %r" % build_err[ci],
                     dict(case=_clean(case), objective="mll"))
            continue
        got = {}
        for kind, b, r in by.get(("case", ci), []):
            N = case["n"] * (case.get("tasks", 1))
            d = decode(kind, r, N)
            if d is None:
                out.fail("model:singular", "model could not invert K+S (exact rational)", case); continue
            got.setdefault(kind, {})[b] = d
        for kind in sorted(got):
            fam = case["family"]
            lab = "%s:%s%s%s" % (kind, fam, ":deepcopy" if case.get("copied") else "", ":ctor-priors" if case.get("ctor") else "")
            desc = dict(objective=kind, family=fam, copied=bool(case.get("copied")), n=case["n"], d=case["d"], kernel=case["kernel"], mean=case["mean"],
                        lik=case["lik"], pattern=case.get("pattern"), naming=case.get("naming"), npriors=len(case["priors"]), nadded=len(case["added"]),
                        fast_log_prob=case["fast_log_prob"], hseed=case["hseed"])
            out.case(desc, (case["n"] >= 2 and (case["priors"] or case["added"])) or case["n"] >= 3, label=lab)
            out.count("kernel=" + case["kernel"]); out.count("lik=" + case["lik"]); out.count("n=%d" % case["n"])
            if case["priors"]:
                out.count("naming=" + case.get("naming", "unique"))
            if fam == "batch":
                out.count("batch-regime=" + case["regime"]); out.count("batch-ndim=%d" % len(case["_shapes"]["full"]))
                if any(not case["_shapes"][prior_component(case, p)] for p in case["priors"]) and case["_shapes"]["full"]:
                    out.count("batch:prior-on-nonbatch-module")
            for p in case["priors"]:
                out.count("prior=%s/%s" % (p["spec"]["kind"], p["closure"]))
            try:
                vals = impl_objective(case, kind)
            except Exception as e:  # noqa: BLE001
                out.fail("impl-exception:%s:%s" % (lab, type(e).__name__), "implementation raised %r" % e, dict(case=_clean(case), objective=kind))
                continue
            if len(vals) != len(got[kind]):
                out.fail("batch-shape:%s" % lab, "objective has %d batch elements, dense model %d" % (len(vals), len(got[kind])),
                         dict(case=_clean(case), objective=kind))
                continue
            for b, d in sorted(got[kind].items()):
                if kind == "loo" and d["same"] != 1:
                    out.fail("model:loo-theorem", "code formulas and the leave-one-out definition differ in the exact model "
                             "(contradicts c02_loo_is_leave_one_out)", dict(case=_clean(case)), no_input=True)
                if not C.close(vals[b], d["value"], TOL, TOL):
                    key = "%s:%s%s%s" % (lab, "priors" if case["priors"] else "noprior", "+added" if case["added"] else "",
                                         ":" + case["regime"] if fam == "batch" else "")
                    if fam == "shared":
                        key = "%s:shared-module-handle:priors+added" % kind
                    if fam == "sharedprior":
                        key = "%s:shared-prior-object:priors" % kind
                    if kind == "mll" and case.get("lik") == "multitask" and external_sum_kronecker_logdet_defect(case):
                        # demonstrated cause outside /repo (installed linear_operator): SumKroneckerLinearOperator.logdet is wrong
                        # when the task-noise factor is singular (rank-deficient F F^T without global noise)
                        out.fail("external:linear_operator:SumKroneckerLinearOperator.logdet:singular-task-noise",
                                 "installed linear_operator: inv_quad_logdet of K_x (x) B + I (x) F F^T returns a wrong log-determinant when "
                                 "F F^T is singular (task-noise rank < number of tasks, no global noise); the exact MLL inherits it",
                                 dict(case=_clean(case), objective=kind, batch_element=b), impl=vals[b], model=float(d["value"]))
                        break
                    out.fail(key, "%s differs from its dense definition" % ("exact MLL" if kind == "mll" else "LOO pseudo-likelihood"),
                             dict(case=_clean(case), objective=kind, batch_element=b), impl=vals[b], model=float(d["value"]))
                    break
    # ---- named_added_loss_terms (discrete: exact)
    for ci, case in enumerate(cases):
        if ci not in added_impl:
            continue
        (_, _, r), = by[("named-added", ci)]
        want = sorted((r[k + 1], r[k + 2]) for k in range(0, len(r), 3))
        fam = case["family"]
        out.case(dict(objective="named_added_loss_terms", family=fam, kernel=case["kernel"], nterms=len(want), hseed=case["hseed"]),
                 len(want) >= 1, label="named-added:" + fam)
        key = "named-added:%s" % fam if fam != "shared" else "named-added:shared-module-handle"
        if isinstance(added_impl[ci], Exception):
            out.fail("impl-exception:" + key, "named_added_loss_terms() raised %r" % added_impl[ci], dict(case=_clean(case), objective="named-added"))
        elif added_impl[ci] != want:
            out.fail(key, "Module.named_added_loss_terms does not yield every distinct term object exactly once ((name, term object) "
                     "numbers; -1 = not one of the registered)", dict(case=_clean(case), objective="named-added"),
                     impl=[list(t) for t in added_impl[ci]], model=[list(t) for t in want])
    # ---- named_constraints / named_hyperparameters (discrete: exact)
    for (what, ci), got in sorted(trav_impl.items()):
        case = cases[ci]
        (_, _, r), = by[(what, ci)]
        want = sorted((r[k + 1], r[k + 2]) for k in range(0, len(r), 3))
        out.case(dict(objective=what, family=case["family"], kernel=case["kernel"], nobjects=len(want), hseed=case["hseed"]),
                 len(want) >= 2, label="%s:%s" % (what, case["family"]))
        if isinstance(got, Exception):
            out.fail("impl-exception:%s:%s" % (what, case["family"]), "%s() raised %r" % (what, got), dict(case=_clean(case), objective=what))
        elif got != want:
            out.fail("%s:%s" % (what, case["family"]), "Module.%s does not yield every distinct registered object exactly once ((name, object) "
                     "numbers; -1 = not one of the module tree's own)" % what.replace("-", "_"), dict(case=_clean(case), objective=what),
                     impl=[list(t) for t in got], model=[list(t) for t in want])
    # ---- named_priors (discrete: exact)
    for ci, case in enumerate(cases):
        if ci not in named_impl:
            continue
        (_, _, r), = by[("named", ci)]
        want = sorted(tuple(r[i:i + 3]) for i in range(0, len(r), 3))
        fam = case["family"]
        out.case(dict(objective="named_priors", family=fam, kernel=case["kernel"], naming=case.get("naming"), nregs=len(want),
                      hseed=case["hseed"]), len(want) >= 2, label="named-priors:" + fam)
        key = "named-priors:%s" % fam if fam != "sharedprior" else "named-priors:shared-prior-object:priors"
        if isinstance(named_impl[ci], Exception):
            out.fail("impl-exception:" + key, "named_priors() raised %r" % named_impl[ci], dict(case=_clean(case), objective="named"))
        elif named_impl[ci] != want:
            out.fail(key, "Module.named_priors does not yield every registration of every distinct module exactly once "
                     "((module, name, prior object) numbers; -1 = not one of the registered)", dict(case=_clean(case), objective="named"),
                     impl=[list(t) for t in named_impl[ci]], model=[list(t) for t in want])
    # ---- SumMarginalLogLikelihood
    for si, case in enumerate(sums):
        (_, _, r), = by[("sum", si)]
        d = decode("sum", r)
        out.case(dict(objective="sum", members=len(case["members"]), n=case["n"], kernel=case["kernel"], form=case.get("form", "plain"),
                      liks=case.get("liks")), True, label="sum:" + case.get("form", "plain"))
        if d is None:
            out.fail("model:singular", "model could not invert K+S (exact rational)", _clean(case)); continue
        try:
            v = impl_sum(case)
        except Exception as e:  # noqa: BLE001
            out.fail("impl-exception:sum:%s" % type(e).__name__, "implementation raised %r" % e, dict(case=_clean(case), objective="sum"))
            continue
        if not C.close(v, d["value"], TOL, TOL):
            out.fail("sum-mll" if case.get("form", "plain") == "plain" else "sum-mll:per-member-params",
                     "SumMarginalLogLikelihood%s differs from the mean of the members' dense objectives"
                     % ("" if case.get("form", "plain") == "plain" else " called as mll(outputs, targets, [x_1], ..., [x_k])"),
                     dict(case=_clean(case), objective="sum"), impl=v, model=float(d["value"]))
    # ---- gradients
    for gi, case in enumerate(grads):
        vals = {}
        for kind, (pi, sgn), r in by.get(("grad", gi), []):
            d = decode(kind, r, case["n"])
            if d is not None:
                vals[(kind, pi, sgn)] = d["value"]
        for pi, ent in enumerate(gplans[gi]):
            for kind in ("mll", "loo"):
                if (kind, pi, 1) not in vals or (kind, pi, -1) not in vals or ent["autograd"][kind] is None:
                    continue
                fd = float((vals[(kind, pi, 1)] - vals[(kind, pi, -1)]) / (2 * mp.mpf(GRAD_H)))
                ag = ent["autograd"][kind]
                out.case(dict(objective="grad-" + kind, param=ent["param"], elem=ent["elem"], n=case["n"], kernel=case["kernel"],
                              lik=case["lik"], npriors=len(case["priors"]), hseed=case["hseed"]), True, label="grad:" + kind)
                if not C.close(ag, fd, GRAD_ATOL, GRAD_RTOL):
                    out.fail("grad:%s:%s" % (kind, ent["param"].split(".")[-1]),
                             "autograd gradient of the %s w.r.t. a raw hyper-parameter differs from the central difference of the "
                             "dense objective" % kind, dict(case=_clean(case), objective="grad", kind=kind, param=ent["param"], elem=ent["elem"]),
                             impl=ag, model=fd)
    out.tested_not_proved = [
        "gradient of the objectives w.r.t. every raw hyper-parameter = gradient of the dense expression (autograd vs central "
        "differences of the Coq-evaluated objective; matrix calculus with log det is out of reach, DESIGN 9.3)",
        "agreement of torch/linear_operator Cholesky numerics with exact algebra",
        "values of the prior log-densities and of the constraint transforms (decided by C17; recomputed here with mpmath)",
        "transparency of plain torch containers for named_priors / named_constraints / named_hyperparameters (proved for the added-loss "
        "traversal, c02_added_terms_container_transparent; the other traversals are compared exactly on the container / sgpr / samename / shared families)",
        "the value of the SGPR trace term (computed densely by the harness from the base kernel, float64)",
        "completeness of named_priors when modules are shared (every registration of the first occurrence is yielded): "
        "proved for sharing-free trees, never-twice proved for all trees, the shared-handle family is compared exactly"]


def _clean(case):
    if "members" in case:
        return dict(case, members=[_clean(m) for m in case["members"]])
    return {k: v for k, v in case.items() if not k.startswith("_")}


def replay(path):
    d = json.load(open(path))
    info = d["case"]
    case = info["case"]
    kind = info.get("objective", "mll")
    if kind == "sum":
        r = C.coq_run_cases("C02_replay", IMPORTS, RUN_DEF, [plan_sum(case)])[0]
        m = float(decode("sum", r)["value"]); v = impl_sum(case)
        print("impl SumMLL", v); print("model     ", m)
        bad = not C.close(v, m, TOL, TOL)
    elif kind == "named":
        model = build(case)[0]
        tree, ids, names, pids = module_tree(model)
        r = C.coq_run_cases("C02_replay", IMPORTS, RUN_DEF, ["CN " + tree])[0]
        want = sorted(tuple(r[i:i + 3]) for i in range(0, len(r), 3))
        got = impl_named_priors(model, ids, names, pids)
        print("module tree", tree); print("impl  named_priors (module, name, prior object)", got); print("model named_priors", want)
        bad = got != want
    elif kind in TRAVERSALS:
        model = build(case)[0]
        own, call = TRAVERSALS[kind]
        ttree, tn, to = reg_tree(model, own)
        r = C.coq_run_cases("C02_replay", IMPORTS, RUN_DEF, ["CNA " + ttree])[0]
        want = sorted((r[k + 1], r[k + 2]) for k in range(0, len(r), 3))
        got = impl_named_regs(call(model), tn, to)
        print("module tree", ttree); print("impl ", kind, got); print("model", want)
        bad = got != want
    elif kind == "named-added":
        built = build(case)
        plan_case(dict(case), *built)         # a forward pass: the added-loss terms exist
        atree, anames, aoids = added_tree(built[0])
        r = C.coq_run_cases("C02_replay", IMPORTS, RUN_DEF, ["CNA " + atree])[0]
        want = sorted((r[k + 1], r[k + 2]) for k in range(0, len(r), 3))
        got = impl_named_added(built[0], anames, aoids)
        print("module tree", atree); print("impl  named_added_loss_terms (name, term object)", got); print("model", want)
        bad = got != want
    elif kind == "grad":
        gp = grad_plan(case)
        bad = False
        for ent in gp:
            if ent["param"] != info["param"] or ent["elem"] != info["elem"]:
                continue
            k = info["kind"]
            terms = [t for sgn in (1, -1) for (kk, b, t) in ent["terms"][sgn] if kk == k]
            rs = C.coq_run_cases("C02_replay", IMPORTS, RUN_DEF, terms)
            vp, vm = [decode(k, r, case["n"])["value"] for r in rs]
            fd = float((vp - vm) / (2 * mp.mpf(GRAD_H)))
            print("autograd d%s/d%s[%d] =" % (k, ent["param"], ent["elem"]), ent["autograd"][k]); print("central difference of the dense objective =", fd)
            bad = not C.close(ent["autograd"][k], fd, GRAD_ATOL, GRAD_RTOL)
    else:
        b = info.get("batch_element", 0)
        try:
            terms = [t for (kk, bb, t) in plan_case(case) if kk == kind and bb == b]
        except Exception as e:  # noqa: BLE001
            print("constructing the model / its prior pieces raised %r" % e); print("FAILS")
            return 1
        r = C.coq_run_cases("C02_replay", IMPORTS, RUN_DEF, terms)[0]
        dd = decode(kind, r, case["n"] * case.get("tasks", 1))
        v = impl_objective(case, kind)[b]
        print("objective", kind, "batch element", b)
        print("impl ", v); print("model", float(dd["value"]))
        if kind == "loo":
            print("model mu    ", [float(x) for x in dd["mu"]]); print("model sigma2", [float(x) for x in dd["s2"]])
        bad = not C.close(v, dd["value"], TOL, TOL)
    print("FAILS" if bad else "agrees")
    return 1 if bad else 0
