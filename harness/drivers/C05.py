"""C05 — kernel values equal the documented covariance functions and derivatives.
Tie C: for every exported kernel the driver builds the gpytorch module, reads its
hyper-parameters back EXACTLY (float64 -> rational), and asks the Coq model
(Models/C05_kernels.v: formulas transcribed from the docstrings, run with vm_compute on the
`expr` carrier) for the closed-form term of every entry; terms are evaluated with mpmath and
compared with kernel(x1, x2).to_dense(), kernel(x).to_dense() and kernel(x, diag=True) under
every code-path toggle (parameter grads on/off, x.requires_grad, trace_mode)."""
import json
import os
import random
import re
import shutil
import subprocess
from concurrent.futures import ThreadPoolExecutor

import mpmath
import torch

import gpytorch
from gpytorch import settings as gs
from harness.lib import common as C

COQ_TARGETS = ["Models/C05_kernels.vo"]
LEVEL_NOTE = ("theorems are about the Gallina model of the documented formulas; the tie to /repo is differential "
              "(public kernel calls in float64 vs mpmath evaluation of the model's closed-form terms, rtol 1e-10)")
IMPORTS = ("From Coq Require Import List ZArith QArith Qcanon.\n"
           "From GPV Require Import Base.LinAlg Base.Exec Base.Expr Models.C05_kernels.")
RUN_DEF = "Definition run c := pack (run_job c)."
ATOL, RTOL = 1e-12, 1e-10
# Entries whose two rows coincide, for kernels that are functions of the UNSQUARED distance r: the library gets r as
# sqrt(max(r^2, 1e-30)) with r^2 from the quadratic expansion, whose absolute rounding error eps*|x/l|^2 (<= 1e-13 on
# the generated inputs) becomes up to sqrt(1e-13) ~ 3e-7 in r when the exact r is 0 (limit DESIGN 9.4: float rounding).
# All other entries (r >= 1/(8 l)) keep rtol 1e-10.
ATOL_COINCIDENT_R = 2e-6


def unpack(words):
    """inverse of Models.C05_kernels.pack"""
    out, i, n = [], 0, len(words)
    while i < n:
        w = words[i]
        i += 1
        neg = (w >> 1) & 1
        if w & 1:
            k = w >> 2
            v = 0
            for t in range(k):
                v |= words[i + t] << (60 * t)
            i += k
        else:
            v = w >> 2
        out.append(-v if neg else v)
    return out


_WTOK = re.compile(r"\[|\]|0x[0-9a-fA-F]+|\d+")


def parse_words(text):
    """output of `Eval vm_compute in (_ : list (list int))` -> list of list[int] (hex or decimal literals)"""
    chunk = re.split(r"(?m)^\s*=", text)[1].split("\n     :")[0].replace("%uint63", "")
    res, cur, depth = [], None, 0
    for t in _WTOK.findall(chunk):
        if t == "[":
            depth += 1
            if depth == 2:
                cur = []
        elif t == "]":
            if depth == 2:
                res.append(cur)
            depth -= 1
        else:
            cur.append(int(t, 16) if t.startswith("0x") else int(t))
    return res


def fast_run_cases(tag, imports, run_def, cases, nshards=16, timeout=1800):
    """like common.coq_run_cases, but (a) `run` returns primitive ints (packed, see the model file) which Coq prints
    ~15x faster than Z numerals, (b) cases are dealt round-robin so that the expensive families are spread over all
    shards.  Returns one list[int] (already unpacked) per case."""
    d = os.path.join(C.BUILD, "cases_" + tag)
    shutil.rmtree(d, ignore_errors=True)
    os.makedirs(d)
    # at most ~45 cases per file (coqc overflows its stack when it has to print much larger results); the files are
    # compiled min(NPROC, 16) at a time
    nshards = max(1, min(max(nshards, (len(cases) + 44) // 45), len(cases)))
    files, members = [], []
    for k in range(nshards):
        idx = list(range(k, len(cases), nshards))
        name = "c%s_%d" % (re.sub(r"\W", "_", tag), k)
        body = [imports, "Import ListNotations.", "Local Open Scope Z_scope.", run_def,
                "Definition cases := [", ";\n".join(cases[i] for i in idx), "].",
                "Eval vm_compute in (map run cases)."]
        fp = os.path.join(d, name + ".v")
        open(fp, "w").write("\n".join(body) + "\n")
        files.append(fp)
        members.append(idx)

    def one(fp):
        return subprocess.run(["coqc", "-Q", C.COQ, "GPV", "-w", "-all", fp], cwd=d, capture_output=True, text=True,
                              timeout=timeout)
    with ThreadPoolExecutor(max_workers=min(C.NPROC, 16)) as ex:
        rs = list(ex.map(one, files))
    out = [None] * len(cases)
    for fp, idx, r in zip(files, members, rs):
        if r.returncode != 0:
            raise RuntimeError("coqc failed on %s:\n%s" % (fp, (r.stdout + r.stderr)[-4000:]))
        res = parse_words(r.stdout)
        if len(res) != len(idx):
            raise RuntimeError("unexpected coqc output for %s: %s" % (fp, r.stdout[:2000]))
        for i, words in zip(idx, res):
            out[i] = unpack(words)
    return out

torch.set_default_dtype(torch.float64)
mpmath.mp.dps = 30
K = gpytorch.kernels


# --------------------------------------------------------------------------- literals

def qv(t):
    if isinstance(t, torch.Tensor):
        t = t.detach().reshape(-1).tolist()
    return C.qc_vec(t)


def qm(t):
    return "[" + "; ".join(qv(r) for r in t) + "]"


def q1(t):
    if isinstance(t, torch.Tensor):
        t = t.detach().reshape(-1).tolist()
        assert len(t) == 1
        t = t[0]
    return C.qc_lit(t)


def gskl_doc_form():
    """which way does the DistributionalInputKernel docstring put the lengthscale a?"""
    doc = K.DistributionalInputKernel.__doc__ or ""
    if re.search(r"exp\\?\{\s*-\s*a\s*d\(", doc):
        return True          # k = exp(-a d)
    return False             # k = exp(-d / a)


# --------------------------------------------------------------------------- kernel families

SIMPLE = ["rbf", "matern05", "matern15", "matern25", "rq", "periodic", "cosine", "linear", "poly", "const"]
STRUCT_BASES = ["rbf", "matern15", "matern25", "rq", "periodic", "linear", "poly"]
FAMILIES = (SIMPLE + ["pp0", "pp1", "pp2", "pp3", "scale", "sum", "prod", "sm", "sdelta", "arc", "cyl", "hamming",
                      "gskl", "gskl_div", "sumint", "addstruct", "prodstruct", "ng", "active", "rbfgrad", "m52grad", "polygrad", "rbfgg"])
MULTI = {"rbfgrad", "m52grad", "polygrad", "rbfgg"}
HAS_ARD = {"sumint", "rbf", "matern05", "matern15", "matern25", "rq", "periodic", "linear", "pp0", "pp1", "pp2", "pp3", "sdelta",
           "arc", "rbfgrad", "m52grad", "rbfgg", "addstruct", "prodstruct", "ng", "scale"}


def u(rng, a, b):
    return rng.uniform(a, b)


def gen_spec(rng, fam, d, ard):
    """JSON-able description of a kernel; every random choice is stored so that build() is deterministic"""
    nl = d if ard else 1
    s = dict(fam=fam, d=d, ard=bool(ard))
    ls = lambda lo=0.4, hi=2.5: [u(rng, lo, hi) for _ in range(nl)]  # noqa: E731
    if fam in ("rbf", "matern05", "matern15", "matern25", "rbfgrad", "m52grad", "rbfgg"):
        s["l"] = ls()
    elif fam == "rq":
        s["l"] = ls(); s["alpha"] = u(rng, 0.3, 3.0)
    elif fam == "periodic":
        s["l"] = ls(); s["p"] = [u(rng, 0.7, 3.0) for _ in range(nl)]
    elif fam == "cosine":
        s["p"] = u(rng, 0.7, 3.0)
    elif fam == "linear":
        s["v"] = [u(rng, 0.2, 2.0) for _ in range(nl)]
    elif fam in ("poly", "polygrad"):
        s["c"] = u(rng, 0.2, 2.0); s["pw"] = rng.randint(1, 4)
    elif fam.startswith("pp"):
        s["q"] = int(fam[2]); s["l"] = ls(2.0, 6.0)
    elif fam == "const":
        s["c"] = u(rng, 0.2, 3.0)
    elif fam == "scale":
        b = rng.choice(SIMPLE[:9] + ["pp2"])
        s["s"] = u(rng, 0.2, 3.0); s["sub"] = [gen_spec(rng, b, d, bool(ard) and b in HAS_ARD)]
    elif fam in ("sum", "prod"):
        s["sub"] = [gen_spec(rng, rng.choice(SIMPLE), d, False) for _ in range(rng.randint(2, 3))]
    elif fam == "sm":
        nq = rng.randint(1, 3)
        s["w"] = [u(rng, 0.2, 1.5) for _ in range(nq)]
        s["mu"] = [[u(rng, 0.05, 0.6) for _ in range(d)] for _ in range(nq)]
        s["sc"] = [[u(rng, 0.05, 0.5) for _ in range(d)] for _ in range(nq)]
    elif fam == "sdelta":
        nz = rng.randint(1, 4)
        s["z"] = [[u(rng, 0.05, 0.8) for _ in range(d)] for _ in range(nz)]
        s["l"] = ls()
    elif fam == "arc":
        s["base"] = rng.choice(["matern25", "matern15", "rbf"])
        s["rad"] = [u(rng, 0.5, 2.0) for _ in range(nl)]
        s["ang"] = [u(rng, 0.15, 0.85) for _ in range(nl)]
        s["l"] = ls(1.0, 4.0)
        # constructor option delta_func (which coordinates are ACTIVE at a point; default: all).  Drawn away from the
        # default in 2 of 3 kernels: coordinate i is active iff x_j >= t (or x_j < t) for a reference coordinate j
        # (j == i, or another coordinate: the conditional-parameter use the kernel is made for) - thresholds inside
        # the range of the generated points, so that a coordinate is active in some rows and inactive in others
        if rng.random() < 0.67:
            s["delta"] = [(["always"] if rng.random() < 0.25 else
                           ["cond", rng.randrange(d), rng.randint(-8, 8) / 8.0, rng.random() < 0.5]) for _ in range(d)]
            if all(c[0] == "always" for c in s["delta"]):
                s["delta"][rng.randrange(d)] = ["cond", rng.randrange(d), rng.randint(-8, 8) / 8.0, True]
    elif fam == "cyl":
        s["w"] = [u(rng, 0.2, 1.5) for _ in range(rng.randint(1, 4))]
        s["alpha"] = u(rng, 0.5, 2.0); s["beta"] = u(rng, 0.5, 2.0)
        s["eps"] = rng.choice([1e-6, 0.0, 2.0 ** -10]); s["base"] = rng.choice(["matern25", "rbf", "matern05"])
        s["l"] = [u(rng, 0.3, 1.5)]
    elif fam == "hamming":
        s["alpha"] = u(rng, 0.3, 3.0); s["beta"] = u(rng, 0.3, 2.5); s["vocab"] = rng.randint(2, 3)
        s["T"] = d                    # sequence length; input dimension is T * vocab
    elif fam in ("gskl", "gskl_div"):
        # "gskl" is compared with the form the docstring states; "gskl_div" with exp(-d / lengthscale), which is
        # what a corrected docstring would say (known finding C05-distributional-kernel-doc-lengthscale): it keeps
        # the symmetrised-KL distance itself under test while the documentation disagrees with the code
        s["l"] = [u(rng, 0.5, 3.0)]    # d distributions dims; input dimension is 2 d
    elif fam in ("addstruct", "prodstruct", "ng"):
        # ProductStructureKernel over a base that returns a lazy (non-dense) operator multiplies the d factors by
        # Lanczos root decompositions (SKIP: approximate, square only - documented in its __call__); the exact
        # product is what is checked here, so its bases are the ones that return dense tensors
        b = rng.choice([x for x in STRUCT_BASES if not (fam == "prodstruct" and x == "linear")])
        s["sub"] = [gen_spec(rng, b, d, bool(ard) and b in HAS_ARD)]
        if fam == "ng":
            s["os"] = [u(rng, 0.2, 1.5) for _ in range(rng.randint(1, d))]
            s["maxdeg_default"] = rng.random() < 0.3      # constructor default max_degree=None (= num_dims)
            if s["maxdeg_default"]:
                s["os"] = [u(rng, 0.2, 1.5) for _ in range(d)]
    elif fam == "sumint":
        # gpytorch.utils.sum_interaction_terms on the stack of d one-dimensional base covariances: documented as the
        # sum over degrees 1..max_degree of the elementary symmetric polynomials of the base covariances
        b = rng.choice(["rbf", "matern25", "rq", "periodic"])
        s["sub"] = [gen_spec(rng, b, d, bool(ard))]
        s["M"] = rng.randint(1, d)
    elif fam == "active":
        k = rng.randint(1, d)
        s["dims"] = sorted(rng.sample(range(d), k)) if rng.random() < 0.7 else [rng.randrange(d) for _ in range(k)]
        b = rng.choice(["rbf", "matern25", "rq", "linear", "periodic"])
        s["sub"] = [gen_spec(rng, b, len(s["dims"]), bool(ard))]
    else:
        raise ValueError(fam)
    gen_constraints(rng, s)
    return s


# Every `<parameter>_constraint` constructor option: (family test, keyword, key of the parameter values in the spec).
# The documented formulas are stated in terms of the parameter VALUE, whatever the constraint that keeps it in range; the
# driver reads the value back from the module after setting it, so a non-default constraint must not change anything.
CONSTRAINT_OPTS = [
    (lambda f: f in ("rbf", "matern05", "matern15", "matern25", "rbfgrad", "m52grad", "rbfgg", "rq", "periodic", "sdelta",
                     "arc", "gskl", "gskl_div") or f.startswith("pp"), "lengthscale_constraint", "l"),
    (lambda f: f in ("rq", "cyl", "hamming"), "alpha_constraint", "alpha"),
    (lambda f: f in ("cyl", "hamming"), "beta_constraint", "beta"),
    (lambda f: f in ("periodic", "cosine"), "period_length_constraint", "p"),
    (lambda f: f == "linear", "variance_constraint", "v"),
    (lambda f: f in ("poly", "polygrad"), "offset_constraint", "c"),
    (lambda f: f == "const", "constant_constraint", "c"),
    (lambda f: f == "scale", "outputscale_constraint", "s"),
    (lambda f: f == "cyl", "angular_weights_constraint", "w"),
    (lambda f: f == "sm", "mixture_weights_constraint", "w"),
    (lambda f: f == "sm", "mixture_means_constraint", "mu"),
    (lambda f: f == "sm", "mixture_scales_constraint", "sc"),
    (lambda f: f == "sdelta", "Z_constraint", "z"),
]
LENGTH_CONSTRAINTS = ("lengthscale_constraint", "period_length_constraint")


def _flat(v):
    if isinstance(v, (list, tuple)):
        return [w for x in v for w in _flat(x)]
    return [float(v)]


def gen_constraints(rng, s):
    """non-default `*_constraint` options for about a third of the kernels: Interval(lo, hi) / GreaterThan(lo) /
    LessThan(hi) / Positive() with the drawn parameter values strictly inside"""
    con = {}
    for test, kw, key in CONSTRAINT_OPTS:
        if not test(s["fam"]) or key not in s or rng.random() > 0.35:
            continue
        vals = _flat(s[key])
        lo, hi = min(vals) * u(rng, 0.2, 0.9), max(vals) * u(rng, 1.2, 4.0)
        kind = rng.choice(["interval", "interval", "greater", "less", "positive"])
        con[kw] = {"interval": [lo, hi], "greater": [lo, None], "less": [None, hi], "positive": [None, None]}[kind]
    if con:
        s["con"] = con


def con_kwargs(spec):
    from gpytorch import constraints as GC
    out = {}
    for kw, (lo, hi) in spec.get("con", {}).items():
        if lo is None and hi is None:
            out[kw] = GC.Positive()
        elif hi is None:
            out[kw] = GC.GreaterThan(lo)
        elif lo is None:
            out[kw] = GC.LessThan(hi)
        else:
            out[kw] = GC.Interval(lo, hi)
    return out


def arc_mask_row(delta, row):
    """value of the ArcKernel delta_func described by `delta` at one point: 1.0 = active, 0.0 = inactive"""
    if not delta:
        return [1.0] * len(row)
    return [1.0 if c[0] == "always" or ((row[c[1]] >= c[2]) == bool(c[3])) else 0.0 for c in delta]


def arc_delta_func(delta):
    """the callable handed to ArcKernel(delta_func=...): x (... x n x d) -> mask of the same shape"""
    def f(x):
        cols = []
        for c in delta:
            if c[0] == "always":
                cols.append(torch.ones_like(x[..., 0]))
            else:
                ge = x[..., c[1]] >= c[2]
                cols.append((ge if c[3] else ~ge).to(x.dtype))
        return torch.stack(cols, dim=-1)
    return f


def options_used(spec):
    """names of the constructor options this kernel (or a part of it) sets away from the default"""
    o = set(spec.get("con", {}))
    if spec.get("delta"):
        o.add("delta_func")
    if spec.get("maxdeg_default"):
        o.add("max_degree=None")
    for t in spec.get("sub", []):
        o |= options_used(t)
    return o


def model_rows(spec, rows):
    """the rows as the model takes them: an ArcKernel point is its coordinates followed by the values of the kernel's
    delta_func at that point (Models/C05_kernels.v, KArc)"""
    if spec["fam"] == "arc":
        return [list(r) + arc_mask_row(spec.get("delta"), r) for r in rows]
    return rows


def same_point(spec, a, b):
    """do the two rows coincide as far as the kernel is concerned (r = 0 exactly)?  For an ArcKernel also rows that
    differ only in coordinates that are inactive in both"""
    if a == b:
        return True
    if spec["fam"] == "arc" and spec.get("delta"):
        ma, mb = arc_mask_row(spec["delta"], a), arc_mask_row(spec["delta"], b)
        return all((p == q == 0.0) or (p == q == 1.0 and x == y) for p, q, x, y in zip(ma, mb, a, b))
    return False


# ---- composition with the PUBLIC operators.  A tree node is one of
#   ["leaf", spec] | ["+", l, r] (built as l + r) | ["*", l, r] (l * r) | ["scale", s, t] (ScaleKernel(t), outputscale s)
#   | ["Additive", [t...]] (AdditiveKernel(*ts)) | ["Product", [t...]] (ProductKernel(*ts))
# and the documented value is the sum / product / scaling of the parts, applied structurally (the
# model's kobj / op_add / op_mul; theorems c05_operator_add, c05_operator_mul, c05_*_kernel_object).
STATIONARY = ["rbf", "matern05", "matern15", "matern25", "rq", "periodic", "cosine"]


def gen_leaf(rng, d, leaves):
    b = rng.choice(leaves)
    return ["leaf", gen_spec(rng, b, d, rng.random() < 0.3 and b in HAS_ARD)]


def shapes_depth1():
    L = ["leaf"]
    return [L, ["scale", L], ["+", L, L], ["*", L, L]]


def shapes_depth2():
    """every x op y with x, y of depth <= 1 (a sum / product / scaled kernel on EITHER side of + and *), every scaling
    of a depth-1 shape, and the explicit n-ary constructors over depth-1 shapes"""
    S1 = shapes_depth1()
    out = [[op, a, b] for op in "+*" for a in S1 for b in S1]
    out += [["scale", a] for a in S1[1:]]
    out += [["Additive", [S1[0], S1[3], S1[2]]], ["Product", [S1[0], S1[2], S1[3]]], ["Product", [S1[2], S1[2]]],
            ["Additive", [S1[3], S1[1], S1[0]]]]
    return out


def random_shape(rng, depth):
    if depth == 0 or rng.random() < 0.15:
        return ["leaf"]
    op = rng.choice(["+", "*", "+", "*", "scale", "Additive", "Product"])
    if op in "+*":
        return [op, random_shape(rng, depth - 1), random_shape(rng, depth - 1)]
    if op == "scale":
        return ["scale", random_shape(rng, depth - 1)]
    return [op, [random_shape(rng, depth - 1) for _ in range(rng.randint(2, 3))]]


def fill_shape(rng, shape, d, leaves):
    op = shape[0]
    if op == "leaf":
        return gen_leaf(rng, d, leaves)
    if op in "+*":
        return [op, fill_shape(rng, shape[1], d, leaves), fill_shape(rng, shape[2], d, leaves)]
    if op == "scale":
        return ["scale", u(rng, 0.2, 3.0), fill_shape(rng, shape[1], d, leaves)]
    return [op, [fill_shape(rng, t, d, leaves) for t in shape[1]]]


def shape_sig(t):
    op = t[0]
    if op == "leaf":
        return "k"
    if op in "+*":
        return "(%s%s%s)" % (shape_sig(t[1]), op, shape_sig(t[2]))
    if op == "scale":
        return "s" + shape_sig(t[-1])
    return "%s[%s]" % (op[0], ",".join(shape_sig(x) for x in t[1]))


def tree_leaves(t):
    op = t[0]
    if op == "leaf":
        return [t[1]]
    if op in "+*":
        return tree_leaves(t[1]) + tree_leaves(t[2])
    if op == "scale":
        return tree_leaves(t[2])
    return [l for x in t[1] for l in tree_leaves(x)]


def compose_spec(rng, shape, d, leaves=None):
    tree = fill_shape(rng, shape, d, leaves or SIMPLE)
    return dict(fam="compose", d=d, ard=False, tree=tree, sig=shape_sig(tree), sub=tree_leaves(tree))


def build_tree(t):
    """-> (gpytorch kernel built with the public operators / constructors, term of Models.C05_kernels.kobj built with
    the model's operators op_add / op_mul in the same way)"""
    op = t[0]
    if op == "leaf":
        m, term = build(t[1])
        return m, "(OLeaf %s)" % term
    if op in "+*":
        (a, ta), (b, tb) = build_tree(t[1]), build_tree(t[2])
        return ((a + b), "(op_add %s %s)" % (ta, tb)) if op == "+" else ((a * b), "(op_mul %s %s)" % (ta, tb))
    if op == "scale":
        b, tb = build_tree(t[2])
        m = K.ScaleKernel(b); m.outputscale = t[1]
        return m, "(OScale %s %s)" % (q1(m.outputscale), tb)
    parts = [build_tree(x) for x in t[1]]
    m = (K.AdditiveKernel if op == "Additive" else K.ProductKernel)(*[p[0] for p in parts])
    return m, "(%s [%s])" % ("OAdd" if op == "Additive" else "OMul", "; ".join(p[1] for p in parts))


def in_dim(spec):
    if spec["fam"] == "hamming":
        return spec["T"] * spec["vocab"]
    if spec["fam"] in ("gskl", "gskl_div"):
        return 2 * spec["d"]
    return spec["d"]


def build(spec, **kw):
    """-> (gpytorch kernel, Coq term of Models.C05_kernels.kern / job payload).  Hyper-parameters in the term are
    the values the module REPORTS after construction (exact float64 -> rational)."""
    f, d = spec["fam"], spec["d"]
    ard = d if spec["ard"] else None
    T = torch.tensor
    akw = {"ard_num_dims": ard} if ard else {}
    ckw = con_kwargs(spec)
    if f in ("rbf", "rbfgrad", "rbfgg"):
        cls = {"rbf": K.RBFKernel, "rbfgrad": K.RBFKernelGrad, "rbfgg": K.RBFKernelGradGrad}[f]
        m = cls(**akw, **ckw, **kw); m.lengthscale = T(spec["l"])
        con = {"rbf": "KRBF", "rbfgrad": "JRBFGrad", "rbfgg": "JRBFGG"}[f]
        return m, "(%s %s)" % (con, qv(m.lengthscale))
    if f.startswith("matern") or f == "m52grad":
        if f == "m52grad":
            m = K.Matern52KernelGrad(**akw, **ckw); m.lengthscale = T(spec["l"])
            return m, "(JM52Grad %s)" % qv(m.lengthscale)
        nu2 = {"05": 1, "15": 3, "25": 5}[f[-2:]]
        m = K.MaternKernel(nu=nu2 / 2.0, **akw, **ckw, **kw); m.lengthscale = T(spec["l"])
        return m, "(KMatern %d%%nat %s)" % (nu2, qv(m.lengthscale))
    if f == "rq":
        m = K.RQKernel(**akw, **ckw, **kw); m.lengthscale = T(spec["l"]); m.alpha = spec["alpha"]
        return m, "(KRQ %s %s)" % (q1(m.alpha), qv(m.lengthscale))
    if f == "periodic":
        m = K.PeriodicKernel(**akw, **ckw, **kw); m.lengthscale = T(spec["l"]); m.period_length = T(spec["p"])
        return m, "(KPeriodic %s %s)" % (qv(m.period_length), qv(m.lengthscale))
    if f == "cosine":
        m = K.CosineKernel(**ckw); m.period_length = spec["p"]
        return m, "(KCosine %s)" % q1(m.period_length)
    if f == "linear":
        m = K.LinearKernel(**akw, **ckw, **kw); m.variance = T(spec["v"])
        return m, "(KLinear %s)" % qv(m.variance)
    if f in ("poly", "polygrad"):
        m = (K.PolynomialKernel if f == "poly" else K.PolynomialKernelGrad)(power=spec["pw"], **ckw); m.offset = spec["c"]
        return m, "(%s %s %d%%nat)" % ("KPoly" if f == "poly" else "JPolyGrad", q1(m.offset), spec["pw"])
    if f.startswith("pp"):
        m = K.PiecewisePolynomialKernel(q=spec["q"], **akw, **ckw); m.lengthscale = T(spec["l"])
        return m, "(KPP %d%%nat %s)" % (spec["q"], qv(m.lengthscale))
    if f == "const":
        m = K.ConstantKernel(**ckw); m.constant = T(spec["c"])
        return m, "(KConst %s)" % q1(m.constant)
    if f == "scale":
        b, bt = build(spec["sub"][0])
        m = K.ScaleKernel(b, **ckw); m.outputscale = spec["s"]
        return m, "(KScale %s %s)" % (q1(m.outputscale), bt)
    if f in ("sum", "prod"):
        parts = [build(s) for s in spec["sub"]]
        m, t = parts[0]
        for (b, bt) in parts[1:]:
            m = (m + b) if f == "sum" else (m * b)
            t = "(%s %s %s)" % ("KSum" if f == "sum" else "KProd", t, bt)
        return m, t
    if f == "sm":
        nq = len(spec["w"])
        m = K.SpectralMixtureKernel(num_mixtures=nq, ard_num_dims=d, **ckw)
        m.mixture_weights = T(spec["w"]); m.mixture_means = T(spec["mu"]).unsqueeze(-2)
        m.mixture_scales = T(spec["sc"]).unsqueeze(-2)
        return m, "(KSM %s %s %s)" % (qv(m.mixture_weights), qm(m.mixture_means.detach().reshape(nq, d).tolist()),
                                      qm(m.mixture_scales.detach().reshape(nq, d).tolist()))
    if f == "sdelta":
        nz = len(spec["z"])
        m = K.SpectralDeltaKernel(num_dims=d, num_deltas=nz, **akw, **ckw)
        m.Z = T(spec["z"]); m.lengthscale = T(spec["l"])
        return m, "(KSDelta %s %s)" % (qm(m.Z.detach().reshape(nz, d).tolist()), qv(m.lengthscale))
    if f == "arc":
        b, _ = build(dict(fam=spec["base"], d=1, ard=False, l=[1.0]))
        m = K.ArcKernel(b, **akw, **ckw, **({"delta_func": arc_delta_func(spec["delta"])} if spec.get("delta") else {}))
        m.radius = T(spec["rad"]); m.angle = T(spec["ang"]); m.lengthscale = T(spec["l"])
        _, bt = build_term_only(b, spec["base"])
        return m, "(KArc %s %s %s %s)" % (bt, qv(m.radius), qv(m.angle), qv(m.lengthscale))
    if f == "cyl":
        b, _ = build(dict(fam=spec["base"], d=1, ard=False, l=spec["l"]))
        m = K.CylindricalKernel(num_angular_weights=len(spec["w"]), radial_base_kernel=b, eps=spec["eps"], **ckw)
        m.angular_weights = T(spec["w"]); m.alpha = spec["alpha"]; m.beta = spec["beta"]
        _, bt = build_term_only(b, spec["base"])
        return m, "(KCyl %s %s %s %s %s)" % (qv(m.angular_weights), q1(m.alpha), q1(m.beta), C.qc_lit(spec["eps"]), bt)
    if f == "hamming":
        m = K.HammingIMQKernel(vocab_size=spec["vocab"], **ckw); m.alpha = spec["alpha"]; m.beta = spec["beta"]
        return m, "(KHamming %s %s %d%%nat)" % (q1(m.alpha), q1(m.beta), spec["vocab"])
    if f in ("gskl", "gskl_div"):
        m = K.GaussianSymmetrizedKLKernel(**ckw); m.lengthscale = T(spec["l"])
        mul = gskl_doc_form() if f == "gskl" else False
        return m, "(KGSKL %s %s %s)" % ("true" if mul else "false", q1(m.lengthscale), C.qc_lit(1e-8))
    if f in ("addstruct", "prodstruct", "ng"):
        b, bt = build(spec["sub"][0])
        if f == "ng":
            m = K.NewtonGirardAdditiveKernel(b, num_dims=d, **({} if spec.get("maxdeg_default") else {"max_degree": len(spec["os"])}))
            m.outputscale = T(spec["os"])
            return m, "(KNG %s %s)" % (qv(m.outputscale), bt)
        m = (K.AdditiveStructureKernel if f == "addstruct" else K.ProductStructureKernel)(b, num_dims=d)
        return m, "(%s %s)" % ("KAddStruct" if f == "addstruct" else "KProdStruct", bt)
    if f == "sumint":
        b, bt = build(spec["sub"][0])
        return SumInteraction(b, d, spec["M"]), "(KNG %s %s)" % (qv([1.0] * spec["M"]), bt)
    if f == "compose":
        return build_tree(spec["tree"])
    if f == "active":
        b, bt = build(spec["sub"][0], active_dims=tuple(spec["dims"]))
        return b, "(KActive %s %s)" % (C.nat_list(spec["dims"]), bt)
    raise ValueError(f)


class SumInteraction:
    """public function gpytorch.utils.sum_interaction_terms applied to the D x N x N stack of the base kernel
    evaluated on each input dimension separately (with that dimension's ARD parameters)"""

    def __init__(self, base, d, M):
        self.base, self.d, self.M = base, d, M

    def __call__(self, x1, x2=None, diag=False):
        from gpytorch.utils.sum_interaction_terms import sum_interaction_terms
        x2 = x1 if x2 is None else x2
        covars = self.base(x1, x2, last_dim_is_batch=True).to_dense()
        r = sum_interaction_terms(covars, max_degree=self.M, dim=-3)
        return r.diagonal(dim1=-1, dim2=-2) if diag else r


def build_term_only(b, fam):
    """term of an already constructed simple stationary base kernel (reads the module's current lengthscale)"""
    if fam == "rbf":
        return b, "(KRBF %s)" % qv(b.lengthscale)
    nu2 = {"05": 1, "15": 3, "25": 5}[fam[-2:]]
    return b, "(KMatern %d%%nat %s)" % (nu2, qv(b.lengthscale))


# --------------------------------------------------------------------------- inputs

def gen_points(rng, spec, n, avoid=()):
    """n distinct rows of small dyadic rationals on the kernel's documented domain"""
    f, d = spec["fam"], in_dim(spec)
    rows = []
    for attempt in range(1000):
        if len(rows) == n:
            break
        if f == "hamming":
            r = []
            for _t in range(spec["T"]):
                k = rng.randrange(spec["vocab"])
                r += [1.0 if i == k else 0.0 for i in range(spec["vocab"])]
        elif f == "cyl":
            r = [rng.choice([-1, 1]) * rng.randint(1, 6) / 16.0 for _ in range(d)]
        elif f in ("gskl", "gskl_div"):
            r = [rng.randint(-16, 16) / 8.0 for _ in range(d // 2)] + [rng.randint(-8, 8) / 8.0 for _ in range(d // 2)]
        elif f.startswith("pp"):
            r = [rng.randint(-12, 12) / 8.0 for _ in range(d)]
        else:
            r = [rng.randint(-24, 24) / 8.0 for _ in range(d)]
        if (r in rows or r in avoid) and not (f == "hamming" and attempt > 40 * (len(rows) + 1)):
            continue                  # (one-hot spaces are tiny: repeats are allowed once they are exhausted)
        rows.append(r)
    assert len(rows) == n
    return rows


# --------------------------------------------------------------------------- input geometry
# The distance-based kernels are evaluated through kernels.kernel.sq_dist / dist / covar_dist, which centre the inputs
# before the quadratic expansion |a|^2 + |b|^2 - 2 a.b.  Whether that is done right is only visible away from the origin
# (relative to the lengthscale), so these families are also run on
#   offset : rows + a per-dimension offset +-2^20 (1 + j/4)        scaled : rows * 1000, length parameters * 1000
#   neardup: x2 shares rows with x1 up to 2^-20 in one coordinate   offset+neardup
# All inputs stay exactly representable (the model gets the same rationals).  The comparison threshold is
# ATOL + RTOL |k| + KB * (first-order bound on the float64 error of a CENTRED implementation), computed per entry from
#   e_in  = effect on r^2 of rounding z = fl(x / l) (computed exactly, with rationals: 0 when l is a power of two),
#   e_c   = (4 (d + 3) + 2) eps diam^2, the quadratic expansion on centred coordinates (diam = largest scaled distance
#           between rows of the call; the centre lies in their convex hull),
# pushed through the kernel (|dk/dr^2| for functions of r^2; Lipschitz constant in r times min(sqrt(e), e / r) for
# functions of r) and through sums / products / scalings.  It does not grow with the offset, whereas an uncentred
# expansion is off by eps |z|^2 ~ 1e-4 at offset 2^20.
GEOMS = ["offset", "scaled", "neardup", "offset+neardup"]
GEOM_FAMS = ["rbf", "matern05", "matern15", "matern25", "rq", "periodic", "cosine", "pp0", "pp1", "pp2", "pp3", "scale",
             "compose", "rbfgrad", "m52grad", "rbfgg"]
EPS64 = 2.220446049250313e-16
KB = 16.0
SCALE_S = 1000.0


def apply_geom(rng, geom, spec, case):
    d = in_dim(spec)
    x1, x2, x2b = ([list(r) for r in case[k]] for k in ("x1", "x2", "x2b"))
    if "neardup" in geom:
        for j in range(0, len(x2), 2):
            x2[j] = list(x1[j % len(x1)])
            x2[j][rng.randrange(d)] += 2.0 ** -20
        x2b = [list(r) for r in x1]
        for r in x2b:
            r[rng.randrange(d)] -= 2.0 ** -18
    if "offset" in geom:
        off = [rng.choice([-1, 1]) * 2.0 ** 20 * (1 + rng.randrange(4) / 4.0) for _ in range(d)]
        x1, x2, x2b = ([[v + o for v, o in zip(r, off)] for r in X] for X in (x1, x2, x2b))
    if "scaled" in geom:
        x1, x2, x2b = ([[v * SCALE_S for v in r] for r in X] for X in (x1, x2, x2b))
    return dict(x1=x1, x2=x2, x2b=x2b, geom=geom)


def scale_spec(spec, S):
    """the same kernel with every length parameter (lengthscale, period) multiplied by S"""
    s = dict(spec)
    if "l" in s:
        s["l"] = [v * S for v in s["l"]]
    if "p" in s:
        s["p"] = [v * S for v in s["p"]] if isinstance(s["p"], list) else s["p"] * S
    if "con" in s:
        s["con"] = {kw: ([None if b is None else b * S for b in bd] if kw in LENGTH_CONSTRAINTS else bd)
                    for kw, bd in s["con"].items()}
    if "sub" in s:
        s["sub"] = [scale_spec(t, S) for t in s["sub"]]
    if "tree" in s:
        def st(t):
            if t[0] == "leaf":
                return ["leaf", scale_spec(t[1], S)]
            if t[0] in "+*":
                return [t[0], st(t[1]), st(t[2])]
            if t[0] == "scale":
                return ["scale", t[1], st(t[2])]
            return [t[0], [st(x) for x in t[1]]]
        s["tree"] = st(s["tree"])
        s["sub"] = tree_leaves(s["tree"])
    return s


def _frac(v):
    from fractions import Fraction
    return Fraction(v)


def _pp_lipschitz(q, j):
    def f(r):
        if q == 0:
            P = 1.0
        elif q == 1:
            P = (j + 1) * r + 1
        elif q == 2:
            P = 1 + (j + 2) * r + (j * j + 4 * j + 3) / 3.0 * r * r
        else:
            P = 1 + (j + 3) * r + (6 * j * j + 36 * j + 45) / 15.0 * r * r + (j ** 3 + 9 * j * j + 23 * j + 15) / 15.0 * r ** 3
        return max(0.0, 1 - r) ** (j + q) * P
    N = 2000
    return 1.5 * max(abs(f((i + 1) / N) - f(i / N)) * N for i in range(N)) + 1.0


def _ell(par, d):
    v = [float(t) for t in par.detach().reshape(-1).tolist()]
    return v * d if len(v) == 1 else v


def _scaled_terms(xa, xb, ell, exact_div=True):
    """per pair (i, j): dict(es=[per-dimension bound on the error of the squared scaled difference], r2=[per-dimension
    squared scaled difference], u=[|x_m - y_m| / l_m^2], w=[bound on the error of (z_m - z'_m) / l_m])"""
    import math
    d = len(ell)
    rows = [tuple(r) for r in xa] + [tuple(r) for r in xb]
    z = {}
    for r in set(rows):
        zz = []
        for m in range(d):
            ex = _frac(r[m]) / _frac(ell[m])
            if exact_div:
                dz = abs(_frac(r[m] / ell[m]) - ex)          # the rounding the float division really commits
            else:
                dz = 2 * _frac(EPS64) * abs(ex)              # divisor itself is a rounded quantity (period / pi)
            zz.append((float(ex), float(dz)))
        z[r] = zz
    diam2 = [0.0] * d
    for a in rows:
        for b in rows:
            for m in range(d):
                diam2[m] = max(diam2[m], (z[tuple(a)][m][0] - z[tuple(b)][m][0]) ** 2)
    res = []
    for a in xa:
        line = []
        for b in xb:
            za, zb = z[tuple(a)], z[tuple(b)]
            es, r2, uu, ww = [], [], [], []
            for m in range(d):
                dl = abs(float((_frac(a[m]) - _frac(b[m])) / _frac(ell[m])))
                dd = za[m][1] + zb[m][1]
                es.append(2 * (dl + dd) * dd)
                r2.append(dl * dl)
                uu.append(dl / ell[m])
                ww.append(dd / ell[m] + EPS64 * dl / ell[m])
            line.append(dict(es=es, r2=r2, u=uu, w=ww))
        res.append(line)
    return res, diam2


def _r_err(es, r):
    import math
    return min(math.sqrt(es), es / r) if r > 0 else math.sqrt(es)


def geom_tolerance(kern, xa, xb):
    """-> (matrix of bounds e[I][J] on the float64 error of a centred implementation, bound on |entry|).  Rows / columns
    in the per-point interleaved layout for the derivative kernels."""
    import math
    if isinstance(kern, K.ScaleKernel):
        e, s = geom_tolerance(kern.base_kernel, xa, xb)
        o = float(kern.outputscale)
        return [[o * v + 2 * EPS64 * o * s for v in r] for r in e], o * s
    if isinstance(kern, (K.AdditiveKernel, K.ProductKernel)):
        parts = [geom_tolerance(k, xa, xb) for k in kern.kernels]
        n1, n2 = len(parts[0][0]), len(parts[0][0][0])
        if isinstance(kern, K.AdditiveKernel):
            sup = sum(p[1] for p in parts)
            return [[sum(p[0][i][j] for p in parts) + len(parts) * EPS64 * sup for j in range(n2)] for i in range(n1)], sup
        sup = math.prod(p[1] for p in parts)
        return [[sum(p[0][i][j] * math.prod(q[1] for q in parts if q is not p) for p in parts) + len(parts) * EPS64 * sup
                 for j in range(n2)] for i in range(n1)], sup
    if isinstance(kern, K.ConstantKernel):
        c = abs(float(kern.constant))
        return [[0.0] * len(xb) for _ in xa], c
    d = len(xa[0])
    periodic = isinstance(kern, K.PeriodicKernel)
    if periodic:
        ell = [p / math.pi for p in _ell(kern.period_length, d)]
    elif isinstance(kern, K.CosineKernel):
        ell = _ell(kern.period_length, d)
    else:
        ell = _ell(kern.lengthscale, d)
    T, diam2 = _scaled_terms(xa, xb, ell, exact_div=not periodic)
    cq = 4 * (d + 3) + 2

    def es_of(t):
        return sum(t["es"]) + cq * EPS64 * sum(diam2)

    def r_of(t):
        return math.sqrt(sum(t["r2"]))
    if periodic:
        lam = _ell(kern.lengthscale, d)
        return [[sum(6.0 / lam[m] * (t["es"][m] + cq * EPS64 * diam2[m]) for m in range(d)) for t in row] for row in T], 1.0
    multi = isinstance(kern, (K.RBFKernelGrad, K.RBFKernelGradGrad, K.Matern52KernelGrad))
    if multi:
        gg = isinstance(kern, K.RBFKernelGradGrad)
        p = (2 * d + 1) if gg else (d + 1)
        order = lambda c: 0 if c == 0 else (1 if c <= d else 2)  # noqa: E731
        m52 = isinstance(kern, K.Matern52KernelGrad)
        out = [[0.0] * (len(xb) * p) for _ in range(len(xa) * p)]
        sup = 1.0
        for i, row in enumerate(T):
            for j, t in enumerate(row):
                es = es_of(t)
                ek = 4.0 * _r_err(es, r_of(t)) if m52 else 0.5 * es
                A = max(u_ + 1.0 / l_ for u_, l_ in zip(t["u"], ell))
                W = max(t["w"])
                for a in range(p):
                    for b in range(p):
                        n = order(a) + order(b)
                        amp = 10.0 * max(1.0, A) ** n
                        e = ek if n == 0 else amp * (ek + n * W / max(1.0, A) + n * EPS64)
                        out[i * p + a][j * p + b] = e
                        sup = max(sup, amp)
        return out, sup
    if isinstance(kern, (K.RBFKernel, K.RQKernel)):
        return [[0.5 * es_of(t) for t in row] for row in T], 1.0
    if isinstance(kern, K.MaternKernel):
        return [[_r_err(es_of(t), r_of(t)) for t in row] for row in T], 1.0
    if isinstance(kern, K.PiecewisePolynomialKernel):
        L = _pp_lipschitz(kern.q, d // 2 + kern.q + 1)
        return [[L * _r_err(es_of(t), r_of(t)) for t in row] for row in T], 1.0
    if isinstance(kern, K.CosineKernel):
        return [[math.pi * _r_err(es_of(t), r_of(t)) for t in row] for row in T], 1.0
    raise ValueError("no rounding bound for %s" % type(kern).__name__)


CTXS = ["default", "no_grad", "x_grad", "trace"]
CALLS = ["full", "sym", "diag", "diag2"]


def impl_eval(kern, case, call, ctx):
    x1 = torch.tensor(case["x1"]); x2 = torch.tensor(case["x2"]); x2b = torch.tensor(case["x2b"])
    if ctx == "x_grad":
        x1.requires_grad_(True)
    cms = []
    if ctx == "no_grad":
        cms.append(torch.no_grad())
    if ctx == "trace":
        cms.append(gs.trace_mode(True))
    for c in cms:
        c.__enter__()
    try:
        if call == "full":
            r = kern(x1, x2).to_dense()
        elif call == "sym":
            r = kern(x1).to_dense()
        elif call == "diag":
            r = kern(x1, diag=True)
        else:
            r = kern(x1, x2b, diag=True)
        if not isinstance(r, torch.Tensor):
            r = r.to_dense()
    finally:
        for c in reversed(cms):
            c.__exit__(None, None, None)
    return r.detach()


def outputs_per_point(spec):
    f, d = spec["fam"], spec["d"]
    return {"rbfgrad": d + 1, "m52grad": d + 1, "polygrad": d + 1, "rbfgg": 2 * d + 1}.get(f, 1)


def coq_case(term, spec, xa, xb):
    if spec["fam"] == "compose":
        term = "(JO %s)" % term
    elif spec["fam"] not in MULTI:
        term = "(JK %s)" % term
    return "(%s, %s, %s)" % (term, qm(model_rows(spec, xa)), qm(model_rows(spec, xb)))


def decode(res, rows, cols):
    rd = C.Reader(res)
    m = [[rd.expr() for _ in range(cols)] for _ in range(rows)]
    assert rd.done(), "model output longer than expected"
    return m


def variant(spec):
    f = spec["fam"]
    if f in ("poly", "polygrad"):
        return "%s:pw=%d" % (f, spec["pw"])
    if f in ("scale", "addstruct", "prodstruct", "ng", "active", "arc", "cyl", "sumint"):
        sub = spec["sub"][0]["fam"] if "sub" in spec else spec["base"]
        return "%s(%s)%s" % (f, sub, ":delta_func" if spec.get("delta") else "")
    if f.startswith("pp"):
        return "pp:q=%d" % spec["q"]
    if f == "compose":
        return "compose:" + spec["sig"]
    return f


def uses_r(spec):
    """does the documented function depend on the unsquared distance r (non-smooth in r^2 at 0)?"""
    f = spec["fam"]
    if f.startswith("matern") or f.startswith("pp") or f in ("cosine", "m52grad"):
        return True
    if f in ("arc", "cyl"):
        return spec["base"].startswith("matern")
    return any(uses_r(s) for s in spec.get("sub", []))


def leaf_mag(spec, x, y):
    """bound on |k(x, y)| of a simple kernel from its documented form (1 for the normalised stationary ones)"""
    f = spec["fam"]
    if f == "const":
        return abs(spec["c"]) * 1.01
    if f == "linear":
        v = spec["v"] * (len(x) if len(spec["v"]) == 1 else 1)
        return sum(vv * abs(a * b) for vv, a, b in zip(v, x, y)) * 1.01 + 1e-300
    if f == "poly":
        return (sum(abs(a * b) for a, b in zip(x, y)) + spec["c"]) ** spec["pw"] * 1.01
    return 1.0


def tree_of(spec):
    f = spec["fam"]
    if f == "compose":
        return spec["tree"]
    if f in ("sum", "prod"):
        return ["Additive" if f == "sum" else "Product", [["leaf", t] for t in spec["sub"]]]
    if f == "scale":
        return ["scale", spec["s"], ["leaf", spec["sub"][0]]]
    return ["leaf", spec]


def sens_mag(t, x, y):
    """(sensitivity of the composed value to an absolute error in the value of its r-dependent leaves, bound on the
    magnitude of the composed value) at the pair (x, y): sums add, products multiply by the siblings' magnitudes"""
    op = t[0]
    if op == "leaf":
        return (1.0 if uses_r(t[1]) else 0.0), leaf_mag(t[1], x, y)
    if op == "scale":
        s_, m_ = sens_mag(t[2], x, y)
        return abs(t[1]) * 1.01 * s_, abs(t[1]) * 1.01 * m_
    parts = [sens_mag(c, x, y) for c in (t[1:3] if op in "+*" else t[1])]
    if op in ("+", "Additive"):
        return sum(p[0] for p in parts), sum(p[1] for p in parts)
    import math
    return (sum(p[0] * math.prod(q[1] for k, q in enumerate(parts) if k != i) for i, p in enumerate(parts)),
            math.prod(p[1] for p in parts))


MARGIN = {}


def _margin(case, triples):
    """largest |impl - documented| / threshold seen per geometry (reported in the evidence)"""
    g = case.get("geom", "origin")
    for a, b, t in triples:
        r = abs(float(a) - float(b)) / (t + RTOL * abs(float(b)))
        if r == r and MARGIN.get(g, 0.0) < r <= 1.0:     # (entries that pass: how close they come)
            MARGIN[g] = r


def compare(out, spec, case, call, ctx, got, model, tolmat=None):
    """got: impl tensor; model: matrix of mpf for the call's (x1, x2) pair; tolmat: per-entry rounding bound of the
    non-origin geometries (geom_tolerance)"""
    p = outputs_per_point(spec)
    xa = case["x1"]
    xb = {"full": case["x2"], "sym": case["x1"], "diag": case["x1"], "diag2": case["x2b"]}[call]
    loose = uses_r(spec)

    def atol(I, J):
        if tolmat is not None:
            return ATOL + KB * tolmat[I][J]
        if loose and same_point(spec, xa[I // p], xb[J // p]):
            # the r-dependent leaves are each off by up to ATOL_COINCIDENT_R; inside a product that is multiplied by the
            # magnitude of the other factors (e.g. a polynomial kernel of size 100)
            return ATOL_COINCIDENT_R * max(1.0, sens_mag(tree, xa[I // p], xb[J // p])[0])
        return ATOL
    tree = tree_of(spec)
    key = "value:%s:%s:%s%s%s" % (variant(spec), call, ctx, ":ard" if spec["ard"] else "",
                                  (":geom=" + case["geom"]) if case.get("geom") else "")
    desc = dict(spec=spec, case=case, call=call, ctx=ctx)
    if tolmat is not None:
        desc["max_threshold"] = ATOL + KB * max(max(r) for r in tolmat)
    if call in ("diag", "diag2"):
        want = [model[i][i] for i in range(len(model))]
        g = got.reshape(-1).tolist()
        if len(g) != len(want):
            out.fail(key + ":shape", "diag output has %d entries, documented layout has %d" % (len(g), len(want)), desc,
                     impl=g, model=[float(v) for v in want])
            return False
        bad = [(i, g[i], float(want[i])) for i in range(len(want)) if not C.close(g[i], want[i], atol(i, i), RTOL)]
        _margin(case, [(g[i], want[i], atol(i, i)) for i in range(len(want))])
    else:
        rows, cols = len(model), len(model[0]) if model else 0
        if tuple(got.shape) != (rows, cols):
            out.fail(key + ":shape", "output shape %s, documented %s" % (tuple(got.shape), (rows, cols)), desc)
            return False
        g = got.tolist()
        bad = [((i, j), g[i][j], float(model[i][j])) for i in range(rows) for j in range(cols)
               if not C.close(g[i][j], model[i][j], atol(i, j), RTOL)]
        _margin(case, [(g[i][j], model[i][j], atol(i, j)) for i in range(rows) for j in range(cols)])
    if bad:
        out.fail(key, "kernel value differs from the documented formula at entry %s: impl %.12g, documented %.12g "
                 "(%d of %d entries differ; outputs per point = %d)" % (bad[0][0], bad[0][1], bad[0][2], len(bad),
                                                                       got.numel(), p), desc,
                 impl=got.tolist(), model=[[float(v) for v in r] for r in model] if model else None)
        return False
    return True


def gen_cases(rng, tier):
    """list of (spec, case) covering every family x {ARD, non-ARD} x d in 1..4 x n1 != n2"""
    reps = 2 if tier == "quick" else 8
    cases = []
    for fam in FAMILIES:
        for d in (1, 2, 3, 4):
            for ard in ((False, True) if fam in HAS_ARD else (False,)):
                for _ in range(reps):
                    if fam in MULTI and d == 4 and fam == "rbfgg":     # (27 x 27 outputs overflow coqc's VM stack)
                        nmax = 2
                    elif fam in MULTI:
                        nmax = 3
                    else:
                        nmax = 4
                    n1 = rng.randint(1, nmax)
                    n2 = rng.choice([k for k in range(1, nmax + 1) if k != n1])
                    spec = gen_spec(rng, fam, d, ard)
                    x1 = gen_points(rng, spec, n1)
                    # x2 may share rows with x1 (coincident points in a rectangular call)
                    x2 = gen_points(rng, spec, n2)
                    if rng.random() < 0.4:
                        x2[rng.randrange(n2)] = list(x1[rng.randrange(n1)])
                    x2b = gen_points(rng, spec, n1, avoid=x1)
                    cases.append((spec, dict(x1=x1, x2=x2, x2b=x2b)))

    def points_for(spec, nmax):
        n1 = rng.randint(1, nmax)
        n2 = rng.choice([k for k in range(1, nmax + 1) if k != n1])
        x1 = gen_points(rng, spec, n1)
        x2 = gen_points(rng, spec, n2)
        if rng.random() < 0.4:
            x2[rng.randrange(n2)] = list(x1[rng.randrange(n1)])
        return dict(x1=x1, x2=x2, x2b=gen_points(rng, spec, n1, avoid=x1))
    # compositions with the public operators: every shape of depth <= 2 (sums / products / scalings on either side of
    # + and *, explicit n-ary constructors), random shapes of depth 3
    shapes = shapes_depth1()[1:] + shapes_depth2() + [random_shape(rng, 3) for _ in range(10 if tier == "quick" else 60)]
    for rep in range(1 if tier == "quick" else 4):
        for shape in shapes:
            spec = compose_spec(rng, shape, rng.randint(1, 3))
            cases.append((spec, points_for(spec, 3)))
    # input geometries for the kernels that go through the shared distance helpers
    for fam in GEOM_FAMS:
        for geom in GEOMS:
            for _ in range(1 if tier == "quick" else 4):
                d = rng.randint(1, 3)
                if fam == "compose":
                    spec = compose_spec(rng, rng.choice(shapes), d, leaves=STATIONARY + ["const"])
                elif fam == "scale":
                    spec = dict(fam="scale", d=d, ard=False, s=u(rng, 0.2, 3.0), sub=[gen_spec(rng, rng.choice(STATIONARY[:6] + ["pp2"]), d, rng.random() < 0.5)])
                else:
                    spec = gen_spec(rng, fam, d, rng.random() < 0.5 and fam in HAS_ARD)
                case = apply_geom(rng, geom, spec, points_for(spec, 2 if (fam == "rbfgg" and d == 3) else 3))
                if "scaled" in geom:
                    spec = scale_spec(spec, SCALE_S)
                cases.append((spec, case))
    return cases


def run_models(tag, items):
    """items: list of (spec, case, term).  Returns per item dict(full=..., sym=..., d2=...) of mpf matrices"""
    coq_cases, index = [], []
    for k, (spec, case, term) in enumerate(items):
        for nm, xa, xb in (("full", case["x1"], case["x2"]), ("sym", case["x1"], case["x1"]),
                           ("d2", case["x1"], case["x2b"])):
            coq_cases.append(coq_case(term, spec, xa, xb))
            index.append((k, nm, len(xa), len(xb)))
    res = fast_run_cases(tag, IMPORTS, RUN_DEF, coq_cases)
    models = [dict() for _ in items]
    for (k, nm, na, nb), r in zip(index, res):
        p = outputs_per_point(items[k][0])
        models[k][nm] = decode(r, na * p, nb * p)
    return models


def has_fast_path(spec):
    """does evaluation go through RBFCovariance / MaternCovariance (whose selection depends on the context)?"""
    f = spec["fam"]
    if f == "rbf" or f.startswith("matern"):
        return True
    if f in ("arc", "cyl"):
        return True
    return any(has_fast_path(s) for s in spec.get("sub", []))


def raised_in_add_low_rank(e):
    import traceback
    return any(fr.name == "add_low_rank" and "linear_operator" in fr.filename for fr in traceback.extract_tb(e.__traceback__))


def check_one(out, spec, case, kern, models, calls=CALLS, ctxs=None, record=True):
    ok = True
    if ctxs is None:
        ctxs = CTXS
    for call in calls:
        if call == "diag2" and spec["fam"] in MULTI:
            continue                      # derivative kernels document diag only for x1 == x2
        if spec["fam"] == "sumint" and call != "sym":
            continue                      # documented for D x N x N stacks of covariance matrices
        model = models[{"full": "full", "sym": "sym", "diag": "sym", "diag2": "d2"}[call]]
        tolmat = None
        if case.get("geom"):
            xb = {"full": case["x2"], "sym": case["x1"], "diag": case["x1"], "diag2": case["x2b"]}[call]
            tolmat = geom_tolerance(kern, case["x1"], xb)[0]
        for ctx in ctxs:
            if record:
                flat = [float(v) for r in model for v in r]
                nontrivial = spec["fam"] == "const" or (len(flat) > 1 and max(flat) - min(flat) > 1e-9) or len(flat) == 1
                out.case(dict(fam=variant(spec), d=spec["d"], ard=spec["ard"], n1=len(case["x1"]), n2=len(case["x2"]),
                              call=call, ctx=ctx, x1=case["x1"][0], geom=case.get("geom", "origin")), nontrivial,
                         label="fam=" + spec["fam"])
                out.count("call=" + call); out.count("ctx=" + ctx); out.count("d=%d" % spec["d"])
                out.count("geom=" + case.get("geom", "origin"))
                if call == "full" and ctx == ctxs[0]:
                    for opt in sorted(options_used(spec)):
                        out.count("option=" + opt)
                    if spec["fam"] == "arc" and spec.get("delta"):
                        ms = [arc_mask_row(spec["delta"], r) for r in case["x1"] + case["x2"]]
                        if any(a[i] != b[i] for a in ms for b in ms for i in range(len(a))):
                            out.count("arc:pair-active-in-one-point-only")
            try:
                got = impl_eval(kern, case, call, ctx)
            except Exception as e:
                desc = dict(spec=spec, case=case, call=call, ctx=ctx)
                if raised_in_add_low_rank(e):
                    # AdditiveKernel.forward adds a RootLinearOperator summand (LinearKernel(x, x)) with `+`, which the
                    # installed linear_operator routes through add_low_rank: the partial sum is Cholesky-factorised
                    # just to cache a root decomposition, and that raises when it is not numerically positive definite
                    out.fail("sum-with-root-summand:add_low_rank:%s:%s" % (type(e).__name__, call),
                             "K(x) of a sum whose later summand is a LinearKernel raised %r inside linear_operator's "
                             "add_low_rank (kernel %s)" % (e, variant(spec)), desc)
                else:
                    out.fail("impl-exception:%s:%s:%s:%s" % (variant(spec), call, ctx, type(e).__name__),
                             "kernel call raised %r" % (e,), desc)
                ok = False
                continue
            ok = compare(out, spec, case, call, ctx, got, model, tolmat) and ok
    return ok


def shrink(out, spec, case, kern, term):
    """replace the failures of this case by a single-pair case when one pair already fails"""
    mine = [f for f in out.failures if f["case"] and f["case"].get("case") is case]
    if not mine:
        return
    for i, a in enumerate(case["x1"]):
        for b in case["x2"] + case["x1"]:
            small = dict(x1=[a], x2=[b], x2b=[b], **({"geom": case["geom"]} if case.get("geom") else {}))
            tmp = C.Outcome("C05", "quick", 0)
            try:
                models = run_models("C05_shrink", [(spec, small, term)])[0]
            except Exception:
                return
            check_one(tmp, spec, small, kern, models, calls=["full"], ctxs=["default", "x_grad"], record=False)
            if tmp.failures:
                keys = {f["key"] for f in mine}
                for f in tmp.failures:
                    if f["key"] in keys:
                        # keep one small representative per key in front
                        out.failures.insert(0, f)
                return


def run(out, ctx):
    tier, seed = ctx["tier"], ctx["seed"]
    rng = random.Random(seed * 7919 + 5)
    torch.manual_seed(seed)
    cases = gen_cases(rng, tier)
    items = []
    for spec, case in cases:
        kern, term = build(spec)
        items.append((spec, case, term, kern))
    models = run_models("C05", [(s, c, t) for (s, c, t, _) in items])
    out.rule = ("every exported kernel family x {ARD, shared} x d in 1..4 x n1 != n2 (<= 4; <= 3 for derivative "
                "kernels), hyper-parameters uniform in range and read back exactly, small dyadic inputs on the "
                "documented domain; each under calls {K(x1,x2), K(x1), K(x1,diag), K(x1,x2',diag)} x contexts "
                "{default (parameter grads: fast path saving the backward term), no_grad (in-place fast path), "
                "x.requires_grad (generic path), trace_mode (generic path)}; compositions built with the public operators "
                "(every shape of depth <= 2 over {k, ScaleKernel(k), k+k, k*k} on either side of + and *, explicit "
                "AdditiveKernel / ProductKernel, random shapes of depth 3) against the structural sum / product / scaling "
                "of the documented parts; the distance-based families also on inputs far from the origin (2^20), scaled "
                "by 1000 and with nearly coincident rows (thresholds from a rounding bound of the centred computation); "
                "non-trivial = the documented matrix is not constant")
    out.exhaustive = False
    out.extra["tolerances"] = {"atol": ATOL, "rtol": RTOL, "mpmath_digits": mpmath.mp.dps,
                               "atol_coincident_rows_r_kernels": ATOL_COINCIDENT_R}
    out.extra["gskl_doc_form"] = "exp(-a d)" if gskl_doc_form() else "exp(-d/a)"
    out.extra["geometries"] = {"families": GEOM_FAMS, "geometries": GEOMS,
                               "threshold": "ATOL + RTOL |k| + %g * geom_tolerance (centred-computation rounding bound, "
                                            "independent of the offset)" % KB}
    MARGIN.clear()
    shrunk = set()
    # (shrinking costs one coqc start per candidate pair: only spent on failures that are not recorded findings)
    known_keys = [k["key"] for k in C.load_known() if k.get("property") == "C05" and k.get("status", "known") == "known"]
    for (spec, case, term, kern), md in zip(items, models):
        before = len(out.failures)
        check_one(out, spec, case, kern, md)
        fresh = [f for f in out.failures[before:] if not any(re.search(k, f["key"]) for k in known_keys)]
        if fresh and variant(spec) not in shrunk and len(shrunk) < 4:
            shrunk.add(variant(spec))
            shrink(out, spec, case, kern, term)
    out.extra["largest_discrepancy_over_threshold"] = {k: float("%.3g" % v) for k, v in MARGIN.items()}
    out.tested_not_proved = [
        "agreement of torch float64 arithmetic with the exact real formula (rtol 1e-10; at the non-origin geometries plus "
        "the first-order rounding bound of a centred distance computation, see geom_tolerance - the bound itself is not "
        "proved; over the reals the centring is immaterial: c05_sq_dist_any_adjustment)",
        "SpectralDelta / Cylindrical / Arc / SpectralMixture formulas have no docstring equation: the model follows "
        "the cited construction as worded in the class docstrings and the property text"]


def replay(path):
    d = json.load(open(path))
    c = d["case"]
    spec, case, call, ctx = c["spec"], c["case"], c["call"], c["ctx"]
    kern, term = build(spec)
    models = run_models("C05_replay", [(spec, case, term)])[0]
    model = models[{"full": "full", "sym": "sym", "diag": "sym", "diag2": "d2"}[call]]
    try:
        got = impl_eval(kern, case, call, ctx)
    except Exception as e:
        print("kernel", variant(spec), "call", call, "ctx", ctx)
        print("coq term", term)
        print("impl raises %r%s" % (e, " (inside linear_operator's add_low_rank)" if raised_in_add_low_rank(e) else ""))
        print("model", [[float(v) for v in r] for r in model])
        print("FAILS")
        return 1
    tolmat = None
    if case.get("geom"):
        xb = {"full": case["x2"], "sym": case["x1"], "diag": case["x1"], "diag2": case["x2b"]}[call]
        tolmat = geom_tolerance(kern, case["x1"], xb)[0]
    print("kernel", variant(spec), "call", call, "ctx", ctx, "geometry", case.get("geom", "origin"))
    print("coq term", term)
    print("impl ", got.tolist())
    print("model", [[float(v) for v in r] for r in model])
    out = C.Outcome("C05", "quick", 0)
    compare(out, spec, case, call, ctx, got, model, tolmat)
    print("FAILS" if out.failures else "agrees")
    return 1 if out.failures else 0
