"""C06 — diag / transpose / lazy evaluation / indexing of a kernel all agree.

Model: coq/Models/C06_index.v (entrywise kernel matrices, torch's reading of an index tuple as result
shape + flat source positions, the kernel parameter/buffer table, active_dims as column gather) and
coq/Models/C06_lazyslice.v + coq/Gen/LazySlice_gen.v (slice division for multi-output kernels,
REGENERATED from the source by harness/translators/lazyslice_tr.py).  Theorems: Props/C06.v.

Tie T: pregen regenerates Gen/LazySlice_gen.v; Proofs/C06_lazyslice.v re-proves the obligations over it
(part of the build); the full-strength obligation (no side condition on stop = 0) is attempted at run
time and, when it fails, the model is searched for failing requests which are replayed on the real code.

Tie C (this file): for a family of kernels (single/multi-output, composite, active_dims, batch
parameters, batch inputs, broadcasting, last_dim_is_batch, lazily_evaluate_kernels on/off) and index
expressions enumerated exhaustively on small shapes,
      kernel(x1, x2)[idx]   (evaluated afterwards)   ==   kernel(x1, x2).to_dense()[idx]
where the right-hand side is computed by torch on the dense tensor AND by gathering the dense tensor at
the flat positions computed by the Coq model (so the model's reading of torch indexing is itself
checked on every case).  Plus: diag=True vs diagonal, K(x2,x1) vs K(x1,x2)^T, lazy vs eager, stacked
blocks, entrywise meaning, repeat, kernel[i] / expand_batch with active_dims (against the Coq table
model), active_dims = column selection; multi-output kernels with ARD and unequal parameters; kernels
whose forward consumes call-time keyword arguments through chains of lazy operations (closed-form
reference); sequences of requests on one kernel object under every setting that changes the lazy
evaluation code path (debug off, lazily_evaluate_kernels off, trace_mode)."""
import itertools
import json
import math
import random
import re
import warnings

import torch

from harness.lib import common as C
from harness.drivers.C11 import py_comp, py_idx, coq_comp, FULL, exc_name, all_ints, kind

COQ_TARGETS = ["Models/C06_index.vo", "Models/C06_lazyslice.vo", "Gen/LazySlice_gen.vo",
               "Proofs/C06_lazyslice.vo", "Proofs/C06_index.vo", "Models/C06_bcast.vo", "Proofs/C06_bcast.vo"]
LEVEL_NOTE = ("theorems are about the Gallina model (entrywise kernels under gather, multi-output layout, kernel "
              "state table) and about the slice-division arithmetic REGENERATED from the source (fail-closed ast "
              "translation, obligations re-proved each run); everything else is tied to /repo differentially: "
              "exhaustive index expressions on small shapes, implementation vs torch-on-dense vs the Coq index model")
IMPORTS = ("From Coq Require Import List ZArith String.\n"
           "From GPV Require Import Base.PySlice Models.C11_mtmvn Models.C06_index Models.C06_lazyslice Gen.LazySlice_gen "
           "Models.C06_bcast.")
LO, HI = -5, 5
BOUNDS = [None] + list(range(LO, HI + 1))
ATOL = 1e-10
EPS64 = 2.220446049250313e-16
KB = 16.0          # safety factor on the first-order rounding bound below
# input geometries of the identity checks (and of the "-far" index configurations): the same covariance entries are
# requested through calls that centre / difference the inputs differently, so the comparison must also be made where
# that matters: far from the origin relative to the lengthscale, on a large scale, and on nearly coincident rows
GEOMS = ["origin", "offset1e3", "offset1e6", "scaled1e4", "neardup", "offset1e5+neardup"]

torch.set_default_dtype(torch.float64)
warnings.filterwarnings("ignore")


# --------------------------------------------------------------------------- honest rounding bound
# Two ways of requesting the same entry evaluate the kernel on different subsets of the rows.  All kernels divide the
# inputs by their length parameter elementwise first (the same float for the same row in every call), so the calls
# differ only in how the scaled distance is obtained:
#   kernels.kernel.sq_dist: centre c = mean of the first argument's rows (a point of the convex hull of the rows), the
#     centred coordinates a = fl(z - c) carry a RELATIVE error <= eps/2 (one correctly rounded subtraction), then
#     r^2 = |a|^2 + |b|^2 - 2 a.b accumulated over d + 2 products:
#         |err(r^2)| <= eps (|a| + |b|) |a - b| + (d + 2) eps (|a| + |b|)^2 <= (4 (d + 3) + 2) eps diam^2 =: e_s
#     (diam = largest scaled distance between any two rows involved; |a|, |b| <= diam);
#   direct differences (diag=True, torch.cdist on few rows): error O(eps diam^2) as well.
# A kernel that is a function of r^2 with |dk/dr^2| <= c is off by at most c e_s; one that takes r = sqrt(r^2) with
# Lipschitz constant L in r by L min(sqrt(e_s), e_s / r_min) (r_min = smallest scaled distance between distinct rows).
# The bound is composed through Scale / Additive / Product / Multitask / LCM with the factors' magnitudes.  It does NOT
# grow with the distance of the inputs from the origin: a computation that does (an uncentred quadratic expansion is
# off by eps |z|^2) exceeds it by orders of magnitude at the offset geometries.

def _pp_lipschitz(q, j):
    """Lipschitz constant in r of the documented piecewise-polynomial function (1-r)_+^(j+q) P_q(j, r) (sampled)"""
    def f(r):
        if q == 0:
            P = 1.0
        elif q == 1:
            P = (j + 1) * r + 1
        elif q == 2:
            P = 1 + (j + 2) * r + (j * j + 4 * j + 3) / 3.0 * r * r
        else:
            P = 1 + (j + 3) * r + (6 * j * j + 36 * j + 45) / 15.0 * r * r + (j ** 3 + 9 * j * j + 23 * j + 15) / 15.0 * r ** 3
        return max(0.0, 1 - r) ** (j + q) * P
    N = 2000
    return 1.5 * max(abs(f((i + 1) / N) - f(i / N)) * N for i in range(N)) + 1.0


def _rows(x, ad):
    x = x.reshape(-1, x.shape[-1])
    return x if ad is None else x[:, torch.as_tensor(ad).reshape(-1).long()]


def _dist_terms(z):
    """(diam, r_min over non-coincident rows, are two rows coincident?) of the scaled rows z"""
    r = torch.cdist(z, z, compute_mode="donot_use_mm_for_euclid_dist")
    diam = r.max().item()
    pos = r[r > 0]
    return diam, (pos.min().item() if pos.numel() else float("inf")), bool((r + torch.eye(len(z)) == 0).any())


def rounding_bound(kern, pts):
    """-> (e, sup): e = bound on the absolute float64 discrepancy of one entry of `kern` between two evaluations that
    involve (subsets of) the rows pts (N x d_full), sup = bound on the magnitude of an entry"""
    from gpytorch import kernels as gk
    ad = getattr(kern, "active_dims", None)
    x = _rows(pts, ad)
    d = x.shape[-1]

    def es_of(ell):
        diam, rmin, dup = _dist_terms(x / ell)
        return (4 * (d + 3) + 2) * EPS64 * diam ** 2, diam, rmin, dup

    def r_err(es, rmin, dup):
        return math.sqrt(es) if (dup or rmin <= math.sqrt(es)) else es / rmin

    if isinstance(kern, gk.ScaleKernel):
        e, s = rounding_bound(kern.base_kernel, pts)
        o = kern.outputscale.abs().max().item()
        return o * e, o * s
    if isinstance(kern, gk.AdditiveKernel):
        parts = [rounding_bound(k, pts) for k in kern.kernels]
        return sum(p[0] for p in parts), sum(p[1] for p in parts)
    if isinstance(kern, gk.ProductKernel):
        parts = [rounding_bound(k, pts) for k in kern.kernels]
        sup = math.prod(p[1] for p in parts)
        return sum(p[0] * math.prod(q[1] for q in parts if q is not p) for p in parts) + len(parts) * EPS64 * sup, sup
    if isinstance(kern, gk.MultitaskKernel):
        e, s = rounding_bound(kern.data_covar_module, pts)
        b = kern.task_covar_module.covar_matrix.to_dense().abs().max().item()
        return b * e + 4 * EPS64 * b * s, b * s
    if isinstance(kern, gk.LCMKernel):
        parts = [rounding_bound(k, pts) for k in kern.covar_module_list]
        return sum(p[0] for p in parts), sum(p[1] for p in parts)
    if isinstance(kern, (gk.RBFKernelGrad,)):
        ell = kern.lengthscale.min().item()
        es, diam, rmin, dup = es_of(ell)
        amp = (1.0 + diam) ** 2 / min(1.0, ell) ** 2     # entries are k times polynomials of degree <= 2 in (z - z') / l
        return amp * (0.5 * es + 8 * EPS64), amp
    if isinstance(kern, (gk.RBFKernel, gk.RQKernel)):
        es, diam, rmin, dup = es_of(kern.lengthscale.min().item())
        return 0.5 * es, 1.0
    if isinstance(kern, gk.MaternKernel):
        es, diam, rmin, dup = es_of(kern.lengthscale.min().item())
        return 1.0 * r_err(es, rmin, dup), 1.0
    if isinstance(kern, gk.PiecewisePolynomialKernel):
        es, diam, rmin, dup = es_of(kern.lengthscale.min().item())
        return _pp_lipschitz(kern.q, d // 2 + kern.q + 1) * r_err(es, rmin, dup), 1.0
    if isinstance(kern, gk.CosineKernel):
        es, diam, rmin, dup = es_of(kern.period_length.min().item())
        return math.pi * r_err(es, rmin, dup), 1.0
    if isinstance(kern, gk.PeriodicKernel):
        # exp(-2 sum_m sin^2(r_m) / lambda_m), r_m = per-dimension distance of x / (p / pi):  |d sin^2| <= 3 e_s either way
        es, diam, rmin, dup = es_of(kern.period_length.min().item() / math.pi)
        return 6.0 * d / kern.lengthscale.min().item() * es, 1.0
    # kernels that do not go through the distance helpers (Linear, Polynomial, ...): dot products of the raw inputs, the
    # same products in every call; only the accumulation order may differ -> relative to the largest entry
    with torch.no_grad():
        sup = dense(kern(pts.reshape(-1, pts.shape[-1]))).abs().max().item()
    pw = getattr(kern, "power", 1)
    return 4 * (d + 2) * pw * EPS64 * sup, sup


def tol_for(kern, geom, *xs):
    """comparison threshold of the identity / index checks: the historical absolute 1e-10 at the origin geometry,
    1e-10 relative to the entry magnitude + KB * rounding bound elsewhere"""
    if geom == "origin":
        return ATOL, None
    pts = torch.cat([x.reshape(-1, x.shape[-1]) for x in xs])
    e, sup = rounding_bound(kern, pts)
    return ATOL * max(1.0, sup) + KB * e, dict(entry_bound=e, sup=sup)


def rescale_kernel(kern, S):
    """multiply every length parameter (lengthscale, period) of the kernel by S (inputs are multiplied by S as well)"""
    for m in kern.modules():
        if getattr(m, "has_lengthscale", False) and getattr(m, "raw_lengthscale", None) is not None:
            m.lengthscale = m.lengthscale.detach() * S
        if hasattr(m, "raw_period_length"):
            m.period_length = m.period_length.detach() * S


def apply_geom(geom, g, xs, d):
    """xs = [x1, x2, x1b] (randn rows).  Returns the transformed inputs and the factor the kernel's length
    parameters are to be multiplied with"""
    x1, x2, x1b = xs
    S = 1.0
    if "neardup" in geom:
        n, m = x1.shape[-2], x2.shape[-2]
        x2 = x2.clone()
        for j in range(0, m, 2):
            x2[..., j, :] = x1[..., j % n, :] + 1e-7 * torch.randn(d, generator=g)
        x1b = x1 + 1e-6 * torch.randn(*x1.shape, generator=g)
    mo = re.search(r"offset(1e\d+)", geom)
    if mo:
        M = float(mo.group(1))
        off = M * (1.0 + 0.5 * torch.rand(d, generator=g)) * (torch.randint(0, 2, (d,), generator=g) * 2.0 - 1.0)
        x1, x2, x1b = x1 + off, x2 + off, x1b + off
    ms = re.search(r"scaled(1e\d+)", geom)
    if ms:
        S = float(ms.group(1))
        x1, x2, x1b = x1 * S, x2 * S, x1b * S
    return (x1, x2, x1b), S


def steps_for(tier):
    return [None, 1, 2, 3, -1, 0] if tier == "quick" else [None] + list(range(-5, 6))


def all_slices(steps):
    return [["s", a, b, k] for a in BOUNDS for b in BOUNDS for k in steps]


def coq_idx_list(idx):
    if not idx:
        return "(@nil pyidx_e)"
    return "[%s]" % "; ".join(coq_comp(c) for c in idx)


def coq_steps(steps):
    return "[%s]" % "; ".join(C.opt_z(k) for k in steps)


# --------------------------------------------------------------------------- kernels

def lin(g, lo, hi, *shape):
    return lo + (hi - lo) * torch.rand(torch.Size(shape), generator=g)


class Cfg:
    """one kernel + inputs; K() builds a fresh kernel(x1, x2, **kw) (lazy by default).  D, the dense tensor that index
    expressions are applied to for "evaluate first, index afterwards", does NOT come from the lazily evaluated tensor
    under test: it is `ref` when given (assembled per batch element from unbatched kernels, see run_broadcast_checks),
    else the EAGER evaluation (lazily_evaluate_kernels(False): Kernel.forward, no LazyEvaluatedKernelTensor); that the
    lazy tensor reports this shape and densifies to these numbers is checked separately (check_lazy_dense)."""

    def __init__(self, name, kernel, x1, x2, p=1, kw=None, fam="single", geom="origin", ref=None):
        self.name, self.kernel, self.x1, self.x2, self.p, self.kw, self.fam = name, kernel, x1, x2, p, kw or {}, fam
        self._D = ref
        self.geom = geom
        with torch.no_grad():
            self.tol, self.tolinfo = tol_for(kernel, geom, x1, x2)

    def K(self, lazy=True):
        import gpytorch
        with gpytorch.settings.lazily_evaluate_kernels(lazy):
            return self.kernel(self.x1, self.x2, **self.kw)

    @property
    def D(self):
        if self._D is None:
            with torch.no_grad():
                self._D = dense(self.K(lazy=False)).detach().clone()
        return self._D


def check_lazy_dense(out, cfg):
    """the lazily evaluated tensor reports the shape of, and densifies to, the reference dense tensor"""
    case = dict(cfg=cfg.name, x1=list(cfg.x1.shape), x2=list(cfg.x2.shape), kernel_batch=list(cfg.kernel.batch_shape),
                shape=list(cfg.D.shape))
    out.case(dict(case, what="lazy-shape-and-dense"), True, label="lazy-shape-and-dense")
    if cfg.fam == "eager":
        return
    try:
        with torch.no_grad():
            Kl = cfg.K()
            shp = list(Kl.shape)
    except Exception as e:
        out.fail("lazy:%s:shape:raises-%s" % (cfg.name, exc_name(e)), "kernel(x1,x2).shape raises %r" % (repr(e)[:200],), case)
        return
    if shp != list(cfg.D.shape):
        out.fail("lazy:%s:shape" % cfg.name, "lazily evaluated kernel(x1,x2) reports shape %s, the evaluated kernel has shape %s"
                 % (shp, list(cfg.D.shape)), case, impl=shp, model=list(cfg.D.shape))
    try:
        with torch.no_grad():
            Dl = dense(cfg.K())
    except Exception as e:
        out.fail("lazy:%s:to_dense:raises-%s" % (cfg.name, exc_name(e)), "kernel(x1,x2).to_dense() raises %r" % (repr(e)[:200],), case)
        return
    if tuple(Dl.shape) != tuple(cfg.D.shape) or not torch.allclose(Dl, cfg.D, atol=cfg.tol, rtol=0):
        out.fail("lazy:%s:to_dense" % cfg.name, "kernel(x1,x2).to_dense() (shape %s) differs from the evaluated kernel (shape %s)"
                 % (list(Dl.shape), list(cfg.D.shape)), case, impl=Dl, model=cfg.D)


def make_configs(seed):
    from gpytorch import kernels as gk
    g = torch.Generator().manual_seed(1000 + seed)

    def rbf(bs=(), ad=None, ard=None):
        k = gk.RBFKernel(batch_shape=torch.Size(bs), active_dims=ad, ard_num_dims=ard)
        k.lengthscale = lin(g, 0.6, 1.8, *bs, 1, ard or 1)
        return k

    def X(*shape):
        return torch.randn(*shape, generator=g)

    cf = []
    cf.append(Cfg("rbf", rbf(), X(3, 2), X(4, 2)))
    sk = gk.ScaleKernel(rbf(ad=torch.tensor([0, 2]), ard=2))
    sk.outputscale = 1.7
    cf.append(Cfg("scale-rbf-ard-ad", sk, X(3, 3), X(4, 3)))
    m = gk.MaternKernel(nu=1.5, active_dims=torch.tensor([1]))
    m.lengthscale = 0.9
    comp = gk.ScaleKernel(m) * gk.LinearKernel(active_dims=torch.tensor([0, 2])) + gk.PeriodicKernel()
    cf.append(Cfg("composite", comp, X(3, 3), X(4, 3)))
    cf.append(Cfg("rbf-batch-x", rbf(), X(2, 3, 2), X(2, 4, 2), fam="batch"))
    cf.append(Cfg("rbf-batch-k-bcast", rbf(bs=(2,)), X(3, 2), X(2, 4, 2), fam="batch"))
    cf.append(Cfg("rbf-batch-k-ad", gk.ScaleKernel(rbf(bs=(2,), ad=torch.tensor([0, 2])), batch_shape=torch.Size([2])),
                  X(3, 3), X(4, 3), fam="batch"))
    cf[-1].kernel.outputscale = torch.tensor([0.7, 1.9])
    mt = gk.MultitaskKernel(rbf(), num_tasks=2, rank=1)
    mt.task_covar_module.covar_factor.data = lin(g, 0.5, 1.5, 2, 1)
    mt.task_covar_module.var = torch.tensor([0.3, 0.8])
    cf.append(Cfg("multitask", mt, X(2, 2), X(2, 2), p=2, fam="multi-output"))
    gr = gk.RBFKernelGrad()
    gr.lengthscale = 1.3
    cf.append(Cfg("rbfgrad", gr, X(2, 1), X(2, 1), p=2, fam="multi-output"))
    lcm = gk.LCMKernel([rbf(), gk.MaternKernel(nu=2.5)], num_tasks=2, rank=1)
    cf.append(Cfg("lcm", lcm, X(2, 2), X(2, 2), p=2, fam="multi-output"))
    mtb = gk.MultitaskKernel(rbf(bs=(2,)), num_tasks=2, rank=1, batch_shape=torch.Size([2]))
    cf.append(Cfg("multitask-batch", mtb, X(2, 2), X(2, 2), p=2, fam="multi-output-batch"))
    cf.append(Cfg("rbf-batch2-k", rbf(bs=(2, 2)), X(3, 2), X(2, 1, 4, 2), fam="batch"))
    mt2 = gk.MultitaskKernel(rbf(), num_tasks=2, rank=1)
    cf.append(Cfg("multitask-batch-x", mt2, X(2, 2, 2), X(2, 2, 2), p=2, fam="multi-output-batch"))
    # batch dimensions carried by ONE operand only (x1 / x2 / the kernel parameters), and mixed patterns where every
    # operand contributes a dimension the others lack (the exhaustive enumeration over patterns is run_broadcast_checks)
    cf.append(Cfg("rbf-batch-x2-only", rbf(), X(3, 2), X(2, 4, 2), fam="batch"))
    cf.append(Cfg("rbf-batch-x1-only", rbf(ard=2), X(2, 3, 2), X(4, 2), fam="batch"))
    cf.append(Cfg("rbf-batch-k-only", rbf(bs=(2,)), X(3, 2), X(4, 2), fam="batch"))
    cf.append(Cfg("rbf-batch-x1-1-x2-3", rbf(), X(1, 3, 2), X(3, 4, 2), fam="batch"))
    cf.append(Cfg("rbf-batch-k2-x2-31", rbf(bs=(2,)), X(3, 2), X(3, 1, 4, 2), fam="batch"))
    cf.append(Cfg("rbf-batch-x1-21-x2-3", rbf(), X(2, 1, 3, 2), X(3, 4, 2), fam="batch"))
    cf.append(Cfg("rbf-last-dim-batch", rbf(), X(3, 2), X(4, 2), kw=dict(last_dim_is_batch=True), fam="batch"))
    cf.append(Cfg("rbf-eager", rbf(), X(3, 2), X(4, 2), fam="eager"))
    # the same kinds of kernels on inputs far from the origin (relative to the lengthscale) and with nearly coincident
    # rows: index-then-evaluate centres / differences a subset of the rows, evaluate-then-index all of them
    far = lambda t, M: t + M * torch.tensor([1.0, -1.3, 0.7])[:t.shape[-1]]  # noqa: E731
    cf.append(Cfg("rbf-far", rbf(), far(X(3, 2), 1e6), far(X(4, 2), 1e6), geom="offset1e6"))
    skm = gk.ScaleKernel(gk.MaternKernel(nu=2.5, ard_num_dims=2))
    skm.outputscale = 2.3
    skm.base_kernel.lengthscale = lin(g, 0.6, 1.8, 1, 2)
    xa = X(3, 2)
    xb = torch.cat([xa[:2] + 1e-7 * X(2, 2), X(2, 2)])
    cf.append(Cfg("scale-matern-far-neardup", skm, far(xa, 1e5), far(xb, 1e5), geom="offset1e5+neardup"))
    mtf = gk.MultitaskKernel(rbf(), num_tasks=2, rank=1)
    mtf.task_covar_module.covar_factor.data = lin(g, 0.5, 1.5, 2, 1)
    cf.append(Cfg("multitask-far", mtf, far(X(2, 2), 1e6), far(X(2, 2), 1e6), p=2, fam="multi-output", geom="offset1e6"))
    grf = gk.RBFKernelGrad()
    grf.lengthscale = 0.8
    cf.append(Cfg("rbfgrad-far", grf, far(X(2, 1), 1e6), far(X(2, 1), 1e6), p=2, fam="multi-output", geom="offset1e6"))
    return cf


# --------------------------------------------------------------------------- index expressions

def expand_idx(idx, rank):
    """python mirror of Models/C06_index.v expand_tuple (None = invalid)"""
    nexp = sum(1 for c in idx if c != "...")
    nell = len(idx) - nexp
    if nell > 1 or nexp > rank:
        return None
    if nell == 1:
        k = idx.index("...")
        return list(idx[:k]) + [FULL] * (rank - nexp) + list(idx[k + 1:])
    return list(idx) + [FULL] * (rank - nexp)


def idx_class(cfg, idx, rank, empty):
    """names the input class for failure keys: component kinds + the features known to matter"""
    kinds = "-".join(kind(c) for c in idx) or "none"
    tags = []
    ex = expand_idx(idx, rank)
    if ex is not None:
        rc = ex[-2:]
        if any(isinstance(c, int) and c == -1 for c in rc):
            tags.append("rowcol-int-minus1")
        if cfg.p > 1 and all(kind(c) == "slice" and c[3] is None for c in rc) and any(c[2] == 0 for c in rc):
            tags.append("mo-stop0")
        if any(kind(c) == "tensor" and any(v < 0 for v in c[1]) for c in ex):
            tags.append("negative-tensor-entry")
        bt = any(kind(c) == "tensor" for c in ex[:-2])
        rt, ct = kind(rc[0]) == "tensor", kind(rc[1]) == "tensor"
        absorbed = (bt and (rt or ct)) or (not bt and rt and ct)
        if absorbed and any(isinstance(c, int) for c in rc):
            tags.append("int-among-absorbed-tensors")
        nb = rank - 2
        for x in (cfg.x1, cfg.x2):
            xb = list(x.shape[:-2])
            xb = [None] * (nb - len(xb)) + xb       # right-aligned against the broadcast batch shape
            for j in range(nb):
                if not cfg.kw.get("last_dim_is_batch") and xb[j] == 1 and cfg.D.shape[j] > 1 and kind(ex[j]) == "slice" and ex[j] != FULL \
                        and "slice-on-broadcast-batch-dim" not in tags:
                    tags.append("slice-on-broadcast-batch-dim")
        kb = tuple(cfg.kernel.batch_shape)
        if not cfg.kw.get("last_dim_is_batch") and len(kb) and kb != tuple(cfg.D.shape[:nb]) and any(c != FULL for c in ex[:nb]):
            tags.append("batch-index-on-stretched-kernel")
        if cfg.kw.get("last_dim_is_batch") and (kind(ex[0]) != "slice" or absorbed):
            tags.append("lastdim-nonslice-index")
    if empty:
        tags.append("empty")
    return kinds + "".join("+" + t for t in tags)


def parse_model(mres):
    if mres[0] == 0:
        return None
    rank = mres[1]
    shape = mres[2:2 + rank]
    npos = mres[2 + rank]
    pos = mres[3 + rank:]
    assert len(pos) == npos
    return shape, pos


def check_expr(out, cfg, idx, mres, label):
    D = cfg.D
    pidx = py_idx(idx)
    case = dict(cfg=cfg.name, shape=list(D.shape), idx=idx)
    try:
        want = D[pidx]
        terr = None
    except Exception as e:
        terr = exc_name(e)
    mod = parse_model(mres)
    # 1. the Coq model's reading of torch indexing (machinery self-check)
    if mod is None and terr is None:
        if want.numel() == 0:
            out.count("torch-skips-bounds-check-on-empty-result")
        else:
            out.fail("model:acceptance", "Coq index model rejects an index torch accepts", case, model=mres)
        return
    if mod is not None and terr is not None:
        out.fail("model:acceptance", "Coq index model accepts an index torch rejects (%s)" % terr, case, model=mres)
        return
    if terr is not None:
        out.count("invalid-index (outside the property)")
        return
    shape, pos = mod
    via_model = D.reshape(-1)[torch.tensor(pos, dtype=torch.long)].reshape(shape)
    if list(want.shape) != list(shape) or not torch.equal(via_model, want):
        out.fail("model:positions", "gathering the dense tensor at the Coq model's positions differs from torch's dense[idx]",
                 case, impl=want, model=via_model)
        return
    # 2. the implementation
    empty = want.numel() == 0
    cls = idx_class(cfg, idx, D.dim(), empty)
    out.case(case, not empty, label=label)
    key = lambda what: "getitem:%s:%s:%s" % (getattr(cfg, "keyname", cfg.name), cls, what)  # noqa: E731
    try:
        with torch.no_grad():
            r = cfg.K(lazy=(cfg.fam != "eager"))[pidx]
            rd = r.to_dense() if hasattr(r, "to_dense") else r
    except Exception as e:
        out.fail(key("raises-" + exc_name(e)), "kernel(x1,x2)[idx] raises %r on an index that is valid for the dense tensor"
                 % (repr(e)[:160],), case, impl=exc_name(e), model=want)
        return
    if tuple(rd.shape) != tuple(want.shape):
        out.fail(key("shape"), "kernel(x1,x2)[idx] has shape %s, evaluate-then-index gives %s" % (list(rd.shape), list(want.shape)),
                 case, impl=list(rd.shape), model=list(want.shape))
        return
    if not torch.allclose(rd, want, atol=cfg.tol, rtol=0):
        out.fail(key("values"), "kernel(x1,x2)[idx] differs from evaluate-then-index (max abs diff %.3g, threshold %.3g)"
                 % (float((rd - want).abs().max()), cfg.tol), case, impl=rd, model=want)


def tensors_for(length):
    vs = [[0], [length - 1, 0], [-1, 0], [0, 0, length - 1], list(range(length - 1, -1, -1)), [-length, 1 % length], [length], []]
    seen, res = set(), []
    for v in vs:
        if tuple(v) not in seen:
            seen.add(tuple(v))
            res.append(["t", v])
    return res


def family_plan(cfg, tier, rng):
    """list of (pre, suf, position length) -- the position between pre and suf is enumerated exhaustively in Coq"""
    dims = list(cfg.D.shape)
    R, Cn = dims[-2], dims[-1]
    fams = []
    if len(dims) == 2:
        t_r = ["t", [R - 1, 0]]
        t_c = ["t", [Cn - 1, 0]]
        for suf in ([], [FULL], [1], [["s", 1, 3, None]], [["s", 2, 4, None]] if cfg.p > 1 else [t_c]):
            fams.append(([], suf, R))
        for pre in ([FULL], [0], [["s", 1, None, None]], ["..."], [["s", 0, 2, None]] if cfg.p > 1 else [t_r]):
            fams.append((pre, [], Cn))
    elif len(dims) == 4:
        t_b = ["t", [1, 0]]
        for pre, suf, ln in (([], [FULL], dims[0]), ([], [], dims[0]), ([FULL], [], dims[1]), ([0], [], dims[1]),
                             ([["s", 1, None, None]], [FULL, FULL], dims[1]), ([1, 0], [], R), ([FULL, 1], [FULL], R),
                             (["..."], [], Cn), ([t_b, FULL], [FULL], R), ([FULL, t_b], [], R)):
            fams.append((pre, suf, ln))
    else:
        B = dims[0]
        t_b = ["t", [1, 0]]
        for suf in ([], [FULL, FULL], [1, ["s", 1, 3, None]], [["t", [0, R - 1]], FULL]):
            fams.append(([], suf, B))
        for pre in ([0], [FULL], [t_b], ["..."], [-1]):
            fams.append((pre, [FULL] if pre != ["..."] else [0], R))
        for pre in ([0, FULL], [FULL, 1], ["..."], [t_b, FULL], [["s", 1, None, None], ["s", None, None, 2]]):
            fams.append((pre, [], Cn))
    return fams


def family_exprs(pre, suf, length, steps):
    return [pre + [i] + suf for i in all_ints(length)] + [pre + [s] + suf for s in all_slices(steps)]


def tensor_exprs(cfg, rng):
    dims = list(cfg.D.shape)
    R, Cn = dims[-2], dims[-1]
    TR, TC = tensors_for(R), tensors_for(Cn)
    slc = [FULL, ["s", 1, None, None], ["s", None, -1, None], ["s", None, None, 2], ["s", 0, 0, None], ["s", 2, 100, None]]
    core = []
    for tr in TR:
        for o in slc + [0, -1, Cn - 1] + TC:
            core.append([tr, o])
    for tc in TC:
        for o in slc + [0, -1, R - 1]:
            core.append([o, tc])
    if len(dims) == 2:
        ex = core + [["...", c[1]] for c in core[:8]] + [[c[0]] for c in core[:8]]
        return ex
    B = dims[-3]
    out = []
    bsel = [0, -1, 1, FULL, ["s", None, None, -1], ["s", 1, None, None], ["t", [1, 0]], ["t", [0, 0, 1]], ["t", [1]], ["t", [-1, 0]],
            ["t", [B]], B]
    for c in core:
        out.append([rng.choice(bsel)] + c)
    for b in bsel:
        for c in ([FULL, FULL], [0, FULL], [FULL, -2], [1, 1], [["s", 1, None, None], ["s", None, 2, None]],
                  [["t", [0, R - 1]], ["t", [1, 0]]], [["t", [0, R - 1]], FULL], [FULL, ["t", [1, 0]]]):
            out.append([b] + c)
        out.append([b])
        out.append([b, "..."])
        out.append([b, "...", 0])
    out += [["...", c[0], c[1]] for c in core[:10]]
    if len(dims) == 4:
        b0 = [0, 1, -1, FULL, ["s", 1, None, None], ["t", [1, 0]], ["t", [0]]]
        out = [([rng.choice(b0)] + e) if e[0] != "..." else e for e in out]
    return out


def run_index_checks(out, ctx, cfgs, bc_cfgs=()):
    tier, seed = ctx["tier"], ctx["seed"]
    rng = random.Random(seed * 7919 + 6)
    steps = steps_for(tier)
    full_cfgs = {"rbf", "multitask", "rbf-batch-k-ad", "rbf-batch2-k"} if tier == "quick" else {c.name for c in cfgs}
    fam_cases, fam_meta, single = [], [], []
    for cfg in bc_cfgs:
        for idx in bcast_index_forms(list(cfg.D.shape)):
            single.append((cfg, idx, "broadcast-pattern forms"))
    for cfg in cfgs:
        check_lazy_dense(out, cfg)
        dims = list(cfg.D.shape)
        for (pre, suf, length) in family_plan(cfg, tier, rng):
            if cfg.name in full_cfgs:
                fam_cases.append("(%s, %s, %s, %d, %d, %d, %s)" % (C.z_list(dims), coq_idx_list(pre), coq_idx_list(suf),
                                                                  length, LO, HI, coq_steps(steps)))
                fam_meta.append((cfg, pre, suf, length))
            else:   # a seeded sample of the same family, run through Coq one by one
                ex = family_exprs(pre, suf, length, steps)
                for idx in rng.sample(ex, min(len(ex), 45)):
                    single.append((cfg, idx, "family-sample"))
        for idx in tensor_exprs(cfg, rng):
            single.append((cfg, idx, "tensor/batch forms"))
    fam_res = C.coq_run_cases("C06_fam", IMPORTS, "Definition run := run_index_family.", fam_cases, shard=max(1, len(fam_cases) // 16 + 1))
    for (cfg, pre, suf, length), res in zip(fam_meta, fam_res):
        ex = family_exprs(pre, suf, length, steps)
        if len(ex) != len(res):
            raise RuntimeError("family enumeration out of step with the Coq model: %d vs %d" % (len(ex), len(res)))
        for idx, mres in zip(ex, res):
            check_expr(out, cfg, idx, mres, "exhaustive:%s" % cfg.name)
    cq = ["(%s, %s)" % (C.z_list(list(cfg.D.shape)), coq_idx_list(idx)) for (cfg, idx, lab) in single]
    res = C.coq_run_cases("C06_idx", IMPORTS, "Definition run := run_index.", cq, shard=max(100, len(cq) // 16 + 1))
    for (cfg, idx, lab), mres in zip(single, res):
        check_expr(out, cfg, idx, mres, ("%s:%s" % (lab, cfg.name)) if not cfg.name.startswith("bc:") else lab)
    out.extra["exhaustive_bound"] = ("at one position of the index tuple (row, column or batch; %d surrounding contexts per "
                                     "shape) ALL ints -len-1..len and ALL slices with start/stop in {None,%d..%d}, step in %s, "
                                     "on kernels %s; seeded samples of the same families on the other kernels"
                                     % (10, LO, HI, steps, sorted(full_cfgs)))


# --------------------------------------------------------------------------- kernel-level identities

def dense(x):
    return x.to_dense() if hasattr(x, "to_dense") else x


def kernel_zoo(seed):
    """(name, factory(batch_shape, active_dims) -> kernel, p, symmetric)"""
    from gpytorch import kernels as gk
    g = torch.Generator().manual_seed(77 + seed)

    def ls(k, bs):
        if hasattr(k, "raw_lengthscale") and k.has_lengthscale:
            k.lengthscale = lin(g, 0.6, 1.8, *k.lengthscale.shape)
        return k

    Z = []
    bsz = lambda bs: torch.Size(bs)  # noqa: E731
    Z.append(("rbf", lambda bs, ad: ls(gk.RBFKernel(batch_shape=bsz(bs), active_dims=ad), bs), 1))
    Z.append(("rbf-ard", lambda bs, ad: ls(gk.RBFKernel(batch_shape=bsz(bs), active_dims=ad, ard_num_dims=(len(ad) if ad is not None else 3)), bs), 1))
    for nu in (0.5, 1.5, 2.5):
        Z.append(("matern%s" % nu, lambda bs, ad, nu=nu: ls(gk.MaternKernel(nu=nu, batch_shape=bsz(bs), active_dims=ad), bs), 1))
    Z.append(("rq", lambda bs, ad: ls(gk.RQKernel(batch_shape=bsz(bs), active_dims=ad), bs), 1))
    Z.append(("linear", lambda bs, ad: gk.LinearKernel(batch_shape=bsz(bs), active_dims=ad), 1))
    Z.append(("poly2", lambda bs, ad: gk.PolynomialKernel(power=2, batch_shape=bsz(bs), active_dims=ad), 1))
    Z.append(("periodic", lambda bs, ad: ls(gk.PeriodicKernel(batch_shape=bsz(bs), active_dims=ad), bs), 1))
    Z.append(("cosine", lambda bs, ad: gk.CosineKernel(batch_shape=bsz(bs), active_dims=ad), 1))
    Z.append(("piecewise-q1", lambda bs, ad: ls(gk.PiecewisePolynomialKernel(q=1, batch_shape=bsz(bs), active_dims=ad), bs), 1))
    Z.append(("scale-rbf", lambda bs, ad: gk.ScaleKernel(ls(gk.RBFKernel(batch_shape=bsz(bs), active_dims=ad), bs), batch_shape=bsz(bs)), 1))
    Z.append(("sum", lambda bs, ad: ls(gk.RBFKernel(batch_shape=bsz(bs), active_dims=ad), bs) + gk.LinearKernel(batch_shape=bsz(bs), active_dims=ad), 1))
    Z.append(("product", lambda bs, ad: ls(gk.MaternKernel(nu=1.5, batch_shape=bsz(bs), active_dims=ad), bs)
              * gk.ScaleKernel(gk.CosineKernel(batch_shape=bsz(bs), active_dims=ad), batch_shape=bsz(bs)), 1))
    Z.append(("multitask", lambda bs, ad: gk.MultitaskKernel(ls(gk.RBFKernel(batch_shape=bsz(bs), active_dims=ad), bs), num_tasks=2, rank=1,
                                                               batch_shape=bsz(bs)), 2))
    Z.append(("lcm", lambda bs, ad: gk.LCMKernel([ls(gk.RBFKernel(active_dims=ad), bs), gk.MaternKernel(nu=1.5, active_dims=ad)],
                                                   num_tasks=2, rank=1), 2))
    Z.append(("rbfgrad", lambda bs, ad: ls(gk.RBFKernelGrad(batch_shape=bsz(bs), active_dims=ad), bs), None))

    # multi-output kernels with ARD and all parameters UNEQUAL across input dimensions / tasks / batch elements (a freshly
    # constructed kernel has equal lengthscales, which hides any permutation of the per-dimension blocks)
    def ard(k):
        for mod in k.modules():
            if getattr(mod, "has_lengthscale", False) and getattr(mod, "raw_lengthscale", None) is not None:
                shp = mod.lengthscale.shape
                base = 0.55 + 0.75 * torch.arange(shp[-1], dtype=torch.float64)          # 0.55, 1.3, 2.05: pairwise different
                mod.lengthscale = base * (1.0 + 0.15 * torch.rand(shp, generator=g))
            if hasattr(mod, "raw_offset"):
                mod.offset = lin(g, 0.4, 1.6, *mod.offset.shape)
        return k

    nd = lambda ad: len(ad) if ad is not None else 3  # noqa: E731
    Z.append(("rbfgrad-ard", lambda bs, ad: ard(gk.RBFKernelGrad(ard_num_dims=nd(ad), batch_shape=bsz(bs), active_dims=ad)), None))
    Z.append(("rbfgradgrad-ard", lambda bs, ad: ard(gk.RBFKernelGradGrad(ard_num_dims=nd(ad), batch_shape=bsz(bs), active_dims=ad)),
              lambda d: 1 + 2 * d))
    Z.append(("matern52grad-ard", lambda bs, ad: ard(gk.Matern52KernelGrad(ard_num_dims=nd(ad), batch_shape=bsz(bs), active_dims=ad)), None))
    Z.append(("polygrad", lambda bs, ad: ard(gk.PolynomialKernelGrad(power=2, batch_shape=bsz(bs), active_dims=ad)), None))
    Z.append(("multitask-ard", lambda bs, ad: gk.MultitaskKernel(ard(gk.RBFKernel(ard_num_dims=nd(ad), batch_shape=bsz(bs), active_dims=ad)),
                                                                   num_tasks=3, rank=2, batch_shape=bsz(bs)), 3))
    Z.append(("lcm-ard", lambda bs, ad: gk.LCMKernel([ard(gk.RBFKernel(ard_num_dims=nd(ad), active_dims=ad)),
                                                       ard(gk.MaternKernel(nu=1.5, ard_num_dims=nd(ad), active_dims=ad))],
                                                      num_tasks=3, rank=1), 3))
    return Z


GRAD_KERNELS = ("rbfgrad", "rbfgrad-ard", "rbfgradgrad-ard", "matern52grad-ard", "polygrad")
ORIGIN_ONLY = ("rbfgrad-ard", "rbfgradgrad-ard", "matern52grad-ard", "polygrad", "multitask-ard", "lcm-ard")


def eq(a, b, tol=ATOL):
    return tuple(a.shape) == tuple(b.shape) and torch.allclose(a, b, atol=tol, rtol=0)


MARGIN = {}


def run_identity_checks(out, ctx):
    seed = ctx["seed"]
    MARGIN.clear()
    g = torch.Generator().manual_seed(4242 + seed)
    AD = torch.tensor([0, 2])
    for name, fac, p in kernel_zoo(seed):
        for bs in ((), (2,)):
            if name in ("lcm", "lcm-ard") and bs:
                continue
            for ad in (None, AD):
                for geom in GEOMS:
                    if name in ORIGIN_ONLY and geom != "origin":     # (the rounding bound is not worked out for these kernels)
                        continue
                    identity_case(out, g, name, fac, p, bs, ad, geom)
    out.extra["identity_geometries"] = GEOMS
    out.extra["identity_largest_discrepancy_over_threshold"] = {k: float("%.3g" % v) for k, v in MARGIN.items()}
    out.extra["identity_tolerance"] = ("origin: %g absolute; other geometries: %g * max(1, entry magnitude) + %g * rounding bound of the "
                                       "centred distance computation (see rounding_bound)" % (ATOL, ATOL, KB))


def identity_case(out, g, name, fac, p, bs, ad, geom):
    import gpytorch
    d = 3
    n, m = 3, 4
    try:
        k = fac(bs, ad)
    except Exception as e:
        out.fail("construct:%s" % name, "cannot construct kernel: %r" % e, dict(kernel=name, bs=list(bs)))
        return
    deff = d if ad is None else len(ad)
    pp = p(deff) if callable(p) else (p if p is not None else 1 + deff)
    x1, x2, x1b = torch.randn(n, d, generator=g), torch.randn(m, d, generator=g), torch.randn(n, d, generator=g)
    (x1, x2, x1b), S = apply_geom(geom, g, [x1, x2, x1b], d)
    if S != 1.0:
        rescale_kernel(k, S)
    needs_batched_x = name in GRAD_KERNELS   # RBFKernelGrad takes its batch shape from the inputs (broadcasting: C08)
    if needs_batched_x and bs:
        x1, x2, x1b = (t.expand(*bs, *t.shape).contiguous() for t in (x1, x2, x1b))
    small = dict(kernel=name, batch_shape=list(bs), active_dims=(ad.tolist() if ad is not None else None), geom=geom)
    case = dict(small, x1=x1.tolist(), x2=x2.tolist(), x1b=x1b.tolist())
    gtag = "" if geom == "origin" else ":geom=" + geom
    kk = lambda what: "%s:%s:%s%s%s" % (what, name, "batch" if bs else "nobatch", ":active_dims" if ad is not None else "", gtag)  # noqa: E731
    try:
        with torch.no_grad():
            tol, tinfo = tol_for(k, geom, x1, x2, x1b)
    except Exception as e:
        out.fail(kk("evaluate:raises-" + exc_name(e)), "kernel evaluation raises %r" % e, case)
        return
    if tinfo:
        case["tolerance"] = dict(tinfo, tol=tol)
    out.count("geom=" + geom)

    def eq(a, b):
        if tuple(a.shape) != tuple(b.shape):
            return False
        if a.numel():
            diff = float((a - b).abs().max())
            MARGIN[geom] = max(MARGIN.get(geom, 0.0), diff / tol if diff == diff else float("inf"))
        return torch.allclose(a, b, atol=tol, rtol=0)
    with torch.no_grad():
        try:
            D = dense(k(x1, x2))
            with gpytorch.settings.lazily_evaluate_kernels(False):
                E = dense(k(x1, x2))
        except Exception as e:
            out.fail(kk("evaluate:raises-" + exc_name(e)), "kernel(x1,x2) raises %r" % e, case)
            return
        nt = True
        out.case(dict(small, what="lazy-vs-eager"), nt, label="lazy-vs-eager")
        if not eq(D, E):
            out.fail(kk("lazy-vs-eager"), "lazily evaluated kernel tensor differs from eager evaluation", case, impl=D, model=E)
        if tuple(D.shape) != tuple(bs) + (n * pp, m * pp):
            out.fail(kk("shape"), "kernel(x1,x2) has shape %s" % list(D.shape), case)
            return
        # diag (x1 vs x1 and x1 vs another set of the same size)
        for xb, lab in ((x1, "same"), (x1b, "other")):
            out.case(dict(small, what="diag", x2=lab), nt, label="diag")
            full = dense(k(x1, xb))
            want = full.diagonal(dim1=-1, dim2=-2)
            try:
                dg = dense(k(x1, xb, diag=True))
                dl = k(x1, xb).diagonal()
            except Exception as e:
                if lab == "other" and "x1 == x2" in str(e):
                    out.count("diag with x1 != x2 refused (documented: diag requires x1 == x2)")
                    continue
                out.fail(kk("diag:raises-" + exc_name(e)), "diag raises %r" % e, dict(case, x2=lab))
                continue
            if not eq(dg, want):
                out.fail(kk("diag:%s" % lab), "kernel(x1,x2,diag=True) is not the diagonal of the full matrix", dict(case, x2=lab),
                         impl=dg, model=want)
            if not eq(dl, want):
                out.fail(kk("lazy-diagonal:%s" % lab), "kernel(x1,x2).diagonal() is not the diagonal of the full matrix",
                         dict(case, x2=lab), impl=dl, model=want)
        # transpose
        out.case(dict(small, what="transpose"), nt, label="transpose")
        T1 = dense(k(x2, x1))
        T2 = dense(k(x1, x2).mT)
        if not eq(T1, D.mT):
            out.fail(kk("transpose"), "kernel(x2,x1) != kernel(x1,x2)^T (max abs diff %.3g, threshold %.3g)" % (float((T1 - D.mT).abs().max()), tol),
                     case, impl=T1, model=D.mT)
        if not eq(T2, D.mT):
            out.fail(kk("lazy-transpose"), "kernel(x1,x2).mT != kernel(x1,x2)^T", case, impl=T2, model=D.mT)
        # stacked inputs: blocks = separately computed blocks
        out.case(dict(small, what="blocks"), nt, label="blocks")
        St = dense(k(torch.cat([x1, x1b], dim=-2), torch.cat([x2, x1], dim=-2)))
        blocks = [[D, dense(k(x1, x1))], [dense(k(x1b, x2)), dense(k(x1b, x1))]]
        W = torch.cat([torch.cat(bl, dim=-1) for bl in blocks], dim=-2)
        if not eq(St, W):
            out.fail(kk("blocks"), "blocks of K on stacked inputs differ from the separately computed blocks (max abs diff %.3g, threshold %.3g)"
                     % (float((St - W).abs().max()), tol), case, impl=St, model=W)
        # entrywise meaning: entry block (i, j) depends on x1[i], x2[j] only
        out.case(dict(small, what="entrywise"), nt, label="entrywise")
        bad = None
        for i in range(n):
            for j in range(m):
                e = dense(k(x1[..., i:i + 1, :], x2[..., j:j + 1, :]))
                w = D[..., i * pp:(i + 1) * pp, j * pp:(j + 1) * pp]
                if not eq(e, w):
                    bad = (i, j, e, w)
        if bad:
            out.fail(kk("entrywise"), "entry (%d,%d) of K(x1,x2) differs from K(x1[i],x2[j])" % bad[:2], case, impl=bad[2], model=bad[3])
        # repetition
        out.case(dict(small, what="repeat"), nt, label="repeat")
        reps = ((1,) * len(bs)) + (2, 3)
        try:
            Rp = dense(k(x1, x2).repeat(*reps))
            if not eq(Rp, D.repeat(*reps)):
                out.fail(kk("repeat"), "kernel(x1,x2).repeat(2,3) differs from repeating the dense matrix", case, impl=Rp,
                         model=D.repeat(*reps))
        except Exception as e:
            out.fail(kk("repeat:raises-" + exc_name(e)), "repeat raises %r" % e, case)
        # active_dims = column selection
        if ad is not None:
            out.case(dict(small, what="active_dims"), nt, label="active_dims")
            k0 = fac(bs, None) if "ard" not in name else None
            if k0 is not None:
                k0.load_state_dict({kk_: v for kk_, v in k.state_dict().items() if "active_dims" not in kk_}, strict=False)
                W = dense(k0(x1[..., ad], x2[..., ad]))
                if not eq(D, W):
                    out.fail(kk("active_dims"), "kernel with active_dims differs from the same kernel on the selected columns",
                             case, impl=D, model=W)
            # irrelevant columns do not matter
            x1p = x1.clone()
            x1p[..., 1] += 3.0 * S
            if not eq(dense(k(x1p, x2)), D):
                out.fail(kk("active_dims:inactive-column"), "changing a column outside active_dims changes the kernel", case)
        # kernel[i] and expand_batch
        if bs:
            for i in (0, 1, -1, slice(None, None, -1) if False else slice(1, None)):
                out.case(dict(small, what="kernel[i]", i=str(i)), nt, label="kernel[i]")
                try:
                    xi1, xi2 = (x1[i], x2[i]) if x1.dim() > 2 else (x1, x2)
                    got = dense(k[i](xi1, xi2))
                except Exception as e:
                    out.fail(kk("kernel-getitem:raises-" + exc_name(e)), "kernel[%s](x1,x2) raises %r" % (i, e), case)
                    continue
                if not eq(got, D[i]):
                    out.fail(kk("kernel-getitem"), "kernel[%s](x1,x2) != kernel(x1,x2)[%s]" % (i, i), case, impl=got, model=D[i])
        for new in ((3,) + tuple(bs), (2,) if not bs else (2, 2)):
            if name in ("lcm", "lcm-ard") or (needs_batched_x and tuple(new) != tuple(bs)):
                continue
            out.case(dict(small, what="expand_batch", new=list(new)), nt, label="expand_batch")
            try:
                ke = k.expand_batch(torch.Size(new))
                got = dense(ke(x1, x2))
            except Exception as e:
                out.fail(kk("expand_batch:raises-" + exc_name(e)), "kernel.expand_batch(%s)(x1,x2) raises %r" % (list(new), e), case)
                continue
            want = D.expand(*new, *D.shape[-2:])
            if not eq(got, want):
                out.fail(kk("expand_batch"), "kernel.expand_batch(%s)(x1,x2) differs from the expanded matrix" % (list(new),), case,
                         impl=got, model=want)


# --------------------------------------------------------------------------- call-time keyword arguments
# Kernel.__call__(x1, x2, diag, last_dim_is_batch, **params) hands **params to forward(); a LazyEvaluatedKernelTensor must
# carry them through EVERY lazy operation.  Family: user-defined kernels whose forward consumes call-time arguments
# (closed forms below), plain and wrapped in ScaleKernel / MultitaskKernel / LCMKernel / sums / products, called with
# non-default arguments, through chains of lazy operations; reference = the closed form evaluated densely by this file.

def kwarg_kernels():
    from gpytorch import kernels as gk

    class PowDot(gk.Kernel):
        """k(x, z) = scale * (x.z + offset) ** power;  power, offset, scale are call-time arguments"""
        has_lengthscale = False

        def forward(self, x1, x2, diag=False, last_dim_is_batch=False, power=1, offset=0.0, scale=1.0, **params):
            if diag:
                return scale * ((x1 * x2).sum(-1) + offset) ** power
            return scale * (x1 @ x2.transpose(-1, -2) + offset) ** power

    class GainRBF(gk.Kernel):
        """k(x, z) = exp(-gain |x - z|^2 / l^2) + floor;  gain, floor are call-time arguments, l a parameter"""
        has_lengthscale = True

        def forward(self, x1, x2, diag=False, last_dim_is_batch=False, gain=0.5, floor=0.0, **params):
            a, b = x1 / self.lengthscale, x2 / self.lengthscale
            if diag:
                return torch.exp(-gain * ((a - b) ** 2).sum(-1)) + floor
            return torch.exp(-gain * ((a.unsqueeze(-2) - b.unsqueeze(-3)) ** 2).sum(-1)) + floor

    def powdot_ref(x1, x2, power=1, offset=0.0, scale=1.0):
        return scale * ((x1.unsqueeze(-2) * x2.unsqueeze(-3)).sum(-1) + offset) ** power

    def gain_ref(ell):
        def f(x1, x2, gain=0.5, floor=0.0):
            return torch.exp(-gain * (((x1.unsqueeze(-2) - x2.unsqueeze(-3)) / ell) ** 2).sum(-1)) + floor
        return f

    def kron_ref(A, B):
        return (A[..., :, None, :, None] * B[..., None, :, None, :]).reshape(*torch.broadcast_shapes(A.shape[:-2], B.shape[:-2]),
                                                                            A.shape[-2] * B.shape[-2], A.shape[-1] * B.shape[-1])

    def make(name, seed):
        """-> kernel, reference(x1, x2, **kw) -> dense tensor, outputs per input, list of kwargs"""
        g = torch.Generator().manual_seed(991 + seed)
        kw_pd = [dict(power=3, offset=0.75), dict(power=2, scale=0.5), dict(offset=-0.25, scale=1.5, power=1)]
        kw_g = [dict(gain=1.25), dict(gain=0.2, floor=0.3)]
        if name == "powdot":
            return PowDot(), powdot_ref, 1, kw_pd
        if name == "gainrbf":
            k = GainRBF(ard_num_dims=3)
            k.lengthscale = torch.tensor([[0.7, 1.4, 2.2]])
            ell = k.lengthscale.detach().clone()
            return k, gain_ref(ell), 1, kw_g
        if name == "scale-powdot":
            k = gk.ScaleKernel(PowDot())
            k.outputscale = 1.7
            return k, (lambda x1, x2, **kw: 1.7 * powdot_ref(x1, x2, **kw)), 1, kw_pd
        if name == "sum-powdot-gainrbf":
            b = GainRBF()
            b.lengthscale = 1.3
            k = PowDot() + b
            return k, (lambda x1, x2, power=1, offset=0.0, scale=1.0, gain=0.5, floor=0.0:
                       powdot_ref(x1, x2, power, offset, scale) + gain_ref(torch.tensor(1.3))(x1, x2, gain, floor)), 1, \
                [dict(power=2, offset=0.5, gain=1.5), dict(scale=0.5, floor=0.25, power=3)]
        if name == "product-powdot-gainrbf":
            b = GainRBF()
            b.lengthscale = 0.9
            k = PowDot() * b
            return k, (lambda x1, x2, power=1, offset=0.0, scale=1.0, gain=0.5, floor=0.0:
                       powdot_ref(x1, x2, power, offset, scale) * gain_ref(torch.tensor(0.9))(x1, x2, gain, floor)), 1, \
                [dict(power=2, offset=0.5, gain=1.5), dict(scale=0.5, floor=0.25, power=3)]
        if name == "multitask-powdot":
            k = gk.MultitaskKernel(PowDot(), num_tasks=2, rank=1)
            B = k.task_covar_module.covar_matrix.to_dense().detach().clone()
            return k, (lambda x1, x2, **kw: kron_ref(powdot_ref(x1, x2, **kw), B)), 2, kw_pd
        if name == "lcm-powdot-gainrbf":
            b = GainRBF()
            b.lengthscale = 1.1
            k = gk.LCMKernel([PowDot(), b], num_tasks=2, rank=1)
            Bs = [m.task_covar_module.covar_matrix.to_dense().detach().clone() for m in k.covar_module_list]
            return k, (lambda x1, x2, power=1, offset=0.0, scale=1.0, gain=0.5, floor=0.0:
                       kron_ref(powdot_ref(x1, x2, power, offset, scale), Bs[0])
                       + kron_ref(gain_ref(torch.tensor(1.1))(x1, x2, gain, floor), Bs[1])), 2, \
                [dict(power=2, offset=0.5, gain=1.5), dict(scale=0.5, floor=0.25, power=3)]
        raise KeyError(name)
    return make


KWARG_KERNELS = ["powdot", "gainrbf", "scale-powdot", "sum-powdot-gainrbf", "product-powdot-gainrbf", "multitask-powdot", "lcm-powdot-gainrbf"]


def lazy_ops(p, batch, square):
    """name -> (operation on the lazy tensor, the same operation on the dense reference); p = outputs per input"""
    ops = {
        "mT": (lambda K: K.mT, lambda D: D.mT),
        "transpose": (lambda K: K.transpose(-1, -2), lambda D: D.transpose(-1, -2)),
        "rows": (lambda K: K[..., p:, :], lambda D: D[..., p:, :]),
        "cols": (lambda K: K[..., :, :2 * p], lambda D: D[..., :, :2 * p]),
        "block": (lambda K: K[..., p:3 * p, p:], lambda D: D[..., p:3 * p, p:]),
        "repeat": (lambda K: K.repeat(*([1] * len(batch)), 2, 1), lambda D: D.repeat(*([1] * len(batch)), 2, 1)),
        "expand": (lambda K: K.expand(2, *K.shape), lambda D: D.expand(2, *D.shape)),
        "unsqueeze": (lambda K: K.unsqueeze(0), lambda D: D.unsqueeze(0)),
        "evaluate_kernel": (lambda K: K.evaluate_kernel(), lambda D: D),
        "to_dense": (lambda K: K.to_dense(), lambda D: D),
        "tensor-index": (lambda K: K[..., torch.tensor([2 * p - 1, 0]), torch.tensor([0, p])],
                         lambda D: D[..., torch.tensor([2 * p - 1, 0]), torch.tensor([0, p])]),
        "row-int": (lambda K: K[..., p, :], lambda D: D[..., p, :]),
    }
    if batch:
        ops["batch-index"] = (lambda K: K[1], lambda D: D[1])
    else:
        ops["t"] = (lambda K: K.t(), lambda D: D.t())
    if square:
        ops["diagonal"] = (lambda K: K.diagonal(dim1=-1, dim2=-2), lambda D: D.diagonal(dim1=-1, dim2=-2))
    return ops


CHAIN_HEADS = ["mT", "transpose", "t", "rows", "cols", "block", "repeat", "expand", "unsqueeze", "evaluate_kernel", "batch-index"]
CHAIN_TAILS = ["mT", "transpose", "rows", "cols", "block", "repeat", "expand", "unsqueeze", "evaluate_kernel", "to_dense", "tensor-index",
               "row-int", "diagonal"]


def lazy_chains(ops):
    """all single operations, all ordered pairs head -> tail, and the triples head -> mT -> tail"""
    ch = [[o] for o in ops]
    for a in CHAIN_HEADS:
        for b in CHAIN_TAILS:
            if a in ops and b in ops:
                ch.append([a, b])
                if a != "mT" and b != "mT":
                    ch.append([a, "mT", b])
    ch += [["mT", "mT"], ["mT", "rows", "mT"], ["mT", "mT", "block"]]
    return ch


class NotApplicable(Exception):
    pass


def apply_chain(ops, chain, K, D):
    from gpytorch.lazy import LazyEvaluatedKernelTensor
    for o in chain:
        f, fd = ops[o]
        if o == "diagonal" and D.shape[-1] != D.shape[-2]:
            raise NotApplicable("diagonal of a non-square matrix (LinearOperator.diagonal is documented for square operators)")
        if o == "repeat" and not torch.is_tensor(K) and not isinstance(K, LazyEvaluatedKernelTensor):
            raise NotApplicable("repeat of the rows of an evaluated operator (linear_operator repeats batches only)")
        if torch.is_tensor(K):              # already evaluated (diagonal, tensor index, to_dense): continue densely on both sides
            K = fd(K)
        else:
            K = f(K)
        D = fd(D)
    return dense(K), D


def run_kwarg_checks(out, ctx):
    import gpytorch
    seed = ctx["seed"]
    make = kwarg_kernels()
    g = torch.Generator().manual_seed(5150 + seed)
    n, m, d = 3, 4, 3
    for name in KWARG_KERNELS:
        for batch in ((), (2,)):
            for square in (False, True):
                k, ref, p, kws = make(name, seed)
                x1 = lin(g, -1.2, 1.2, *batch, n, d)
                x2 = lin(g, -1.2, 1.2, *batch, n if square else m, d)
                ops = lazy_ops(p, batch, square)
                for kw in kws:
                    small = dict(kernel=name, batch=list(batch), square=square, kwargs=kw)
                    with torch.no_grad():
                        D = ref(x1, x2, **kw)
                        D0 = ref(x1, x2)
                        if torch.allclose(D, D0):
                            raise RuntimeError("call-time arguments without effect: the case would be vacuous")
                        for chain in lazy_chains(ops):
                            # every chain for the first argument set on the rectangular matrix; the square matrix adds the chains
                            # that end in its diagonal, the further argument sets repeat the single operations and the chains
                            # that start with a transposition
                            full = kw is kws[0] and not square
                            if not (full or len(chain) == 1 or (square and "diagonal" in chain) or (not square and chain[0] in ("mT", "transpose", "t"))):
                                continue
                            tag = ">".join(chain)
                            key = "call-kwargs:%s:%s:%s" % (name, "batch" if batch else "nobatch", tag)
                            out.case(dict(small, chain=chain), True, label="call-kwargs:" + ("chain%d" % len(chain)))
                            try:
                                want_ok = True
                                _, W = apply_chain({o: (v[1], v[1]) for o, v in ops.items()}, chain, D, D)
                            except Exception:
                                want_ok = False
                            if not want_ok:
                                out.count("call-kwargs: chain not applicable to the dense tensor")
                                continue
                            try:
                                got, W = apply_chain(ops, chain, k(x1, x2, **kw), D)
                            except NotApplicable as e:
                                out.count("call-kwargs: not applicable: %s" % e)
                                continue
                            except Exception as e:
                                out.fail(key + ":raises-" + exc_name(e), "lazy operation chain raises %r although it is valid on the dense matrix" % e,
                                         dict(small, chain=chain, x1=x1.tolist(), x2=x2.tolist()))
                                continue
                            if not eq(got, W):
                                out.fail(key, "kernel(x1, x2, **kwargs) through lazy operations %s differs from the closed form with these "
                                         "call-time arguments" % tag, dict(small, chain=chain, x1=x1.tolist(), x2=x2.tolist()), impl=got, model=W)
                        # eager, diag=True, K(x2, x1)
                        out.case(dict(small, what="eager/diag/swap"), True, label="call-kwargs:eager-diag-swap")
                        with gpytorch.settings.lazily_evaluate_kernels(False):
                            E = dense(k(x1, x2, **kw))
                        if not eq(E, D):
                            out.fail("call-kwargs:%s:eager" % name, "eager kernel(x1, x2, **kwargs) differs from the closed form", small, impl=E, model=D)
                        if not eq(dense(k(x2, x1, **kw)), D.mT):
                            out.fail("call-kwargs:%s:swap" % name, "kernel(x2, x1, **kwargs) != kernel(x1, x2, **kwargs)^T", small)
                        if square:
                            dg = dense(k(x1, x2, diag=True, **kw))
                            if not eq(dg, D.diagonal(dim1=-1, dim2=-2)):
                                out.fail("call-kwargs:%s:diag" % name, "kernel(x1, x2, diag=True, **kwargs) is not the diagonal of the closed form",
                                         small, impl=dg, model=D.diagonal(dim1=-1, dim2=-2))


# --------------------------------------------------------------------------- request sequences under settings
# Settings that change the code path of lazy evaluation are an axis (debug off, lazily_evaluate_kernels off, trace_mode on and
# combinations), and every kernel OBJECT is asked several times in a row (each kind of request at least twice, random order):
# a request must not change what the next one returns.  Reference: the same request on a pristine deep copy of the kernel
# (copied before the first request) under default settings; at the end the kernel's active_dims and state_dict must be unchanged.

SEQ_SETTINGS = ["default", "debug-off", "lazy-off", "trace-mode", "debug-off+trace-mode", "debug-off+lazy-off"]
SEQ_SETTINGS_BATCH = ["default", "debug-off", "debug-off+trace-mode"]      # (quick tier: batched kernels visit these only)


def settings_ctx(tag):
    import contextlib
    import gpytorch
    st = contextlib.ExitStack()
    if "debug-off" in tag:
        st.enter_context(gpytorch.settings.debug(False))
    if "lazy-off" in tag:
        st.enter_context(gpytorch.settings.lazily_evaluate_kernels(False))
    if "trace-mode" in tag:
        st.enter_context(gpytorch.settings.trace_mode(True))
    return st


def seq_requests(p):
    import gpytorch

    def eager(k, x1, x2, kw):
        with gpytorch.settings.lazily_evaluate_kernels(False):
            return dense(k(x1, x2, **kw))
    return {
        "lazy": lambda k, x1, x2, kw: dense(k(x1, x2, **kw)),
        "lazy-block": lambda k, x1, x2, kw: dense(k(x1, x2, **kw)[..., p:, :2 * p]),
        "lazy-mT": lambda k, x1, x2, kw: dense(k(x1, x2, **kw).mT),
        "eager": eager,
        "self": lambda k, x1, x2, kw: dense(k(x1, **kw)),
        "diag": lambda k, x1, x2, kw: dense(k(x1, diag=True, **kw)),
        "lazy-diagonal": lambda k, x1, x2, kw: dense(k(x1, **kw).diagonal(dim1=-1, dim2=-2)),
        "swap": lambda k, x1, x2, kw: dense(k(x2, x1, **kw)),
    }


def run_sequence_checks(out, ctx):
    import copy
    seed = ctx["seed"]
    rng = random.Random(seed * 7907 + 11)
    g = torch.Generator().manual_seed(6260 + seed)
    AD = torch.tensor([0, 2])
    n, m, d = 3, 4, 3
    subjects = []
    for name, fac, p in kernel_zoo(seed):
        for bs in ((), (2,)):
            if name in ("lcm", "lcm-ard") and bs:
                continue
            for ad in (None, AD):
                subjects.append((name, bs, ad, (lambda fac=fac, bs=bs, ad=ad: fac(bs, ad)), p, {}))
    make = kwarg_kernels()
    for name in KWARG_KERNELS:
        k0, ref, p, kws = make(name, seed)
        subjects.append((name, (), None, (lambda name=name: make(name, seed)[0]), p, kws[0]))
    for name, bs, ad, build, p, kw in subjects:
        deff = d if ad is None else len(ad)
        pp = p(deff) if callable(p) else (p if p is not None else 1 + deff)
        x1, x2 = torch.randn(n, d, generator=g), torch.randn(m, d, generator=g)
        if name in GRAD_KERNELS and bs:
            x1, x2 = (t.expand(*bs, *t.shape).contiguous() for t in (x1, x2))
        reqs = seq_requests(pp)
        small = dict(kernel=name, batch_shape=list(bs), active_dims=(ad.tolist() if ad is not None else None))
        try:
            pristine = build()
        except Exception as e:
            out.fail("construct:%s" % name, "cannot construct kernel: %r" % e, small)
            continue
        refs = {}
        with torch.no_grad():
            for r, f in reqs.items():
                try:
                    refs[r] = f(copy.deepcopy(pristine), x1, x2, kw)
                except Exception as e:
                    refs[r] = e
        for stag in (SEQ_SETTINGS_BATCH if (bs and ctx["tier"] == "quick") else SEQ_SETTINGS[:5] if ctx["tier"] == "quick" else SEQ_SETTINGS):
            k = copy.deepcopy(pristine)
            order = list(reqs) * 2
            rng.shuffle(order)
            hist = []
            ktag = "%s:%s%s" % (name, "batch" if bs else "nobatch", ":active_dims" if ad is not None else "")
            with torch.no_grad(), settings_ctx(stag):
                for r in order:
                    hist.append(r)
                    out.case(dict(small, settings=stag, history=list(hist)), True, label="sequence:" + stag)
                    if isinstance(refs[r], Exception):
                        out.count("sequence: request refused by the pristine kernel (%s)" % exc_name(refs[r]))
                        continue
                    try:
                        got = reqs[r](k, x1, x2, kw)
                    except Exception as e:
                        out.fail("sequence:%s:%s:%s:raises-%s" % (stag, ktag, r, exc_name(e)),
                                 "request %s (number %d on this kernel object, settings %s) raises %r; a pristine copy of the kernel answers it"
                                 % (r, len(hist), stag, e), dict(small, settings=stag, history=list(hist), x1=x1.tolist(), x2=x2.tolist()))
                        break
                    if not eq(got, refs[r]):
                        first = hist.count(r) == 1 and len(hist) == 1
                        out.fail("sequence:%s:%s:%s:%s" % (stag, ktag, r, "first-request" if first else "later-request"),
                                 "request %s after the history %s under settings %s differs from the same request on a pristine copy of "
                                 "the kernel under default settings" % (r, hist[:-1], stag),
                                 dict(small, settings=stag, history=list(hist), x1=x1.tolist(), x2=x2.tolist()), impl=got, model=refs[r])
                        break
            a0, a1 = getattr(pristine, "active_dims", None), getattr(k, "active_dims", None)
            same_ad = (a0 is None and a1 is None) or (a0 is not None and a1 is not None and torch.equal(a0, a1))
            sd0, sd1 = pristine.state_dict(), k.state_dict()
            same_sd = list(sd0) == list(sd1) and all(torch.equal(sd0[key], sd1[key]) for key in sd0)
            if not (same_ad and same_sd):
                out.fail("sequence:%s:%s:state" % (stag, ktag), "the kernel object is changed by evaluating it (active_dims %s -> %s, state_dict %s)"
                         % (a0, a1, "equal" if same_sd else "differs"), dict(small, settings=stag, history=list(hist)))


# --------------------------------------------------------------------------- batch broadcast patterns
# Every triple (batch shape of x1, of x2, of the kernel parameters) over BSHAPES: batch on one operand only, on every
# pair, on all three, size-1 dimensions that stretch, operands of different rank.  The Coq model (Models/C06_bcast.v,
# theorems batch_shape_absorbs_every_operand / batch_shape_dims / batch_source_in_bounds) gives the result batch shape
# and, for every result element, the element of each operand it is read from; the reference tensor is assembled from
# UNBATCHED kernels (one per kernel-batch element, parameters copied) on the unbatched inputs.  Checked against it:
# .shape, to_dense() (lazy) and eager evaluation, diag=True / .diagonal(), K(x2,x1) / .mT, and index expressions.
BSHAPES = [(), (1,), (2,), (3,), (2, 1), (1, 3), (2, 3)]
BC_N, BC_M, BC_D = 3, 4, 2


def bcast_kernel_zoo(gb):
    """gb['g'] = the generator to draw parameters from (one per (pattern, kernel): the same in every tier)"""
    from gpytorch import kernels as gk
    bsz = lambda bs: torch.Size(bs)  # noqa: E731

    def rbf_ard(bs, rnd=True):
        k = gk.RBFKernel(ard_num_dims=BC_D, batch_shape=bsz(bs))
        if rnd:
            k.lengthscale = lin(gb["g"], 0.6, 1.8, *bs, 1, BC_D)
        return k

    def scale_matern(bs, rnd=True):
        k = gk.ScaleKernel(gk.MaternKernel(nu=1.5, batch_shape=bsz(bs)), batch_shape=bsz(bs))
        if rnd:
            k.base_kernel.lengthscale = lin(gb["g"], 0.6, 1.8, *bs, 1, 1)
            k.outputscale = lin(gb["g"], 0.5, 2.0, *bs)
        return k

    def sum_rbf_linear(bs, rnd=True):
        a, b = gk.RBFKernel(batch_shape=bsz(bs)), gk.LinearKernel(batch_shape=bsz(bs))
        if rnd:
            a.lengthscale = lin(gb["g"], 0.6, 1.8, *bs, 1, 1)
            b.variance = lin(gb["g"], 0.3, 1.5, *bs, 1, 1)
        return a + b
    return [("rbf-ard", rbf_ard), ("scale-matern15", scale_matern), ("rbf+linear", sum_rbf_linear)]


def element_kernel(fac, kern, bs, pos):
    """unbatched copy of batch element `pos` (flat) of the batched kernel `kern`"""
    k0 = fac((), rnd=False)
    src = dict(kern.named_parameters())
    for nm, p0 in k0.named_parameters():
        P = src[nm].data
        assert tuple(P.shape) == tuple(bs) + tuple(p0.shape), (nm, P.shape, bs, p0.shape)
        p0.data = P.reshape(-1, *p0.shape)[pos].clone()
    return k0


def parse_bcast(res, nops):
    if res[0] == 0:
        return None
    rank = res[1]
    shape = res[2:2 + rank]
    n = math.prod(shape)
    body = res[2 + rank:]
    assert len(body) == nops * n
    return tuple(shape), [body[i * n:(i + 1) * n] for i in range(nops)]


def bshape_tag(b):
    return "x".join(str(v) for v in b) or "-"


def pattern_class(b1, b2, bk, r):
    """which operands carry a batch dimension (of size > 1) that NO other operand has"""
    rr = [1] * (len(r) - len(b1)) + list(b1), [1] * (len(r) - len(b2)) + list(b2), [1] * (len(r) - len(bk)) + list(bk)
    own = []
    for nm, me, others in (("x1", rr[0], (rr[1], rr[2])), ("x2", rr[1], (rr[0], rr[2])), ("kernel", rr[2], (rr[0], rr[1]))):
        if any(me[j] > 1 and all(o[j] == 1 for o in others) for j in range(len(r))):
            own.append(nm)
    return "own-dims:" + ("+".join(own) or "none")


def bcast_index_forms(dims):
    R = len(dims)
    forms = [["...", ["s", 1, None, None], ["s", None, 2, None]], ["...", 1, FULL], ["...", FULL, 0],
             ["...", ["t", [2, 0]], FULL], [["s", None, None, None]]]
    if R == 2:
        forms += [[1], [FULL, 1], [["s", 1, None, None]]]
    else:
        b0 = dims[0]
        forms += [[0], [b0 - 1], [-1], [["s", 1, None, None]], [["s", None, None, 2], "..."], [["t", [b0 - 1, 0]]],
                  [0, "...", 1], [b0 - 1, "...", ["s", 1, None, None]], ["...", 0, 0]]
        if R == 3:
            forms += [[FULL, 1], [b0 - 1, 0], [b0 - 1, FULL, 1], [["t", [0, b0 - 1]], ["t", [1, 0]]]]
        else:
            b1 = dims[1]
            forms += [[b0 - 1, b1 - 1], [FULL, b1 - 1], [b0 - 1, FULL, 1], [FULL, ["s", 1, None, None]], [["t", [0, b0 - 1]], b1 - 1],
                      [b0 - 1, b1 - 1, 1, FULL]]
    return forms


def run_broadcast_checks(out, ctx):
    """-> list of Cfg (reference tensors attached) whose index forms run_index_checks goes through"""
    import gpytorch
    tier, seed = ctx["tier"], ctx["seed"]
    gb = {"g": torch.Generator().manual_seed(9090 + seed)}
    zoo = bcast_kernel_zoo(gb)
    triples = [(b1, b2, bk) for b1 in BSHAPES for b2 in BSHAPES for bk in BSHAPES]
    res = C.coq_run_cases("C06_bcast", IMPORTS, "Definition run := run_bcast.",
                          ["[%s; %s; %s]" % tuple("(%s : list Z)" % C.z_list(b) for b in t) for t in triples],
                          shard=max(1, len(triples) // 16 + 1))
    cfgs = []
    for ti, ((b1, b2, bk), mres) in enumerate(zip(triples, res)):
        mod = parse_bcast(mres, 3)
        pat = "x1=%s:x2=%s:k=%s" % (bshape_tag(b1), bshape_tag(b2), bshape_tag(bk))
        case = dict(x1_batch=list(b1), x2_batch=list(b2), kernel_batch=list(bk))
        # machinery self-check: the Coq broadcast model against torch.broadcast_shapes / expand
        try:
            tr = tuple(torch.broadcast_shapes(b1, b2, bk))
        except RuntimeError:
            tr = None
        if (mod is None) != (tr is None) or (mod is not None and mod[0] != tr):
            out.fail("model:broadcast-shape", "Coq broadcast model gives %s, torch.broadcast_shapes gives %s" % (mod and mod[0], tr), case)
            continue
        if mod is None:
            out.count("not broadcastable (outside the property)")
            continue
        r, srcs = mod
        for b, pos in zip((b1, b2, bk), srcs):
            want = torch.arange(math.prod(b)).reshape(b).expand(r).reshape(-1).tolist()
            if want != pos:
                out.fail("model:broadcast-source", "Coq model's source elements differ from torch's expand", case, impl=want, model=pos)
        cls = pattern_class(b1, b2, bk, r)
        for zi, (kname, fac) in enumerate(zoo):
            if tier == "quick" and zi != ti % len(zoo):
                continue
            g = gb["g"] = torch.Generator().manual_seed(9090 + seed * 100003 + ti * 7 + zi)
            kern = fac(bk)
            x1, x2 = torch.randn(*b1, BC_N, BC_D, generator=g), torch.randn(*b2, BC_M, BC_D, generator=g)
            desc = dict(case, kernel=kname, result_batch=list(r), pattern=cls)
            kk = lambda what: "broadcast:%s:%s:%s" % (kname, cls, what)  # noqa: E731
            full = dict(desc, x1=x1.tolist(), x2=x2.tolist(), params={n_: p_.tolist() for n_, p_ in kern.named_parameters()})
            with torch.no_grad():
                elems = [element_kernel(fac, kern, bk, q) for q in range(math.prod(bk))]
                X1, X2 = x1.reshape(-1, BC_N, BC_D), x2.reshape(-1, BC_M, BC_D)
                with gpytorch.settings.lazily_evaluate_kernels(False):
                    blocks = [dense(elems[pk](X1[p1], X2[p2])) for p1, p2, pk in zip(*srcs)]
                ref = torch.stack(blocks).reshape(*r, BC_N, BC_M)
                out.case(dict(desc, what="broadcast-pattern"), True, label="broadcast:" + cls)
                out.count("broadcast-kernel=" + kname)
                cfg = Cfg("bc:%s:%s" % (kname, pat), kern, x1, x2, fam="batch", ref=ref)
                cfg.keyname = ("bc-%s-%s" % (kname, cls)).replace(":", "=")
                cfgs.append(cfg)
                # eager evaluation
                try:
                    E = dense(cfg.K(lazy=False))
                    if not eq(E, ref):
                        out.fail(kk("eager"), "eager kernel(x1,x2) (shape %s) differs from the per-element reference (shape %s)"
                                 % (list(E.shape), list(ref.shape)), full, impl=E, model=ref)
                except Exception as e:
                    out.fail(kk("eager:raises-" + exc_name(e)), "eager kernel(x1,x2) raises %r" % (repr(e)[:200],), full)
                # lazy: shape, to_dense
                try:
                    Kl = cfg.K()
                    shp = tuple(Kl.shape)
                    if shp != tuple(ref.shape):
                        out.fail(kk("lazy-shape"), "kernel(x1,x2).shape is %s, the broadcast of the three batch shapes gives %s"
                                 % (list(shp), list(ref.shape)), full, impl=list(shp), model=list(ref.shape))
                    Dl = dense(Kl)
                    if not eq(Dl, ref):
                        out.fail(kk("lazy-to_dense"), "kernel(x1,x2).to_dense() (shape %s) differs from the per-element reference "
                                 "(shape %s)" % (list(Dl.shape), list(ref.shape)), full, impl=Dl, model=ref)
                except Exception as e:
                    out.fail(kk("lazy:raises-" + exc_name(e)), "kernel(x1,x2).shape / .to_dense() raises %r" % (repr(e)[:200],), full)
                # diag (x2 cut to the rows of x1) and transpose
                x2n = x2[..., :BC_N, :]
                wantd = ref[..., :, :BC_N].diagonal(dim1=-1, dim2=-2)
                for lab, f in (("diag=True", lambda: dense(kern(x1, x2n, diag=True))), ("lazy-diagonal", lambda: kern(x1, x2n).diagonal())):
                    try:
                        dg = f()
                        if not eq(dg, wantd):
                            out.fail(kk(lab), "%s of kernel(x1,x2') (shape %s) is not the diagonal of the reference (shape %s)"
                                     % (lab, list(dg.shape), list(wantd.shape)), full, impl=dg, model=wantd)
                    except Exception as e:
                        out.fail(kk(lab + ":raises-" + exc_name(e)), "%s raises %r" % (lab, repr(e)[:200]), full)
                for lab, f in (("swap", lambda: dense(kern(x2, x1))), ("lazy-mT", lambda: dense(kern(x1, x2).mT))):
                    try:
                        T = f()
                        if not eq(T, ref.mT):
                            out.fail(kk("transpose:" + lab), "%s (shape %s) is not the transposed reference (shape %s)"
                                     % ("kernel(x2,x1)" if lab == "swap" else "kernel(x1,x2).mT", list(T.shape), list(ref.mT.shape)),
                                     full, impl=T, model=ref.mT)
                    except Exception as e:
                        out.fail(kk("transpose:" + lab + ":raises-" + exc_name(e)), "%s raises %r" % (lab, repr(e)[:200]), full)
    out.extra["broadcast_patterns"] = dict(batch_shapes=[list(b) for b in BSHAPES], triples=len(triples), kernels=[z[0] for z in zoo],
                                           kernels_per_pattern=1 if tier == "quick" else len(zoo))
    return cfgs


# --------------------------------------------------------------------------- kernel table model vs Kernel.__getitem__

def run_table_checks(out, ctx):
    from gpytorch import kernels as gk
    cases, meta = [], []
    for B in (2, 3):
        for ad in ([0, 2], [1], [2, 0, 1]):
            base = gk.RBFKernel(batch_shape=torch.Size([B]), active_dims=torch.tensor(ad), ard_num_dims=len(ad))
            base.raw_lengthscale.data = torch.arange(B * len(ad)).double().reshape(B, 1, len(ad)) / 4 + 0.25
            poss = [[b] for b in range(B)] + [[B - 1, 0], [0, 0, B - 1], list(range(B))]
            for pos in poss:
                ents = [[[a] for a in ad], [[int(v * 4) for v in base.raw_lengthscale.data[b].reshape(-1).tolist()] for b in range(B)]]
                cases.append("(false, %s, [%s])" % (C.nat_list(pos), "; ".join("[" + "; ".join(C.z_list(it) for it in e) + "]" for e in ents)))
                meta.append((base, B, ad, pos))
    res = C.coq_run_cases("C06_tbl", IMPORTS, "Definition run := run_kernel_getitem.", cases, shard=len(cases))
    for (base, B, ad, pos), mres in zip(meta, res):
        case = dict(B=B, active_dims=ad, pos=pos)
        out.case(dict(case, what="kernel-table"), True, label="kernel-table")
        rd = C.Reader(mres)
        tbl = []
        while not rd.done():
            n = rd.int()
            tbl.append([[rd.int() for _ in range(rd.int())] for _ in range(n)])
        idx = pos[0] if len(pos) == 1 else torch.tensor(pos)
        for form, ii in (("as given", idx),) + ((("slice", slice(pos[0], pos[0] + 1)),) if len(pos) == 1 else ()):
            try:
                kn = base[ii]
            except Exception as e:
                out.fail("kernel-table:raises-" + exc_name(e), "kernel[%s] raises %r" % (pos, e), case)
                continue
            got_ad = kn.active_dims.reshape(-1).tolist()
            want_ad = [it[0] for it in tbl[0]]
            if got_ad != want_ad:
                out.fail("kernel-table:active_dims", "kernel[%s].active_dims = %s, the proved table model says %s" % (pos, got_ad, want_ad),
                         case, impl=got_ad, model=want_ad)
            got_ls = [[int(round(v * 4)) for v in row] for row in kn.raw_lengthscale.data.reshape(-1, len(ad)).tolist()]
            if got_ls != tbl[1]:
                out.fail("kernel-table:parameter", "kernel[%s].raw_lengthscale is not the indexed parameter" % (pos,), case,
                         impl=got_ls, model=tbl[1])


# --------------------------------------------------------------------------- tie T at run time

def mo_request(row):
    """decode [ser_midx ri ++ ser_midx ci] of Models/C06_lazyslice.v"""
    rd = C.Reader(row)

    def oz():
        return rd.int() if rd.int() == 1 else None

    def midx():
        assert rd.int() == 1
        return ["s", oz(), oz(), oz()]
    return midx(), midx()


def tie_t(out, ctx):
    from harness.translators import lazyslice_tr
    from gpytorch import kernels as gk
    if ctx.get("unparsed"):
        out.notes.append("tie T unavailable (source outside the translator's subset); Gen/LazySlice_gen.v is the stand-in")
        return
    ok, lg = lazyslice_tr.check_full_obligation()
    out.extra["full_obligation_multi_output_slice_ok"] = "proved" if ok else "FAILS on the regenerated arithmetic"
    # search of the regenerated model on small arguments (exhaustive in the bounds), always run
    grid = [(2, 2, 2, 2), (2, 2, 3, 1), (3, 3, 2, 2), (1, 2, 2, 2)]
    cases = ["(%d, %d, %d, %d)" % g for g in grid]
    res = C.coq_run_cases("C06_search", IMPORTS,
                          "Definition run (c : Z * Z * Z * Z) : list (list Z) := let '(pr, pc, n, m) := c in "
                          "search_bad gen_mo_getitem pr pc n m (-7) 7.", cases, shard=1)
    nbad = sum(len(r) for r in res)
    out.extra["model_search_bad_requests"] = nbad
    out.count("tieT:model-search requests", 4 * 256 * 256)
    reproduced = 0
    for (pr, pc, n, m), rows in zip(grid, res):
        if pr != pc:
            continue   # no kernel in /repo has different row / column output counts
        for row in rows[:400]:
            ri, ci = mo_request(row)
            stop0 = ri[2] == 0 or ci[2] == 0
            gq = torch.Generator().manual_seed(5)
            k = gk.MultitaskKernel(gk.RBFKernel(), num_tasks=pr, rank=1)
            x1, x2 = torch.randn(n, 2, generator=gq), torch.randn(m, 2, generator=gq)
            idx = [ri, ci]
            case = dict(kernel="MultitaskKernel(num_tasks=%d)" % pr, n=n, m=m, idx=idx)
            with torch.no_grad():
                D = k(x1, x2).to_dense()
                want = D[py_idx(idx)]
                try:
                    got = dense(k(x1, x2)[py_idx(idx)])
                    bad = tuple(got.shape) != tuple(want.shape) or not torch.allclose(got, want, atol=ATOL)
                    gs = list(got.shape)
                except Exception as e:
                    bad, gs = True, exc_name(e)
            out.case(dict(case, what="tieT-search"), True, label="tieT:replayed-on-code")
            if bad:
                reproduced += 1
                out.fail("getitem:mo-fastpath:%s:wrong-selection" % ("stop0" if stop0 else "other"),
                         "multi-output fast path: kernel(x1,x2)[%s] gives %s, evaluate-then-index gives shape %s"
                         % (idx, gs, list(want.shape)), case, impl=gs, model=list(want.shape))
    out.extra["model_search_reproduced_on_code"] = reproduced
    if not ok and reproduced == 0:
        out.fail("tieT:multi_output_slice_ok", "the full-strength obligation multi_output_slice_ok fails on the regenerated "
                 "arithmetic and no failing index was found on the real code:\n" + lg[-1200:], None, no_input=True)
    if ok and nbad:
        out.fail("tieT:search-vs-proof", "obligation proved but the model search reports wrong divisions (machinery error)", None,
                 no_input=True)


# --------------------------------------------------------------------------- entry points

def pregen(out):
    from harness.translators import lazyslice_tr
    info = lazyslice_tr.generate()
    if out is not None and info:
        out.extra["translated_source"] = info


def run(out, ctx):
    torch.manual_seed(ctx["seed"])
    cfgs = make_configs(ctx["seed"])
    tie_t(out, ctx)
    run_table_checks(out, ctx)
    run_identity_checks(out, ctx)
    run_kwarg_checks(out, ctx)
    run_sequence_checks(out, ctx)
    bc = run_broadcast_checks(out, ctx)
    run_index_checks(out, ctx, cfgs, bc)
    out.exhaustive = True
    out.rule = ("index expressions: at every position of the tuple all ints and all slices (start/stop in {None,-5..5}) in "
                "several contexts (other positions: omitted, full slice, int, slice, index tensor, Ellipsis), 1-D index tensors "
                "(negative / repeated / reversed / empty / out of range / broadcasting) against ints, slices and tensors, batch "
                "indices; kernels: single-output, composite with active_dims, batch parameters / inputs / broadcasting, "
                "multi-output (Multitask, RBFKernelGrad, LCM, batched), last_dim_is_batch, eager; identities (diag, transpose, "
                "lazy/eager, blocks, entrywise, repeat, active_dims, kernel[i], expand_batch) on 17 kernels x batch x active_dims x "
                "input geometry (origin, offset 1e3 / 1e6 from the origin, inputs and length parameters scaled by 1e4, nearly "
                "coincident rows, offset + nearly coincident); index checks also on far-offset / near-duplicate configurations; "
                "batch broadcast patterns: ALL triples (batch shape of x1, of x2, of the kernel) over {(), (1), (2), (3), (2,1), (1,3), "
                "(2,3)} - batch on one operand only, on each pair, on all, stretching size-1 dimensions, different ranks - against "
                "a reference assembled per batch element from unbatched kernels with the Coq broadcast model's source elements: "
                "shape, lazy to_dense, eager, diag, transpose and a fixed set of index expressions per pattern. "
                "Multi-output kernels with ARD and all parameters UNEQUAL across input dimensions / tasks / batch elements "
                "(RBFKernelGrad, RBFKernelGradGrad, Matern52KernelGrad, PolynomialKernelGrad, Multitask rank 2 x 3 tasks, LCM) in all "
                "identities (n = 3 vs 4 points). Call-time keyword arguments: 7 kernels whose forward consumes call-time arguments "
                "(two user-defined closed forms, plain and inside Scale / sum / product / Multitask / LCM) called with non-default "
                "arguments through all single lazy operations (mT, transpose, t, row / column / block slices, tensor index, int row, "
                "batch index, diagonal, repeat, expand, unsqueeze, evaluate_kernel, to_dense), all ordered pairs and the triples "
                "a > mT > b, against the closed form. Request sequences: every kernel of the zoo (x batch x active_dims) and the "
                "call-time-argument kernels asked 16 times in a row on the SAME object (lazy, lazy block, lazy mT, eager, k(x), "
                "diag=True, lazy diagonal, swapped arguments; each twice, random order) under settings default / debug off / "
                "lazily_evaluate_kernels off / trace_mode / debug off + trace_mode (thorough: + debug off + lazy off; quick tier: "
                "batched kernels under default / debug off / debug off + trace_mode), every answer compared with a pristine "
                "deep copy under default settings, active_dims and state_dict compared afterwards. "
                "non-trivial = the index is valid for the dense tensor and selects at least one entry; expressions torch "
                "rejects are outside the property and only counted")
    out.extra["tolerances"] = {"same code evaluated on a subset of inputs vs gathered entries": ATOL,
                               "non-origin geometries": "%g * max(1, entry magnitude) + %g * rounding_bound (independent of the offset)" % (ATOL, KB),
                               "per far configuration": {c.name: c.tol for c in cfgs if c.geom != "origin"}}
    out.tested_not_proved = ["torch advanced-indexing semantics (modelled in index_model, cross-checked against torch on every case)",
                             "linear_operator's __getitem__ dispatch / to_dense", "that every kernel's forward is entrywise (checked per kernel)",
                             "the float64 rounding bound of the centred distance computation used as threshold at the non-origin "
                             "geometries (first-order analysis, see rounding_bound; over the reals the identities are exact: "
                             "c05_sq_dist_any_adjustment)"]


def replay(path):
    d = json.load(open(path))
    case = d.get("case") or {}
    print("key:", d.get("key"))
    print("what:", d.get("what"))
    if "cfg" in case and "idx" in case:
        if str(case["cfg"]).startswith("bc:"):
            tmp = C.Outcome("C06", d.get("tier", "quick"), d.get("seed", 0))
            cfgs = {c.name: c for c in run_broadcast_checks(tmp, dict(tier="thorough", seed=d.get("seed", 0)))}
        else:
            cfgs = {c.name: c for c in make_configs(d.get("seed", 0))}
        cfg = cfgs[case["cfg"]]
        idx = case["idx"]
        mres = C.coq_run_cases("C06_replay", IMPORTS, "Definition run := run_index.",
                               ["(%s, %s)" % (C.z_list(list(cfg.D.shape)), coq_idx_list(idx))])[0]
        out = C.Outcome("C06", "quick", 0)
        print("kernel config:", cfg.name, "dense shape", list(cfg.D.shape), "index:", idx)
        print("model (shape, positions):", parse_model(mres))
        try:
            print("evaluate-then-index:", cfg.D[py_idx(idx)].tolist())
        except Exception as e:
            print("evaluate-then-index raises", repr(e))
        try:
            print("index-then-evaluate:", dense(cfg.K(lazy=(cfg.fam != "eager"))[py_idx(idx)]).tolist())
        except Exception as e:
            print("index-then-evaluate raises", repr(e))
        check_expr(out, cfg, idx, mres, "replay")
    else:
        out = C.Outcome("C06", "quick", d.get("seed", 0))
        ctx = dict(tier="quick", seed=d.get("seed", 0))
        if str(d.get("key", "")).startswith(("getitem:mo-fastpath", "tieT")):
            tie_t(out, ctx)
        elif str(d.get("key", "")).startswith("kernel-table"):
            run_table_checks(out, ctx)
        elif str(d.get("key", "")).startswith(("broadcast:", "model:broadcast")):
            run_broadcast_checks(out, dict(ctx, tier="thorough"))
        elif str(d.get("key", "")).startswith("call-kwargs:"):
            run_kwarg_checks(out, ctx)
        elif str(d.get("key", "")).startswith("sequence:"):
            run_sequence_checks(out, ctx)
        elif str(d.get("key", "")).startswith("lazy:"):
            for c in make_configs(ctx["seed"]):
                check_lazy_dense(out, c)
        else:
            run_identity_checks(out, ctx)
        out.failures = [f for f in out.failures if f["key"] == d.get("key")]
    for f in out.failures:
        print("FAILS:", f["key"], "--", f["what"])
    print("FAILS" if out.failures else "agrees")
    return 1 if out.failures else 0
