"""C11 — MultitaskMultivariateNormal: one joint distribution regardless of layout, constructor
or index.

Model: coq/Models/C11_mtmvn.v (flatten maps, shuffle, view/transpose pairs, every branch of
__getitem__ as lists of flat positions, index-tuple normalisation).  Theorems: Props/C11.v.

Tie C (this file): for every shape n,t in 1..4, both layouts, batch rank 0/1, the index
expressions are enumerated; the implementation's d[idx] is compared with
  (a) the sub-matrix of the dense stored covariance selected by the Coq model's position list
      (the list is PROVED to be the positions of the requested (point, task) pairs), and
  (b) an independent torch oracle: an id tensor indexed with the same expression tells which
      (batch, point, task) every entry of the result denotes.
(b) also cross-checks the model's reading of torch indexing.  mean / variance / log_prob /
rsample / to_data_independent_dist / constructors are compared with a dense reference built from
the model's layout permutation.

Tie T: harness/translators/mtindex_tr.py (fail-closed ast translator) regenerates the integer arithmetic of
__getitem__ (tuple thresholds, layout swap, every branch of the kind chain), _normalize_index, _normalize_slice and the
aranges of to_data_independent_dist as Gen/MTIndex_gen.v on every run (`pregen`); Proofs/C11_gen.v proves gen_* = the
proved model for ALL arguments and Props/C11.v restates the index theorems over the regenerated text (c11_gen_*), so a
semantic change of that arithmetic breaks the build of Props/C11.vo (-> VIOLATION, search escalated to thorough depth),
while a rewrite outside the translator's subset gives NOTE + thorough correspondence (DESIGN section 5)."""
import itertools
import json
import math
import os
import random
import subprocess

import torch

from harness.lib import common as C

COQ_TARGETS = ["Models/C11_mtmvn.vo", "Proofs/C11_mtmvn.vo", "Proofs/C11_gen.vo"]
LEVEL_NOTE = ("theorems are about the Gallina model of the index arithmetic (all n, t, all ints / slices); the tie "
              "to /repo is a fail-closed ast translation of the integer arithmetic (obligations re-proved each run) "
              "plus exhaustive differential comparison on small shapes")
IMPORTS = "From Coq Require Import List ZArith.\nFrom GPV Require Import Base.PySlice Models.C11_mtmvn."
LO, HI = -6, 6
BOUNDS = [None] + list(range(LO, HI + 1))
STEPS = [None, 1, 2, 3]
B = 2  # size of the batch dimension when batch rank is 1

torch.set_default_dtype(torch.float64)


# --------------------------------------------------------------------------- index expressions
# JSON-able components: int | ["s", start, stop, step] | ["t", [ints]] | "..."

def py_comp(c):
    if isinstance(c, int):
        return c
    if c == "...":
        return Ellipsis
    if c[0] == "s":
        return slice(c[1], c[2], c[3])
    return torch.tensor(c[1], dtype=torch.long)


def py_idx(idx):
    return tuple(py_comp(c) for c in idx)


def coq_comp(c):
    if isinstance(c, int):
        return "EI (IInt %s)" % C.z_lit(c)
    if c == "...":
        return "EE"
    if c[0] == "s":
        return "EI (ISlice (mk %s %s %s))" % (C.opt_z(c[1]), C.opt_z(c[2]), C.opt_z(c[3]))
    return "EI (ITensor %s)" % C.z_list(c[1])


def coq_case(il, brank, n, t, idx):
    return "(%s, %d, %d, %d, [%s])" % ("true" if il else "false", brank + 2, n, t, "; ".join(coq_comp(c) for c in idx))


def kind(c):
    if isinstance(c, int):
        return "int"
    if c == "...":
        return "ellipsis"
    return "slice" if c[0] == "s" else "tensor"


def has_neg(c):
    if isinstance(c, int):
        return c < 0
    return c != "..." and c[0] == "t" and any(v < 0 for v in c[1])


def all_ints(length):
    return list(range(-length - 1, length + 1))


def all_slices():
    return [["s", a, b, k] for a in BOUNDS for b in BOUNDS for k in STEPS]


FULL = ["s", None, None, None]


def tensors(length):
    out = [[0], [length - 1, 0], [-1], [0, -length], [0, 0, length - 1], list(range(length - 1, -1, -1)), [length], []]
    seen, res = set(), []
    for v in out:
        if tuple(v) not in seen:
            seen.add(tuple(v))
            res.append(["t", v])
    return res


# --------------------------------------------------------------------------- distributions

def make(n, t, il, brank, rep="dense"):
    from gpytorch.distributions import MultitaskMultivariateNormal as MT
    from linear_operator.operators import DenseLinearOperator, DiagLinearOperator
    N = n * t
    g = torch.Generator().manual_seed(1000 * n + 100 * t + 10 * brank + int(il))
    bs = (B,) * brank
    A = torch.randn(*bs, N, N, generator=g)
    cov = A @ A.transpose(-1, -2) / N + torch.eye(N)
    mean = torch.randn(*bs, n, t, generator=g)
    if rep == "dense":
        d = MT(mean, cov, interleaved=il)
    else:
        dg = torch.rand(*bs, N, generator=g) + 0.5
        d = MT(mean, DenseLinearOperator(cov) + DiagLinearOperator(dg), interleaved=il)
        cov = cov + torch.diag_embed(dg)
    return d, mean, cov


def exc_name(e):
    return type(e).__name__


# --------------------------------------------------------------------------- comparison of one d[idx]

def family_key(il, core, what):
    """failure key: names the branch (component kinds), the layout and the input class"""
    ri, ci = core
    minor = ci if il else ri
    tens = kind(ri) == "tensor" or kind(ci) == "tensor"
    neg = ":negative-minor-index" if (tens and has_neg(minor)) else ""
    return "getitem:%s-x-%s:%s%s:%s" % (kind(ri), kind(ci), "interleaved" if il else "noninterleaved", neg, what)


def check_getitem(out, d, mean, cov, perm, n, t, il, brank, idx, core, mres, label, rep):
    """mres: the model's result for this expression.  Returns nothing; records failures."""
    from gpytorch.distributions import MultitaskMultivariateNormal as MT
    N = n * t
    case = dict(n=n, t=t, interleaved=il, batch_rank=brank, idx=idx, rep=rep)
    pidx = py_idx(idx)
    ids = torch.arange((B ** brank) * N).reshape(*((B,) * brank), n, t)
    # independent oracle: what does mean[idx] select?
    try:
        sel = ids[pidx]
        want_mean = mean[pidx]
        terr = None
    except Exception as e:  # torch rejects the expression
        terr = exc_name(e)
    if sum(1 for c in idx if c == "...") > 1:
        terr = "IndexError"   # torch tolerates repeated ellipses; the class documents "only one ellipsis"
    try:
        r = d[pidx]
        cm = r.covariance_matrix
        ierr = None
    except Exception as e:
        ierr = exc_name(e)
    kk = (lambda what: family_key(il, core, what)) if core else (lambda what: "getitem:batch-only:%s" % what)
    nontrivial = terr is None and sel.numel() > 0
    out.case(case, nontrivial, label=label)
    # model vs torch on acceptance (machinery self-check; a disagreement here is OUR error unless the
    # implementation disagrees with torch as well)
    batch_invalid = False
    if brank == 1 and idx and idx[0] != "..." and terr is not None:
        try:
            torch.arange(B)[py_comp(idx[0])]
        except Exception:
            batch_invalid = True   # the model does not know the batch sizes; torch decides about batch components
    if (mres[0] == 0) != (terr is not None) and not batch_invalid:
        if mres[0] == 0 and terr is None and ierr is None and sel.numel() == 0:
            # torch does not bounds-check an index tensor when the result is empty; the implementation follows torch
            out.count("torch-skips-bounds-check-on-empty-result")
            return
        if (ierr is not None) == (terr is not None):
            out.fail("model:acceptance", "Coq model and torch disagree on whether the index is valid", case,
                     impl=ierr, model=mres)
            return
    if terr is not None:
        if ierr is None:
            out.fail(kk("accepts-invalid-index"), "d[idx] succeeds although mean[idx] raises %s" % terr, case)
        return
    if ierr is not None:
        out.fail(kk("raises-" + ierr), "d[idx] raises %s on an index valid for the mean's shape" % ierr, case, impl=ierr)
        return
    if not (r.mean.shape == want_mean.shape and torch.equal(r.mean, want_mean)):
        out.fail(kk("mean"), "d[idx].mean != mean[idx]", case, impl=r.mean, model=want_mean)
        return
    if mres[0] == 1:  # batch-only index
        want = cov[pidx]
        ok = isinstance(r, MT) and r._interleaved == il and cm.shape == want.shape and torch.allclose(cm, want, atol=1e-12)
        if not ok:
            out.fail(kk("cov"), "batch-only index: covariance is not the indexed batch of covariances", case,
                     impl=cm, model=want)
        return
    _, nb, is_mt, k = mres[:4]
    flat = mres[4:4 + k]
    if core is None:
        core = (FULL, FULL)   # the only tuple form without explicit event components is `...`
        kk = lambda what: family_key(il, core, what)  # noqa: E731
    if isinstance(r, MT) != bool(is_mt):
        out.fail(kk("class"), "result class: %s, model expects %s" % (type(r).__name__, "MT" if is_mt else "MVN"), case)
        return
    # event structure of the result according to torch
    both_int = core is not None and kind(core[0]) == "int" and kind(core[1]) == "int"
    ev = 2 if is_mt else (0 if both_int else 1)
    bshape = sel.shape[:sel.dim() - ev]
    evshape = sel.shape[sel.dim() - ev:]
    P = int(math.prod(bshape))
    ksize = int(math.prod(evshape))
    if is_mt:
        if r._interleaved != il:
            out.fail(kk("layout-flag"), "result lost the interleaved flag", case)
            return
        s3 = sel.reshape(P, evshape[0], evshape[1])
        codes = s3.reshape(P, ksize) if il else s3.transpose(-1, -2).reshape(P, ksize)
    else:
        codes = sel.reshape(P, ksize)
    flat_t = torch.tensor(flat, dtype=torch.long)
    model_codes = torch.tensor([perm[f] for f in flat], dtype=torch.long)
    truth_ok = codes.shape[1] == len(flat) and all(torch.equal(codes[p] % N, model_codes) for p in range(P)) and \
        all(len(set((codes[p] // N).tolist())) <= 1 for p in range(P))
    # expected covariance from the truth oracle (canonical order) -- independent of the Coq model
    inv = torch.argsort(torch.tensor(perm))
    covb = cov.reshape(-1, N, N)
    exp_blocks = []
    for p in range(P):
        if codes.shape[1] == 0:
            exp_blocks.append(torch.zeros(0, 0))
            continue
        b = int(codes[p][0]) // N
        pos = inv[codes[p] % N]
        exp_blocks.append(covb[b][pos][:, pos])
    if ev == 0:
        v = torch.stack([e.reshape(()) for e in exp_blocks]).reshape(bshape) if P else torch.zeros(bshape)
        want = torch.diag_embed(v) if v.dim() >= 1 else v
        ok = cm.numel() == want.numel() and torch.allclose(cm.reshape(want.shape), want, atol=1e-12)
    else:
        kdim = codes.shape[1]
        want = torch.stack(exp_blocks).reshape(*bshape, kdim, kdim) if P else torch.zeros(*bshape, kdim, kdim)
        ok = cm.shape == want.shape and torch.allclose(cm, want, atol=1e-12)
    if not ok:
        out.fail(kk("cov"), "covariance of d[idx] is not the sub-matrix of the selected (point, task) pairs", case,
                 impl=cm, model=want, model_positions=flat)
        return
    if not truth_ok:
        # implementation agrees with the torch oracle but the model's list does not: machinery error
        out.fail("model:positions", "Coq model position list disagrees with torch's selection", case,
                 impl=codes.tolist(), model=model_codes.tolist())
        return
    # model-selected sub-matrix (the proved list) gives the same matrix
    if ev and P:
        b0 = [int(codes[p][0]) // N if codes.shape[1] else 0 for p in range(P)]
        via_model = torch.stack([covb[b0[p]][flat_t][:, flat_t] for p in range(P)]).reshape(want.shape)
        if not torch.allclose(via_model, want, atol=0):
            out.fail("model:gather", "gather by the model's list differs from the oracle", case)
            return
    if is_mt and sel.numel() > 0:
        var = r.variance
        dg = torch.stack([e.diagonal() for e in exp_blocks])
        wv = dg.reshape(*bshape, evshape[0], evshape[1]) if il else dg.reshape(*bshape, evshape[1], evshape[0]).transpose(-1, -2)
        if not (var.shape == wv.shape and torch.allclose(var, wv, atol=1e-12)):
            out.fail(kk("variance"), "variance of the indexed multitask result is laid out inconsistently", case,
                     impl=var, model=wv)


# --------------------------------------------------------------------------- enumeration

def enum_cores(n, t, rng, tier, exhaustive_shape):
    """(label, ri, ci) for non-exhaustive families (the int/slice families are enumerated in Coq order)"""
    S = all_slices()
    cores = []
    small = [FULL, ["s", 1, None, None], ["s", None, -1, None], ["s", None, None, 2], ["s", -2, None, None],
             ["s", 0, 100, None], ["s", -100, 2, 3], ["s", 2, 1, None], ["s", 1, 3, 2], ["s", None, None, 0],
             ["s", None, None, -1]]
    for a in small:
        for b in small:
            cores.append(("slice-x-slice", a, b))
    for _ in range(60 if tier == "quick" else 600):
        cores.append(("slice-x-slice", rng.choice(S), rng.choice(S)))
    TR, TC = tensors(n), tensors(t)
    ssub = small[:8] + [rng.choice(S) for _ in range(6 if tier == "quick" else 40)]
    for tr in TR:
        for a in all_ints(t):
            cores.append(("tensor-x-int", tr, a))
        for s in ssub:
            cores.append(("tensor-x-slice", tr, s))
        for tc in TC:
            cores.append(("tensor-x-tensor", tr, tc))
    for tc in TC:
        for i in all_ints(n):
            cores.append(("int-x-tensor", i, tc))
        for s in ssub:
            cores.append(("slice-x-tensor", s, tc))
    return cores


def family_cores(n, t, fam):
    """mirror of Models/C11_mtmvn.v run_family (same order)"""
    S = all_slices()
    if fam == 0:
        return [("int-x-int", i, a) for i in all_ints(n) for a in all_ints(t)]
    if fam == 1:
        return [("int-x-slice", i, s) for i in all_ints(n) for s in S]
    return [("slice-x-int", s, a) for s in S for a in all_ints(t)]


def surface_forms(brank, ri, ci, rng):
    """index tuples that normalise to (batch..., ri, ci); returns list of (label, idx)"""
    forms = []
    if brank == 0:
        forms.append(("explicit", [ri, ci]))
        if ci == FULL:
            forms.append(("no-task-index", [ri]))
            forms.append(("trailing-ellipsis", [ri, "..."]))
        if ri == FULL:
            forms.append(("leading-ellipsis", ["...", ci]))
    else:
        # (batch selections are kept non-empty: a MultitaskMVN with an empty batch cannot be constructed at all)
        bsel = rng.choice([0, -1, 1, ["s", None, None, None], ["s", 0, 1, None], ["s", None, None, 2], ["s", -1, None, None]])
        forms.append(("batch+explicit", [bsel, ri, ci]))
        if ci == FULL:
            forms.append(("batch+no-task-index", [bsel, ri]))
        if rng.random() < 0.3:
            forms.append(("ellipsis-batch", ["...", ri, ci]))
        if ri == FULL and rng.random() < 0.5:
            forms.append(("batch+ellipsis", [bsel, "...", ci]))
    return forms


EXHAUSTIVE_QUICK = [(1, 2), (2, 3), (3, 2), (4, 3)]


def layout_tables(shapes):
    cases = ["(%s, %d, %d)" % ("true" if il else "false", n, t) for (n, t) in shapes for il in (True, False)]
    res = C.coq_run_cases("C11_layout", IMPORTS, "Definition run := run_layout.", cases, shard=8)
    tab = {}
    k = 0
    for (n, t) in shapes:
        for il in (True, False):
            N = n * t
            r = res[k]
            k += 1
            tab[(n, t, il)] = dict(perm=r[:N], tdid=r[N:2 * N], lp=r[2 * N:3 * N])
    return tab


def run_getitem_checks(out, ctx, tab):
    tier, seed = ctx["tier"], ctx["seed"]
    rng = random.Random(seed * 104729 + 11)
    shapes = [(n, t) for n in range(1, 5) for t in range(1, 5)]
    exh = set(shapes) if tier == "thorough" else set(EXHAUSTIVE_QUICK)
    # 1. exhaustive families, enumerated by Coq in a fixed order
    fam_cases, fam_meta, sampled = [], [], []
    for (n, t) in shapes:
        for il in (True, False):
            for fam in (0, 1, 2):
                if fam == 0 or (n, t) in exh:
                    fam_cases.append("(%s, %d, %d, %d, %d, %d)" % ("true" if il else "false", n, t, fam, LO, HI))
                    fam_meta.append((n, t, il, fam))
                else:   # quick tier, shape outside the exhaustive set: a 1/16 sample, run through Coq individually
                    cores = family_cores(n, t, fam)
                    for j in range(rng.randrange(16), len(cores), 16):
                        sampled.append((n, t, il, cores[j]))
    fam_res = C.coq_run_cases("C11_fam", IMPORTS, "Definition run := run_family.", fam_cases, shard=3)
    dists = {}

    def dist(n, t, il, brank, rep="dense"):
        key = (n, t, il, brank, rep)
        if key not in dists:
            dists[key] = make(n, t, il, brank, rep)
        return dists[key]

    batch_extra = []  # (n,t,il,idx,core,label) to be run through Coq individually
    for (n, t, il, fam), res in zip(fam_meta, fam_res):
        cores = family_cores(n, t, fam)
        if len(cores) != len(res):
            raise RuntimeError("family enumeration out of step with the Coq model: %d vs %d" % (len(cores), len(res)))
        d, mean, cov = dist(n, t, il, 0)
        perm = tab[(n, t, il)]["perm"]
        for j in range(len(cores)):
            lab, ri, ci = cores[j]
            check_getitem(out, d, mean, cov, perm, n, t, il, 0, [ri, ci], (ri, ci), res[j], lab + ":rank0", "dense")
        # a sample of the same cores under batch rank 1 / other surface forms / lazy representation
        for j in rng.sample(range(len(cores)), min(len(cores), 40 if tier == "quick" else 400)):
            lab, ri, ci = cores[j]
            for brank in (0, 1):
                for flab, idx in surface_forms(brank, ri, ci, rng):
                    if brank == 0 and flab == "explicit":
                        continue
                    batch_extra.append((n, t, il, brank, idx, (ri, ci), lab + ":" + flab, "dense"))
            if rng.random() < 0.25:
                batch_extra.append((n, t, il, 0, [ri, ci], (ri, ci), lab + ":lazy-sum", "lazy"))
    for (n, t, il, (lab, ri, ci)) in sampled:
        batch_extra.append((n, t, il, 0, [ri, ci], (ri, ci), lab + ":rank0", "dense"))
        if rng.random() < 0.05:
            for flab, idx in surface_forms(1, ri, ci, rng):
                batch_extra.append((n, t, il, 1, idx, (ri, ci), lab + ":" + flab, "dense"))
    # 2. other families (slice x slice, tensors), all shapes, both ranks
    for (n, t) in shapes:
        for il in (True, False):
            for lab, ri, ci in enum_cores(n, t, rng, tier, (n, t) in exh):
                for brank in (0, 1):
                    if brank == 1 and rng.random() < 0.6:
                        continue
                    for flab, idx in surface_forms(brank, ri, ci, rng):
                        batch_extra.append((n, t, il, brank, idx, (ri, ci), lab + ":" + flab, "dense"))
            # batch-only and malformed tuples
            for idx in ([0], [-1], [["s", None, None, None]], [["t", [1, 0]]], [2], ["..."], [0, "...", "..."],
                        [0, 0, 0, 0], ["...", 0, 0, 0, 0]):
                batch_extra.append((n, t, il, 1, idx, None, "tuple-forms", "dense"))
            for idx in (["..."], ["...", "..."], [0, 0, 0], ["...", 0, 0, 0]):
                batch_extra.append((n, t, il, 0, idx, None, "tuple-forms", "dense"))
    cq = [coq_case(il, brank, n, t, idx) for (n, t, il, brank, idx, core, lab, rep) in batch_extra]
    res = C.coq_run_cases("C11_idx", IMPORTS, "Definition run := run_getitem.", cq, shard=max(200, len(cq) // 16 + 1))
    for (n, t, il, brank, idx, core, lab, rep), mres in zip(batch_extra, res):
        d, mean, cov = dist(n, t, il, brank, rep)
        if core is None and mres[0] == 2:
            # a tuple form that reaches the event dimensions: recover the core for the key
            core = (0, 0)
        check_getitem(out, d, mean, cov, tab[(n, t, il)]["perm"], n, t, il, brank, idx, core, mres, lab, rep)
    out.extra["exhaustive_bound"] = ("int x int, int x slice, slice x int: ALL ints -len-1..len and ALL slices with "
                                     "start/stop in {None,%d..%d}, step in {None,1,2,3}, both layouts, on shapes %s; "
                                     "1/16 stride sample on the other shapes of 1..4 x 1..4" % (LO, HI, sorted(exh)))


# --------------------------------------------------------------------------- methods and constructors

def ref_logprob(Cc, m, v):
    diff = (v - m)
    Nn = diff.shape[-1]
    sol = torch.linalg.solve(Cc, diff.unsqueeze(-1)).squeeze(-1)
    return -0.5 * ((diff * sol).sum(-1) + torch.logdet(Cc) + Nn * math.log(2 * math.pi))


def canonical(cov, perm):
    inv = torch.argsort(torch.tensor(perm))
    return cov[..., inv, :][..., :, inv]


def guarded(out, key, case, fn, what=None):
    """run an implementation call; an exception is a keyed failure of that call, never a crash of the check.
    returns (ok, value)"""
    try:
        return True, fn()
    except Exception as e:
        out.fail("%s:raises-%s" % (key, exc_name(e)), "%s raised %r" % (what or key, e), case)
        return False, None


def run_method_checks(out, ctx, tab):
    import gpytorch
    from gpytorch.distributions import MultitaskMultivariateNormal as MT, MultivariateNormal as MVN
    rng = random.Random(ctx["seed"] * 31 + 5)
    for (n, t) in [(n, t) for n in range(1, 5) for t in range(1, 5)]:
        for il in (True, False):
            T = tab[(n, t, il)]
            if T["lp"] != T["perm"]:
                out.fail("model:logprob-layout", "model tables inconsistent", dict(n=n, t=t, il=il))
            for brank in (0, 1):
                N = n * t
                d, mean, cov = make(n, t, il, brank)
                Cc = canonical(cov, T["perm"])          # joint covariance in (i*t + a) order
                lay = "interleaved" if il else "noninterleaved"
                case = dict(n=n, t=t, interleaved=il, batch_rank=brank)
                nt = n > 1 and t > 1
                out.case(dict(case, what="mean/variance"), nt, label="methods")
                ok, dm = guarded(out, "mean:%s" % lay, case, lambda: d.mean)
                if ok and not (dm.shape == mean.shape and torch.equal(dm, mean)):
                    out.fail("mean:%s" % lay, ".mean does not return the mean passed in", case, impl=dm, model=mean)
                wv = Cc.diagonal(dim1=-1, dim2=-2).reshape(mean.shape)
                ok, dv = guarded(out, "variance:%s" % lay, case, lambda: d.variance)
                if ok and not (dv.shape == wv.shape and torch.allclose(dv, wv, atol=1e-12)):
                    out.fail("variance:%s" % lay, ".variance[i,a] is not Var(Y_ia)", case, impl=dv, model=wv)
                # log_prob, several value shapes, fast path on/off
                for vshape in ([], [3], [2, 3]):
                    g = torch.Generator().manual_seed(7 + len(vshape))
                    v = torch.randn(*vshape, *mean.shape, generator=g)
                    want = ref_logprob(Cc, mean.reshape(*mean.shape[:-2], N), v.reshape(*v.shape[:-2], N))
                    for fc in (True, False):
                        out.case(dict(case, what="log_prob", vshape=vshape, fast=fc), nt and n != t, label="log_prob")
                        def lp():
                            with gpytorch.settings.fast_computations(log_prob=fc), gpytorch.settings.max_cholesky_size(10 ** 6):
                                return d.log_prob(v)
                        ok, got = guarded(out, "log_prob:%s" % lay, dict(case, vshape=vshape, fast=fc), lp)
                        if not ok:
                            continue
                        if not (got.shape == want.shape and torch.allclose(got, want, atol=1e-8, rtol=1e-10)):
                            out.fail("log_prob:%s:%s" % (lay, "square" if n == t else "n!=t"),
                                     "log_prob differs from the density of the joint Gaussian", dict(case, vshape=vshape, fast=fc),
                                     impl=got, model=want)
                # rsample with base samples: the response to unit base vectors is a root of the joint covariance
                E = torch.eye(N).reshape(N, *([1] * brank), n, t).expand(N, *mean.shape[:-2], n, t).contiguous()
                out.case(dict(case, what="rsample"), nt, label="rsample")
                ok, S = guarded(out, "rsample:%s:base-samples" % lay, case, lambda: d.rsample(base_samples=E))
                if not ok:
                    pass
                elif S.shape != E.shape:
                    out.fail("rsample:%s:shape" % lay, "rsample(base_samples) shape", case, impl=list(S.shape))
                else:
                    A = (S - mean).reshape(N, *mean.shape[:-2], N)
                    A = A.permute(*range(1, 1 + brank), brank + 1, 0)     # ... x N(out) x N(base)
                    if not torch.allclose(A @ A.transpose(-1, -2), Cc, atol=1e-8):
                        out.fail("rsample:%s" % lay, "rsample(base_samples=e) is not mean + L e with L L^T = joint covariance",
                                 case, impl=A @ A.transpose(-1, -2), model=Cc)
                    ok, z = guarded(out, "rsample:%s:zero" % lay, case, lambda: d.rsample(base_samples=torch.zeros_like(mean)))
                    if ok and not (z.shape == mean.shape and torch.allclose(z, mean, atol=1e-12)):
                        out.fail("rsample:%s:zero" % lay, "rsample(base_samples=0) != mean", case, impl=z, model=mean)
                torch.manual_seed(ctx["seed"])
                for ss in ([], [2], [2, 3]):
                    ok, pr = guarded(out, "rsample:%s:sample-shape" % lay, dict(case, ss=ss),
                                     lambda: (d.rsample(torch.Size(ss)), d.get_base_samples(torch.Size(ss))))
                    if not ok:
                        continue
                    s1, bsamp = pr
                    if list(s1.shape) != ss + list(mean.shape) or list(bsamp.shape) != ss + list(mean.shape):
                        out.fail("rsample:%s:sample-shape" % lay, "rsample / get_base_samples shape", dict(case, ss=ss),
                                 impl=[list(s1.shape), list(bsamp.shape)])
                # to_data_independent_dist: t x t block of every point, read at the model's positions
                out.case(dict(case, what="to_data_independent_dist"), nt, label="to_data_independent_dist")
                ok, di = guarded(out, "to_data_independent_dist:%s" % lay, case,
                                 lambda: (lambda r: (r, r.mean, r.covariance_matrix))(d.to_data_independent_dist(jitter_val=0.0))[0])
                pos = torch.tensor(T["tdid"]).reshape(n, t)
                want = torch.stack([cov[..., pos[i], :][..., :, pos[i]] for i in range(n)], dim=-3)
                want2 = torch.stack([Cc[..., i * t:(i + 1) * t, i * t:(i + 1) * t] for i in range(n)], dim=-3)
                if not torch.equal(want, want2):
                    out.fail("model:tdid", "model tdid positions disagree with the canonical blocks", case)
                if ok and not (di.mean.shape == mean.shape and torch.equal(di.mean, mean) and di.covariance_matrix.shape == want2.shape
                               and torch.allclose(di.covariance_matrix, want2, atol=1e-12)):
                    out.fail("to_data_independent_dist:%s" % lay, "per-point task covariances are wrong", case,
                             impl=di.covariance_matrix, model=want2)
                # expand keeps the law
                for rep in ("dense", "lazy"):
                    d2, mean2, cov2 = make(n, t, il, brank, rep)
                    out.case(dict(case, what="expand", rep=rep), nt, label="expand")
                    try:
                        ex = d2.expand(torch.Size([3] + [B] * brank))
                    except Exception as e:
                        out.fail("expand:%s-covariance:raises-%s" % (rep, exc_name(e)),
                                 "MultitaskMultivariateNormal.expand raises %r" % e, dict(case, rep=rep))
                        continue
                    ok, good = guarded(out, "expand:%s-covariance:values" % rep, dict(case, rep=rep), lambda: bool(
                        torch.equal(ex.mean[1], mean2) and torch.allclose(ex.covariance_matrix[1], cov2) and ex._interleaved == il))
                    if ok and not good:
                        out.fail("expand:%s" % lay, "expand changes the distribution", dict(case, rep=rep))
    # constructors
    for (n, t) in [(n, t) for n in range(1, 5) for t in range(1, 5)]:
        g = torch.Generator().manual_seed(n * 17 + t)
        for bshape in ([], [2], [2, 3]):
            Ks = torch.randn(*bshape, t, n, n, generator=g)
            Ks = Ks @ Ks.transpose(-1, -2) / n + torch.eye(n)      # ... x t x n x n : block a = task a
            ms = torch.randn(*bshape, t, n, generator=g)
            nb = len(bshape)
            joint = torch.zeros(*bshape, n * t, n * t)               # canonical order
            for a in range(t):
                for i in range(n):
                    for j in range(n):
                        joint[..., i * t + a, j * t + a] = Ks[..., a, i, j]
            wmean = ms.transpose(-1, -2)
            case = dict(n=n, t=t, batch_shape=bshape)

            def cmp(make_r, what, key, wm=wmean, wj=joint):
                out.case(dict(case, ctor=what), n > 1 and t > 1, label="ctor:" + what.split(" ")[0])
                try:
                    r = make_r()
                    T = tab[(n, t, bool(r._interleaved))]
                    rm, rc = r.mean, r.covariance_matrix
                except Exception as e:
                    out.fail("%s:raises-%s" % (key, exc_name(e)), "%s raised %r" % (what, e), dict(case, ctor=what))
                    return
                if rc.shape != wj.shape:
                    out.fail(key + ":shape", "%s: covariance has shape %s" % (what, list(rc.shape)), dict(case, ctor=what))
                    return
                Cc = canonical(rc, T["perm"])
                if not (rm.shape == wm.shape and torch.equal(rm, wm) and torch.allclose(Cc, wj, atol=1e-12)):
                    out.fail(key, "%s is not the joint law of independent tasks" % what, dict(case, ctor=what),
                             impl=Cc, model=wj)

            # from_batch_mvn with every task_dim: put the task dimension at batch position p
            for p in range(nb + 1):
                perm_dims = list(range(nb))
                perm_dims.insert(p, nb)
                bm = MVN(ms.permute(*perm_dims, nb + 1), Ks.permute(*perm_dims, nb + 1, nb + 2))
                for td in (p, p - (nb + 1)):
                    cmp(lambda: MT.from_batch_mvn(bm, task_dim=td), "from_batch_mvn task_dim=%d" % td,
                        "from_batch_mvn:task_dim" + (":last" if p == nb else ":not-last"))
            # the default task_dim=-1
            cmp(lambda: MT.from_batch_mvn(MVN(ms, Ks)), "from_batch_mvn default", "from_batch_mvn:default")
            # invalid task_dim must be rejected (model: task_dim_norm)
            bm = MVN(ms, Ks)
            # (task_dim == len(batch_shape) passes the validation of line 112 -- an off-by-one that is not
            #  covered by the property, which speaks about valid task dimensions; noted in the report)
            for td in (nb + 2, nb + 3, -(nb + 2)):
                out.case(dict(case, ctor="from_batch_mvn invalid", task_dim=td), False, label="ctor:invalid")
                try:
                    MT.from_batch_mvn(bm, task_dim=td)
                    out.fail("from_batch_mvn:accepts-invalid-task_dim", "task_dim outside the batch dimensions accepted",
                             dict(case, task_dim=td))
                except Exception:
                    pass
            if t >= 2:
                cmp(lambda: MT.from_independent_mvns([MVN(ms[..., a, :], Ks[..., a, :, :]) for a in range(t)]),
                    "from_independent_mvns", "from_independent_mvns")
            m1 = MVN(ms[..., 0, :], Ks[..., 0, :, :])
            jr = torch.zeros(*bshape, n * t, n * t)
            for a in range(t):
                for i in range(n):
                    for j in range(n):
                        jr[..., i * t + a, j * t + a] = Ks[..., 0, i, j]
            cmp(lambda: MT.from_repeated_mvn(m1, num_tasks=t), "from_repeated_mvn", "from_repeated_mvn",
                wm=ms[..., 0, :].unsqueeze(-1).expand(*bshape, n, t), wj=jr)


# --------------------------------------------------------------------------- entry points

def run(out, ctx):
    if not ctx.get("props_ok", True) and ctx["tier"] == "quick":
        ctx = dict(ctx, tier="thorough")      # DESIGN 5.2: a failed obligation escalates the search
    shapes = [(n, t) for n in range(1, 5) for t in range(1, 5)]
    tab = layout_tables(shapes)
    # model self-check against torch: perm must be a permutation consistent with reshape / transpose
    for (n, t, il), T in tab.items():
        ids = torch.arange(n * t).reshape(n, t)
        want = ids.reshape(-1) if il else ids.t().reshape(-1)
        if T["perm"] != want.tolist():
            out.fail("model:layout", "layout table differs from torch reshape/transpose", dict(n=n, t=t, il=il),
                     impl=want.tolist(), model=T["perm"])
    import traceback
    for part in (run_method_checks, run_getitem_checks):
        try:
            part(out, ctx, tab)
        except Exception:     # an implementation exception outside a guarded call: report it, keep going with the other part
            tb = traceback.format_exc()
            C.log(tb)
            out.fail("harness:%s:crash" % part.__name__, "this part of the check could not be completed on the current tree: "
                     + tb[-1200:], None, no_input=True)
    tie_t(out, ctx)
    out.exhaustive = True
    out.rule = ("shapes n,t in 1..4 (n != t included), both layouts, batch rank 0 and 1; index expressions: every "
                "int -len-1..len x every slice (start/stop in {None,-6..6}, step in {None,1,2,3}) in both orders, int x int, "
                "slice x slice (structured + random), 1-D index tensors (negative / repeated / empty / out of range) against "
                "int / slice / tensor, ellipsis and omitted-task-index forms, batch indices, malformed tuples; plus "
                "mean / variance / log_prob (3 value shapes, fast path on/off) / rsample / to_data_independent_dist / expand / "
                "constructors on every shape.  non-trivial = the index is valid and selects at least one entry "
                "(methods: n,t >= 2)")
    out.extra["tolerances"] = {"gather (exact copies)": 1e-12, "log_prob / rsample (dense float64)": 1e-8}
    out.tested_not_proved = ["torch advanced-indexing semantics (modelled in idx_positions/bcast2, cross-checked against an id "
                             "tensor on every case)", "linear_operator slicing / to_dense", "numerics of log_prob / root decomposition"]


def tie_t(out, ctx):
    """tie T bookkeeping: the obligations over Gen/MTIndex_gen.v are Proofs/C11_gen.v + the c11_gen_* theorems of
    Props/C11.v, rebuilt by ./check whenever the regenerated text changes; a failure there is a failed proof
    obligation (props_ok False -> VIOLATION) and the correspondence below has been run at thorough depth."""
    if ctx.get("unparsed"):
        return
    out.ties["T"] = "regenerated; obligations %s" % ("discharged" if ctx.get("props_ok", True) else "FAILED")
    if not ctx.get("props_ok", True):
        out.notes.append("tie T: a theorem over the regenerated index arithmetic (Gen/MTIndex_gen.v) no longer holds; "
                         "correspondence escalated to thorough depth")


def pregen(out):
    from harness.translators import mtindex_tr
    info = mtindex_tr.generate()          # raises common.Unparsed (after writing the stand-in file)
    if out is not None and info:
        out.extra["translated_source"] = info


def replay(path):
    d = json.load(open(path))
    case = d["case"]
    if "idx" not in case:
        print("replay of method/constructor cases: re-run ./check C11 (deterministic); case:", case)
        return 1
    n, t, il, brank, idx = case["n"], case["t"], case["interleaved"], case["batch_rank"], case["idx"]
    tab = layout_tables([(n, t)])
    mres = C.coq_run_cases("C11_replay", IMPORTS, "Definition run := run_getitem.", [coq_case(il, brank, n, t, idx)])[0]
    dist, mean, cov = make(n, t, il, brank, case.get("rep", "dense"))
    out = C.Outcome("C11", "quick", 0)
    core = None
    if mres[0] == 2 or len(idx) >= 2:
        comps = [c for c in idx if c != "..."]
        core = (comps[-2], comps[-1]) if len(comps) >= 2 else (0, 0)
    print("index:", idx, " n=%d t=%d interleaved=%s batch_rank=%d" % (n, t, il, brank))
    print("model:", mres)
    try:
        r = dist[py_idx(idx)]
        print("impl : %s mean %s cov %s" % (type(r).__name__, r.mean.tolist(), r.covariance_matrix.tolist()))
    except Exception as e:
        print("impl raises", repr(e))
    check_getitem(out, dist, mean, cov, tab[(n, t, il)]["perm"], n, t, il, brank, idx, core, mres, "replay", case.get("rep", "dense"))
    for f in out.failures:
        print("FAILS:", f["key"], f["what"])
        if f.get("model") is not None:
            print("expected:", C.jsonable(f["model"]))
    print("FAILS" if out.failures else "agrees")
    return 1 if out.failures else 0
