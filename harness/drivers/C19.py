"""C19 — hand-written derivatives are the true derivatives.
Tie C.  The Coq model (Models/C19_derivs.v) holds the forward functions and the hand-written backward formulas of
RBFCovariance, MaternCovariance, LogNormalCDF and _NaturalToMuVarSqrt (n = 1), proved (Props/C19.v) to be the
derivatives of the forward functions.  On every run the model is executed on the `expr` carrier (vm_compute, terms
evaluated with mpmath) and compared with what torch.autograd.grad delivers through the PUBLIC calls:
  * kernel(x1, x2) on the fast path (RBFCovariance / MaternCovariance) and on the generic autograd path: values and
    d/d lengthscale of sum(G * K) for random upstream G, duplicates (r = 0), 4+ decades of lengthscales, batches;
  * gpytorch.functions.log_normal_cdf: value and gradient on the near-zero, ordinary and tail branches;
  * NaturalVariationalDistribution / TrilNaturalVariationalDistribution: gradients w.r.t. the natural parameters
    = gradient w.r.t. the expectation parameters (n = 1 and diagonal against the Coq model; general n against
    torch autograd through an independent re-implementation of eta -> (mu, chol));
  * ExactGP predictions: autograd gradient w.r.t. test inputs vs central differences."""
import json
import math
import random

import mpmath
import torch

import gpytorch
from gpytorch import settings as gs
from harness.drivers.C05 import fast_run_cases
from harness.lib import common as C

COQ_TARGETS = ["Models/C19_derivs.vo"]
LEVEL_NOTE = ("theorems are about the Gallina transcription of forward/backward formulas; the tie to /repo is "
              "differential (torch.autograd.grad through public calls vs mpmath evaluation of the model's terms)")
IMPORTS = ("From Coq Require Import List ZArith QArith Qcanon.\n"
           "From GPV Require Import Base.LinAlg Base.Exec Base.Expr Models.C05_kernels Models.C19_derivs.")
RUN_DEF = "Definition run c := pack (run_djob c)."
NOX2 = "([] : list (list Qc))"

torch.set_default_dtype(torch.float64)
mpmath.mp.dps = 30
K = gpytorch.kernels

VAL_RTOL = 1e-10
VAL_ATOL_COINCIDENT = 2e-6      # Matern on the generic path at r = 0: r = sqrt(rounding of r^2) (see C05 driver)
GRAD_TOL_FAST = 1e-8            # relative to S = sum |G_ij| / l, the natural scale of d/dl sum(G K)
GRAD_TOL_GENERIC = 1e-6
LNCDF_RTOL = 1e-6
NAT_TOL = 1e-8
FD_TOL = 2e-6

FAMS = {"rbf": None, "matern05": 1, "matern15": 3, "matern25": 5}


def qm(rows):
    return "[" + "; ".join(C.qc_vec(r) for r in rows) + "]"


# --------------------------------------------------------------------------- kernels

def gen_kernel_case(rng, fam, k):
    d = rng.randint(1, 3)
    n1 = rng.randint(1, 4)
    n2 = rng.randint(1, 4)
    dec = [-2, -1, 0, 1, 2][k % 5]                 # 4 decades of lengthscales, all visited
    batch = ["none", "kernel", "kernel+x"][(k // 5) % 3]
    nb = 1 if batch == "none" else 2
    ls = [10.0 ** dec * rng.uniform(0.5, 2.0) for _ in range(nb)]
    l0 = 2.0 ** round(math.log2(10.0 ** dec))      # inputs live on a dyadic grid of the lengthscale's magnitude
    pt = lambda: [l0 * rng.randint(-16, 16) / 8.0 for _ in range(d)]  # noqa: E731
    nxb = 2 if batch == "kernel+x" else 1
    x1 = [[pt() for _ in range(n1)] for _ in range(nxb)]
    x2 = [[pt() for _ in range(n2)] for _ in range(nxb)]
    for b in range(nxb):
        if rng.random() < 0.6:                     # coincident points across x1 / x2
            x2[b][rng.randrange(n2)] = list(x1[b][rng.randrange(n1)])
        if n1 > 1 and rng.random() < 0.4:          # duplicates inside x1 (matter for the symmetric call)
            x1[b][-1] = list(x1[b][0])
    call = rng.choice(["full", "sym"])
    cols = n2 if call == "full" else n1
    G = [[[rng.gauss(0, 1) for _ in range(cols)] for _ in range(n1)] for _ in range(nb)]
    return dict(kind="kernel", fam=fam, d=d, dec=dec, batch=batch, ls=ls, x1=x1, x2=x2, call=call, G=G)


def build_kernel(case):
    nb = len(case["ls"])
    kw = {} if case["batch"] == "none" else {"batch_shape": torch.Size([nb])}
    if case["fam"] == "rbf":
        k = K.RBFKernel(**kw)
    else:
        k = K.MaternKernel(nu=FAMS[case["fam"]] / 2.0, **kw)
    k.lengthscale = torch.tensor(case["ls"]).reshape(*k.lengthscale.shape)
    return k


def kernel_coq_cases(case, kern):
    """one Coq case per batch element; the lengthscale is the value the module reports (exact)"""
    ls = kern.lengthscale.detach().reshape(-1).tolist()
    out = []
    for b, l in enumerate(ls):
        xb = b if len(case["x1"]) > 1 else 0
        xa = case["x1"][xb]
        xc = case["x2"][xb] if case["call"] == "full" else xa
        job = "(DRBF %s)" % C.qc_lit(l) if case["fam"] == "rbf" else "(DMatern %d%%nat %s)" % (FAMS[case["fam"]],
                                                                                              C.qc_lit(l))
        out.append("(%s, %s, %s)" % (job, qm(xa), qm(xc)))
    return out


def kernel_impl(case, kern, path):
    x1 = torch.tensor(case["x1"])
    x2 = torch.tensor(case["x2"])
    if len(case["x1"]) == 1:
        x1, x2 = x1[0], x2[0]
    G = torch.tensor(case["G"])
    if case["batch"] == "none":
        G = G[0]
    cms = [gs.trace_mode(True)] if path == "generic" else []
    for c in cms:
        c.__enter__()
    try:
        Kd = (kern(x1, x2) if case["call"] == "full" else kern(x1)).to_dense()
        (g_raw,) = torch.autograd.grad((Kd * G).sum(), kern.raw_lengthscale)
    finally:
        for c in reversed(cms):
            c.__exit__(None, None, None)
    (chain,) = torch.autograd.grad(kern.lengthscale.sum(), kern.raw_lengthscale)
    return Kd.detach(), (g_raw / chain).reshape(-1).tolist()


def check_kernel(out, case, kern, results):
    nb = len(case["ls"])
    n1 = len(case["x1"][0])
    cols = len(case["x2"][0]) if case["call"] == "full" else n1
    ls = kern.lengthscale.detach().reshape(-1).tolist()
    vals, dks = [], []
    for b in range(nb):
        rd = C.Reader(results[b])
        v = [[None] * cols for _ in range(n1)]
        dk = [[None] * cols for _ in range(n1)]
        for i in range(n1):
            for j in range(cols):
                v[i][j] = rd.expr()
                dk[i][j] = rd.expr()
        assert rd.done()
        vals.append(v)
        dks.append(dk)
    desc = dict(case=case)
    tag = "%s:%s:%s" % (case["fam"], case["call"], case["batch"])
    got = {}
    for path in ("fast", "generic"):
        try:
            Kd, g = kernel_impl(case, kern, path)
        except Exception as e:
            out.fail("kernel:%s:%s:exception:%s" % (tag, path, type(e).__name__), "public kernel call / autograd raised %r"
                     % (e,), desc)
            continue
        got[path] = (Kd, g)
        Kb = Kd.reshape(nb, n1, cols).tolist()
        for b in range(nb):
            xb = b if len(case["x1"]) > 1 else 0
            xa = case["x1"][xb]
            xc = case["x2"][xb] if case["call"] == "full" else xa
            bad = None
            for i in range(n1):
                for j in range(cols):
                    at = VAL_ATOL_COINCIDENT if (case["fam"] != "rbf" and xa[i] == xc[j]) else 1e-12
                    if not C.close(Kb[b][i][j], vals[b][i][j], at, VAL_RTOL):
                        bad = bad or (i, j, Kb[b][i][j], float(vals[b][i][j]))
            if bad:
                out.fail("kernel:%s:%s:value" % (tag, path), "kernel value on the %s path differs from the forward "
                         "function at entry (%d,%d): impl %.12g model %.12g" % ((path,) + bad), desc)
            want = mpmath.fsum(mpmath.mpf(case["G"][b][i][j]) * dks[b][i][j] for i in range(n1) for j in range(cols))
            S = sum(abs(case["G"][b][i][j]) for i in range(n1) for j in range(cols)) / ls[b]
            tol = (GRAD_TOL_FAST if path == "fast" else GRAD_TOL_GENERIC) * S
            if not (abs(g[b] - float(want)) <= tol):
                out.fail("kernel:%s:%s:lengthscale-grad" % (tag, path),
                         "d/d lengthscale of sum(G*K) on the %s path: autograd %.12g, derivative of the forward "
                         "function %.12g (lengthscale %.6g, scale %.3g)" % (path, g[b], float(want), ls[b], S), desc,
                         impl=g, model=float(want))
    if len(got) == 2:                                  # fast and generic paths against each other
        (Kf, gf), (Kg, gg) = got["fast"], got["generic"]
        at = VAL_ATOL_COINCIDENT if case["fam"] != "rbf" else 1e-12
        if not torch.allclose(Kf, Kg, rtol=1e-9, atol=at):
            out.fail("kernel:%s:fast-vs-generic:value" % tag, "fast and generic paths return different values", desc,
                     impl=Kf, model=Kg)
        for b in range(nb):
            S = sum(abs(v) for r in case["G"][b] for v in r) / ls[b]
            if not abs(gf[b] - gg[b]) <= GRAD_TOL_GENERIC * S:
                out.fail("kernel:%s:fast-vs-generic:lengthscale-grad" % tag, "fast path gradient %.12g, generic path "
                         "gradient %.12g" % (gf[b], gg[b]), desc)
    flat = [float(v) for b in range(nb) for r in dks[b] for v in r]
    return any(abs(v) > 1e-12 for v in flat)


# --------------------------------------------------------------------------- log normal cdf

def gen_lncdf(rng, tier):
    k = 6 if tier == "quick" else 40
    zs = []
    zs += [rng.uniform(-0.199, 0.199) for _ in range(k)] + [0.0]                  # near zero (series branch)
    zs += [rng.uniform(0.21, 6.0) for _ in range(k)] + [rng.uniform(-0.99, -0.21) for _ in range(k)]   # ordinary
    zs += [rng.uniform(-5.4, -1.001) for _ in range(2 * k)]                       # tail branch, close to its start
    zs += [rng.uniform(-30.0, -5.5) for _ in range(k)]                            # tail branch, far out
    zs += [-1.0, 0.2, -0.2, -1.0000001]                                           # branch boundaries
    return [dict(kind="lncdf", z=float(z)) for z in zs]


def lncdf_branch(z):
    if z * z < 0.04:
        return "near-zero"
    if z < -5.5:
        return "far-tail"
    if z < -1:
        return "near-tail"
    return "ordinary"


def check_lncdf(out, case, res):
    rd = C.Reader(res)
    val, der = rd.expr(), rd.expr()
    z = torch.tensor([case["z"]], requires_grad=True)
    up = 1.7
    v = gpytorch.functions.log_normal_cdf(z)
    (g,) = torch.autograd.grad((up * v).sum(), z)
    br = lncdf_branch(case["z"])
    if not C.close(g.item() / up, der, 0.0, LNCDF_RTOL):
        out.fail("lncdf:grad:%s" % br, "d/dz log_normal_cdf at z=%.9g: autograd %.12g, phi/Phi %.12g (rel %.2e)"
                 % (case["z"], g.item() / up, float(der), abs(g.item() / up - float(der)) / abs(float(der))),
                 dict(case=case), impl=g.item() / up, model=float(der))
    h = 1e-6 * max(1.0, abs(case["z"]))
    fd = (gpytorch.functions.log_normal_cdf(torch.tensor([case["z"] + h]))
          - gpytorch.functions.log_normal_cdf(torch.tensor([case["z"] - h]))).item() / (2 * h)
    same_branch = lncdf_branch(case["z"] + h) == br == lncdf_branch(case["z"] - h)
    if same_branch and not C.close(g.item() / up, fd, 1e-7, 1e-5):
        out.fail("lncdf:grad-vs-fd-of-forward:%s" % br, "backward %.10g is not the derivative of the forward actually "
                 "computed (central difference %.10g) at z=%.9g" % (g.item() / up, fd, case["z"]), dict(case=case),
                 impl=g.item() / up, model=fd)
    return True


# --------------------------------------------------------------------------- natural parameterisations

def gen_nat(rng, tier):
    cases = []
    reps = 12 if tier == "quick" else 80
    for k in range(reps):
        n = 1 if k % 3 == 0 else rng.randint(2, 3)
        th1 = [rng.randint(-24, 24) / 8.0 for _ in range(n)]
        th2 = [-rng.randint(1, 40) / 16.0 for _ in range(n)]
        gmu = [rng.randint(-16, 16) / 8.0 for _ in range(n)]
        gS = [rng.randint(-16, 16) / 8.0 for _ in range(n)]
        cases.append(dict(kind="nat-diag", n=n, th1=th1, th2=th2, gmu=gmu, gS=gS, cls=["natural", "tril"][k % 2]))
    for k in range(reps):
        n = rng.randint(2, 5)
        cases.append(dict(kind="nat-full", n=n, seed=rng.randrange(10 ** 6), cls=["natural", "tril"][k % 2],
                          batch=(k % 4 == 3)))
    return cases


def nat_coq_cases(case):
    return ["(DNat1 %s %s, [[%s; %s]], %s)" % (C.qc_lit(case["gmu"][i]), C.qc_lit(case["gS"][i]),
                                               C.qc_lit(case["th1"][i]), C.qc_lit(case["th2"][i]), NOX2)
            for i in range(case["n"])]


def make_vd(cls, n, nat_vec, nat_mat, batch_shape=torch.Size([])):
    """variational distribution object whose natural parameters are (nat_vec, nat_mat) (nat_mat = -1/2 precision)"""
    if cls == "natural":
        vd = gpytorch.variational.NaturalVariationalDistribution(n, batch_shape=batch_shape)
        vd.natural_vec.data.copy_(nat_vec)
        vd.natural_mat.data.copy_(nat_mat)
        return vd, vd.natural_mat
    vd = gpytorch.variational.TrilNaturalVariationalDistribution(n, batch_shape=batch_shape)
    vd.natural_vec.data.copy_(nat_vec)
    vd.natural_tril_mat.data.copy_(tril_of(nat_mat))
    return vd, vd.natural_tril_mat


def tril_of(nat_mat):
    """the tril parameter C with L = C^-1, L L^T = Sigma = (-2 nat_mat)^-1"""
    Sigma = torch.linalg.inv(-2.0 * nat_mat)
    L = torch.linalg.cholesky(Sigma)
    return torch.linalg.inv(L)


def phi_tril(A):
    A = torch.tril(A).clone()
    A.diagonal(dim1=-2, dim2=-1).mul_(0.5)
    return A


def check_nat_diag(out, case, results):
    n = case["n"]
    vd, matpar = make_vd(case["cls"], n, torch.tensor(case["th1"]), torch.diag(torch.tensor(case["th2"])))
    dist = vd()
    cov = dist.covariance_matrix
    loss = (torch.tensor(case["gmu"]) * dist.mean).sum() + (torch.tensor(case["gS"]) * cov.diagonal()).sum()
    loss.backward()
    key = "natural:%s:%s" % (case["cls"], "n=1" if n == 1 else "diagonal")
    ok = True
    for i in range(n):
        rd = C.Reader(results[i])
        mu, L, de1, de2 = rd.expr(), rd.expr(), rd.expr(), rd.expr()
        obs = [("mean", dist.mean[i].item(), mu), ("chol", math.sqrt(cov[i, i].item()), L),
               ("d/d eta1", vd.natural_vec.grad[i].item(), de1)]
        if case["cls"] == "natural":
            obs.append(("d/d eta2", matpar.grad[i, i].item(), de2))
        else:
            # documented transformation of the tril parameterisation: phi(-2 L^T deta2 L) C, diagonal case
            Lf = float(L)
            obs.append(("d/d tril", matpar.grad[i, i].item(), -float(de2) * Lf))
        for nm, a, b in obs:
            if not C.close(a, b, NAT_TOL, NAT_TOL):
                ok = False
                out.fail("%s:%s" % (key, nm), "%s of coordinate %d: implementation %.12g, model %.12g" % (nm, i, a,
                                                                                                         float(b)),
                         dict(case=case), impl=a, model=float(b))
    if case["cls"] == "natural":
        off = matpar.grad - torch.diag(matpar.grad.diagonal())
        if off.abs().max().item() > NAT_TOL:
            out.fail(key + ":offdiag", "off-diagonal natural gradient should vanish for a diagonal problem",
                     dict(case=case), impl=matpar.grad)
    return ok


def check_nat_full(out, case):
    n = case["n"]
    gen = torch.Generator().manual_seed(case["seed"])
    bs = torch.Size([2]) if case["batch"] else torch.Size([])
    A = torch.randn(*bs, n, n, generator=gen)
    P = A @ A.transpose(-1, -2) + n * torch.eye(n)
    th1 = torch.randn(*bs, n, generator=gen)
    gmu = torch.randn(*bs, n, generator=gen)
    GL = torch.tril(torch.randn(*bs, n, n, generator=gen))
    vd, matpar = make_vd(case["cls"], n, th1, -0.5 * P, batch_shape=bs)
    dist = vd()
    L = dist.lazy_covariance_matrix.cholesky().to_dense()
    ((gmu * dist.mean).sum() + (GL * L).sum()).backward()
    # independent re-implementation: expectation parameters -> (mu, chol), differentiated by torch
    e1 = dist.mean.detach().clone().requires_grad_(True)
    e2 = (dist.covariance_matrix.detach() + e1.detach().unsqueeze(-1) * e1.detach().unsqueeze(-2)).requires_grad_(True)
    Lr = torch.linalg.cholesky(e2 - e1.unsqueeze(-1) * e1.unsqueeze(-2))
    r1, r2 = torch.autograd.grad((gmu * e1).sum() + (GL * Lr).sum(), (e1, e2))
    r2 = 0.5 * (r2 + r2.transpose(-1, -2))
    key = "natural:%s:full%s" % (case["cls"], ":batch" if case["batch"] else "")
    scale = 1.0 + r1.abs().max().item() + r2.abs().max().item()
    ok = True
    if not torch.allclose(vd.natural_vec.grad, r1, rtol=0, atol=NAT_TOL * scale):
        ok = False
        out.fail(key + ":d/d eta1", "gradient delivered for natural_vec differs from d out/d eta1 (autograd through "
                 "eta -> (mu, chol)), n=%d" % n, dict(case=case), impl=vd.natural_vec.grad, model=r1)
    want = r2 if case["cls"] == "natural" else phi_tril(-2.0 * L.detach().transpose(-1, -2) @ r2 @ L.detach()) \
        @ tril_of(-0.5 * P)
    if not torch.allclose(matpar.grad, want, rtol=0, atol=NAT_TOL * scale * (1 + want.abs().max().item())):
        ok = False
        out.fail(key + ":d/d eta2", "gradient delivered for the matrix parameter differs from d out/d eta2 "
                 "(autograd through eta -> (mu, chol)), n=%d" % n, dict(case=case), impl=matpar.grad, model=want)
    return ok


# --------------------------------------------------------------------------- prediction gradients

class _GP(gpytorch.models.ExactGP):
    def __init__(self, x, y, lik, kern):
        super().__init__(x, y, lik)
        self.mean_module = gpytorch.means.ConstantMean()
        self.covar_module = gpytorch.kernels.ScaleKernel(kern)

    def forward(self, x):
        return gpytorch.distributions.MultivariateNormal(self.mean_module(x), self.covar_module(x))


def gen_pred(rng, tier):
    reps = 6 if tier == "quick" else 40
    return [dict(kind="pred", fam=list(FAMS)[k % 4], d=rng.randint(1, 3), n=rng.randint(3, 6), t=rng.randint(1, 3),
                 seed=rng.randrange(10 ** 6)) for k in range(reps)]


def check_pred(out, case):
    gen = torch.Generator().manual_seed(case["seed"])
    n, t, d = case["n"], case["t"], case["d"]
    X = torch.randn(n, d, generator=gen)
    y = torch.randn(n, generator=gen)
    Xs = torch.randn(t, d, generator=gen)
    w = torch.randn(t, generator=gen)
    v = torch.randn(t, generator=gen)
    kern = K.RBFKernel() if case["fam"] == "rbf" else K.MaternKernel(nu=FAMS[case["fam"]] / 2.0)
    lik = gpytorch.likelihoods.GaussianLikelihood()
    lik.noise = 0.1
    model = _GP(X, y, lik, kern)
    model.eval()
    lik.eval()

    def f(xs):
        with gs.fast_pred_var(False), gs.detach_test_caches(False):
            p = model(xs)
            return (w * p.mean).sum() + (v * p.variance).sum()
    xs = Xs.clone().requires_grad_(True)
    (g,) = torch.autograd.grad(f(xs), xs)
    h = 1e-5
    fd = torch.zeros_like(Xs)
    with torch.no_grad():
        for i in range(t):
            for k in range(d):
                e = torch.zeros_like(Xs)
                e[i, k] = h
                fd[i, k] = (f(Xs + e) - f(Xs - e)) / (2 * h)
    scale = 1.0 + fd.abs().max().item()
    if not torch.allclose(g, fd, rtol=0, atol=FD_TOL * scale):
        out.fail("prediction-grad:%s" % case["fam"], "autograd gradient of w.mean + v.variance w.r.t. the test inputs "
                 "differs from central differences (max %.3g)" % (g - fd).abs().max().item(), dict(case=case),
                 impl=g, model=fd)
        return False
    return True


# --------------------------------------------------------------------------- run / replay

def run_items(out, items, record=True):
    """items: list of case dicts; runs the model for those that have one, then all checks"""
    coq, owner, kerns = [], [], {}
    for idx, case in enumerate(items):
        if case["kind"] == "kernel":
            kerns[idx] = build_kernel(case)
            cs = kernel_coq_cases(case, kerns[idx])
        elif case["kind"] == "lncdf":
            cs = ["(DLnCdf, [[%s]], %s)" % (C.qc_lit(case["z"]), NOX2)]
        elif case["kind"] == "nat-diag":
            cs = nat_coq_cases(case)
        else:
            cs = []
        owner.append((len(coq), len(cs)))
        coq += cs
    res = fast_run_cases("C19", IMPORTS, RUN_DEF, coq) if coq else []
    for idx, case in enumerate(items):
        a, k = owner[idx]
        r = res[a:a + k]
        try:
            if case["kind"] == "kernel":
                nt = check_kernel(out, case, kerns[idx], r)
                label = "kernel:%s:%s:%s:dec=%d" % (case["fam"], case["call"], case["batch"], case["dec"])
            elif case["kind"] == "lncdf":
                nt = check_lncdf(out, case, r[0])
                label = "lncdf:" + lncdf_branch(case["z"])
            elif case["kind"] == "nat-diag":
                nt = check_nat_diag(out, case, r)
                label = "natural-diag:%s:n=%d" % (case["cls"], case["n"])
            elif case["kind"] == "nat-full":
                nt = check_nat_full(out, case)
                label = "natural-full:%s" % case["cls"]
            else:
                nt = check_pred(out, case)
                label = "prediction-grad:" + case["fam"]
        except Exception as e:
            import traceback
            out.fail("%s:exception:%s" % (case["kind"], type(e).__name__), "check raised: " + traceback.format_exc()[-800:],
                     dict(case=case))
            nt, label = False, case["kind"] + ":exception"
        if record:
            small = {k: v for k, v in case.items() if k not in ("G",)}
            out.case(small, True, label=label)


def run(out, ctx):
    tier, seed = ctx["tier"], ctx["seed"]
    rng = random.Random(seed * 104729 + 19)
    torch.manual_seed(seed)
    items = []
    per = 30 if tier == "quick" else 300
    for fam in FAMS:
        items += [gen_kernel_case(rng, fam, k) for k in range(per)]
    items += gen_lncdf(rng, tier)
    items += gen_nat(rng, tier)
    items += gen_pred(rng, tier)
    out.rule = ("RBF and Matern nu in {1/2,3/2,5/2}: d in 1..3, n1, n2 in 1..4, lengthscale 10^k*U(0.5,2) for every "
                "k in -2..2 with inputs on a dyadic grid of the same magnitude, coincident rows across and inside "
                "x1/x2, calls K(x1,x2) and K(x1), no batch / kernel batch / kernel+input batch, Gaussian upstream G; "
                "fast path (default) and generic path (trace_mode), each against the model and against each other. "
                "log_normal_cdf: near-zero, ordinary, near-tail (-5.4,-1), far-tail (< -5.5) and branch boundaries. "
                "Natural / tril-natural distributions: n=1 and diagonal against the Coq model, full n<=5 (also "
                "batched) against autograd of a re-implementation. Prediction gradients vs central differences.")
    out.exhaustive = False
    out.extra["tolerances"] = dict(value_rtol=VAL_RTOL, value_atol_coincident_matern=VAL_ATOL_COINCIDENT,
                                   grad_fast=GRAD_TOL_FAST, grad_generic=GRAD_TOL_GENERIC, lncdf_rtol=LNCDF_RTOL,
                                   natural=NAT_TOL, finite_difference=FD_TOL)
    run_items(out, items)
    out.tested_not_proved = [
        "LogNormalCDF tail branch (z < -1) and that phi/Phi is the derivative of log Phi",
        "_NaturalToMuVarSqrt / _TrilNaturalToMuVarSqrt for non-diagonal covariances (Cholesky differential): compared "
        "with torch autograd through an independent re-implementation of eta -> (mu, chol)",
        "prediction gradients w.r.t. test inputs: compared with central differences of the implementation",
        "autograd's chain rule and the softplus constraint between raw_lengthscale and lengthscale",
        "CIQ natural-gradient terms (_NgdInterpTerms): not covered by this check"]


def replay(path):
    d = json.load(open(path))
    case = d["case"]["case"]
    out = C.Outcome("C19", "quick", 0)
    run_items(out, [case], record=False)
    print("case", json.dumps({k: v for k, v in case.items() if k != "G"})[:600])
    for f in out.failures:
        print("FAIL", f["key"], "|", f["what"])
        print("  impl ", C.jsonable(f.get("impl")))
        print("  model", C.jsonable(f.get("model")))
    print("FAILS" if out.failures else "agrees")
    return 1 if out.failures else 0
