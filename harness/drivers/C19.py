"""C19 — hand-written derivatives are the true derivatives.
(Every hand-written backward is additionally run repeatedly through one retained graph: repeated_backward, kernel_impl,
check_lncdf_vec; the diag=True code path and input gradients are part of the kernel cases.)
Tie C.  The Coq model (Models/C19_derivs.v) holds the forward functions and the hand-written backward formulas of
RBFCovariance, MaternCovariance, LogNormalCDF, _NaturalToMuVarSqrt (n = 1) and _NgdInterpTerms (n = 1), proved (Props/C19.v) to be the
derivatives of the forward functions.  On every run the model is executed on the `expr` carrier (vm_compute, terms
evaluated with mpmath) and compared with what torch.autograd.grad delivers through the PUBLIC calls:
  * kernel(x1, x2) on the fast path (RBFCovariance / MaternCovariance) and on the generic autograd path: values and
    d/d lengthscale of sum(G * K) for random upstream G, duplicates (r = 0), 4+ decades of lengthscales, batches;
  * gpytorch.functions.log_normal_cdf: value and gradient on the near-zero, ordinary and tail branches;
  * NaturalVariationalDistribution / TrilNaturalVariationalDistribution: gradients w.r.t. the natural parameters
    = gradient w.r.t. the expectation parameters (n = 1 and diagonal against the Coq model; general n against
    torch autograd through an independent re-implementation of eta -> (mu, chol));
  * CiqVariationalStrategy + NaturalVariationalDistribution (_NgdInterpTerms): one inducing value against the Coq
    model; general case (gradients to natural_vec / natural_mat / hyperparameters through weighted mean+variance+KL, KL
    alone, VariationalELBO) against torch autograd of a dense closed form in the expectation parameters;
  * ExactGP predictions: autograd gradient w.r.t. test inputs vs central differences;
  * INPUT gradients when x1 and x2 hold equal values but are different tensors with different requires_grad flags (x1 only,
    x2 only, both, neither) x hyperparameters trainable / frozen: gradient to each argument against the chain rule on the
    model's derivative (c19_*_input_gradient_chain) and central differences; exact-GP posterior gradients at test inputs
    that coincide with training inputs (frozen and trainable hyperparameters)."""
import json
import math
import random

import mpmath
import torch

import gpytorch
from gpytorch import settings as gs
from harness.drivers.C05 import fast_run_cases
from harness.lib import common as C

COQ_TARGETS = ["Models/C19_derivs.vo"]
LEVEL_NOTE = ("theorems are about the Gallina transcription of forward/backward formulas; the tie to /repo is "
              "differential (torch.autograd.grad through public calls vs mpmath evaluation of the model's terms)")
IMPORTS = ("From Coq Require Import List ZArith QArith Qcanon.\n"
           "From GPV Require Import Base.LinAlg Base.Exec Base.Expr Models.C05_kernels Models.C19_derivs.")
RUN_DEF = "Definition run c := pack (run_djob c)."
NOX2 = "([] : list (list Qc))"

torch.set_default_dtype(torch.float64)
mpmath.mp.dps = 30
K = gpytorch.kernels

VAL_RTOL = 1e-10
VAL_ATOL_COINCIDENT = 2e-6      # Matern on the generic path at r = 0: r = sqrt(rounding of r^2) (see C05 driver)
GRAD_TOL_FAST = 1e-8            # relative to S = sum |G_ij| / l, the natural scale of d/dl sum(G K)
GRAD_TOL_GENERIC = 1e-6
LNCDF_RTOL = 1e-6
NAT_TOL = 1e-8
FD_TOL = 2e-6

FAMS = {"rbf": None, "matern05": 1, "matern15": 3, "matern25": 5}


def qm(rows):
    return "[" + "; ".join(C.qc_vec(r) for r in rows) + "]"


# --------------------------------------------------------------------------- kernels

def gen_kernel_case(rng, fam, k):
    d = rng.randint(1, 3)
    n1 = rng.randint(1, 4)
    n2 = rng.randint(1, 4)
    dec = [-2, -1, 0, 1, 2][k % 5]                 # 4 decades of lengthscales, all visited
    batch = ["none", "kernel", "kernel+x"][(k // 5) % 3]
    # calls: K(x1, x2), K(x1), and the diag=True request K(x1, x2', diag=True) for x2' with as many rows as x1 (its own
    # code path: Kernel.covar_dist diag branch; also reached by kernel(x1, x2').diagonal())
    call = ["full", "sym", "diag"][(k // 15 + k) % 3] if k % 2 else rng.choice(["full", "sym", "diag"])
    if call == "diag":
        n1 = max(n1, 2) if rng.random() < 0.85 else n1
        n2 = n1
    nb = 1 if batch == "none" else 2
    ls = [10.0 ** dec * rng.uniform(0.5, 2.0) for _ in range(nb)]
    l0 = 2.0 ** round(math.log2(10.0 ** dec))      # inputs live on a dyadic grid of the lengthscale's magnitude
    pt = lambda: [l0 * rng.randint(-16, 16) / 8.0 for _ in range(d)]  # noqa: E731
    nxb = 2 if batch == "kernel+x" else 1
    x1 = [[pt() for _ in range(n1)] for _ in range(nxb)]
    x2 = [[pt() for _ in range(n2)] for _ in range(nxb)]
    for b in range(nxb):
        if call == "diag":
            # coincident PAIRS (same row index: r = 0 on the requested diagonal) inside otherwise different x1, x2
            if rng.random() < 0.75:
                for i in rng.sample(range(n1), rng.randint(1, max(1, n1 - 1))):
                    x2[b][i] = list(x1[b][i])
        elif rng.random() < 0.6:                   # coincident points across x1 / x2
            x2[b][rng.randrange(n2)] = list(x1[b][rng.randrange(n1)])
        if n1 > 1 and rng.random() < 0.4:          # duplicates inside x1 (matter for the symmetric call)
            x1[b][-1] = list(x1[b][0])
    cols = n1 if call == "sym" else n2
    G = [[[rng.gauss(0, 1) for _ in range(cols)] for _ in range(n1)] for _ in range(nb)]
    return dict(kind="kernel", fam=fam, d=d, dec=dec, batch=batch, ls=ls, x1=x1, x2=x2, call=call, G=G)


def build_kernel(case):
    nb = len(case["ls"])
    kw = {} if case["batch"] == "none" else {"batch_shape": torch.Size([nb])}
    if case["fam"] == "rbf":
        k = K.RBFKernel(**kw)
    else:
        k = K.MaternKernel(nu=FAMS[case["fam"]] / 2.0, **kw)
    k.lengthscale = torch.tensor(case["ls"]).reshape(*k.lengthscale.shape)
    return k


def kernel_coq_cases(case, kern):
    """one Coq case per batch element; the lengthscale is the value the module reports (exact)"""
    ls = kern.lengthscale.detach().reshape(-1).tolist()
    out = []
    for b, l in enumerate(ls):
        xb = b if len(case["x1"]) > 1 else 0
        xa = case["x1"][xb]
        xc = xa if case["call"] == "sym" else case["x2"][xb]
        job = "(DRBF %s)" % C.qc_lit(l) if case["fam"] == "rbf" else "(DMatern %d%%nat %s)" % (FAMS[case["fam"]],
                                                                                              C.qc_lit(l))
        out.append("(%s, %s, %s)" % (job, qm(xa), qm(xc)))
    return out


def second_cotangent(G):
    """a second upstream gradient for the SAME graph: other direction, other signs"""
    return 0.5 * G.flip(-1) - 0.25 * G + 0.125


def kernel_paths(case):
    """code paths through which the same covariance entries (and their gradients) are requested"""
    if case["call"] == "diag":
        # fast = diagonal of the full matrix (RBFCovariance / MaternCovariance), diag = the generic diag=True path,
        # lazy-diagonal = LazyEvaluatedKernelTensor.diagonal(), xgrad = diag=True with x1.requires_grad (input gradients)
        return ("fast", "diag", "lazy-diagonal", "xgrad")
    return ("fast", "generic", "xgrad")


def kernel_impl(case, kern, path):
    """-> dict(K, g / g2 / g_again = d/d lengthscale of sum(G K), sum(G2 K) and sum(G K) once more, all three through the
    SAME retained graph; gx / gx2 / gx_again = the same w.r.t. x1 on the xgrad path)"""
    x1 = torch.tensor(case["x1"])
    x2 = torch.tensor(case["x2"])
    if len(case["x1"]) == 1:
        x1, x2 = x1[0], x2[0]
    G = torch.tensor(case["G"])
    if case["batch"] == "none":
        G = G[0]
    if path == "xgrad":
        x1 = x1.clone().requires_grad_(True)
    cms = [gs.trace_mode(True)] if path == "generic" else []
    for c in cms:
        c.__enter__()
    try:
        if case["call"] == "diag":
            if path == "fast":
                Kd = kern(x1, x2).to_dense().diagonal(dim1=-1, dim2=-2)
            elif path == "lazy-diagonal":
                Kd = kern(x1, x2).diagonal()
            else:
                Kd = kern(x1, x2, diag=True)
            G = G.diagonal(dim1=-1, dim2=-2)
        else:
            Kd = (kern(x1, x2) if case["call"] == "full" else kern(x1)).to_dense()
        inputs = [kern.raw_lengthscale] + ([x1] if path == "xgrad" else [])
        G2 = second_cotangent(G)
        if Kd.requires_grad:
            r = [torch.autograd.grad(Kd, inputs, grad_outputs=Gk, retain_graph=True, allow_unused=True) for Gk in (G, G2, G)]
        else:                     # (a constant: e.g. the diag=True request with x1 == x2 as a whole)
            r = [[None] * len(inputs)] * 3
        r = [[torch.zeros_like(t) if g_ is None else g_ for g_, t in zip(rr, inputs)] for rr in r]
    finally:
        for c in reversed(cms):
            c.__exit__(None, None, None)
    (chain,) = torch.autograd.grad(kern.lengthscale.sum(), kern.raw_lengthscale)
    res = dict(K=Kd.detach(), G2=G2)
    for nm, rr in zip(("", "2", "_again"), r):
        res["g" + nm] = (rr[0] / chain).reshape(-1).tolist()
        if path == "xgrad":
            res["gx" + nm] = rr[1].detach()
    return res


def check_kernel(out, case, kern, results):
    nb = len(case["ls"])
    n1 = len(case["x1"][0])
    call = case["call"]
    diag = call == "diag"
    cols = n1 if call == "sym" else len(case["x2"][0])
    ls = kern.lengthscale.detach().reshape(-1).tolist()
    vals, dks = [], []
    for b in range(nb):
        rd = C.Reader(results[b])
        v = [[None] * cols for _ in range(n1)]
        dk = [[None] * cols for _ in range(n1)]
        for i in range(n1):
            for j in range(cols):
                v[i][j] = rd.expr()
                dk[i][j] = rd.expr()
        assert rd.done()
        vals.append(v)
        dks.append(dk)
    desc = dict(case=case)
    tag = "%s:%s:%s" % (case["fam"], call, case["batch"])
    entries = [(i, i) for i in range(n1)] if diag else [(i, j) for i in range(n1) for j in range(cols)]

    def pts(b):
        xb = b if len(case["x1"]) > 1 else 0
        xa = case["x1"][xb]
        return xa, (xa if call == "sym" else case["x2"][xb])
    G1 = [[[case["G"][b][i][j] for j in range(cols)] for i in range(n1)] for b in range(nb)]
    got = {}
    for path in kernel_paths(case):
        try:
            r = kernel_impl(case, kern, path)
        except Exception as e:
            out.fail("kernel:%s:%s:exception:%s" % (tag, path, type(e).__name__), "public kernel call / autograd raised %r"
                     % (e,), desc)
            continue
        got[path] = r
        shp = (nb, n1) if diag else (nb, n1, cols)
        if r["K"].numel() != math.prod(shp):
            out.fail("kernel:%s:%s:shape" % (tag, path), "kernel output has shape %s" % (list(r["K"].shape),), desc)
            continue
        Kb = r["K"].reshape(shp).tolist()
        G2t = r["G2"].reshape(shp).tolist()
        for b in range(nb):
            xa, xc = pts(b)
            bad = None
            for (i, j) in entries:
                kij = Kb[b][i] if diag else Kb[b][i][j]
                at = VAL_ATOL_COINCIDENT if (case["fam"] != "rbf" and xa[i] == xc[j]) else 1e-12
                if not C.close(kij, vals[b][i][j], at, VAL_RTOL):
                    bad = bad or (i, j, kij, float(vals[b][i][j]))
            if bad:
                out.fail("kernel:%s:%s:value" % (tag, path), "kernel value on the %s path differs from the forward "
                         "function at entry (%d,%d): impl %.12g model %.12g" % ((path,) + bad), desc)
            # lengthscale gradients for the two cotangents, and the first one once more (same retained graph)
            G2b = {(i, j): (G2t[b][i] if diag else G2t[b][i][j]) for (i, j) in entries}
            for nm, cot in (("", {e: G1[b][e[0]][e[1]] for e in entries}), ("2", G2b)):
                want = mpmath.fsum(mpmath.mpf(cot[e]) * dks[b][e[0]][e[1]] for e in entries)
                S = sum(abs(cot[e]) for e in entries) / ls[b]
                tol = (GRAD_TOL_FAST if path == "fast" else GRAD_TOL_GENERIC) * S
                g = r["g" + nm][b]
                if not (abs(g - float(want)) <= tol):          # (NaN / inf fail this comparison)
                    what = "is not finite" if not math.isfinite(g) else "differs from the derivative of the forward function"
                    out.fail("kernel:%s:%s:lengthscale-grad%s" % (tag, path, ":second-backward" if nm else ""),
                             "d/d lengthscale of sum(G*K) on the %s path (%s backward pass through the graph) %s: autograd %.12g, "
                             "model %.12g (lengthscale %.6g, scale %.3g)" % (path, "second" if nm else "first", what, g, float(want),
                                                                            ls[b], S), desc, impl=r["g" + nm], model=float(want))
            if not (r["g_again"][b] == r["g"][b]):
                out.fail("kernel:%s:%s:lengthscale-grad:repeated-backward" % (tag, path),
                         "backward with the same upstream gradient through the same graph gave %.17g the first and %.17g the "
                         "third time" % (r["g"][b], r["g_again"][b]), desc, impl=r["g_again"], model=r["g"])
        if path == "xgrad":
            check_input_grads(out, case, tag, r, dks, ls, entries, G1, G2t, pts, desc)
    ref = got.get("fast")
    for path, r in got.items():                        # every path against the fast path
        if path == "fast" or ref is None or r["K"].shape != ref["K"].shape:
            continue
        at = VAL_ATOL_COINCIDENT if case["fam"] != "rbf" else 1e-12
        if not torch.allclose(ref["K"], r["K"], rtol=1e-9, atol=at):
            out.fail("kernel:%s:fast-vs-%s:value" % (tag, path), "fast and %s paths return different values" % path, desc,
                     impl=ref["K"], model=r["K"])
        for b in range(nb):
            S = sum(abs(G1[b][i][j]) for (i, j) in entries) / ls[b]
            for nm in ("", "2"):
                if not abs(ref["g" + nm][b] - r["g" + nm][b]) <= GRAD_TOL_GENERIC * S:
                    out.fail("kernel:%s:fast-vs-%s:lengthscale-grad" % (tag, path), "fast path gradient %.12g, %s path "
                             "gradient %.12g" % (ref["g" + nm][b], path, r["g" + nm][b]), desc)
    flat = [float(dks[b][i][j]) for b in range(nb) for (i, j) in entries]
    return any(abs(v) > 1e-12 for v in flat)


def check_input_grads(out, case, tag, r, dks, ls, entries, G1, G2t, pts, desc):
    """gradient of sum(G*K) with respect to x1 (generic path: x1.requires_grad) against the chain rule applied to the
    model's d k / d lengthscale:  k depends on (x, y, l) through s = |x - y|^2 / l^2 only, ds/dl = -2 s / l,
    ds/dx_m = 2 (x_m - y_m) / l^2, hence  dk/dx_m = -(dk/dl) l (x_m - y_m) / |x - y|^2  (0 at x = y for the kernels that are
    differentiable there; Matern-1/2 has a kink at x = y: only finiteness is required of rows with a coincident partner)"""
    nb = len(ls)
    call = case["call"]
    diag = call == "diag"
    d = case["d"]
    n1 = len(case["x1"][0])
    for nm in ("", "2", "_again"):
        gx = r["gx" + nm]
        if not torch.isfinite(gx).all():
            out.fail("kernel:%s:xgrad:input-grad:non-finite" % tag, "gradient of sum(G*K) w.r.t. x1 contains NaN / inf (%s backward "
                     "pass)" % {"": "first", "2": "second", "_again": "third"}[nm], desc, impl=gx)
            return
    if not torch.equal(r["gx"], r["gx_again"]):
        out.fail("kernel:%s:xgrad:input-grad:repeated-backward" % tag, "backward with the same upstream gradient through the same "
                 "graph gave different input gradients the first and the third time", desc, impl=r["gx_again"], model=r["gx"])
    xb_n = len(case["x1"])
    for nm in ("", "2"):
        gx = r["gx" + nm].reshape(xb_n, n1, d)
        want = [[[mpmath.mpf(0)] * d for _ in range(n1)] for _ in range(xb_n)]
        scale = [[0.0] * n1 for _ in range(xb_n)]
        kink = [[False] * n1 for _ in range(xb_n)]
        for b in range(nb):
            xb = b if xb_n > 1 else 0
            xa, xc = pts(b)
            for (i, j) in entries:
                if nm == "":
                    cot = G1[b][i][j] + (G1[b][j][i] if call == "sym" else 0.0)
                else:
                    g2 = (lambda a_, b_: G2t[b][a_] if diag else G2t[b][a_][b_])
                    cot = g2(i, j) + (g2(j, i) if call == "sym" else 0.0)
                D2 = sum((mpmath.mpf(xa[i][m]) - mpmath.mpf(xc[j][m])) ** 2 for m in range(d))
                scale[xb][i] += abs(cot) / ls[b]
                if D2 == 0:
                    kink[xb][i] = kink[xb][i] or case["fam"] == "matern05"
                    continue
                for m in range(d):
                    want[xb][i][m] += -cot * dks[b][i][j] * ls[b] * (mpmath.mpf(xa[i][m]) - mpmath.mpf(xc[j][m])) / D2
        for xb in range(xb_n):
            for i in range(n1):
                if kink[xb][i]:
                    continue
                for m in range(d):
                    gv = gx[xb, i, m].item()
                    if not abs(gv - float(want[xb][i][m])) <= GRAD_TOL_GENERIC * max(scale[xb][i], 1e-300):
                        out.fail("kernel:%s:xgrad:input-grad%s" % (tag, ":second-backward" if nm else ""),
                                 "d/dx1[%d][%d] of sum(G*K): autograd %.12g, chain rule on the model's derivative %.12g"
                                 % (i, m, gv, float(want[xb][i][m])), desc, impl=gx, model=[[[float(v) for v in row] for row in bb] for bb in want])
                        return


# --------------------------------------------------------------------------- equal values, different requires_grad flags
# k(x1, x2) where x1 and x2 are DIFFERENT tensors that hold (partly) equal VALUES - test inputs coinciding with training inputs -
# and every combination of requires_grad flags: x1 only, x2 only, both, neither, each with the hyperparameters trainable and
# frozen.  The gradient delivered to each input must be the derivative with respect to THAT argument (the other one held fixed):
# reference = chain rule on the Coq model's d k / d lengthscale per pair (c19_*_input_gradient_chain), and central differences
# of the implementation's own forward values.

FLAG_VARIANTS = ["equal", "equal", "one-row-differs", "permuted", "subset"]


def gen_flag_cases(rng, tier):
    cases = []
    reps = 1 if tier == "quick" else 4
    k = 0
    for _ in range(reps):
        for fam in FAMS:
            for flags in ((1, 0), (0, 1), (1, 1), (0, 0)):
                for hyper in (False, True):
                    for variant in FLAG_VARIANTS:
                        k += 1
                        d = rng.randint(1, 3)
                        n = rng.randint(2, 4)
                        dec = [-1, 0, 1][k % 3]
                        l0 = 2.0 ** round(math.log2(10.0 ** dec))
                        ls = [10.0 ** dec * rng.uniform(0.5, 2.0)]
                        x1 = []
                        while len(x1) < n:                  # distinct rows
                            p = [l0 * rng.randint(-16, 16) / 8.0 for _ in range(d)]
                            if p not in x1:
                                x1.append(p)
                        x2 = [list(r) for r in x1]
                        if variant == "one-row-differs":
                            x2[rng.randrange(n)][rng.randrange(d)] += l0 * rng.choice([-1, 1]) * rng.randint(1, 8) / 8.0
                        elif variant == "permuted":
                            x2 = x2[1:] + x2[:1]
                        elif variant == "subset":
                            x2 = x2[:max(1, n - 1)]
                        call = "diag" if (variant in ("equal", "one-row-differs") and k % 4 == 0) else "full"
                        G = [[rng.gauss(0, 1) for _ in range(len(x2))] for _ in range(n)]
                        cases.append(dict(kind="kernel-flags", fam=fam, d=d, dec=dec, ls=ls, batch="none", x1=[x1], x2=[x2], call=call,
                                          variant=variant, flags=list(flags), hyper=hyper, G=[G]))
    return cases


def check_kernel_flags(out, case, kern, results):
    fam, call, variant = case["fam"], case["call"], case["variant"]
    gx1, gx2 = case["flags"]
    hyper = case["hyper"]
    diag = call == "diag"
    xa, xc = case["x1"][0], case["x2"][0]
    n1, n2, d = len(xa), len(xc), case["d"]
    l = kern.lengthscale.detach().reshape(-1).tolist()[0]
    rd = C.Reader(results[0])
    val = [[None] * n2 for _ in range(n1)]
    dk = [[None] * n2 for _ in range(n1)]
    for i in range(n1):
        for j in range(n2):
            val[i][j] = rd.expr()
            dk[i][j] = rd.expr()
    assert rd.done()
    entries = [(i, i) for i in range(n1)] if diag else [(i, j) for i in range(n1) for j in range(n2)]
    desc = dict(case=case)
    tag = "%s:%s:%s:x1grad=%d:x2grad=%d:hyper=%s" % (fam, call, variant, gx1, gx2, "trainable" if hyper else "frozen")
    G = torch.tensor(case["G"][0])
    mask = torch.ones_like(G)
    if fam == "matern05":                      # kink at coincident pairs: they get no weight (the other pairs are compared exactly)
        for i in range(n1):
            for j in range(n2):
                if xa[i] == xc[j]:
                    mask[i, j] = 0.0
    G = G * mask
    G2 = second_cotangent(G) * mask

    def call_kernel(x1, x2):
        return kern(x1, x2, diag=True) if diag else kern(x1, x2).to_dense()

    def cotv(Gk):
        return Gk.diagonal(dim1=-1, dim2=-2) if diag else Gk
    x1 = torch.tensor(xa)
    x2 = torch.tensor(xc)                       # a different tensor, equal values for variant "equal"
    x1.requires_grad_(bool(gx1))
    x2.requires_grad_(bool(gx2))
    kern.raw_lengthscale.requires_grad_(bool(hyper))
    try:
        try:
            Kd = call_kernel(x1, x2)
            inputs = ([x1] if gx1 else []) + ([x2] if gx2 else []) + ([kern.raw_lengthscale] if hyper else [])
            names = (["x1"] if gx1 else []) + (["x2"] if gx2 else []) + (["l"] if hyper else [])
            if inputs and Kd.requires_grad:
                r = [torch.autograd.grad(Kd, inputs, grad_outputs=cotv(Gk), retain_graph=True, allow_unused=True) for Gk in (G, G2, G)]
                r = [[torch.zeros_like(t) if g_ is None else g_ for g_, t in zip(rr, inputs)] for rr in r]
            else:
                if inputs and not (diag and variant == "equal"):
                    out.fail("kernel-flags:%s:not-differentiable" % tag, "the kernel output does not require grad although %s do"
                             % "/".join(names), desc)
                    return True
                r = [[torch.zeros_like(t) for t in inputs]] * 3
            chain = None
            if hyper:
                (chain,) = torch.autograd.grad(kern.lengthscale.sum(), kern.raw_lengthscale)
            Kv = Kd.detach()
            # central differences of the forward values (no graph), cotangent G
            fd = {}
            with torch.no_grad():
                h = 1e-4 * l
                for nm, base in (("x1", x1.detach()), ("x2", x2.detach())):
                    if nm not in names:
                        continue
                    g = torch.zeros_like(base)
                    for i in range(base.shape[0]):
                        for m in range(d):
                            e = torch.zeros_like(base)
                            e[i, m] = h
                            a = (base + e, x2.detach()) if nm == "x1" else (x1.detach(), base + e)
                            b = (base - e, x2.detach()) if nm == "x1" else (x1.detach(), base - e)
                            g[i, m] = ((call_kernel(*a) - call_kernel(*b)) * cotv(G)).sum() / (2 * h)
                    fd[nm] = g
        except Exception as e:
            out.fail("kernel-flags:%s:exception:%s" % (tag, type(e).__name__), "public kernel call / autograd raised %r" % (e,), desc)
            return True
    finally:
        kern.raw_lengthscale.requires_grad_(True)
    shp = (n1,) if diag else (n1, n2)
    if tuple(Kv.shape) != shp:
        out.fail("kernel-flags:%s:shape" % tag, "kernel output has shape %s" % (list(Kv.shape),), desc)
        return True
    for (i, j) in entries:
        kij = (Kv[i] if diag else Kv[i, j]).item()
        at = VAL_ATOL_COINCIDENT if (fam != "rbf" and xa[i] == xc[j]) else 1e-12
        if not C.close(kij, val[i][j], at, VAL_RTOL):
            out.fail("kernel-flags:%s:value" % tag, "kernel value differs from the forward function at entry (%d,%d): impl %.12g model %.12g"
                     % (i, j, kij, float(val[i][j])), desc)
            break
    if not inputs:
        return True
    for t0, t2, nm in zip(r[0], r[2], names):
        if not torch.equal(t0, t2):
            out.fail("kernel-flags:%s:%s-grad:repeated-backward" % (tag, nm), "backward with the same upstream gradient through the same graph "
                     "gave different gradients the first and the third time", desc, impl=t2, model=t0)
    for which, Gk, rr in (("", G, r[0]), (":second-backward", G2, r[1])):
        cot = Gk.tolist()
        want = {"x1": [[mpmath.mpf(0)] * d for _ in range(n1)], "x2": [[mpmath.mpf(0)] * d for _ in range(n2)]}
        scale = {"x1": [0.0] * n1, "x2": [0.0] * n2}
        wl = mpmath.mpf(0)
        for (i, j) in entries:
            c = cot[i][j]
            wl += mpmath.mpf(c) * dk[i][j]
            scale["x1"][i] += abs(c) / l
            scale["x2"][j] += abs(c) / l
            D2 = sum((mpmath.mpf(xa[i][m]) - mpmath.mpf(xc[j][m])) ** 2 for m in range(d))
            if D2 == 0:
                continue                         # derivative 0 at coincident pairs (Matern-1/2: weight 0)
            for m in range(d):
                t = -c * dk[i][j] * l * (mpmath.mpf(xa[i][m]) - mpmath.mpf(xc[j][m])) / D2
                want["x1"][i][m] += t
                want["x2"][j][m] -= t
        for g, nm in zip(rr, names):
            if not torch.isfinite(g).all():
                out.fail("kernel-flags:%s:%s-grad:non-finite" % (tag, nm), "gradient of sum(G*K) w.r.t. %s contains NaN / inf" % nm, desc, impl=g)
                continue
            if nm == "l":
                gv = (g / chain).reshape(-1).tolist()[0]
                S = sum(abs(cot[i][j]) for (i, j) in entries) / l
                if not abs(gv - float(wl)) <= GRAD_TOL_GENERIC * max(S, 1e-300):
                    out.fail("kernel-flags:%s:lengthscale-grad%s" % (tag, which), "d/d lengthscale of sum(G*K): autograd %.12g, model %.12g"
                             % (gv, float(wl)), desc, impl=gv, model=float(wl))
                continue
            W = want[nm]
            bad = None
            for i in range(len(W)):
                for m in range(d):
                    if not abs(g[i, m].item() - float(W[i][m])) <= GRAD_TOL_GENERIC * max(scale[nm][i], 1e-6 * max(scale[nm]), 1e-300):
                        bad = bad or (i, m, g[i, m].item(), float(W[i][m]))
            if bad:
                out.fail("kernel-flags:%s:%s-grad%s" % (tag, nm, which),
                         "d/d%s[%d][%d] of sum(G*K(x1,x2)) (the other argument held fixed): autograd %.12g, chain rule on the model's "
                         "derivative %.12g" % ((nm,) + bad), desc, impl=g, model=[[float(v) for v in row] for row in W])
            if which == "" and nm in fd:
                # (rows whose pairs all carry weight 0 have scale 0: rounding noise of the differences is measured against the largest row)
                sc = torch.tensor(scale[nm]).clamp_min(1e-4 * max(scale[nm]) + 1e-300).unsqueeze(-1)
                if not bool(((g - fd[nm]).abs() <= 2e-5 * sc).all()):
                    out.fail("kernel-flags:%s:%s-grad:central-differences" % (tag, nm),
                             "gradient of sum(G*K) w.r.t. %s differs from central differences of the forward values (max %.3g)"
                             % (nm, (g - fd[nm]).abs().max().item()), desc, impl=g, model=fd[nm])
    return True


# --------------------------------------------------------------------------- log normal cdf

def gen_lncdf(rng, tier):
    k = 6 if tier == "quick" else 40
    zs = []
    zs += [rng.uniform(-0.199, 0.199) for _ in range(k)] + [0.0]                  # near zero (series branch)
    zs += [rng.uniform(0.21, 6.0) for _ in range(k)] + [rng.uniform(-0.99, -0.21) for _ in range(k)]   # ordinary
    zs += [rng.uniform(-4.99, -1.001) for _ in range(k)]                          # ordinary branch, far negative side
    zs += [rng.uniform(-5.5, -5.001) for _ in range(k)]                           # tail branch, close to its start
    zs += [rng.uniform(-30.0, -5.5) for _ in range(k)]                            # tail branch, far out
    zs += [-1.0, 0.2, -0.2, -1.0000001, -5.0, -5.0000001, -4.9999999]             # branch boundaries
    # upstream cotangent: random magnitude, both signs on every branch (alternating along each block)
    cases = [dict(kind="lncdf", z=float(z), up=(-1.0) ** i * rng.uniform(0.3, 3.0)) for i, z in enumerate(zs)]
    # vector-Jacobian products: one call on a matrix of inputs that mixes all branches, with a random-sign,
    # non-constant cotangent of the same shape
    for _ in range(3 if tier == "quick" else 20):
        r, c = rng.choice([(1, 8), (2, 5), (3, 4)])
        pool = [lambda: rng.uniform(-0.199, 0.199), lambda: rng.uniform(0.21, 6.0), lambda: rng.uniform(-0.99, -0.21),
                lambda: rng.uniform(-4.99, -1.001), lambda: rng.uniform(-7.0, -5.01), lambda: rng.uniform(-30.0, -7.0)]
        z = [[pool[(i * c + j) % len(pool)]() for j in range(c)] for i in range(r)]
        G = [[rng.choice([-1.0, 1.0]) * rng.uniform(0.3, 3.0) for _ in range(c)] for _ in range(r)]
        cases.append(dict(kind="lncdf-vec", z=z, up=G))
    return cases


def lncdf_branch(z):
    if z * z < 0.04:
        return "near-zero"
    if z < -5.5:
        return "far-tail"
    if z < -5:
        return "tail-start"             # LogNormalCDF switches to the asymptotic (tail) branch at z < -5
    if z < -1:
        return "ordinary-negative"
    return "ordinary"


def check_lncdf_vec(out, case, results):
    """vector-Jacobian products of ONE call on a matrix of inputs (all branches mixed): three backward passes through the
    same retained graph (cotangent G, a second cotangent G2, G again) and torch.autograd.functional.jacobian.  Entry (i,j)
    of every delivered gradient = cotangent_ij * d/dz log Phi(z_ij) (Coq model term per entry); the Jacobian is diagonal."""
    z = torch.tensor(case["z"], requires_grad=True)
    G = torch.tensor(case["up"])
    G2 = second_cotangent(G)
    v = gpytorch.functions.log_normal_cdf(z)
    passes = [("first", G, torch.autograd.grad(v, z, grad_outputs=G, retain_graph=True)[0]),
              ("second", G2, torch.autograd.grad(v, z, grad_outputs=G2, retain_graph=True)[0]),
              ("third", G, torch.autograd.grad(v, z, grad_outputs=G, retain_graph=True)[0])]
    zf = torch.tensor(case["z"]).reshape(-1)
    J = torch.autograd.functional.jacobian(gpytorch.functions.log_normal_cdf, zf)
    k = 0
    ncol = len(case["z"][0])
    for i, row in enumerate(case["z"]):
        for j, zz in enumerate(row):
            rd = C.Reader(results[k])
            k += 1
            val, der = rd.expr(), rd.expr()
            if not C.close(v[i, j].item(), val, 0.0, LNCDF_RTOL):
                out.fail("lncdf:vec:value:%s" % lncdf_branch(zz), "log_normal_cdf entry (%d,%d) at z=%.9g: %.12g, log Phi %.12g"
                         % (i, j, zz, v[i, j].item(), float(val)), dict(case=case), impl=v[i, j].item(), model=float(val))
            for which, cot, g in passes:
                want = cot[i, j].item() * float(der)
                sign = "neg" if cot[i, j].item() < 0 else "pos"
                if not C.close(g[i, j].item(), want, 0.0, LNCDF_RTOL):
                    out.fail("lncdf:vjp:%s:%s-cotangent%s" % (lncdf_branch(zz), sign, "" if which == "first" else ":%s-backward" % which),
                             "vector-Jacobian product of log_normal_cdf (%s backward pass through the same graph), entry (%d,%d) at "
                             "z=%.9g with upstream gradient %.6g: delivered %.12g, G * phi/Phi %.12g"
                             % (which, i, j, zz, cot[i, j].item(), g[i, j].item(), want), dict(case=case), impl=g[i, j].item(), model=want)
            f = i * ncol + j
            if not C.close(J[f, f].item(), der, 0.0, LNCDF_RTOL):
                out.fail("lncdf:jacobian:%s" % lncdf_branch(zz), "torch.autograd.functional.jacobian of log_normal_cdf, diagonal entry "
                         "%d at z=%.9g: %.12g, phi/Phi %.12g" % (f, zz, J[f, f].item(), float(der)), dict(case=case),
                         impl=J[f, f].item(), model=float(der))
    off = J - torch.diag(J.diagonal())
    if not (off.abs().max().item() == 0.0):
        out.fail("lncdf:jacobian:off-diagonal", "Jacobian of the elementwise log_normal_cdf has non-zero / non-finite off-diagonal entries",
                 dict(case=case), impl=off)
    if not torch.equal(passes[0][2], passes[2][2]):
        out.fail("lncdf:vjp:repeated-backward", "the same upstream gradient through the same graph gave different results the first "
                 "and the third time", dict(case=case), impl=passes[2][2], model=passes[0][2])
    return True


def check_lncdf(out, case, res):
    rd = C.Reader(res)
    val, der = rd.expr(), rd.expr()
    z = torch.tensor([case["z"]], requires_grad=True)
    up = case.get("up", 1.7)
    v = gpytorch.functions.log_normal_cdf(z)
    (g,) = torch.autograd.grad((up * v).sum(), z, retain_graph=True)
    br = lncdf_branch(case["z"])
    for which, u2 in (("second", -0.5 * up), ("third", up)):      # further backward passes through the same graph
        (gk,) = torch.autograd.grad(v, z, grad_outputs=torch.tensor([u2]), retain_graph=True)
        if not C.close(gk.item() / u2, der, 0.0, LNCDF_RTOL):
            out.fail("lncdf:grad:%s:%s-backward" % (br, which),
                     "d/dz log_normal_cdf at z=%.9g on the %s backward pass through the same graph (upstream gradient %.4g): "
                     "autograd/upstream %.12g, phi/Phi %.12g" % (case["z"], which, u2, gk.item() / u2, float(der)),
                     dict(case=case), impl=gk.item() / u2, model=float(der))
    if not C.close(g.item() / up, der, 0.0, LNCDF_RTOL):
        out.fail("lncdf:grad:%s:%s-cotangent" % (br, "neg" if up < 0 else "pos"),
                 "d/dz log_normal_cdf at z=%.9g (upstream gradient %.4g): autograd/upstream %.12g, phi/Phi %.12g (rel %.2e)"
                 % (case["z"], up, g.item() / up, float(der), abs(g.item() / up - float(der)) / abs(float(der))),
                 dict(case=case), impl=g.item() / up, model=float(der))
    h = 1e-6 * max(1.0, abs(case["z"]))
    fd = (gpytorch.functions.log_normal_cdf(torch.tensor([case["z"] + h]))
          - gpytorch.functions.log_normal_cdf(torch.tensor([case["z"] - h]))).item() / (2 * h)
    same_branch = lncdf_branch(case["z"] + h) == br == lncdf_branch(case["z"] - h)
    if same_branch and not C.close(g.item() / up, fd, 1e-7, 1e-5):
        out.fail("lncdf:grad-vs-fd-of-forward:%s" % br, "backward %.10g is not the derivative of the forward actually "
                 "computed (central difference %.10g) at z=%.9g" % (g.item() / up, fd, case["z"]), dict(case=case),
                 impl=g.item() / up, model=fd)
    return True


# --------------------------------------------------------------------------- repeated backward passes
def repeated_backward(out, key, desc, make, tol=1e-12):
    """A hand-written backward must be a pure function of the saved forward state and the upstream gradient.  make() builds a
    FRESH graph and returns (outputs, inputs).  On one retained graph: backward with cotangents A, B, A; on a second, fresh
    graph: B first.  Required: third pass == first pass (bitwise), second pass == first pass of the fresh graph with the same
    cotangent (relative `tol`), everything finite."""
    outs, ins = make()
    gen = torch.Generator().manual_seed(12345)
    A = [torch.randn(o.shape, generator=gen) for o in outs]
    B = [second_cotangent(a) if a.dim() else 0.5 - a for a in A]

    def bw(outs_, ins_, cot):
        gs_ = torch.autograd.grad(outs_, ins_, grad_outputs=cot, retain_graph=True, allow_unused=True)
        return [torch.zeros_like(t) if g_ is None else g_.detach().clone() for g_, t in zip(gs_, ins_)]
    g1, g2, g3 = bw(outs, ins, A), bw(outs, ins, B), bw(outs, ins, A)
    outs_f, ins_f = make()
    h2 = bw(outs_f, ins_f, B)
    ok = True
    for k, (a, b, c, h) in enumerate(zip(g1, g2, g3, h2)):
        if not all(torch.isfinite(t).all() for t in (a, b, c)):
            ok = False
            out.fail(key + ":repeated-backward:non-finite", "a gradient delivered on repeated backward passes contains NaN / inf (input %d)" % k,
                     desc, impl=[a, b, c])
            continue
        if not torch.equal(a, c):
            ok = False
            out.fail(key + ":repeated-backward:same-cotangent", "backward with the same upstream gradient through the same retained "
                     "graph gave different results the first and the third time (input %d, max abs diff %.3g)"
                     % (k, (a - c).abs().max().item()), desc, impl=c, model=a)
        sc = 1.0 + h.abs().max().item()
        if not torch.allclose(b, h, rtol=0, atol=tol * sc):
            ok = False
            out.fail(key + ":repeated-backward:second-pass", "the second backward pass through a retained graph differs from the first "
                     "backward pass of a fresh graph with the same upstream gradient (input %d, max abs diff %.3g)"
                     % (k, (b - h).abs().max().item()), desc, impl=b, model=h)
    return ok


# --------------------------------------------------------------------------- natural parameterisations

def gen_nat(rng, tier):
    cases = []
    reps = 12 if tier == "quick" else 80
    for k in range(reps):
        n = 1 if k % 3 == 0 else rng.randint(2, 3)
        th1 = [rng.randint(-24, 24) / 8.0 for _ in range(n)]
        th2 = [-rng.randint(1, 40) / 16.0 for _ in range(n)]
        gmu = [rng.randint(-16, 16) / 8.0 for _ in range(n)]
        gS = [rng.randint(-16, 16) / 8.0 for _ in range(n)]
        cases.append(dict(kind="nat-diag", n=n, th1=th1, th2=th2, gmu=gmu, gS=gS, cls=["natural", "tril"][k % 2]))
    for k in range(reps):
        n = rng.randint(2, 5)
        cases.append(dict(kind="nat-full", n=n, seed=rng.randrange(10 ** 6), cls=["natural", "tril"][k % 2],
                          batch=(k % 4 == 3)))
    return cases


def nat_coq_cases(case):
    return ["(DNat1 %s %s, [[%s; %s]], %s)" % (C.qc_lit(case["gmu"][i]), C.qc_lit(case["gS"][i]),
                                               C.qc_lit(case["th1"][i]), C.qc_lit(case["th2"][i]), NOX2)
            for i in range(case["n"])]


def make_vd(cls, n, nat_vec, nat_mat, batch_shape=torch.Size([])):
    """variational distribution object whose natural parameters are (nat_vec, nat_mat) (nat_mat = -1/2 precision)"""
    if cls == "natural":
        vd = gpytorch.variational.NaturalVariationalDistribution(n, batch_shape=batch_shape)
        vd.natural_vec.data.copy_(nat_vec)
        vd.natural_mat.data.copy_(nat_mat)
        return vd, vd.natural_mat
    vd = gpytorch.variational.TrilNaturalVariationalDistribution(n, batch_shape=batch_shape)
    vd.natural_vec.data.copy_(nat_vec)
    vd.natural_tril_mat.data.copy_(tril_of(nat_mat))
    return vd, vd.natural_tril_mat


def tril_of(nat_mat):
    """the tril parameter C with L = C^-1, L L^T = Sigma = (-2 nat_mat)^-1"""
    Sigma = torch.linalg.inv(-2.0 * nat_mat)
    L = torch.linalg.cholesky(Sigma)
    return torch.linalg.inv(L)


def phi_tril(A):
    A = torch.tril(A).clone()
    A.diagonal(dim1=-2, dim2=-1).mul_(0.5)
    return A


def check_nat_diag(out, case, results):
    n = case["n"]
    vd, matpar = make_vd(case["cls"], n, torch.tensor(case["th1"]), torch.diag(torch.tensor(case["th2"])))
    dist = vd()
    cov = dist.covariance_matrix
    loss = (torch.tensor(case["gmu"]) * dist.mean).sum() + (torch.tensor(case["gS"]) * cov.diagonal()).sum()
    loss.backward()
    key = "natural:%s:%s" % (case["cls"], "n=1" if n == 1 else "diagonal")
    ok = True
    for i in range(n):
        rd = C.Reader(results[i])
        mu, L, de1, de2 = rd.expr(), rd.expr(), rd.expr(), rd.expr()
        obs = [("mean", dist.mean[i].item(), mu), ("chol", math.sqrt(cov[i, i].item()), L),
               ("d/d eta1", vd.natural_vec.grad[i].item(), de1)]
        if case["cls"] == "natural":
            obs.append(("d/d eta2", matpar.grad[i, i].item(), de2))
        else:
            # documented transformation of the tril parameterisation: phi(-2 L^T deta2 L) C, diagonal case
            Lf = float(L)
            obs.append(("d/d tril", matpar.grad[i, i].item(), -float(de2) * Lf))
        for nm, a, b in obs:
            if not C.close(a, b, NAT_TOL, NAT_TOL):
                ok = False
                out.fail("%s:%s" % (key, nm), "%s of coordinate %d: implementation %.12g, model %.12g" % (nm, i, a,
                                                                                                         float(b)),
                         dict(case=case), impl=a, model=float(b))
    if case["cls"] == "natural":
        off = matpar.grad - torch.diag(matpar.grad.diagonal())
        if off.abs().max().item() > NAT_TOL:
            out.fail(key + ":offdiag", "off-diagonal natural gradient should vanish for a diagonal problem",
                     dict(case=case), impl=matpar.grad)

    def make():
        vd_, mp_ = make_vd(case["cls"], n, torch.tensor(case["th1"]), torch.diag(torch.tensor(case["th2"])))
        d_ = vd_()
        return [d_.mean, d_.lazy_covariance_matrix.cholesky().to_dense()], [vd_.natural_vec, mp_]
    ok = repeated_backward(out, key, dict(case=case), make) and ok
    return ok


def check_nat_full(out, case):
    n = case["n"]
    gen = torch.Generator().manual_seed(case["seed"])
    bs = torch.Size([2]) if case["batch"] else torch.Size([])
    A = torch.randn(*bs, n, n, generator=gen)
    P = A @ A.transpose(-1, -2) + n * torch.eye(n)
    th1 = torch.randn(*bs, n, generator=gen)
    gmu = torch.randn(*bs, n, generator=gen)
    GL = torch.tril(torch.randn(*bs, n, n, generator=gen))
    vd, matpar = make_vd(case["cls"], n, th1, -0.5 * P, batch_shape=bs)
    dist = vd()
    L = dist.lazy_covariance_matrix.cholesky().to_dense()
    ((gmu * dist.mean).sum() + (GL * L).sum()).backward()
    # independent re-implementation: expectation parameters -> (mu, chol), differentiated by torch
    e1 = dist.mean.detach().clone().requires_grad_(True)
    e2 = (dist.covariance_matrix.detach() + e1.detach().unsqueeze(-1) * e1.detach().unsqueeze(-2)).requires_grad_(True)
    Lr = torch.linalg.cholesky(e2 - e1.unsqueeze(-1) * e1.unsqueeze(-2))
    r1, r2 = torch.autograd.grad((gmu * e1).sum() + (GL * Lr).sum(), (e1, e2))
    r2 = 0.5 * (r2 + r2.transpose(-1, -2))
    key = "natural:%s:full%s" % (case["cls"], ":batch" if case["batch"] else "")
    scale = 1.0 + r1.abs().max().item() + r2.abs().max().item()
    ok = True
    if not torch.allclose(vd.natural_vec.grad, r1, rtol=0, atol=NAT_TOL * scale):
        ok = False
        out.fail(key + ":d/d eta1", "gradient delivered for natural_vec differs from d out/d eta1 (autograd through "
                 "eta -> (mu, chol)), n=%d" % n, dict(case=case), impl=vd.natural_vec.grad, model=r1)
    want = r2 if case["cls"] == "natural" else phi_tril(-2.0 * L.detach().transpose(-1, -2) @ r2 @ L.detach()) \
        @ tril_of(-0.5 * P)
    if not torch.allclose(matpar.grad, want, rtol=0, atol=NAT_TOL * scale * (1 + want.abs().max().item())):
        ok = False
        out.fail(key + ":d/d eta2", "gradient delivered for the matrix parameter differs from d out/d eta2 "
                 "(autograd through eta -> (mu, chol)), n=%d" % n, dict(case=case), impl=matpar.grad, model=want)

    def make():
        vd_, mp_ = make_vd(case["cls"], n, th1, -0.5 * P, batch_shape=bs)
        d_ = vd_()
        return [d_.mean, d_.lazy_covariance_matrix.cholesky().to_dense()], [vd_.natural_vec, mp_]
    ok = repeated_backward(out, key, dict(case=case), make) and ok
    return ok


# --------------------------------------------------------------------------- CIQ natural-gradient terms

CIQ_JITTER = 1e-6
CIQ_NODES = 120
CIQ_MAX_COND = 1e3      # K_ZZ + jitter I.  Measured on the unchanged tree (2000 generated cases): quadrature error of
# K_ZZ^{-1/2} K_ZX up to 2e-4 with 40 nodes, <= 2e-10 with 120 nodes; what remains is the CG solve with the precision inside
# _NgdInterpTerms.forward (linear_cg runs at most M iterations): solves off by up to 7e-6, gradients by up to 4e-6
CIQ_TOL = 1e-4          # relative to 1 + max |reference| (DESIGN: CIQ at tight settings 1e-4); 25x the measured worst case


class _CiqGP(gpytorch.models.ApproximateGP):
    def __init__(self, Z, bs, kern):
        vd = gpytorch.variational.NaturalVariationalDistribution(Z.size(-2), batch_shape=bs)
        vs = gpytorch.variational.CiqVariationalStrategy(self, Z, vd, learn_inducing_locations=True, jitter_val=CIQ_JITTER)
        super().__init__(vs)
        self.mean_module = gpytorch.means.ConstantMean(batch_shape=bs)
        base = K.RBFKernel(batch_shape=bs) if kern == "rbf" else K.MaternKernel(nu=FAMS[kern] / 2.0, batch_shape=bs)
        self.covar_module = K.ScaleKernel(base, batch_shape=bs)

    def forward(self, x):
        return gpytorch.distributions.MultivariateNormal(self.mean_module(x), self.covar_module(x))


def ciq_tight():
    return [gs.cg_tolerance(1e-10), gs.eval_cg_tolerance(1e-10), gs.minres_tolerance(1e-10), gs.num_contour_quadrature(CIQ_NODES),
            gs.max_cg_iterations(2000), gs.ciq_samples(False)]


def gen_ciq(rng, tier):
    forms, states, kerns = ("vjp", "kl", "elbo"), ("generic", "diag", "init"), ("rbf", "matern15", "matern25")
    reps = 36 if tier == "quick" else 216
    return [dict(kind="ciq-ngd", form=forms[k % 3], state=states[(k // 3) % 3], batch=(k // 9) % 2 == 1, kern=kerns[(k // 18) % 3],
                 M=rng.randint(2, 5), N=rng.randint(2, 6), D=rng.randint(1, 2), seed=rng.randrange(10 ** 6)) for k in range(reps)]


def gen_ciq1(rng, tier):
    """one inducing value, one data point: the case the Coq model (ciq1_*) covers; dyadic inputs, upstream gradients of
    both signs"""
    q = lambda lo, hi: rng.randint(lo, hi) / 8.0      # noqa: E731
    nz = lambda: rng.choice([-1, 1]) * rng.randint(1, 24) / 8.0      # noqa: E731
    return [dict(kind="ciq-ngd-1", k=nz(), th1=q(-24, 24), th2=-rng.randint(1, 40) / 16.0, gm=nz(), gv=nz(), gk=nz())
            for _ in range(12 if tier == "quick" else 80)]


def check_ciq1(out, case, res):
    """_NgdInterpTerms applied to a 1 x 1 interpolation term: outputs and the three returned gradients against the Coq
    model (exact rational arithmetic)"""
    from gpytorch.variational.ciq_variational_strategy import _NgdInterpTerms
    rd = C.Reader(res)
    want = dict(mean=rd.expr(), var=rd.expr(), dk=rd.expr(), deta1=rd.expr(), deta2=rd.expr())
    k = torch.tensor([[case["k"]]], requires_grad=True)
    th1 = torch.tensor([case["th1"]], requires_grad=True)
    th2 = torch.tensor([[case["th2"]]], requires_grad=True)
    cms = ciq_tight()
    for c in cms:
        c.__enter__()
    try:
        im, iv, kl = _NgdInterpTerms.apply(k, th1, th2)
        (case["gm"] * im.sum() + case["gv"] * iv.sum() + case["gk"] * kl.sum()).backward()
    finally:
        for c in reversed(cms):
            c.__exit__(None, None, None)
    got = dict(mean=im.item(), var=iv.item(), dk=k.grad.item(), deta1=th1.grad.item(), deta2=th2.grad.item())
    rep_ok = True

    def make():
        k_ = torch.tensor([[case["k"]]], requires_grad=True)
        a_ = torch.tensor([case["th1"]], requires_grad=True)
        b_ = torch.tensor([[case["th2"]]], requires_grad=True)
        return list(_NgdInterpTerms.apply(k_, a_, b_)), [k_, a_, b_]
    cms = ciq_tight()
    for c in cms:
        c.__enter__()
    try:
        rep_ok = repeated_backward(out, "ciq-ngd:n=1", dict(case=case), make, tol=1e-9)
    finally:
        for c in reversed(cms):
            c.__exit__(None, None, None)
    ok = rep_ok
    for name in ("mean", "var", "dk", "deta1", "deta2"):
        if not C.close(got[name], want[name], 1e-9, 1e-9):
            ok = False
            out.fail("ciq-ngd:n=1:%s" % name, "_NgdInterpTerms on one inducing value: %s = %.12g, model %.12g"
                     % (name, got[name], float(want[name])), dict(case=case), impl=got[name], model=float(want[name]))
    return ok


def ciq_problem(case):
    """model with random hyperparameters, separated inducing points and a well-conditioned K_ZZ (rejection on the
    condition number of the implementation's own kernel matrix), non-initial natural parameters"""
    gen = torch.Generator().manual_seed(case["seed"])
    rn = lambda *sh: torch.randn(torch.Size(sh), generator=gen)    # noqa: E731
    ru = lambda *sh: torch.rand(torch.Size(sh), generator=gen)     # noqa: E731
    bs = torch.Size([2]) if case["batch"] else torch.Size([])
    M, N, D = case["M"], case["N"], case["D"]
    for _ in range(200):
        Z = (torch.randint(-12, 13, tuple(bs) + (M, D), generator=gen).double() / 4.0) + 0.1 * ru(*bs, M, D)
        model = _CiqGP(Z, bs, case["kern"])
        model.mean_module.constant = rn(*bs)
        model.covar_module.outputscale = 0.5 + ru(*bs)
        model.covar_module.base_kernel.lengthscale = 0.4 + 0.6 * ru(*bs, 1, 1)
        with torch.no_grad():
            ev = torch.linalg.eigvalsh(model.covar_module(Z).to_dense() + CIQ_JITTER * torch.eye(M))
        if float((ev[..., -1] / ev[..., 0]).max()) <= CIQ_MAX_COND:
            break
    else:
        raise RuntimeError("no well-conditioned inducing set found")
    X, y = 3.0 * rn(*bs, N, D), rn(*bs, N)
    R = rn(*bs, M, M)
    prec = {"generic": R @ R.transpose(-1, -2) / M + 0.5 * torch.eye(M), "diag": torch.diag_embed(0.5 + 2.0 * ru(*bs, M)),
            "init": torch.eye(M).expand(*bs, M, M).clone()}[case["state"]]
    nat_vec = rn(*bs, M)
    lik = gpytorch.likelihoods.GaussianLikelihood(batch_shape=bs)
    lik.noise = 0.2 + ru(*bs, 1)
    w = dict(mean=rn(*bs, N), var=rn(*bs, N), kl=rn(*bs), num_data=3 * N, beta=0.25 + float(ru(1)))
    return model, lik, X, y, prec, nat_vec, w


def inv_sqrt_spd(Kmat, iters=40):
    """symmetric inverse square root by the Denman-Beavers iteration (quadratically convergent for SPD matrices, smooth
    under torch autograd also for repeated eigenvalues, where the derivative of eigh is singular)"""
    eye = torch.eye(Kmat.shape[-1])
    c = Kmat.detach().diagonal(dim1=-1, dim2=-2).mean(-1)[..., None, None]
    Y, Zm = Kmat / c, eye.expand_as(Kmat)
    for _ in range(iters):
        Y, Zm = 0.5 * (Y + torch.linalg.inv(Zm)), 0.5 * (Zm + torch.linalg.inv(Y))
    res = Zm / c.sqrt()
    resid = (res @ Kmat @ res - eye).abs().max().item()
    assert resid < 1e-10, "reference inverse square root did not converge (%g)" % resid
    return 0.5 * (res + res.transpose(-1, -2))


def check_ciq_ngd(out, case):
    """CiqVariationalStrategy + NaturalVariationalDistribution (_NgdInterpTerms): the gradients delivered to
    natural_vec / natural_mat are d loss / d eta1, d loss / d eta2 (eta1 = m, eta2 = m m^T + S), the gradients delivered
    to the hyperparameters / inducing points are those of the dense closed form.  loss: random-sign w.mean + v.variance +
    c KL (vjp) | c KL alone (kl) | VariationalELBO with a Gaussian likelihood (elbo).  Reference: dense, K_ZZ^{-1/2} by
    the Denman-Beavers iteration, explicit Gaussian KL, torch autograd w.r.t. (eta1, eta2, hyperparameters)."""
    model, lik, X, y, prec, nat_vec, w = ciq_problem(case)
    M, N = case["M"], case["N"]
    vs = model.variational_strategy
    vd = vs._variational_distribution
    vs.variational_params_initialized.fill_(1)
    vd.natural_vec.data.copy_(nat_vec)
    vd.natural_mat.data.copy_(-0.5 * prec)
    ref = _CiqGP(vs.inducing_points.detach().clone(), vd.batch_shape, case["kern"])
    ref.load_state_dict(model.state_dict())
    model.train(); lik.train()
    cms = ciq_tight()
    for c in cms:
        c.__enter__()
    try:
        q = model(X)
        if case["form"] == "vjp":
            loss = (w["mean"] * q.mean).sum() + (w["var"] * q.variance).sum() + (w["kl"] * vs.kl_divergence()).sum()
        elif case["form"] == "kl":
            loss = (w["kl"] * vs.kl_divergence()).sum()
        else:
            loss = gpytorch.mlls.VariationalELBO(lik, model, num_data=w["num_data"], beta=w["beta"])(q, y).sum()
        loss.backward()
    finally:
        for c in reversed(cms):
            c.__exit__(None, None, None)
    rep_ok = True
    if case["form"] == "vjp":
        # repeated backward passes through one retained graph of the strategy (outputs: mean, variance, KL)
        def make():
            q_ = model(X)
            ins = [vd.natural_vec, vd.natural_mat] + [p_ for n_, p_ in model.named_parameters()
                                                        if n_.split(".")[-1] not in ("natural_vec", "natural_mat")]
            return [q_.mean, q_.variance, vs.kl_divergence()], ins
        cms = ciq_tight()
        for c in cms:
            c.__enter__()
        try:
            rep_ok = repeated_backward(out, "ciq-ngd:%s:%s%s" % (case["form"], case["state"], ":batch" if case["batch"] else ""),
                                       dict(case=case), make, tol=CIQ_TOL)
        finally:
            for c in reversed(cms):
                c.__exit__(None, None, None)
    # ---- dense reference
    Zr = ref.variational_strategy.inducing_points
    full = torch.cat([Zr, X], -2)
    Kf, mu = ref.covar_module(full).to_dense(), ref.mean_module(full)
    Kzz = Kf[..., :M, :M] + CIQ_JITTER * torch.eye(M)
    Kzx = Kf[..., :M, M:]
    kxx = Kf[..., M:, M:].diagonal(dim1=-1, dim2=-2) + CIQ_JITTER
    A = inv_sqrt_spd(Kzz) @ Kzx
    S0 = torch.linalg.inv(prec)
    m0 = (S0 @ nat_vec.unsqueeze(-1)).squeeze(-1)
    e1 = m0.clone().requires_grad_(True)
    e2 = (S0 + m0.unsqueeze(-1) * m0.unsqueeze(-2)).clone().requires_grad_(True)
    S = e2 - e1.unsqueeze(-1) * e1.unsqueeze(-2)
    mean = (A.transpose(-1, -2) @ e1.unsqueeze(-1)).squeeze(-1) + mu[..., M:]
    var = kxx - A.pow(2).sum(-2) + (A * (S @ A)).sum(-2)
    kl = 0.5 * (-torch.logdet(S) + S.diagonal(dim1=-1, dim2=-2).sum(-1) + (e1 * e1).sum(-1) - M)
    if case["form"] == "vjp":
        rl = (w["mean"] * mean).sum() + (w["var"] * var).sum() + (w["kl"] * kl).sum()
    elif case["form"] == "kl":
        rl = (w["kl"] * kl).sum()
    else:
        noise = lik.noise.detach()
        ell = (-0.5 * (((y - mean) ** 2 + var) / noise + noise.log() + math.log(2 * math.pi))).sum(-1) / N
        rl = (ell - kl * w["beta"] / w["num_data"]).sum()
    skip = ("natural_vec", "natural_mat")
    hyper = [(n, p) for n, p in ref.named_parameters() if n.split(".")[-1] not in skip]
    grads = torch.autograd.grad(rl, [e1, e2] + [p for _, p in hyper], allow_unused=True)
    key = "ciq-ngd:%s:%s%s" % (case["form"], case["state"], ":batch" if case["batch"] else "")
    ok = rep_ok

    def cmp(name, got, want, what):
        nonlocal ok
        want = torch.zeros_like(got) if want is None else want
        got = torch.zeros_like(want) if got is None else got
        scale = 1.0 + want.abs().max().item()
        if got.shape != want.shape or not torch.allclose(got, want, rtol=0, atol=CIQ_TOL * scale):
            ok = False
            out.fail("%s:%s" % (key, name), "%s (max abs err %.3g, scale %.3g; M=%d, kernel %s)"
                     % (what, (got - want).abs().max().item() if got.shape == want.shape else float("nan"), scale, M, case["kern"]),
                     dict(case=case), impl=got, model=want)

    if case["form"] != "kl":
        cmp("forward-mean", q.mean.detach(), mean.detach(), "predictive mean differs from the dense closed form")
        cmp("forward-variance", q.variance.detach(), var.detach(), "predictive variance differs from the dense closed form")
    cmp("natural_vec", vd.natural_vec.grad, grads[0],
        "gradient delivered to natural_vec differs from d loss / d eta1 (expectation parameters, dense reference)")
    cmp("natural_mat", vd.natural_mat.grad, 0.5 * (grads[1] + grads[1].transpose(-1, -2)),
        "gradient delivered to natural_mat differs from d loss / d eta2 (expectation parameters, dense reference)")
    mine = dict(model.named_parameters())
    for (n, _), g in zip(hyper, grads[2:]):
        if case["form"] == "kl" and g is None and mine[n].grad is None:
            continue
        cmp("hyper:" + n.split(".")[-1], mine[n].grad, g,
            "gradient delivered to %s (through the interpolation term K_ZZ^{-1/2} K_ZX) differs from the dense reference" % n)
    return ok


# --------------------------------------------------------------------------- prediction gradients

class _GP(gpytorch.models.ExactGP):
    def __init__(self, x, y, lik, kern):
        super().__init__(x, y, lik)
        self.mean_module = gpytorch.means.ConstantMean()
        self.covar_module = gpytorch.kernels.ScaleKernel(kern)

    def forward(self, x):
        return gpytorch.distributions.MultivariateNormal(self.mean_module(x), self.covar_module(x))


def gen_pred(rng, tier):
    reps = 6 if tier == "quick" else 40
    return [dict(kind="pred", fam=list(FAMS)[k % 4], d=rng.randint(1, 3), n=rng.randint(3, 6), t=rng.randint(1, 3),
                 seed=rng.randrange(10 ** 6)) for k in range(reps)]


def check_pred(out, case):
    gen = torch.Generator().manual_seed(case["seed"])
    n, t, d = case["n"], case["t"], case["d"]
    X = torch.randn(n, d, generator=gen)
    y = torch.randn(n, generator=gen)
    Xs = torch.randn(t, d, generator=gen)
    w = torch.randn(t, generator=gen)
    v = torch.randn(t, generator=gen)
    kern = K.RBFKernel() if case["fam"] == "rbf" else K.MaternKernel(nu=FAMS[case["fam"]] / 2.0)
    lik = gpytorch.likelihoods.GaussianLikelihood()
    lik.noise = 0.1
    model = _GP(X, y, lik, kern)
    model.eval()
    lik.eval()

    def f(xs):
        with gs.fast_pred_var(False), gs.detach_test_caches(False):
            p = model(xs)
            return (w * p.mean).sum() + (v * p.variance).sum()
    xs = Xs.clone().requires_grad_(True)
    (g,) = torch.autograd.grad(f(xs), xs)
    h = 1e-5
    fd = torch.zeros_like(Xs)
    with torch.no_grad():
        for i in range(t):
            for k in range(d):
                e = torch.zeros_like(Xs)
                e[i, k] = h
                fd[i, k] = (f(Xs + e) - f(Xs - e)) / (2 * h)
    scale = 1.0 + fd.abs().max().item()
    if not torch.allclose(g, fd, rtol=0, atol=FD_TOL * scale):
        out.fail("prediction-grad:%s" % case["fam"], "autograd gradient of w.mean + v.variance w.r.t. the test inputs "
                 "differs from central differences (max %.3g)" % (g - fd).abs().max().item(), dict(case=case),
                 impl=g, model=fd)
        return False
    return True


def gen_pred_coincident(rng, tier):
    """frozen / trainable exact GP, test inputs that COINCIDE with training inputs (plus one generic row)"""
    reps = 2 if tier == "quick" else 10
    cases = []
    for k in range(reps):
        for fam in ("rbf", "matern15", "matern25"):
            for frozen in (True, False):
                d = rng.randint(1, 3)
                n = rng.randint(3, 5)
                X = []
                while len(X) < n:
                    p = [rng.randint(-16, 16) / 8.0 for _ in range(d)]
                    if p not in X:
                        X.append(p)
                t = rng.randint(1, n)
                xs = [list(X[i]) for i in rng.sample(range(n), t)]
                if rng.random() < 0.5:
                    xs.append([rng.randint(-16, 16) / 8.0 + 1 / 16.0 for _ in range(d)])
                cases.append(dict(kind="pred-coincident", fam=fam, d=d, X=X, xs=xs, frozen=frozen, ls=rng.uniform(0.6, 1.6),
                                  os=rng.uniform(0.5, 2.0), c=rng.uniform(-0.5, 0.5), seed=rng.randrange(10 ** 6)))
    return cases


def build_pred_coincident(case):
    gen = torch.Generator().manual_seed(case["seed"])
    X = torch.tensor(case["X"])
    y = torch.randn(X.shape[0], generator=gen)
    kern = K.RBFKernel() if case["fam"] == "rbf" else K.MaternKernel(nu=FAMS[case["fam"]] / 2.0)
    kern.lengthscale = case["ls"]
    lik = gpytorch.likelihoods.GaussianLikelihood()
    lik.noise = 0.1
    model = _GP(X, y, lik, kern)
    model.covar_module.outputscale = case["os"]
    model.mean_module.constant.data.fill_(case["c"]) if hasattr(model.mean_module, "constant") else None
    model.eval()
    lik.eval()
    t = len(case["xs"])
    return dict(model=model, kern=kern, X=X, y=y, w=torch.randn(t, generator=gen), v=torch.randn(t, generator=gen))


def check_pred_coincident(out, case, results):
    import warnings
    B = case["_built"]
    model, kern, X, y, w, v = B["model"], B["kern"], B["X"], B["y"], B["w"], B["v"]
    xs_l, X_l, d = case["xs"], case["X"], case["d"]
    t, n = len(xs_l), len(X_l)
    l = kern.lengthscale.detach().reshape(-1).tolist()[0]
    rd = C.Reader(results[0])
    dk = [[None] * n for _ in range(t)]
    for i in range(t):
        for j in range(n):
            rd.expr()
            dk[i][j] = rd.expr()
    assert rd.done()
    desc = dict(case={k_: v_ for k_, v_ in case.items() if k_ != "_built"})
    tag = "%s:%s" % (case["fam"], "frozen" if case["frozen"] else "trainable")
    for p_ in model.parameters():
        p_.requires_grad_(not case["frozen"])
    Xs = torch.tensor(xs_l)

    def f(x, var=True):
        with warnings.catch_warnings(), gs.fast_pred_var(False), gs.detach_test_caches(False):
            warnings.simplefilter("ignore")
            p = model(x)
            return (w * p.mean).sum() + ((v * p.variance).sum() if var else 0.0)
    with torch.no_grad():
        osc = model.covar_module.outputscale.item()
        cst = model.mean_module(X)[0].item()
        A = osc * kern(X).to_dense() + model.likelihood.noise.item() * torch.eye(n)
        alpha = torch.linalg.solve(A, y - cst)
    xs = Xs.clone().requires_grad_(True)
    (gm,) = torch.autograd.grad(f(xs, var=False), xs)
    xs = Xs.clone().requires_grad_(True)
    (gt,) = torch.autograd.grad(f(xs), xs)
    ok = True
    for i in range(t):
        sc = abs(w[i].item()) * osc * alpha.abs().sum().item() / l
        for m in range(d):
            want = mpmath.mpf(0)
            for j in range(n):
                D2 = sum((mpmath.mpf(xs_l[i][q]) - mpmath.mpf(X_l[j][q])) ** 2 for q in range(d))
                if D2 == 0:
                    continue
                want += -alpha[j].item() * dk[i][j] * l * (mpmath.mpf(xs_l[i][m]) - mpmath.mpf(X_l[j][m])) / D2
            want = float(want) * w[i].item() * osc
            if not abs(gm[i, m].item() - want) <= 10 * GRAD_TOL_GENERIC * max(sc, 1e-300):
                out.fail("prediction-grad-at-training-inputs:%s:mean" % tag, "d/dx*[%d][%d] of w . posterior mean at test inputs equal to training "
                         "inputs: autograd %.12g, closed form (chain rule on the model's kernel derivative) %.12g" % (i, m, gm[i, m].item(), want),
                         desc, impl=gm)
                ok = False
                break
        if not ok:
            break
    h = 1e-5
    fd = torch.zeros_like(Xs)
    with torch.no_grad():
        for i in range(t):
            for m in range(d):
                e = torch.zeros_like(Xs)
                e[i, m] = h
                fd[i, m] = (f(Xs + e) - f(Xs - e)) / (2 * h)
    scale = 1.0 + fd.abs().max().item()
    if not torch.allclose(gt, fd, rtol=0, atol=FD_TOL * scale):
        out.fail("prediction-grad-at-training-inputs:%s:central-differences" % tag, "autograd gradient of w.mean + v.variance w.r.t. test inputs "
                 "equal to training inputs differs from central differences (max %.3g)" % (gt - fd).abs().max().item(), desc, impl=gt, model=fd)
    return True


# --------------------------------------------------------------------------- run / replay

def run_items(out, items, record=True):
    """items: list of case dicts; runs the model for those that have one, then all checks"""
    coq, owner, kerns = [], [], {}
    for idx, case in enumerate(items):
        if case["kind"] in ("kernel", "kernel-flags"):
            kerns[idx] = build_kernel(case)
            cs = kernel_coq_cases(case, kerns[idx])
        elif case["kind"] == "pred-coincident":
            case["_built"] = build_pred_coincident(case)
            lv = case["_built"]["kern"].lengthscale.detach().reshape(-1).tolist()[0]
            job = "(DRBF %s)" % C.qc_lit(lv) if case["fam"] == "rbf" else "(DMatern %d%%nat %s)" % (FAMS[case["fam"]], C.qc_lit(lv))
            cs = ["(%s, %s, %s)" % (job, qm(case["xs"]), qm(case["X"]))]
        elif case["kind"] == "lncdf":
            cs = ["(DLnCdf, [[%s]], %s)" % (C.qc_lit(case["z"]), NOX2)]
        elif case["kind"] == "lncdf-vec":
            cs = ["(DLnCdf, [[%s]], %s)" % (C.qc_lit(zz), NOX2) for row in case["z"] for zz in row]
        elif case["kind"] == "ciq-ngd-1":
            cs = ["(DCiq1 %s %s %s, [[%s; %s; %s]], %s)" % (C.qc_lit(case["gm"]), C.qc_lit(case["gv"]), C.qc_lit(case["gk"]),
                                                          C.qc_lit(case["k"]), C.qc_lit(case["th1"]), C.qc_lit(case["th2"]), NOX2)]
        elif case["kind"] == "nat-diag":
            cs = nat_coq_cases(case)
        else:
            cs = []
        owner.append((len(coq), len(cs)))
        coq += cs
    res = fast_run_cases("C19", IMPORTS, RUN_DEF, coq) if coq else []
    for idx, case in enumerate(items):
        a, k = owner[idx]
        r = res[a:a + k]
        try:
            if case["kind"] == "kernel":
                nt = check_kernel(out, case, kerns[idx], r)
                label = "kernel:%s:%s:%s:dec=%d" % (case["fam"], case["call"], case["batch"], case["dec"])
            elif case["kind"] == "kernel-flags":
                nt = check_kernel_flags(out, case, kerns[idx], r)
                label = "kernel-flags:%s:%s:x1grad=%d:x2grad=%d:hyper=%s" % (case["fam"], case["variant"], case["flags"][0], case["flags"][1],
                                                                             "trainable" if case["hyper"] else "frozen")
            elif case["kind"] == "pred-coincident":
                nt = check_pred_coincident(out, case, r)
                label = "prediction-grad-at-training-inputs:%s:%s" % (case["fam"], "frozen" if case["frozen"] else "trainable")
            elif case["kind"] == "lncdf":
                nt = check_lncdf(out, case, r[0])
                label = "lncdf:" + lncdf_branch(case["z"])
            elif case["kind"] == "lncdf-vec":
                nt = check_lncdf_vec(out, case, r)
                label = "lncdf:vjp-matrix-all-branches"
            elif case["kind"] == "ciq-ngd-1":
                nt = check_ciq1(out, case, r[0])
                label = "ciq-ngd:n=1:coq-model"
            elif case["kind"] == "ciq-ngd":
                nt = check_ciq_ngd(out, case)
                label = "ciq-ngd:%s:%s%s" % (case["form"], case["state"], ":batch" if case["batch"] else "")
            elif case["kind"] == "nat-diag":
                nt = check_nat_diag(out, case, r)
                label = "natural-diag:%s:n=%d" % (case["cls"], case["n"])
            elif case["kind"] == "nat-full":
                nt = check_nat_full(out, case)
                label = "natural-full:%s" % case["cls"]
            else:
                nt = check_pred(out, case)
                label = "prediction-grad:" + case["fam"]
        except Exception as e:
            import traceback
            case.pop("_built", None)
            out.fail("%s:exception:%s" % (case["kind"], type(e).__name__), "check raised: " + traceback.format_exc()[-800:],
                     dict(case=case))
            nt, label = False, case["kind"] + ":exception"
        case.pop("_built", None)
        if record:
            small = {k: v for k, v in case.items() if k not in ("G", "_built")}
            out.case(small, True, label=label)


def run(out, ctx):
    tier, seed = ctx["tier"], ctx["seed"]
    rng = random.Random(seed * 104729 + 19)
    torch.manual_seed(seed)
    items = []
    per = 30 if tier == "quick" else 300
    for fam in FAMS:
        items += [gen_kernel_case(rng, fam, k) for k in range(per)]
    items += gen_lncdf(rng, tier)
    items += gen_nat(rng, tier)
    items += gen_pred(rng, tier)
    items += gen_flag_cases(rng, tier)
    items += gen_pred_coincident(rng, tier)
    items += gen_ciq(rng, tier)
    items += gen_ciq1(rng, tier)
    out.rule = ("RBF and Matern nu in {1/2,3/2,5/2}: d in 1..3, n1, n2 in 1..4, lengthscale 10^k*U(0.5,2) for every "
                "k in -2..2 with inputs on a dyadic grid of the same magnitude, coincident rows across and inside "
                "x1/x2, calls K(x1,x2), K(x1) and the diag=True request K(x1,x2',diag=True) with coincident PAIRS inside "
                "otherwise different x1, x2', no batch / kernel batch / kernel+input batch, Gaussian upstream G; "
                "paths: fast (default; for diag: diagonal of the full matrix), generic (trace_mode / diag=True), "
                "LazyEvaluatedKernelTensor.diagonal(), x1.requires_grad (input gradients against the chain rule on the "
                "model's lengthscale derivative), each against the model and against the fast path; any NaN / inf fails. "
                "EVERY hand-written backward (kernels, log_normal_cdf, natural / tril-natural, _NgdInterpTerms) is run three "
                "times through one retained graph (cotangent A, another cotangent B, A again: third == first bitwise, second "
                "correct / equal to a fresh graph's first pass), log_normal_cdf also through torch.autograd.functional.jacobian. "
                "log_normal_cdf: near-zero, ordinary, tail start (-5.5,-5), far-tail (< -5.5) and branch boundaries, every scalar "
                "case with a random-magnitude upstream gradient of alternating sign, plus vector-Jacobian products of one call "
                "on a matrix mixing all branches with a random-sign non-constant cotangent. "
                "Equal values / different requires_grad flags: k(x1, x2) and k(x1, x2, diag=True) with x2 a DIFFERENT tensor holding the "
                "same rows as x1 (also: one row changed, rows permuted, a subset), for every combination of x1.requires_grad, "
                "x2.requires_grad and hyperparameters trainable / frozen, all four kernels: values, the gradient delivered to EACH "
                "input (the other held fixed) and to the lengthscale against the chain rule on the model's derivative and against "
                "central differences, two cotangents + repeated backward; exact-GP posterior mean / variance gradients at test "
                "inputs that coincide with training inputs, hyperparameters frozen and trainable, against the closed form "
                "(model's kernel derivative, alpha from a dense solve) and central differences. "
                "Natural / tril-natural distributions: n=1 and diagonal against the Coq model, full n<=5 (also "
                "batched) against autograd of a re-implementation. Prediction gradients vs central differences. "
                "CIQ-NGD (CiqVariationalStrategy + NaturalVariationalDistribution): M in 2..5 separated inducing points with "
                "cond(K_ZZ) <= 1e3, RBF / Matern, no batch / batch [2], natural parameters at a generic / diagonal / the "
                "initial precision, loss = random-sign weighted mean + variance + KL | KL alone | VariationalELBO, tight CIQ "
                "settings (120 nodes, tolerances 1e-10).")
    out.exhaustive = False
    out.extra["tolerances"] = dict(value_rtol=VAL_RTOL, value_atol_coincident_matern=VAL_ATOL_COINCIDENT,
                                   grad_fast=GRAD_TOL_FAST, grad_generic=GRAD_TOL_GENERIC, lncdf_rtol=LNCDF_RTOL,
                                   natural=NAT_TOL, finite_difference=FD_TOL, ciq=CIQ_TOL)
    run_items(out, items)
    out.tested_not_proved = [
        "LogNormalCDF tail branch (rational approximation of the erfc asymptotics; that phi/Phi is the derivative of log Phi on the "
        "whole line is proved: c19_lncdf_backward_is_derivative)",
        "_NaturalToMuVarSqrt / _TrilNaturalToMuVarSqrt for non-diagonal covariances (Cholesky differential): compared "
        "with torch autograd through an independent re-implementation of eta -> (mu, chol)",
        "prediction gradients w.r.t. test inputs: compared with central differences of the implementation",
        "autograd's chain rule and the softplus constraint between raw_lengthscale and lengthscale",
        "input gradients for d > 1 and sums over several pairs: reference = chain rule applied per pair to the model's lengthscale "
        "derivative (proved per coordinate: c19_matern_input_gradient_chain, c19_rbf_input_gradient_chain, "
        "c19_matern32/52_input_gradient_coincident); Matern-1/2 at coincident pairs (kink): finiteness only",
        "CIQ natural-gradient terms (_NgdInterpTerms.backward) for more than one inducing value / data point (one of each: "
        "proved, c19_ciq_ngd_*_partial, and compared with the Coq model): gradients delivered to natural_vec / natural_mat / "
        "hyperparameters / inducing points through weighted mean+variance+KL, KL alone and VariationalELBO compared with "
        "torch autograd of a dense closed form w.r.t. the expectation parameters (tolerance 1e-4 at 120 quadrature nodes, "
        "cond(K_ZZ) <= 1e3)"]


def replay(path):
    d = json.load(open(path))
    case = d["case"]["case"]
    out = C.Outcome("C19", "quick", 0)
    run_items(out, [case], record=False)
    print("case", json.dumps({k: v for k, v in case.items() if k != "G"})[:600])
    for f in out.failures:
        print("FAIL", f["key"], "|", f["what"])
        print("  impl ", C.jsonable(f.get("impl")))
        print("  model", C.jsonable(f.get("model")))
    print("FAILS" if out.failures else "agrees")
    return 1 if out.failures else 0
