"""Shared machinery for every property check: Coq build, running the executable model on
generated cases (coqc + vm_compute), exact float->rational conversion, decoding of results,
evidence / replay / known-findings handling."""
from __future__ import annotations

import fractions
import glob
import hashlib
import json
import os
import re
import shutil
import subprocess
import sys
import time
from concurrent.futures import ThreadPoolExecutor

VERIF = os.path.dirname(os.path.dirname(os.path.dirname(os.path.abspath(__file__))))
COQ = os.path.join(VERIF, "coq")
# VERIF_SCRATCH=<dir> redirects everything a run writes (generated cases, evidence, replays) so that the same
# property can be run concurrently against another tree (seeded-change experiments) without touching the
# committed evidence.  Registered checks never set it.
_SCR = os.environ.get("VERIF_SCRATCH")
BUILD = os.path.join(_SCR, "build") if _SCR else os.path.join(VERIF, "build")
EVID = os.path.join(_SCR, "evidence") if _SCR else os.path.join(VERIF, "evidence")
REPLAYS = os.path.join(_SCR, "replays") if _SCR else os.path.join(VERIF, "replays")
CORPUS = os.path.join(VERIF, "corpus")
REPO = os.environ.get("VERIF_REPO", "/repo")
NPROC = int(os.environ.get("VERIF_JOBS", str(os.cpu_count() or 8)))

HYGIENE_RE = re.compile(
    r"\b(Admitted|admit|Axiom|Axioms|Parameter|Parameters|Conjecture|Conjectures|Hypothesis|Hypotheses|Variable|Variables|Context)\b"
    r"|Unset Guard|bypass_check|type-in-type|impredicative-set|Admit Obligations|Unset Positivity|Unset Universe")

# axioms declared by the standard library / Coquelicot that theorems over R may rely on
ALLOWED_AXIOMS = {
    "ClassicalDedekindReals.sig_forall_dec", "ClassicalDedekindReals.sig_not_dec",
    "Classical_Prop.classic", "FunctionalExtensionality.functional_extensionality_dep",
    "functional_extensionality_dep", "sig_forall_dec", "sig_not_dec", "classic",
    "ProofIrrelevance.proof_irrelevance", "proof_irrelevance",
    "Eqdep.Eq_rect_eq.eq_rect_eq", "JMeq.JMeq_eq", "JMeq_eq",
    "ClassicalEpsilon.constructive_indefinite_description", "constructive_indefinite_description",
    "PropExtensionality.propositional_extensionality", "propositional_extensionality",
}


class Unparsed(Exception):
    """raised by a translator when the current source is outside its Python subset"""


def log(*a):
    print(*a, flush=True)


# --------------------------------------------------------------------------- build

def coq_sources():
    out = []
    for sub in ("Base", "Models", "Proofs", "Props", "Gen"):
        out += sorted(glob.glob(os.path.join(COQ, sub, "*.v")))
    return out


def write_coqproject():
    lines = ["-Q . GPV", "-arg -w -arg -all"]
    for f in coq_sources():
        lines.append(os.path.relpath(f, COQ))
    txt = "\n".join(lines) + "\n"
    p = os.path.join(COQ, "_CoqProject")
    if not os.path.exists(p) or open(p).read() != txt:
        open(p, "w").write(txt)
        return True
    return False


def build_coq(timeout=2400, targets=None):
    """Full .vo build of the development (no -vos).  Returns (ok, log_text)."""
    os.makedirs(BUILD, exist_ok=True)
    changed = write_coqproject()
    mk = os.path.join(COQ, "Makefile.coq")
    if changed or not os.path.exists(mk):
        r = subprocess.run(["coq_makefile", "-f", "_CoqProject", "-o", "Makefile.coq"], cwd=COQ,
                           capture_output=True, text=True)
        if r.returncode != 0:
            return False, r.stdout + r.stderr
    cmd = ["make", "-f", "Makefile.coq", "-j%d" % NPROC] + (targets or [])
    try:
        r = subprocess.run(cmd, cwd=COQ, capture_output=True, text=True, timeout=timeout)
    except subprocess.TimeoutExpired as e:
        return False, "make timed out\n" + str(e)
    open(os.path.join(BUILD, "make.log"), "w").write(r.stdout + r.stderr)
    return r.returncode == 0, r.stdout + r.stderr


def hygiene():
    """grep the development for anything that would declare an axiom or switch off a check.
    Section-local Variable/Hypothesis/Context are allowed only inside a Section: we check that
    by requiring every file that uses them to have balanced Section/End and no such line at
    nesting depth 0."""
    bad = []
    for f in coq_sources():
        depth = 0
        txt = open(f).read()
        txt_nc = re.sub(r"\(\*.*?\*\)", lambda m: "\n" * m.group(0).count("\n"), txt, flags=re.S)
        for ln, line in enumerate(txt_nc.split("\n"), 1):
            s = line.strip()
            if re.match(r"^(Section|Module)\s+\w+", s) and ":=" not in s:
                depth += 1
            elif re.match(r"^End\s+\w+\s*\.", s):
                depth -= 1
            m = HYGIENE_RE.search(line)
            if m:
                w = m.group(0)
                if w in ("Hypothesis", "Hypotheses", "Variable", "Variables", "Context") and depth > 0:
                    continue
                bad.append("%s:%d: %s" % (os.path.relpath(f, VERIF), ln, s))
    return bad


def check_props(pid, extra_files=()):
    """Re-compile Props/<pid>.v (statement files: Theorem / exact lemma / Print Assumptions),
    returning dict(theorems=[...], assumptions={thm: [axioms]}, ok, log)."""
    files = [os.path.join(COQ, "Props", pid + ".v")] + list(extra_files)
    thms, assum, logs, ok = [], {}, [], True
    for f in files:
        if not os.path.exists(f):
            ok = False
            logs.append("missing " + f)
            continue
        src = open(f).read()
        src_nc = re.sub(r"\(\*.*?\*\)", "", src, flags=re.S)
        names = re.findall(r"^\s*(?:Theorem|Lemma|Corollary|Example)\s+(\w+)", src_nc, flags=re.M)
        printed = re.findall(r"Print Assumptions\s+(\w+)\s*\.", src_nc)
        try:
            r = subprocess.run(["coqc", "-Q", ".", "GPV", "-w", "-all", os.path.relpath(f, COQ)], cwd=COQ,
                               capture_output=True, text=True, timeout=900)
        except subprocess.TimeoutExpired:
            ok = False
            logs.append("coqc timed out on " + f)
            continue
        logs.append(r.stdout + r.stderr)
        if r.returncode != 0:
            ok = False
            continue
        # split the Print Assumptions output: one block per printed theorem, in order
        blocks = re.split(r"(?m)^(?=Closed under the global context|Axioms:)", r.stdout)
        blocks = [b for b in blocks if b.strip()]
        for nm, b in zip(printed, blocks):
            if b.startswith("Closed under"):
                assum[nm] = []
            else:
                ax = re.findall(r"(?m)^([A-Za-z_][\w\.']*)\s*:", b)
                assum[nm] = [a for a in ax if a != "Axioms"]
        for nm in names:
            thms.append(nm)
        missing = [n for n in names if n not in printed and not n.startswith("ex_")]
        if missing:
            logs.append("theorems without Print Assumptions: %s" % missing)
        if len(blocks) != len(printed):
            ok = False
            logs.append("could not attribute Print Assumptions output (%d blocks, %d printed)" %
                        (len(blocks), len(printed)))
    foreign = sorted({a for v in assum.values() for a in v
                      if a not in ALLOWED_AXIOMS and a.split(".")[-1] not in ALLOWED_AXIOMS})
    return dict(theorems=thms, assumptions=assum, ok=ok and not foreign, foreign_axioms=foreign,
                log="\n".join(logs))


def run_coqchk(pid, timeout=1500):
    """thorough tier: re-check Props/<pid>.vo and everything it depends on with the independent checker"""
    try:
        r = subprocess.run(["coqchk", "-silent", "-o", "-Q", ".", "GPV", "GPV.Props." + pid], cwd=COQ,
                           capture_output=True, text=True, timeout=timeout)
    except subprocess.TimeoutExpired:
        return dict(ok=False, summary="coqchk timed out")
    txt = r.stdout + r.stderr
    m = re.search(r"CONTEXT SUMMARY.*", txt, flags=re.S)
    summ = re.sub(r"\s+", " ", m.group(0))[:3000] if m else txt[-1500:]
    bad = not re.search(r"type-in-type: <none>", txt) or not re.search(r"unsafe \(co\)fixpoints: <none>", txt) \
        or not re.search(r"positivity is assumed: <none>", txt)
    return dict(ok=(r.returncode == 0 and not bad), summary=summ)


# --------------------------------------------------------------------------- running the model

_TOK = re.compile(r"\[|\]|;|-?\d+")


def parse_coq_lists(text):
    """Parse the output of `Eval vm_compute in (... : list (list Z))` (possibly several Evals)
    into a python list of results; tolerant to line wrapping, %Z and parentheses."""
    results = []
    for chunk in re.split(r"(?m)^\s*=", text)[1:]:
        chunk = chunk.split("\n     :")[0]
        toks = _TOK.findall(chunk.replace("%Z", "").replace("%positive", "").replace("%nat", ""))
        pos = 0

        def parse():
            nonlocal pos
            t = toks[pos]
            if t == "[":
                pos += 1
                items = []
                while toks[pos] != "]":
                    if toks[pos] == ";":
                        pos += 1
                        continue
                    items.append(parse())
                pos += 1
                return items
            pos += 1
            return int(t)
        if toks:
            results.append(parse())
    return results


def coq_run_cases(tag, imports, run_def, cases, shard=200, timeout=1800):
    """cases: list of Coq terms (strings), each an argument to the Coq function `run`
    (defined by run_def, a block of vernacular that must define `run : _ -> list Z`).
    Returns list of list[int] (one per case), or raises RuntimeError with the coqc log."""
    d = os.path.join(BUILD, "cases_" + tag)
    shutil.rmtree(d, ignore_errors=True)
    os.makedirs(d)
    files = []
    for k in range(0, len(cases), shard):
        name = "c%s_%d" % (re.sub(r"\W", "_", tag), k // shard)
        body = [imports, "Import ListNotations.", "Local Open Scope Z_scope.", run_def,
                "Definition cases := [", ";\n".join(cases[k:k + shard]), "].",
                "Eval vm_compute in (map run cases)."]
        p = os.path.join(d, name + ".v")
        open(p, "w").write("\n".join(body) + "\n")
        files.append(p)

    def one(p):
        r = subprocess.run(["coqc", "-Q", COQ, "GPV", "-w", "-all", p], cwd=d, capture_output=True, text=True,
                           timeout=timeout)
        return r
    with ThreadPoolExecutor(max_workers=NPROC) as ex:
        rs = list(ex.map(one, files))
    if any(r.returncode != 0 and "inconsistent assumptions" in (r.stdout + r.stderr) for r in rs):
        # a concurrent build replaced a .vo this shard depends on (only happens when several checks run at once):
        # bring the development up to date once and re-run the failed shards
        build_coq()
        with ThreadPoolExecutor(max_workers=NPROC) as ex:
            redo = [i for i, r in enumerate(rs) if r.returncode != 0]
            for i, r in zip(redo, ex.map(one, [files[i] for i in redo])):
                rs[i] = r
    out = []
    for p, r in zip(files, rs):
        if r.returncode != 0:
            raise RuntimeError("coqc failed on %s:\n%s" % (p, (r.stdout + r.stderr)[-4000:]))
        res = parse_coq_lists(r.stdout)
        if len(res) != 1:
            raise RuntimeError("unexpected coqc output for %s: %s" % (p, r.stdout[:2000]))
        out += res[0]
    if len(out) != len(cases):
        raise RuntimeError("model returned %d results for %d cases" % (len(out), len(cases)))
    return out


# --------------------------------------------------------------------------- numbers

def frac(x):
    """exact rational value of a python float / int / Fraction"""
    if isinstance(x, fractions.Fraction):
        return x
    if isinstance(x, int):
        return fractions.Fraction(x)
    return fractions.Fraction(*float(x).as_integer_ratio())


def qc_lit(x):
    f = frac(x)
    n = "%d" % f.numerator if f.numerator >= 0 else "(%d)" % f.numerator
    return "(qc %s %d)" % (n, f.denominator)


def qc_vec(v):
    return "[" + "; ".join(qc_lit(x) for x in v) + "]"


def qc_mat(m):
    return "[" + "; ".join(qc_vec(r) for r in m) + "]"


def z_lit(i):
    return "%d" % i if i >= 0 else "(%d)" % i


def z_list(v):
    return "[" + "; ".join(z_lit(int(x)) for x in v) + "]"


def nat_list(v):
    return "[" + "; ".join("%d%%nat" % int(x) for x in v) + "]"


def opt_z(x):
    return "None" if x is None else "(Some %s)" % z_lit(int(x))


class Reader:
    """sequential decoder of a model result (list of ints)"""

    def __init__(self, ints):
        self.a = ints
        self.i = 0

    def int(self):
        v = self.a[self.i]
        self.i += 1
        return v

    def q(self):
        n = self.int()
        d = self.int()
        return fractions.Fraction(n, d)

    def qs(self, k):
        return [self.q() for _ in range(k)]

    def qmat(self, n, m):
        return [[self.q() for _ in range(m)] for _ in range(n)]

    def done(self):
        return self.i >= len(self.a)

    def expr(self):
        """decode a serialised Expr.expr and evaluate it with mpmath"""
        import mpmath as mp
        t = self.int()
        if t == 0:
            f = self.q()
            return mp.mpf(f.numerator) / mp.mpf(f.denominator)
        if t == 1:
            return mp.pi
        if t in (2, 3, 4, 5, 14, 17, 18):
            a = self.expr()
            b = self.expr()
            return {2: lambda: a + b, 3: lambda: a - b, 4: lambda: a * b, 5: lambda: a / b,
                    14: lambda: mp.power(a, b), 17: lambda: max(a, b), 18: lambda: min(a, b)}[t]()
        if t == 15:
            n = self.int()
            a = self.expr()
            return a ** n
        a = self.expr()
        return {6: lambda: -a, 7: lambda: mp.exp(a), 8: lambda: mp.log(a), 9: lambda: mp.sqrt(a),
                10: lambda: mp.sin(a), 11: lambda: mp.cos(a), 12: lambda: mp.atan(a),
                13: lambda: mp.acos(a), 16: lambda: abs(a), 19: lambda: mp.ncdf(a),
                20: lambda: mp.loggamma(a), 21: lambda: mp.tanh(a)}[t]()


def close(impl, model, atol, rtol=0.0):
    m = float(model)
    i = float(impl)
    if m != m or i != i:
        return False
    return abs(i - m) <= atol + rtol * abs(m)


# --------------------------------------------------------------------------- findings / evidence

def load_known():
    p = os.path.join(VERIF, "known_findings.json")
    if not os.path.exists(p):
        return []
    return json.load(open(p)).get("findings", [])


class Outcome:
    """Collected by a driver.  A failure is dict(key=..., what=..., case=..., impl=..., model=...).
    `key` names the call site / input class; known findings are matched on (property, key regex)."""

    def __init__(self, pid, tier, seed):
        self.pid, self.tier, self.seed = pid, tier, seed
        self.failures = []
        self.evaluations = 0
        self.nontrivial = set()
        self.samples = []
        self.dist = {}
        self.notes = []
        self.exhaustive = None
        self.rule = ""
        self.ties = {}
        self.tested_not_proved = []
        self.extra = {}

    def count(self, label, k=1):
        self.dist[label] = self.dist.get(label, 0) + k

    def case(self, desc, nontrivial=True, label=None):
        self.evaluations += 1
        if nontrivial:
            self.nontrivial.add(hashlib.sha1(json.dumps(desc, sort_keys=True, default=str).encode()).hexdigest())
        if label:
            self.count(label)
        if len(self.samples) < 5 or (self.evaluations % 997 == 0 and len(self.samples) < 12):
            self.samples.append(desc)

    def fail(self, key, what, case, impl=None, model=None, **kw):
        d = dict(key=key, what=what, case=case, impl=impl, model=model)
        d.update(kw)
        self.failures.append(d)


def jsonable(x):
    try:
        import torch
        if isinstance(x, torch.Tensor):
            return x.detach().cpu().tolist()
    except Exception:
        pass
    if isinstance(x, fractions.Fraction):
        return float(x)
    if isinstance(x, (set, tuple)):
        return [jsonable(v) for v in x]
    if isinstance(x, list):
        return [jsonable(v) for v in x]
    if isinstance(x, dict):
        return {str(k): jsonable(v) for k, v in x.items()}
    if isinstance(x, (int, float, str, bool)) or x is None:
        return x
    if isinstance(x, slice):
        return "slice(%s,%s,%s)" % (x.start, x.stop, x.step)
    try:
        return float(x)
    except Exception:
        return repr(x)


def finish(out: Outcome, props: dict, t0: float, level_note=""):
    """Apply the verdict policy (DESIGN §5), write evidence, print lines, return exit code."""
    pid = out.pid
    known = [k for k in load_known() if k.get("property") == pid and k.get("status", "known") == "known"]
    reported, new = {}, []
    for f in out.failures:
        hit = None
        for k in known:
            if re.search(k["key"], f["key"]):
                hit = k
                break
        if hit is not None:
            reported.setdefault(hit["id"], (hit, 0))
            reported[hit["id"]] = (hit, reported[hit["id"]][1] + 1)
        else:
            new.append(f)
    for hid, (k, n) in sorted(reported.items()):
        log("KNOWN-FINDING: property=%s %s [%s; %d failing case(s) this run]" % (pid, k["what"], hid, n))
    code = 0
    os.makedirs(REPLAYS, exist_ok=True)
    for old in glob.glob(os.path.join(REPLAYS, pid + "_*.json")):
        os.remove(old)
    if not props.get("ok", False):
        code = 1
        rp = os.path.join(REPLAYS, "%s_proof.json" % pid)
        json.dump(dict(property=pid, kind="proof-obligation", theorem_file="coq/Props/%s.v" % pid,
                       foreign_axioms=props.get("foreign_axioms"), log=props.get("log", "")[-6000:]),
                  open(rp, "w"), indent=1)
        if not new:
            log("VIOLATION property=%s replay=%s no-failing-input-found" % (pid, rp))
    if new:
        code = 1
        # group by key; one replay per key (first = smallest case if the driver sorted them)
        seen = {}
        for f in new:
            seen.setdefault(f["key"], f)
        for i, (key, f) in enumerate(sorted(seen.items())):
            rp = os.path.join(REPLAYS, "%s_%s.json" % (pid, hashlib.sha1(key.encode()).hexdigest()[:10]))
            json.dump(jsonable(dict(property=pid, seed=out.seed, tier=out.tier, **f)), open(rp, "w"), indent=1)
            tail = " no-failing-input-found" if f.get("no_input") else ""
            log("VIOLATION property=%s replay=%s%s" % (pid, rp, tail))
            log("  what: %s" % f["what"])
    nthm = len(props.get("theorems", []))
    cov = dict(
        obligations=max(nthm, 1), discharged=nthm if props.get("ok") else 0,
        checker_cmd="cd /verif/coq && make -f Makefile.coq && coqc -Q . GPV Props/%s.v  (via ./check %s)" % (pid, pid),
        trusted_base=sorted({"Coq 8.16.1 kernel + vm_compute"} |
                            {a for v in props.get("assumptions", {}).values() for a in v}),
        theorems=props.get("theorems", []), assumptions_per_theorem=props.get("assumptions", {}),
        evaluations=out.evaluations, distinct_nontrivial=len(out.nontrivial), rule=out.rule,
        samples=jsonable(out.samples[:12]), input_distribution=out.dist, ties=out.ties,
        tested_not_proved=out.tested_not_proved, notes=out.notes,
        known_findings_reported=sorted(reported.keys()),
        failures=len(out.failures), new_failures=len(new))
    if not props.get("ok"):
        # a proof-level evidence file must have discharged == obligations >= 1; when the proof side is broken
        # this run is NOT proof-level evidence: drop the proof keys (the exploration counts remain) and say so
        cov.pop("discharged", None)
        cov["proof_status"] = "BROKEN: " + (props.get("log", "")[-400:] or "property theorems did not check")
    if out.exhaustive is not None:
        cov["exhaustive"] = bool(out.exhaustive)
    cov.update(out.extra)
    ev = dict(property_id=pid, tier=out.tier, seed=out.seed, level="proof", coverage=cov,
              assumptions=[level_note] if level_note else [], wall_s=round(time.time() - t0, 2),
              violations=len({f["key"] for f in new}) + (0 if props.get("ok") else 1))
    os.makedirs(EVID, exist_ok=True)
    json.dump(ev, open(os.path.join(EVID, pid + ".json"), "w"), indent=1)
    log("%s tier=%s: %d theorems (%s), %d cases (%d distinct non-trivial), %d failures (%d new) in %.1fs -> exit %d"
        % (pid, out.tier, nthm, "ok" if props.get("ok") else "BROKEN", out.evaluations, len(out.nontrivial),
           len(out.failures), len(new), time.time() - t0, code))
    return code
