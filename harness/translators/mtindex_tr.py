"""Tie T for C11: fail-closed translator of the integer index arithmetic of
`MultitaskMultivariateNormal.__getitem__`, `_normalize_index`, `_normalize_slice` and
`to_data_independent_dist`  ->  coq/Gen/MTIndex_gen.v  (vocabulary of coq/Models/C11_mtmvn.v).

What is regenerated from the current source text (every arithmetic expression / comparison below is
translated generically from the `ast`; nothing is copied from the hand model):

  gen_normalize_index / gen_normalize_index_t   `_normalize_index`: int branch, tensor branch (elementwise)
  gen_normalize_slice                           `_normalize_slice`: s.indices(dim_size), returned triple
  gen_row_idx gen_col_idx gen_num_rows gen_num_cols   the layout swap `if self._interleaved: ... else: ...`
  gen_code_indices                              the if / elif chain over (row_idx, col_idx) kinds with the index
                                                expression of every branch (int x int, int x slice, slice x int,
                                                full, meshgrid, pairs)
  gen_infix_length gen_infix_bad gen_add_task gen_batch_only gen_too_many
                                                the tuple normalisation thresholds (ellipsis, omitted task index)
  gen_tdid_data / gen_tdid_task                 the two aranges of to_data_independent_dist (start, stop, step)

Control structure is matched against strict templates (`ast.dump` equality): the isinstance tests of the
chain, the statements that build the covariance from an index (`DiagLinearOperator(...diagonal()[batch_idx +
(E,)])`, `cov[batch_idx + (new_slice, new_slice)]`, `cov[batch_idx]`, `cov[batch_idx + (indices,)][...,
indices]`, meshgrid 'ij'), the result constructors.  Anything else raises common.Unparsed -- nothing is
skipped silently.

Python semantics assumed (trusted; validated by tie C on every run): `slice.indices(n)` = PySlice.slice_indices,
`cov[slice, slice]` on an N x N operator selects PySlice.slice_positions N, `torch.arange(n)[slice]` =
slice_positions n, `torch.where(c, a, b)` elementwise, broadcasting of 1-D index tensors (`bcast2`), meshgrid
indexing='ij' + reshape(-1) = row-major outer enumeration, `//` `%` = Z.div / Z.modulo (positive divisor).

Obligations over the regenerated text (static files Proofs/C11_gen.v, Props/C11.v, rebuilt whenever the text
changes): gen_* = the proved model for ALL arguments, hence the index theorems hold of the regenerated
arithmetic."""
from __future__ import annotations

import ast
import hashlib
import os

from harness.lib import common as C

SRC_REL = os.path.join("gpytorch", "distributions", "multitask_multivariate_normal.py")
GEN = os.path.join(C.COQ, "Gen", "MTIndex_gen.v")


def U(node, what):
    raise C.Unparsed("%s at line %s: %s" % (type(node).__name__, getattr(node, "lineno", "?"), what))


def zl(v):
    return "%d" % v if v >= 0 else "(%d)" % v


def dump(n):
    return ast.dump(n)


def tmpl_stmt(src):
    return dump(ast.parse(src).body[0])


def tmpl_expr(src):
    return dump(ast.parse(src, mode="eval").body)


def is_doc(st):
    return isinstance(st, ast.Expr) and isinstance(st.value, ast.Constant) and isinstance(st.value.value, str)


def strip_doc(stmts):
    return [s for s in stmts if not is_doc(s)]


class Expr:
    """integer expressions / comparisons over an environment  python-expression-dump -> coq text"""

    def __init__(self, names=None, atoms=None):
        self.names = dict(names or {})      # python name -> coq text (ints)
        self.atoms = dict(atoms or {})      # ast.dump of a python expression -> coq text (ints)
        self.slices = {}                    # python name -> prefix of the coq names holding start/stop/step

    def int(self, e):
        d = dump(e)
        if d in self.atoms:
            return self.atoms[d]
        if isinstance(e, ast.Constant) and isinstance(e.value, int) and not isinstance(e.value, bool):
            return zl(e.value)
        if isinstance(e, ast.Name):
            if e.id in self.names:
                return self.names[e.id]
            U(e, "name %s is not an integer bound so far" % e.id)
        if isinstance(e, ast.Attribute) and e.attr in ("start", "stop", "step") and isinstance(e.value, ast.Name):
            if e.value.id in self.slices:
                return "%s_%s" % (self.slices[e.value.id], e.attr)
            U(e, "%s.%s: %s is not a normalised slice" % (e.value.id, e.attr, e.value.id))
        if isinstance(e, ast.UnaryOp) and isinstance(e.op, ast.USub):
            return "(- %s)" % self.int(e.operand)
        if isinstance(e, ast.BinOp):
            tab = {ast.Add: "(%s + %s)", ast.Sub: "(%s - %s)", ast.Mult: "(%s * %s)", ast.FloorDiv: "(%s / %s)",
                   ast.Mod: "(%s mod %s)"}
            for k, f in tab.items():
                if isinstance(e.op, k):
                    return f % (self.int(e.left), self.int(e.right))
            U(e, "binary operator")
        U(e, "integer expression outside the subset")

    def cond(self, e):
        if isinstance(e, ast.Compare) and len(e.ops) == 1:
            a, b = self.int(e.left), self.int(e.comparators[0])
            tab = {ast.Eq: "(%s =? %s)", ast.NotEq: "(negb (%s =? %s))", ast.Lt: "(%s <? %s)", ast.LtE: "(%s <=? %s)",
                   ast.Gt: "(%s >? %s)", ast.GtE: "(%s >=? %s)"}
            for k, f in tab.items():
                if isinstance(e.ops[0], k):
                    return f % (a, b)
        U(e, "condition outside the subset")


# ------------------------------------------------------------------------------- module-level helpers

def find(tree):
    cls = fn_i = fn_s = None
    for n in tree.body:
        if isinstance(n, ast.ClassDef) and n.name == "MultitaskMultivariateNormal":
            cls = n
        if isinstance(n, ast.FunctionDef) and n.name == "_normalize_index":
            fn_i = n
        if isinstance(n, ast.FunctionDef) and n.name == "_normalize_slice":
            fn_s = n
    if cls is None or fn_i is None or fn_s is None:
        raise C.Unparsed("MultitaskMultivariateNormal / _normalize_index / _normalize_slice not found")
    meth = {f.name: f for f in cls.body if isinstance(f, ast.FunctionDef)}
    for m in ("__getitem__", "to_data_independent_dist"):
        if m not in meth:
            raise C.Unparsed("method %s not found" % m)
    return meth["__getitem__"], meth["to_data_independent_dist"], fn_i, fn_s


def argnames(fn):
    a = fn.args
    if a.vararg or a.kwarg or a.kwonlyargs or a.posonlyargs:
        U(fn, "signature")
    return [x.arg for x in a.args]


def tr_normalize_index(fn):
    """def _normalize_index(i, dim_size): if torch.is_tensor(i): return torch.where(c, a, b) elif c': return a' else: return b'"""
    if argnames(fn) != ["i", "dim_size"]:
        U(fn, "signature of _normalize_index")
    body = strip_doc(fn.body)
    if len(body) != 1 or not isinstance(body[0], ast.If):
        U(fn, "_normalize_index is not a single if / elif / else")
    top = body[0]
    if dump(top.test) != tmpl_expr("torch.is_tensor(i)"):
        U(top, "first test is not torch.is_tensor(i)")
    ex = Expr({"i": "i", "dim_size": "dim_size"})
    if len(top.body) != 1 or not isinstance(top.body[0], ast.Return):
        U(top, "tensor branch is not a single return")
    w = top.body[0].value
    if not (isinstance(w, ast.Call) and dump(w.func) == tmpl_expr("torch.where") and len(w.args) == 3 and not w.keywords):
        U(w, "tensor branch is not torch.where(cond, a, b)")
    tens = "if %s then %s else %s" % (ex.cond(w.args[0]), ex.int(w.args[1]), ex.int(w.args[2]))

    def scalar(stmts):
        stmts = strip_doc(stmts)
        if len(stmts) == 1 and isinstance(stmts[0], ast.Return) and stmts[0].value is not None:
            return ex.int(stmts[0].value)
        if len(stmts) == 1 and isinstance(stmts[0], ast.If):
            s = stmts[0]
            if not s.orelse:
                U(s, "if without else in _normalize_index")
            return "(if %s then %s else %s)" % (ex.cond(s.test), scalar(s.body), scalar(s.orelse))
        U(stmts[0] if stmts else fn, "scalar branch of _normalize_index")
    if not top.orelse:
        U(top, "_normalize_index has no scalar branch")
    return scalar(top.orelse), tens


def tr_normalize_slice(fn):
    """start, stop, step = s.indices(dim_size); return slice(e1, e2, e3)"""
    if argnames(fn) != ["s", "dim_size"]:
        U(fn, "signature of _normalize_slice")
    body = strip_doc(fn.body)
    if len(body) != 2:
        U(fn, "_normalize_slice is not `a, b, c = s.indices(dim_size); return slice(..)`")
    asg, ret = body
    if not (isinstance(asg, ast.Assign) and len(asg.targets) == 1 and isinstance(asg.targets[0], ast.Tuple)
            and len(asg.targets[0].elts) == 3 and all(isinstance(x, ast.Name) for x in asg.targets[0].elts)
            and dump(asg.value) == tmpl_expr("s.indices(dim_size)")):
        U(asg, "expected `start, stop, step = s.indices(dim_size)`")
    nm = [x.id for x in asg.targets[0].elts]
    if len(set(nm)) != 3 or set(nm) & {"s", "dim_size"}:
        U(asg, "unpacking targets")
    ex = Expr({"dim_size": "dim_size", nm[0]: "ix_start", nm[1]: "ix_stop", nm[2]: "ix_step"})
    if not (isinstance(ret, ast.Return) and isinstance(ret.value, ast.Call) and isinstance(ret.value.func, ast.Name)
            and ret.value.func.id == "slice" and len(ret.value.args) == 3 and not ret.value.keywords):
        U(ret, "expected `return slice(a, b, c)`")
    return tuple(ex.int(a) for a in ret.value.args)


# ------------------------------------------------------------------------------- __getitem__

KIND_TESTS = [
    ("int_int", "isinstance(row_idx, int) and isinstance(col_idx, int)"),
    ("int_slice", "isinstance(row_idx, int) and isinstance(col_idx, slice)"),
    ("slice_int", "isinstance(row_idx, slice) and isinstance(col_idx, int)"),
    ("full", "isinstance(row_idx, slice) and isinstance(col_idx, slice) and row_idx == col_idx == slice(None, None, None)"),
    ("mesh", "isinstance(row_idx, slice) or isinstance(col_idx, slice)"),
]
COV = "self.lazy_covariance_matrix"
RET_MVN = [tmpl_stmt("return MultivariateNormal(mean=new_mean, covariance_matrix=new_cov)"),
           tmpl_stmt("return MultivariateNormal(mean=new_mean, covariance_matrix=new_cov,)")]
RET_MT = [tmpl_stmt("return MultitaskMultivariateNormal(mean=new_mean, covariance_matrix=new_cov, "
                    "interleaved=self._interleaved, validate_args=False)"),
          tmpl_stmt("return MultitaskMultivariateNormal(mean=new_mean, covariance_matrix=new_cov, "
                    "interleaved=self._interleaved)")]


def chain(st):
    """flatten if / elif / ... / else into [(test, body)], else_body"""
    arms = []
    while True:
        arms.append((st.test, st.body))
        if len(st.orelse) == 1 and isinstance(st.orelse[0], ast.If):
            st = st.orelse[0]
            continue
        return arms, st.orelse


def call_norm(e, fname):
    """_normalize_X(NAME, EXPR) -> (NAME, EXPR node)"""
    if isinstance(e, ast.Call) and isinstance(e.func, ast.Name) and e.func.id == fname and len(e.args) == 2 \
            and not e.keywords and isinstance(e.args[0], ast.Name):
        return e.args[0].id, e.args[1]
    return None


class Branch:
    """one arm of the chain: row_idx / col_idx start with the kind named by the arm"""

    def __init__(self, kinds, ret_mt):
        self.ex = Expr({"num_rows": "num_rows", "num_cols": "num_cols"})
        self.kind = dict(kinds)            # row_idx / col_idx -> raw-int | raw-slice | int | nslice
        self.raw = {"row_idx": "row_idx", "col_idx": "col_idx"}     # coq names of the matched raw components
        self.lines = []
        self.closers = 0
        self.slice3 = {}
        self.result = None
        self.ret_mt = ret_mt
        self.fresh = 0

    def stmt(self, st):
        if is_doc(st):
            return
        if self.result is not None:
            if isinstance(st, ast.Return) and dump(st) in (RET_MT if self.ret_mt else RET_MVN):
                self.result = (self.result[0], True)
                return
            U(st, "expected the result constructor after new_cov")
        if not (isinstance(st, ast.Assign) and len(st.targets) == 1 and isinstance(st.targets[0], ast.Name)):
            U(st, "statement outside the subset")
        tgt, val = st.targets[0].id, st.value
        ni = call_norm(val, "_normalize_index")
        if ni is not None:
            src, dim = ni
            if src != tgt or self.kind.get(src) != "raw-int":
                U(st, "_normalize_index on %s (kind %s)" % (src, self.kind.get(src)))
            self.fresh += 1
            cname = "%s_%d" % (tgt, self.fresh)
            self.lines.append("let %s := gen_normalize_index %s %s in" % (cname, self.raw[src], self.ex.int(dim)))
            self.ex.names[tgt] = cname
            self.kind[tgt] = "int"
            return
        ns = call_norm(val, "_normalize_slice")
        if ns is not None:
            src, dim = ns
            if src != tgt or self.kind.get(src) != "raw-slice":
                U(st, "_normalize_slice on %s (kind %s)" % (src, self.kind.get(src)))
            self.fresh += 1
            pre = "%s_%d" % (tgt, self.fresh)
            self.lines.append("match gen_normalize_slice %s %s with None => None | Some (%s_start, %s_stop, %s_step) =>"
                              % (self.raw[src], self.ex.int(dim), pre, pre, pre))
            self.closers += 1
            self.ex.slices[tgt] = pre
            self.kind[tgt] = "nslice"
            return
        if isinstance(val, ast.Call) and isinstance(val.func, ast.Name) and val.func.id == "slice" and len(val.args) == 3 \
                and not val.keywords and tgt == "new_slice":
            self.slice3[tgt] = tuple(self.ex.int(a) for a in val.args)
            return
        if tgt == "new_cov":
            # DiagLinearOperator(COV.diagonal()[batch_idx + (E,)])
            if isinstance(val, ast.Call) and isinstance(val.func, ast.Name) and val.func.id == "DiagLinearOperator" \
                    and len(val.args) == 1 and not val.keywords and isinstance(val.args[0], ast.Subscript) \
                    and dump(val.args[0].value) == tmpl_expr(COV + ".diagonal()"):
                k = val.args[0].slice
                if isinstance(k, ast.BinOp) and isinstance(k.op, ast.Add) and dump(k.left) == tmpl_expr("batch_idx") \
                        and isinstance(k.right, ast.Tuple) and len(k.right.elts) == 1:
                    self.result = ("Some [%s]" % self.ex.int(k.right.elts[0]), False)
                    return
                U(st, "diagonal index is not batch_idx + (E,)")
            if "new_slice" in self.slice3 and dump(val) == tmpl_expr(COV + "[batch_idx + (new_slice, new_slice)]"):
                a, b, k = self.slice3["new_slice"]
                self.result = ("slice_positions (num_rows * num_cols) (sl %s %s %s)" % (a, b, k), False)
                return
            U(st, "new_cov built in an unknown way")
        U(st, "assignment outside the subset")

    def text(self, ind):
        if self.result is None or not self.result[1]:
            raise C.Unparsed("a branch of __getitem__ does not end in new_cov + result constructor")
        out = [ind + l for l in self.lines] + [ind + self.result[0]] + ([ind + "end" * 1] * self.closers)
        return "\n".join(out)


def tr_vec_assign(st, name, num_names):
    """if isinstance(NAME, slice): NAME = torch.arange(A)[NAME] else: NAME = _normalize_index(NAME, B)  ->  (A, B)"""
    ex = Expr({n: n for n in num_names})
    if not (isinstance(st, ast.If) and dump(st.test) == tmpl_expr("isinstance(%s, slice)" % name) and len(st.body) == 1
            and len(st.orelse) == 1):
        U(st, "expected `if isinstance(%s, slice): .. else: ..`" % name)
    a, b = st.body[0], st.orelse[0]
    ok = (isinstance(a, ast.Assign) and len(a.targets) == 1 and dump(a.targets[0]) == dump(ast.Name(id=name, ctx=ast.Store()))
          and isinstance(a.value, ast.Subscript) and dump(a.value.slice) == tmpl_expr(name)
          and isinstance(a.value.value, ast.Call) and dump(a.value.value.func) == tmpl_expr("torch.arange")
          and len(a.value.value.args) == 1 and not a.value.value.keywords)
    if not ok:
        U(a, "expected `%s = torch.arange(N)[%s]`" % (name, name))
    A = ex.int(a.value.value.args[0])
    if not (isinstance(b, ast.Assign) and len(b.targets) == 1 and dump(b.targets[0]) == dump(ast.Name(id=name, ctx=ast.Store()))):
        U(b, "expected `%s = _normalize_index(%s, N)`" % (name, name))
    ni = call_norm(b.value, "_normalize_index")
    if ni is None or ni[0] != name:
        U(b, "expected `%s = _normalize_index(%s, N)`" % (name, name))
    return A, ex.int(ni[1])


def tr_mesh(body):
    body = strip_doc(body)
    if len(body) != 6:
        U(body[0], "meshgrid branch has %d statements, expected 6" % len(body))
    rA, rB = tr_vec_assign(body[0], "row_idx", ("num_rows", "num_cols"))
    cA, cB = tr_vec_assign(body[1], "col_idx", ("num_rows", "num_cols"))
    if dump(body[2]) != tmpl_stmt('row_grid, col_grid = torch.meshgrid(row_idx, col_idx, indexing="ij")'):
        U(body[2], "expected row_grid, col_grid = torch.meshgrid(row_idx, col_idx, indexing='ij')")
    st = body[3]
    if not (isinstance(st, ast.Assign) and len(st.targets) == 1 and dump(st.targets[0]) == dump(ast.Name(id="indices", ctx=ast.Store()))
            and isinstance(st.value, ast.Call) and isinstance(st.value.func, ast.Attribute) and st.value.func.attr == "reshape"
            and len(st.value.args) == 1 and dump(st.value.args[0]) == tmpl_expr("-1") and not st.value.keywords):
        U(st, "expected indices = (<expr>).reshape(-1)")
    ex = Expr({"num_rows": "num_rows", "num_cols": "num_cols", "row_grid": "row_grid", "col_grid": "col_grid"})
    e = ex.int(st.value.func.value)
    if dump(body[4]) != tmpl_stmt("new_cov = %s[batch_idx + (indices,)][..., indices]" % COV):
        U(body[4], "expected new_cov = cov[batch_idx + (indices,)][..., indices]")
    if dump(body[5]) not in RET_MT:
        U(body[5], "meshgrid branch does not return a MultitaskMultivariateNormal of (new_mean, new_cov)")
    return ("match gen_vec %s %s row_idx0, gen_vec %s %s col_idx0 with\n"
            "        | Some rows, Some cols => Some (flat_map (fun row_grid => map (fun col_grid => %s) cols) rows)\n"
            "        | _, _ => None end" % (rA, rB, cA, cB, e))


def tr_pairs(body):
    body = strip_doc(body)
    if len(body) != 5:
        U(body[0], "pairs branch has %d statements, expected 5" % len(body))
    ex0 = Expr({"num_rows": "num_rows", "num_cols": "num_cols"})
    dims = []
    for st, nm in zip(body[:2], ("row_idx", "col_idx")):
        ok = isinstance(st, ast.Assign) and len(st.targets) == 1 and dump(st.targets[0]) == dump(ast.Name(id=nm, ctx=ast.Store()))
        ni = call_norm(st.value, "_normalize_index") if ok else None
        if ni is None or ni[0] != nm:
            U(st, "expected %s = _normalize_index(%s, N)" % (nm, nm))
        dims.append(ex0.int(ni[1]))
    st = body[2]
    if not (isinstance(st, ast.Assign) and len(st.targets) == 1 and dump(st.targets[0]) == dump(ast.Name(id="indices", ctx=ast.Store()))):
        U(st, "expected indices = <expr>")
    ex = Expr({"num_rows": "num_rows", "num_cols": "num_cols", "row_idx": "row_idx", "col_idx": "col_idx"})
    e = ex.int(st.value)
    if dump(body[3]) != tmpl_stmt("new_cov = %s[batch_idx + (indices,)][..., indices]" % COV):
        U(body[3], "expected new_cov = cov[batch_idx + (indices,)][..., indices]")
    if dump(body[4]) not in RET_MVN:
        U(body[4], "pairs branch does not return a MultivariateNormal of (new_mean, new_cov)")
    return ("match gen_vec_nt %s row_idx0, gen_vec_nt %s col_idx0 with\n"
            "        | Some rows, Some cols =>\n"
            "            match bcast2 rows cols with\n"
            "            | Some ps => Some (map (fun p => let row_idx := fst p in let col_idx := snd p in %s) ps)\n"
            "            | None => None end\n"
            "        | _, _ => None end" % (dims[0], dims[1], e))


def tr_layout(st):
    """if self._interleaved: row_idx = idx[-2] ... else: ...  ->  four (then, else) pairs"""
    if not (isinstance(st, ast.If) and dump(st.test) == tmpl_expr("self._interleaved") and st.orelse):
        U(st, "expected `if self._interleaved: .. else: ..`")
    atoms = {tmpl_expr("idx[-2]"): "idx_m2", tmpl_expr("idx[-1]"): "idx_m1",
             tmpl_expr("self._output_shape[-2]"): "shape_m2", tmpl_expr("self._output_shape[-1]"): "shape_m1"}
    allowed = {"row_idx": ("idx_m2", "idx_m1"), "col_idx": ("idx_m2", "idx_m1"),
               "num_rows": ("shape_m2", "shape_m1"), "num_cols": ("shape_m2", "shape_m1")}

    def side(stmts):
        got = {}
        for s in strip_doc(stmts):
            if not (isinstance(s, ast.Assign) and len(s.targets) == 1 and isinstance(s.targets[0], ast.Name)):
                U(s, "layout block statement")
            nm = s.targets[0].id
            d = dump(s.value)
            if nm not in allowed or nm in got or d not in atoms or atoms[d] not in allowed[nm]:
                U(s, "layout block assignment")
            got[nm] = atoms[d]
        if set(got) != set(allowed):
            U(st, "layout block does not bind row_idx, col_idx, num_rows, num_cols")
        return got
    a, b = side(st.body), side(st.orelse)
    return {k: (a[k], b[k]) for k in allowed}


def tr_getitem(fn):
    if argnames(fn) != ["self", "idx"]:
        U(fn, "signature of __getitem__")
    body = strip_doc(fn.body)
    if len(body) != 4:
        U(fn, "__getitem__ has %d top-level statements, expected 4" % len(body))
    s_tuple, s_ell, s_mean, s_disp = body
    if dump(s_tuple) != tmpl_stmt("if not isinstance(idx, tuple):\n    idx = (idx,)"):
        U(s_tuple, "expected the tuple normalisation")
    if dump(s_mean) != tmpl_stmt("new_mean = self.mean[idx]"):
        U(s_mean, "expected new_mean = self.mean[idx]")
    # ---- ellipsis / omitted task index
    dimx = {tmpl_expr("self.mean.dim()"): "dim", tmpl_expr("len(idx)"): "len_idx", tmpl_expr("len(prefix)"): "len_prefix",
            tmpl_expr("len(suffix)"): "len_suffix"}
    if not (isinstance(s_ell, ast.If) and dump(s_ell.test) == tmpl_expr("... in idx") and len(s_ell.orelse) == 1
            and isinstance(s_ell.orelse[0], ast.If) and not s_ell.orelse[0].orelse):
        U(s_ell, "expected `if ... in idx: .. elif <cond>: ..`")
    eb = strip_doc(s_ell.body)
    want = ["ellipsis_location = idx.index(...)",
            "if ... in idx[ellipsis_location + 1 :]:\n    raise IndexError(\"Only one ellipsis '...' is supported!\")",
            "prefix = idx[:ellipsis_location]", "suffix = idx[ellipsis_location + 1 :]", None, None,
            "idx = prefix + (slice(None),) * infix_length + suffix"]
    if len(eb) != len(want):
        U(s_ell, "ellipsis block has %d statements, expected %d" % (len(eb), len(want)))
    for s, w in zip(eb, want):
        if w is not None and dump(s) != tmpl_stmt(w):
            U(s, "ellipsis block statement differs from the template `%s`" % w.split("\n")[0])
    ex = Expr(atoms=dimx)
    s_inf, s_bad = eb[4], eb[5]
    if not (isinstance(s_inf, ast.Assign) and len(s_inf.targets) == 1 and dump(s_inf.targets[0]) == dump(ast.Name(id="infix_length", ctx=ast.Store()))):
        U(s_inf, "expected infix_length = <expr>")
    infix = ex.int(s_inf.value)
    if not (isinstance(s_bad, ast.If) and not s_bad.orelse and len(s_bad.body) == 1 and isinstance(s_bad.body[0], ast.Raise)):
        U(s_bad, "expected `if <cond>: raise IndexError(..)`")
    bad = Expr({"infix_length": "infix_length"}, dimx).cond(s_bad.test)
    el = s_ell.orelse[0]
    if [dump(s) for s in strip_doc(el.body)] != [tmpl_stmt("idx = idx + (slice(None),)")]:
        U(el, "expected idx = idx + (slice(None),)")
    add_task = ex.cond(el.test)
    # ---- dispatch on the number of components
    arms, els = chain(s_disp)
    if len(arms) != 2 or not els:
        U(s_disp, "expected if (batch only) / elif (too many) / else (event index)")
    batch_only = ex.cond(arms[0][0])
    if [dump(s) for s in strip_doc(arms[0][1])] != [tmpl_stmt(
            "return MultitaskMultivariateNormal(mean=new_mean, covariance_matrix=%s[idx], interleaved=self._interleaved)" % COV)]:
        U(s_disp, "batch-only branch differs from the template")
    too_many = ex.cond(arms[1][0])
    if not (len(arms[1][1]) == 1 and isinstance(arms[1][1][0], ast.Raise)):
        U(s_disp, "too-many-dimensions branch does not raise")
    ev = strip_doc(els)
    if len(ev) != 3 or dump(ev[0]) != tmpl_stmt("batch_idx = idx[:-2]"):
        U(s_disp, "event branch: expected batch_idx = idx[:-2]; layout block; kind chain")
    layout = tr_layout(ev[1])
    # ---- the chain
    if not isinstance(ev[2], ast.If):
        U(ev[2], "expected the isinstance chain")
    karms, kelse = chain(ev[2])
    if len(karms) != len(KIND_TESTS) or not kelse:
        U(ev[2], "the isinstance chain has %d arms, expected %d + else" % (len(karms), len(KIND_TESTS)))
    for (nm, t), (test, _) in zip(KIND_TESTS, karms):
        if dump(test) != tmpl_expr(t):
            U(test, "arm `%s`: test differs from `%s`" % (nm, t))
    arms_txt = {}
    for (nm, _), (_, bd), kinds in zip(KIND_TESTS[:3], karms[:3], (
            {"row_idx": "raw-int", "col_idx": "raw-int"}, {"row_idx": "raw-int", "col_idx": "raw-slice"},
            {"row_idx": "raw-slice", "col_idx": "raw-int"})):
        br = Branch(kinds, ret_mt=False)
        for s in bd:
            br.stmt(s)
        arms_txt[nm] = br.text("      ")
    fb = strip_doc(karms[3][1])
    if len(fb) != 2 or dump(fb[0]) != tmpl_stmt("new_cov = %s[batch_idx]" % COV) or dump(fb[1]) not in RET_MT:
        U(karms[3][0], "full-slice branch differs from the template")
    arms_txt["mesh"] = tr_mesh(karms[4][1])
    arms_txt["pairs"] = tr_pairs(kelse)
    return dict(infix=infix, bad=bad, add_task=add_task, batch_only=batch_only, too_many=too_many, layout=layout,
                arms=arms_txt)


# ------------------------------------------------------------------------------- to_data_independent_dist

def tr_tdid(fn):
    body = strip_doc(fn.body)
    blk = [s for s in body if isinstance(s, ast.If) and dump(s.test) == tmpl_expr("self._interleaved")]
    if len(blk) != 1 or not blk[0].orelse:
        U(fn, "to_data_independent_dist: expected one `if self._interleaved: .. else: ..`")
    pos = body.index(blk[0])
    if pos + 2 >= len(body) or dump(body[pos - 1]) != tmpl_stmt("num_data, num_tasks = self.mean.shape[-2:]"):
        U(fn, "to_data_independent_dist: expected num_data, num_tasks = self.mean.shape[-2:] before the layout block")
    if dump(body[pos + 1]) != tmpl_stmt(
            "task_covars = full_covar[..., data_indices + task_indices.unsqueeze(-2), data_indices + task_indices.unsqueeze(-1)]"):
        U(body[pos + 1], "to_data_independent_dist: gather differs from the template")
    ex = Expr({"num_data": "num_data", "num_tasks": "num_tasks"})

    def arange(e, view):
        if view:
            if not (isinstance(e, ast.Call) and isinstance(e.func, ast.Attribute) and e.func.attr == "view"
                    and [dump(a) for a in e.args] == [tmpl_expr("-1"), tmpl_expr("1"), tmpl_expr("1")]):
                U(e, "expected torch.arange(..).view(-1, 1, 1)")
            e = e.func.value
        if not (isinstance(e, ast.Call) and dump(e.func) == tmpl_expr("torch.arange") and len(e.args) in (1, 3)
                and all(k.arg == "device" for k in e.keywords)):
            U(e, "expected torch.arange(n) / torch.arange(a, b, s)")
        a = [ex.int(x) for x in e.args]
        return ("0", a[0], "1") if len(a) == 1 else tuple(a)

    def side(stmts):
        got = {}
        for s in strip_doc(stmts):
            if not (isinstance(s, ast.Assign) and len(s.targets) == 1 and isinstance(s.targets[0], ast.Name)
                    and s.targets[0].id in ("data_indices", "task_indices") and s.targets[0].id not in got):
                U(s, "to_data_independent_dist layout block")
            nm = s.targets[0].id
            got[nm] = arange(s.value, view=(nm == "data_indices"))
        if set(got) != {"data_indices", "task_indices"}:
            U(blk[0], "to_data_independent_dist layout block")
        return got
    return side(blk[0].body), side(blk[0].orelse)


# ------------------------------------------------------------------------------- output

HELPERS = """
(* fixed vocabulary (not source dependent): the index vector the code works with.
   gen_vec A B x   = torch.arange(A)[x] for a slice, _normalize_index(x, B) for an int / index tensor
   gen_vec_nt B x  = _normalize_index(x, B) for an int / index tensor (slices cannot reach the last branch) *)
Definition gen_vec (A B : Z) (x : pyidx) : option (list Z) :=
  match x with
  | IInt i => Some [gen_normalize_index i B]
  | ISlice s => slice_positions A s
  | ITensor l => Some (map (fun i => gen_normalize_index_t i B) l)
  end.
Definition gen_vec_nt (B : Z) (x : pyidx) : option (list Z) :=
  match x with
  | IInt i => Some [gen_normalize_index i B]
  | ISlice s => None
  | ITensor l => Some (map (fun i => gen_normalize_index_t i B) l)
  end.
"""

TUPLE = """
(* index tuples (lines `if ... in idx` .. `elif len(idx) > self.mean.dim()`): the list surgery is the
   fixed skeleton of Models/C11_mtmvn.normalize_tuple, every threshold comes from the source *)
Definition gen_normalize_tuple (dim : Z) (idx : list pyidx_e)
  : option (list pyidx * option (pyidx * pyidx)) :=
  let expanded :=
    match split_ell idx with
    | (pre, Some suf) =>
        if existsb is_ell suf then None
        else let infix_length := gen_infix_length dim (Z.of_nat (length pre)) (Z.of_nat (length suf)) in
             if gen_infix_bad dim infix_length then None
             else Some (strip pre ++ repeat (ISlice full_slice) (Z.to_nat infix_length) ++ strip suf)
    | (pre, None) =>
        if gen_add_task dim (Z.of_nat (length pre)) then Some (strip pre ++ [ISlice full_slice])
        else Some (strip pre)
    end in
  match expanded with
  | None => None
  | Some l =>
      let len := Z.of_nat (length l) in
      if gen_batch_only dim len then Some (l, None)
      else if gen_too_many dim len then None
      else let nb := (length l - 2)%nat in
           match skipn nb l with
           | [ri; ci] => Some (firstn nb l, Some (ri, ci))
           | _ => None
           end
  end.

(* d[..., ri, ci] with the regenerated layout swap and branch arithmetic *)
Definition gen_getitem_event (il : bool) (n t : Z) (ri ci : pyidx) : option (list Z) :=
  match idx_positions n ri, idx_positions t ci with
  | Some _, Some _ =>
      gen_code_indices (gen_row_idx il ri ci) (gen_col_idx il ri ci) (gen_num_rows il n t) (gen_num_cols il n t)
  | _, _ => None
  end.

Definition gen_run_getitem (c : bool * Z * Z * Z * list pyidx_e) : list Z :=
  let '(il, dim, n, t, idx) := c in
  match gen_normalize_tuple dim idx with
  | None => [0]
  | Some (b, None) => [1; Z.of_nat (length b)]
  | Some (b, Some (ri, ci)) =>
      match gen_getitem_event il n t ri ci with
      | None => [0]
      | Some l => 2 :: Z.of_nat (length b) :: (if result_is_mt ri ci then 1 else 0)
                    :: Z.of_nat (length l) :: l
      end
  end.

(* to_data_independent_dist: entry (a, b) of block i is read at row data[i] + task[a] *)
Definition gen_tdid_index (il : bool) (n t i a : Z) : Z :=
  nth (Z.to_nat i) (gen_tdid_data il n t) 0 + nth (Z.to_nat a) (gen_tdid_task il n t) 0.
"""


def translate(repo=None):
    repo = repo or C.REPO
    path = os.path.join(repo, SRC_REL)
    src = open(path).read()
    tree = ast.parse(src)
    f_get, f_tdid, f_ni, f_ns = find(tree)
    ni_scalar, ni_tensor = tr_normalize_index(f_ni)
    ns = tr_normalize_slice(f_ns)
    g = tr_getitem(f_get)
    td_il, td_nil = tr_tdid(f_tdid)
    segs = [ast.get_source_segment(src, f) or "" for f in (f_get, f_tdid, f_ni, f_ns)]
    sha = hashlib.sha1("\n".join(segs).encode()).hexdigest()[:12]
    L = g["layout"]
    o = ["(* GENERATED by harness/translators/mtindex_tr.py -- do not edit.",
         "   source: %s  __getitem__ lines %d-%d, to_data_independent_dist %d-%d, _normalize_index %d-%d, "
         "_normalize_slice %d-%d  sha1=%s *)" % (SRC_REL, f_get.lineno, f_get.end_lineno, f_tdid.lineno, f_tdid.end_lineno,
                                                  f_ni.lineno, f_ni.end_lineno, f_ns.lineno, f_ns.end_lineno, sha),
         "From Coq Require Import ZArith Bool List.",
         "From GPV Require Import Base.PySlice Models.C11_mtmvn.",
         "Import ListNotations.",
         "Local Open Scope Z_scope.", "",
         "Definition gen_tie_available : bool := true.", "",
         "Definition gen_normalize_index (i dim_size : Z) : Z := %s." % ni_scalar,
         "Definition gen_normalize_index_t (i dim_size : Z) : Z := %s." % ni_tensor,
         "Definition gen_normalize_slice (s : pyslice) (dim_size : Z) : option (Z * Z * Z) :=",
         "  match slice_indices dim_size s with",
         "  | Some (ix_start, ix_stop, ix_step) => Some (%s, %s, %s)" % ns,
         "  | None => None",
         "  end.", HELPERS,
         "(* layout swap: idx_m2 = idx[-2], idx_m1 = idx[-1], shape_m2 / shape_m1 = _output_shape[-2] / [-1] *)"]
    for nm, ty in (("row_idx", "pyidx"), ("col_idx", "pyidx")):
        o.append("Definition gen_%s (il : bool) (idx_m2 idx_m1 : pyidx) : %s := if il then %s else %s." % (nm, ty, L[nm][0], L[nm][1]))
    for nm in ("num_rows", "num_cols"):
        o.append("Definition gen_%s (il : bool) (shape_m2 shape_m1 : Z) : Z := if il then %s else %s." % (nm, L[nm][0], L[nm][1]))
    A = g["arms"]
    o += ["",
          "Definition gen_code_indices (row_idx0 col_idx0 : pyidx) (num_rows num_cols : Z) : option (list Z) :=",
          "  match row_idx0, col_idx0 with",
          "  | IInt row_idx, IInt col_idx =>", A["int_int"],
          "  | IInt row_idx, ISlice col_idx =>", A["int_slice"],
          "  | ISlice row_idx, IInt col_idx =>", A["slice_int"],
          "  | _, _ =>",
          "      if is_full_slice row_idx0 && is_full_slice col_idx0 then Some (range_list 0 (num_rows * num_cols) 1)",
          "      else if is_slice row_idx0 || is_slice col_idx0 then",
          "        " + A["mesh"],
          "      else",
          "        " + A["pairs"],
          "  end.", "",
          "Definition gen_infix_length (dim len_prefix len_suffix : Z) : Z := %s." % g["infix"],
          "Definition gen_infix_bad (dim infix_length : Z) : bool := %s." % g["bad"],
          "Definition gen_add_task (dim len_idx : Z) : bool := %s." % g["add_task"],
          "Definition gen_batch_only (dim len_idx : Z) : bool := %s." % g["batch_only"],
          "Definition gen_too_many (dim len_idx : Z) : bool := %s." % g["too_many"], "",
          "Definition gen_tdid_data (il : bool) (num_data num_tasks : Z) : list Z :=",
          "  if il then range_list %s %s %s else range_list %s %s %s." % (td_il["data_indices"] + td_nil["data_indices"]),
          "Definition gen_tdid_task (il : bool) (num_data num_tasks : Z) : list Z :=",
          "  if il then range_list %s %s %s else range_list %s %s %s." % (td_il["task_indices"] + td_nil["task_indices"]),
          TUPLE]
    return "\n".join(o), dict(path=path, sha=sha, lines=dict(getitem=[f_get.lineno, f_get.end_lineno],
                                                             tdid=[f_tdid.lineno, f_tdid.end_lineno],
                                                             normalize=[f_ni.lineno, f_ns.end_lineno]))


FALLBACK_GEN = """(* tie T UNAVAILABLE: the translator could not parse the current source (%s).
   This file stands in so that the development builds; it binds the names to the hand-written
   model.  Nothing about /repo follows from theorems over it; the check records ties.T = unparsed
   and relies on tie C at thorough depth (DESIGN section 5). *)
From Coq Require Import ZArith Bool List.
From GPV Require Import Base.PySlice Models.C11_mtmvn.
Import ListNotations.
Local Open Scope Z_scope.
Definition gen_tie_available : bool := false.
Definition gen_normalize_index := normalize_index.
Definition gen_normalize_index_t := normalize_index.
Definition gen_normalize_slice := normalize_slice.
Definition gen_row_idx (il : bool) (idx_m2 idx_m1 : pyidx) : pyidx := if il then idx_m2 else idx_m1.
Definition gen_col_idx (il : bool) (idx_m2 idx_m1 : pyidx) : pyidx := if il then idx_m1 else idx_m2.
Definition gen_num_rows (il : bool) (shape_m2 shape_m1 : Z) : Z := if il then shape_m2 else shape_m1.
Definition gen_num_cols (il : bool) (shape_m2 shape_m1 : Z) : Z := if il then shape_m1 else shape_m2.
Definition gen_code_indices := code_indices.
Definition gen_normalize_tuple := normalize_tuple.
Definition gen_getitem_event := getitem_event.
Definition gen_run_getitem := run_getitem.
Definition gen_tdid_data (il : bool) (num_data num_tasks : Z) : list Z :=
  if il then range_list 0 (num_data * num_tasks) num_tasks else range_list 0 num_data 1.
Definition gen_tdid_task (il : bool) (num_data num_tasks : Z) : list Z :=
  if il then range_list 0 num_tasks 1 else range_list 0 (num_data * num_tasks) num_data.
Definition gen_tdid_index (il : bool) (n t i a : Z) : Z :=
  nth (Z.to_nat i) (gen_tdid_data il n t) 0 + nth (Z.to_nat a) (gen_tdid_task il n t) 0.
Definition gen_infix_length (dim len_prefix len_suffix : Z) : Z := dim - len_prefix - len_suffix.
Definition gen_infix_bad (dim infix_length : Z) : bool := infix_length <? 0.
Definition gen_add_task (dim len_idx : Z) : bool := len_idx =? dim - 1.
Definition gen_batch_only (dim len_idx : Z) : bool := len_idx <=? dim - 2.
Definition gen_too_many (dim len_idx : Z) : bool := dim <? len_idx.
Definition gen_vec (A B : Z) (x : pyidx) : option (list Z) := idx_vector B x.
Definition gen_vec_nt (B : Z) (x : pyidx) : option (list Z) := idx_vector B x.
"""


def generate(repo=None):
    """write Gen/MTIndex_gen.v (only if the text changed).  Raises common.Unparsed after writing the
    stand-in file when the source is outside the subset."""
    os.makedirs(os.path.dirname(GEN), exist_ok=True)
    try:
        txt, info = translate(repo)
        err = None
    except C.Unparsed as e:
        txt, info, err = FALLBACK_GEN % str(e).replace("*)", "* )"), None, e
    except (OSError, SyntaxError) as e:
        err = C.Unparsed("cannot read / parse %s: %s" % (SRC_REL, e))
        txt, info = FALLBACK_GEN % str(err).replace("*)", "* )"), None
    if not os.path.exists(GEN) or open(GEN).read() != txt:
        open(GEN, "w").write(txt)
    if err is not None:
        raise err
    return info


if __name__ == "__main__":
    import sys
    t, info = translate(sys.argv[1] if len(sys.argv) > 1 else None)
    print(t)
    print(info)
