"""Tie T for C06 (ii): fail-closed translator of the multi-output slice-division arithmetic in
`LazyEvaluatedKernelTensor._getitem`  ->  coq/Gen/LazySlice_gen.v.

What is translated: the statement
        if num_outs_per_in_rows != 1 or num_outs_per_in_cols != 1:  <block>
of `_getitem` (the pre-processing that turns a slice of OUTPUT rows/columns into a slice of INPUT
rows of x1/x2), as one Gallina function

  gen_mo_getitem (num_outs_per_in_rows num_outs_per_in_cols shape_r shape_c : Z)
                 (row_index col_index : midx) : mo_result

in the vocabulary of coq/Models/C06_lazyslice.v.  `Fallback` = the code returns
`self.evaluate_kernel()._getitem(row_index, col_index, *batch_indices)` (evaluate first, index the
result); `Divided r c` = the code goes on with row_index = r, col_index = c applied to x1 / x2.

Accepted subset (anything else raises common.Unparsed -- nothing is skipped silently):
  statements   `if <cond>: return <fallback call>` (no else), `name = expr`,
               `a, b, c = (e1, e2, e3)`, comments / docstrings
  expressions  names bound so far, int literals, None, `X.start|stop|step` for X in
               {row_index, col_index} (only after the isinstance guard), `self.shape[-2|-1]`,
               `a or b`, `a and b` (booleans), `not a`, comparisons == != < <= > >= / `is [not] None`,
               `+ - * // %`, `isinstance(X, slice)`, `slice(a, b, c)`,
               `X if X is not None else Y`  /  `Y if X is None else X`
Checked about the rest of the function (structure only): before the block row_index / col_index /
the two output counts are bound exactly once (parameters, resp. the tuple-or-scalar unpacking of
`self.kernel.num_outputs_per_input(x1, x2)`); after the block row_index / col_index are not
re-bound and are used to subscript x1 / x2.  How x1/x2/kernel are then indexed is tie C's business.

Python semantics assumed (trusted, validated by tie C): `//` and `%` are floor division / modulo
with the sign of the divisor (= Coq Z.div / Z.modulo for a positive divisor), `a or b` returns a if
a is truthy else b, truthiness of ints (non-zero) and None (false).
"""
from __future__ import annotations

import ast
import hashlib
import os
import subprocess

from harness.lib import common as C

SRC_REL = os.path.join("gpytorch", "lazy", "lazy_evaluated_kernel_tensor.py")
GEN = os.path.join(C.COQ, "Gen", "LazySlice_gen.v")
PR, PC = "num_outs_per_in_rows", "num_outs_per_in_cols"
IDX = ("row_index", "col_index")


def U(node, what):
    raise C.Unparsed("%s at line %s: %s" % (type(node).__name__, getattr(node, "lineno", "?"), what))


def zl(v):
    return "%d" % v if v >= 0 else "(%d)" % v


class Tr:
    """expressions are translated to (coq_text, type) with type in {int, oint, bool, idx, none}"""

    def __init__(self):
        self.env = {PR: (PR, "int"), PC: (PC, "int"), "row_index": ("row_index", "idx"),
                    "col_index": ("col_index", "idx")}
        self.guarded = set()       # index names known to be slices (isinstance guard passed)
        self.orig = {"row_index", "col_index"}   # index names still holding the caller's value
        self.fresh = 0

    # ---------------------------------------------------------------- expressions
    def truthy(self, e):
        t, ty = self.expr(e)
        if ty == "bool":
            return t
        if ty == "int":
            return "(truthy_z %s)" % t
        if ty == "oint":
            return "(truthy_oz %s)" % t
        U(e, "truth value of a %s" % ty)

    def as_oint(self, e):
        t, ty = self.expr(e)
        if ty == "int":
            return "(Some %s)" % t
        if ty == "oint":
            return t
        if ty == "none":
            return "None"
        U(e, "expected int or None, got %s" % ty)

    def is_name(self, e, names):
        return isinstance(e, ast.Name) and e.id in names

    def same(self, a, b):
        return ast.dump(a) == ast.dump(b)

    def expr(self, e):
        if isinstance(e, ast.Constant):
            if e.value is None:
                return "None", "none"
            if isinstance(e.value, bool):
                return ("true" if e.value else "false"), "bool"
            if isinstance(e.value, int):
                return zl(e.value), "int"
            U(e, "constant %r" % (e.value,))
        if isinstance(e, ast.Name):
            if e.id not in self.env:
                U(e, "unbound name %s" % e.id)
            return self.env[e.id]
        if isinstance(e, ast.UnaryOp):
            if isinstance(e.op, ast.Not):
                return "(negb %s)" % self.truthy(e.operand), "bool"
            if isinstance(e.op, ast.USub):
                t, ty = self.expr(e.operand)
                if ty != "int":
                    U(e, "negation of %s" % ty)
                return "(- %s)" % t, "int"
            U(e, "unary operator")
        if isinstance(e, ast.Attribute):
            if e.attr in ("start", "stop", "step") and self.is_name(e.value, IDX):
                nm = e.value.id
                if nm not in self.guarded or nm not in self.orig:
                    U(e, "%s.%s read without a dominating isinstance(%s, slice) guard" % (nm, e.attr, nm))
                return "(sl_%s %s)" % (e.attr, self.env[nm][0]), "oint"
            U(e, "attribute .%s" % e.attr)
        if isinstance(e, ast.Subscript):
            # self.shape[-2] / self.shape[-1]
            v = e.value
            if (isinstance(v, ast.Attribute) and v.attr == "shape" and self.is_name(v.value, ("self",))):
                k = e.slice
                if isinstance(k, ast.UnaryOp) and isinstance(k.op, ast.USub) and isinstance(k.operand, ast.Constant) \
                        and k.operand.value in (1, 2):
                    return ("shape_r" if k.operand.value == 2 else "shape_c"), "int"
            U(e, "subscript outside self.shape[-2] / self.shape[-1]")
        if isinstance(e, ast.BoolOp):
            parts = [self.expr(v) for v in e.values]
            tys = [p[1] for p in parts]
            if all(t == "bool" for t in tys):
                op = " || " if isinstance(e.op, ast.Or) else " && "
                return "(" + op.join(p[0] for p in parts) + ")", "bool"
            if isinstance(e.op, ast.Or) and len(parts) == 2:
                (a, ta), (b, tb) = parts
                if ta == "oint" and tb == "int":
                    return "(py_or_oz %s %s)" % (a, b), "int"
                if ta == "int" and tb == "int":
                    return "(py_or_zz %s %s)" % (a, b), "int"
            U(e, "boolean operator on %s" % tys)
        if isinstance(e, ast.Compare):
            if len(e.ops) != 1:
                U(e, "chained comparison")
            op, l, r = e.ops[0], e.left, e.comparators[0]
            if isinstance(op, (ast.Is, ast.IsNot)):
                if not (isinstance(r, ast.Constant) and r.value is None):
                    U(e, "`is` against something other than None")
                t, ty = self.expr(l)
                if ty == "oint":
                    return "(%s %s)" % ("is_none" if isinstance(op, ast.Is) else "not_none", t), "bool"
                if ty == "int":
                    return ("false" if isinstance(op, ast.Is) else "true"), "bool"
                if ty == "none":
                    return ("true" if isinstance(op, ast.Is) else "false"), "bool"
                U(e, "`is None` on %s" % ty)
            (a, ta), (b, tb) = self.expr(l), self.expr(r)
            if ta != "int" or tb != "int":
                U(e, "comparison of %s with %s" % (ta, tb))
            tab = {ast.Eq: "(%s =? %s)", ast.NotEq: "(negb (%s =? %s))", ast.Lt: "(%s <? %s)",
                   ast.LtE: "(%s <=? %s)", ast.Gt: "(%s >? %s)", ast.GtE: "(%s >=? %s)"}
            for k, f in tab.items():
                if isinstance(op, k):
                    return f % (a, b), "bool"
            U(e, "comparison operator")
        if isinstance(e, ast.BinOp):
            (a, ta), (b, tb) = self.expr(e.left), self.expr(e.right)
            if ta != "int" or tb != "int":
                U(e, "arithmetic on %s, %s" % (ta, tb))
            tab = {ast.Add: "(%s + %s)", ast.Sub: "(%s - %s)", ast.Mult: "(%s * %s)",
                   ast.FloorDiv: "(%s / %s)", ast.Mod: "(%s mod %s)"}
            for k, f in tab.items():
                if isinstance(e.op, k):
                    return f % (a, b), "int"
            U(e, "binary operator")
        if isinstance(e, ast.IfExp):
            # X if X is not None else Y   |   Y if X is None else X
            t = e.test
            if isinstance(t, ast.Compare) and len(t.ops) == 1 and isinstance(t.comparators[0], ast.Constant) \
                    and t.comparators[0].value is None and isinstance(t.ops[0], (ast.Is, ast.IsNot)):
                x = t.left
                if isinstance(t.ops[0], ast.IsNot):
                    val, dflt = e.body, e.orelse
                else:
                    val, dflt = e.orelse, e.body
                if self.same(x, val):
                    (a, ta), (b, tb) = self.expr(x), self.expr(dflt)
                    if ta == "oint" and tb == "int":
                        return "(oz_default %s %s)" % (a, b), "int"
            U(e, "conditional expression outside `X if X is not None else Y`")
        if isinstance(e, ast.Call):
            if self.is_name(e.func, ("isinstance",)) and len(e.args) == 2 and not e.keywords \
                    and self.is_name(e.args[0], IDX) and self.is_name(e.args[1], ("slice",)):
                nm = e.args[0].id
                if nm not in self.orig:
                    U(e, "isinstance on a re-bound index")
                return "(is_slice %s)" % self.env[nm][0], "bool"
            if self.is_name(e.func, ("slice",)) and len(e.args) == 3 and not e.keywords:
                return "(MSlice (mks %s %s %s))" % tuple(self.as_oint(a) for a in e.args), "idx"
            U(e, "call")
        U(e, "expression")

    def cond(self, e):
        """truth value of an expression in condition position (`or`/`and` chains of ints are fine here)"""
        if isinstance(e, ast.BoolOp):
            op = " || " if isinstance(e.op, ast.Or) else " && "
            return "(" + op.join(self.cond(v) for v in e.values) + ")"
        return self.truthy(e)

    # ---------------------------------------------------------------- statements
    def is_fallback(self, e):
        """self.evaluate_kernel()._getitem(row_index, col_index, *batch_indices) with the caller's indices"""
        if not (isinstance(e, ast.Call) and isinstance(e.func, ast.Attribute) and e.func.attr == "_getitem"):
            return False
        rcv = e.func.value
        if not (isinstance(rcv, ast.Call) and isinstance(rcv.func, ast.Attribute) and rcv.func.attr == "evaluate_kernel"
                and self.is_name(rcv.func.value, ("self",)) and not rcv.args and not rcv.keywords):
            return False
        if e.keywords or len(e.args) != 3:
            return False
        a, b, c = e.args
        if not (self.is_name(a, ("row_index",)) and self.is_name(b, ("col_index",)) and isinstance(c, ast.Starred)
                and self.is_name(c.value, ("batch_indices",))):
            return False
        if not {"row_index", "col_index"} <= self.orig:
            U(e, "fallback call after row_index / col_index were re-bound")
        return True

    def guard_names(self, test):
        """names X for which `test` false implies isinstance(X, slice): test is a disjunction containing
        `not isinstance(X, slice)`"""
        out = set()
        parts = test.values if isinstance(test, ast.BoolOp) and isinstance(test.op, ast.Or) else [test]
        for p in parts:
            if isinstance(p, ast.UnaryOp) and isinstance(p.op, ast.Not) and isinstance(p.operand, ast.Call) \
                    and self.is_name(p.operand.func, ("isinstance",)) and len(p.operand.args) == 2 \
                    and self.is_name(p.operand.args[0], IDX) and self.is_name(p.operand.args[1], ("slice",)):
                out.add(p.operand.args[0].id)
        return out

    def bind(self, name, t, ty, node, lines, ind):
        if name in (PR, PC, "self", "batch_indices", "shape_r", "shape_c"):
            U(node, "assignment to %s" % name)
        self.fresh += 1
        cname = name if name not in ("row_index", "col_index") else "%s_%d" % (name, self.fresh)
        lines.append("%slet %s := %s in" % (ind, cname, t))
        self.env[name] = (cname, ty)
        self.orig.discard(name)

    def block(self, stmts, ind):
        """returns lines of a Gallina expression of type mo_result for `stmts; <fall through>`"""
        lines = []
        for st in stmts:
            if isinstance(st, ast.Expr) and isinstance(st.value, ast.Constant) and isinstance(st.value.value, str):
                continue
            if isinstance(st, ast.If):
                if st.orelse:
                    U(st, "if with else inside the block")
                if not (len(st.body) == 1 and isinstance(st.body[0], ast.Return) and st.body[0].value is not None
                        and self.is_fallback(st.body[0].value)):
                    U(st, "if body is not `return self.evaluate_kernel()._getitem(row_index, col_index, *batch_indices)`")
                g = self.guard_names(st.test)
                lines.append("%sif %s then Fallback else" % (ind, self.cond(st.test)))
                self.guarded |= g
                continue
            if isinstance(st, ast.Assign):
                if len(st.targets) != 1:
                    U(st, "chained assignment")
                tg = st.targets[0]
                if isinstance(tg, ast.Name):
                    t, ty = self.expr(st.value)
                    self.bind(tg.id, t, ty, st, lines, ind)
                    continue
                if isinstance(tg, ast.Tuple) and isinstance(st.value, ast.Tuple) and len(tg.elts) == len(st.value.elts) \
                        and all(isinstance(x, ast.Name) for x in tg.elts):
                    vals = [self.expr(v) for v in st.value.elts]     # all evaluated before any binding
                    for x, (t, ty) in zip(tg.elts, vals):
                        self.bind(x.id, t, ty, st, lines, ind)
                    continue
                U(st, "assignment target")
            U(st, "statement outside the subset")
        ri, tr = self.env["row_index"]
        ci, tc = self.env["col_index"]
        if tr != "idx" or tc != "idx":
            U(stmts[-1], "row_index / col_index are not indices at the end of the block")
        lines.append("%sDivided %s %s" % (ind, ri, ci))
        return lines


def find_getitem(tree):
    for n in tree.body:
        if isinstance(n, ast.ClassDef) and n.name == "LazyEvaluatedKernelTensor":
            for f in n.body:
                if isinstance(f, ast.FunctionDef) and f.name == "_getitem":
                    return f
    raise C.Unparsed("LazyEvaluatedKernelTensor._getitem not found")


def stores(node):
    return {n.id for n in ast.walk(node) if isinstance(n, ast.Name) and isinstance(n.ctx, ast.Store)}


def translate(repo=None):
    repo = repo or C.REPO
    path = os.path.join(repo, SRC_REL)
    src = open(path).read()
    fn = find_getitem(ast.parse(src))
    a = fn.args
    if [x.arg for x in a.args] != ["self", "row_index", "col_index"] or a.vararg is None or a.vararg.arg != "batch_indices" \
            or a.kwonlyargs or a.kwarg or a.defaults:
        U(fn, "signature of _getitem is not (self, row_index, col_index, *batch_indices)")
    # locate the block
    pos = None
    for k, st in enumerate(fn.body):
        if isinstance(st, ast.If) and {n.id for n in ast.walk(st.test) if isinstance(n, ast.Name)} == {PR, PC}:
            if pos is not None:
                U(st, "two statements test the number of outputs per input")
            pos = k
    if pos is None:
        U(fn, "the `if num_outs_per_in_rows != 1 or num_outs_per_in_cols != 1:` statement was not found")
    blk = fn.body[pos]
    if blk.orelse:
        U(blk, "multi-output block has an else branch")
    # before the block: row_index / col_index untouched; the two counts bound by the documented unpacking
    n_unpack = 0
    for st in fn.body[:pos]:
        s = stores(st)
        if s & {"row_index", "col_index", "self", "batch_indices"}:
            U(st, "row_index / col_index re-bound before the multi-output block")
        if s & {PR, PC}:
            ok = (isinstance(st, ast.If) and isinstance(st.test, ast.Call) and getattr(st.test.func, "id", "") == "isinstance"
                  and stores(st) == {PR, PC})
            if not ok:
                U(st, "unexpected binding of the number of outputs per input")
            n_unpack += 1
    if n_unpack != 1:
        U(fn, "the number of outputs per input is not unpacked exactly once before the block")
    # after the block: indices not re-bound, and used to subscript x1 / x2
    tail_src = ""
    for st in fn.body[pos + 1:]:
        if stores(st) & {"row_index", "col_index"}:
            U(st, "row_index / col_index re-bound after the multi-output block")
        tail_src += ast.dump(st)
    for nm in ("row_index", "col_index"):
        if "Name(id='%s', ctx=Load())" % nm not in tail_src:
            U(fn, "%s is not used after the multi-output block" % nm)
    tr = Tr()
    outer = tr.cond(blk.test)
    inner = tr.block(blk.body, "    ")
    seg = ast.get_source_segment(src, blk) or ""
    sha = hashlib.sha1(seg.encode()).hexdigest()[:12]
    out = ["(* GENERATED by harness/translators/lazyslice_tr.py -- do not edit.",
           "   source: %s  lines %d-%d  sha1(block)=%s *)" % (SRC_REL, blk.lineno, blk.end_lineno, sha),
           "From Coq Require Import ZArith Bool List.",
           "From GPV Require Import Base.PySlice Models.C06_lazyslice.",
           "Local Open Scope Z_scope.", "",
           "Definition gen_source_sha : list nat := nil.  (* %s *)" % sha, "",
           "Definition gen_mo_getitem (%s %s shape_r shape_c : Z) (row_index col_index : midx) : mo_result :=" % (PR, PC),
           "  if %s then" % outer] + inner + ["  else Divided row_index col_index.", ""]
    return "\n".join(out), dict(path=path, lines=[blk.lineno, blk.end_lineno], sha=sha)


FALLBACK_GEN = """(* tie T UNAVAILABLE: the translator could not parse the current source (%s).
   This file stands in so that the development builds; it binds the name to the hand-written
   reference arithmetic.  Nothing about /repo follows from theorems over it; the check records
   ties.T = unparsed and relies on tie C at thorough depth (DESIGN section 5). *)
From Coq Require Import ZArith Bool List.
From GPV Require Import Base.PySlice Models.C06_lazyslice.
Definition gen_source_sha : list nat := nil.
Definition gen_mo_getitem := ref_mo_getitem.
"""


def generate(repo=None):
    """write Gen/LazySlice_gen.v (only if the text changed, so that make does not rebuild for nothing).
    Raises common.Unparsed after writing the stand-in file when the source is outside the subset."""
    os.makedirs(os.path.dirname(GEN), exist_ok=True)
    try:
        txt, info = translate(repo)
        err = None
    except C.Unparsed as e:
        txt, info, err = FALLBACK_GEN % str(e).replace("*)", "* )"), None, e
    if not os.path.exists(GEN) or open(GEN).read() != txt:
        open(GEN, "w").write(txt)
    if err is not None:
        raise err
    return info


# ------------------------------------------------------------------------------- run-time obligation
# The full-strength statement (no hypothesis about stop = 0).  It is NOT part of the static
# development because it is false of snapshot 66db6d9 (`stop or size` maps an explicit stop of 0 to the
# full size); it is re-attempted on every run against the regenerated text.
FULL_OBLIGATION = """From Coq Require Import ZArith List Bool Lia.
From GPV Require Import Base.PySlice Models.C06_lazyslice Gen.LazySlice_gen Proofs.C06_lazyslice.
Local Open Scope Z_scope.
Theorem multi_output_slice_ok : forall pr pc n m ri ci r c,
  0 < pr -> 0 < pc -> 0 <= n -> 0 <= m -> (pr <> 1 \\/ pc <> 1) ->
  gen_mo_getitem pr pc (n * pr) (m * pc) (MSlice ri) (MSlice ci) = Divided r c ->
  exists r' c' rows cols, r = MSlice r' /\\ c = MSlice c' /\\
    slice_positions n r' = Some rows /\\ slice_positions m c' = Some cols /\\
    slice_positions (n * pr) ri = Some (expand pr rows) /\\
    slice_positions (m * pc) ci = Some (expand pc cols).
Proof. full_slice_ok_tac. Qed.
Print Assumptions multi_output_slice_ok.
"""


def check_full_obligation():
    """returns (ok, log).  Needs Proofs/C06_lazyslice.vo and Gen/LazySlice_gen.vo to be built."""
    d = os.path.join(C.BUILD, "C06_obl")
    os.makedirs(d, exist_ok=True)
    p = os.path.join(d, "LazySliceFull.v")
    open(p, "w").write(FULL_OBLIGATION)
    try:
        r = subprocess.run(["coqc", "-Q", C.COQ, "GPV", "-w", "-all", p], cwd=d, capture_output=True, text=True,
                           timeout=300)
    except subprocess.TimeoutExpired:
        return False, "coqc timed out on the full obligation"
    ok = r.returncode == 0 and "Closed under the global context" in r.stdout
    return ok, (r.stdout + r.stderr)[-3000:]


if __name__ == "__main__":
    import sys
    t, info = translate(sys.argv[1] if len(sys.argv) > 1 else None)
    print(t)
    print(info)
