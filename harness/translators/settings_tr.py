"""Tie T for C20: fail-closed translator  Python source of the settings classes  ->  Coq IR.

Reads  <repo>/gpytorch/settings.py, <repo>/gpytorch/beta_features.py and the installed
linear_operator/settings.py with `ast` and writes coq/Gen/Settings_gen.v: the class table
(name, base, class-body attribute defaults, methods) with every method body as a term of the IR
of coq/Models/C20_ir.v.  Anything outside the accepted subset raises common.Unparsed -- nothing is
ever skipped silently.  What IS deliberately dropped (and why that is sound for the property):

  * docstrings, `pass`                                             (no effect on settings state)
  * classes that are not context managers (neither define nor inherit __enter__/__exit__), e.g.
    beta_features._moved_beta_feature                               (cannot occur in a with-block)
  * class-body statements that create / configure an opaque helper object from an imported module
    (verbose_linalg's logger): the attribute is recorded with an opaque value
  * methods whose body is outside the subset are recorded as `m_body := None` -- allowed only if
    no translated code can call a method of that name (otherwise Unparsed)

Python semantics assumed by the translation (the trusted part, validated by tie C on every run):
`cls.x` / `self.__class__.x` read along the base chain and write the dynamic class's own slot;
`super().m(..)` resolves from the base of the class that defines the running method; `self.f.m(..)`
is a method call on the object stored in instance field f; positional/keyword/default argument
binding; `a if c else b`; `is None`, `is not None`, `==`, `in {literals}`, `not`.
`warnings.warn(<message>, <category>)` is NOT dropped: it becomes `SWarn "<class>.<method>#<k>"`, a potential
raise point (the warning filter may turn it into an exception; the model answers that question both ways).
Its arguments must be side-effect free (string literal / f-string / literal.format(..) over names and
attributes, a category name, stacklevel=<int>), otherwise Unparsed.
"""
from __future__ import annotations

import ast
import fractions
import importlib.util
import json
import os

from harness.lib import common as C

DTYPES = {"float": "float32", "float32": "float32", "double": "float64", "float64": "float64",
          "half": "float16", "float16": "float16", "bfloat16": "bfloat16"}
ROOT_METHODS = {"__init__", "__enter__", "__exit__", "on", "off", "is_default", "value", "num_probe_vectors"}


def U(node, what):
    raise C.Unparsed("%s at line %s: %s" % (type(node).__name__, getattr(node, "lineno", "?"), what))


def cs(s):  # Coq string literal
    return '"' + s.replace('"', '""') + '"'


def clist(items):
    return "[" + "; ".join(items) + "]"


def const_coq(v, node=None):
    if v is None:
        return "KNone"
    if v is True or v is False:
        return "(KBool %s)" % ("true" if v else "false")
    if isinstance(v, (int, float)):
        f = fractions.Fraction(repr(v)) if isinstance(v, float) else fractions.Fraction(v)
        n = "%d" % f.numerator if f.numerator >= 0 else "(%d)" % f.numerator
        return "(KNum %s %d)" % (n, f.denominator)
    if isinstance(v, str):
        return "(KStr %s)" % cs(v)
    U(node, "constant %r" % (v,))


class Module:
    def __init__(self, prefix, path, imports_from):
        self.prefix, self.path = prefix, path
        self.src = open(path).read()
        self.tree = ast.parse(self.src)
        self.imports_from = imports_from      # module name in an ImportFrom -> Module prefix
        self.names = {}                       # local name -> class id
        self.plain_modules = set()            # `import torch` style names
        self.other_names = set()              # from torch import Tensor
        self.classes = {}                     # class name -> ClassDef
        self.all = None


class Translator:
    def __init__(self, repo=None):
        repo = repo or C.REPO
        spec = importlib.util.find_spec("linear_operator")
        if spec is None or not spec.submodule_search_locations:
            raise C.Unparsed("linear_operator is not installed")
        lo_path = os.path.join(list(spec.submodule_search_locations)[0], "settings.py")
        self.mods = {
            "lo": Module("lo", lo_path, {}),
            "gp": Module("gp", os.path.join(repo, "gpytorch", "settings.py"), {"linear_operator.settings": "lo"}),
            "bf": Module("bf", os.path.join(repo, "gpytorch", "beta_features.py"), {"settings": "gp", "gpytorch.settings": "gp"}),
        }
        self.public = {"lo": "linear_operator.settings", "gp": "gpytorch.settings", "bf": "gpytorch.beta_features"}
        self.entries = {}      # class id -> dict
        self.order = []
        self.ignored = []
        self.called = set(ROOT_METHODS)
        self.opaque_methods = []
        self.warn_sites = []

    # ------------------------------------------------------------------ module level
    def scan_module(self, m: Module):
        for st in m.tree.body:
            if isinstance(st, ast.Expr) and isinstance(st.value, ast.Constant) and isinstance(st.value.value, str):
                continue
            if isinstance(st, ast.Import):
                for a in st.names:
                    m.plain_modules.add((a.asname or a.name).split(".")[0])
                continue
            if isinstance(st, ast.ImportFrom):
                modname = st.module or ""
                if modname == "__future__":
                    continue
                if modname in m.imports_from:
                    src = self.mods[m.imports_from[modname]]
                    for a in st.names:
                        if a.name not in src.classes:
                            U(st, "imported name %s is not a class of %s" % (a.name, src.path))
                        m.names[a.asname or a.name] = "%s.%s" % (src.prefix, a.name)
                else:
                    for a in st.names:
                        m.other_names.add(a.asname or a.name)
                continue
            if isinstance(st, ast.ClassDef):
                m.classes[st.name] = st
                m.names[st.name] = "%s.%s" % (m.prefix, st.name)
                continue
            if isinstance(st, ast.Assign) and len(st.targets) == 1 and isinstance(st.targets[0], ast.Name) \
                    and st.targets[0].id == "__all__" and isinstance(st.value, (ast.List, ast.Tuple)):
                m.all = [e.value for e in st.value.elts if isinstance(e, ast.Constant)]
                if len(m.all) != len(st.value.elts):
                    U(st, "__all__ is not a list of literals")
                continue
            U(st, "module-level statement outside the subset")

    # ------------------------------------------------------------------ expressions
    def is_cls(self, node, env):
        """node denotes the dynamic class: `cls` (in a classmethod) or `self.__class__`"""
        if isinstance(node, ast.Name) and env["kind"] == "MCls" and node.id == env["recv"]:
            return True
        return (isinstance(node, ast.Attribute) and node.attr == "__class__" and isinstance(node.value, ast.Name)
                and env["kind"] == "MInst" and node.value.id == env["recv"])

    def is_self(self, node, env):
        return isinstance(node, ast.Name) and env["kind"] == "MInst" and node.id == env["recv"]

    def args(self, call, env):
        out = []
        for a in call.args:
            if isinstance(a, ast.Starred):
                if isinstance(a.value, ast.Name) and a.value.id in env["star"]:
                    out.append('(Some "*", EVar %s)' % cs(a.value.id))
                else:
                    U(a, "starred argument that is not the method's own *args")
            else:
                out.append("(None, %s)" % self.expr(a, env))
        for k in call.keywords:
            if k.arg is None:
                if isinstance(k.value, ast.Name) and k.value.id in env["star"]:
                    out.append('(Some "*", EVar %s)' % cs(k.value.id))
                else:
                    U(k, "** argument that is not the method's own **kwargs")
            else:
                out.append("(Some %s, %s)" % (cs(k.arg), self.expr(k.value, env)))
        return clist(out)

    def literal(self, node, env):
        """constant expression -> Coq const, or None"""
        if isinstance(node, ast.Constant):
            return const_coq(node.value, node)
        if isinstance(node, ast.UnaryOp) and isinstance(node.op, ast.USub) and isinstance(node.operand, ast.Constant) \
                and isinstance(node.operand.value, (int, float)) and not isinstance(node.operand.value, bool):
            return const_coq(-node.operand.value, node)
        if isinstance(node, ast.Attribute) and isinstance(node.value, ast.Name) and node.value.id == "torch" \
                and "torch" in env["mod"].plain_modules and node.attr in DTYPES:
            return "(KDtype %s)" % cs(DTYPES[node.attr])
        if isinstance(node, ast.Name) and node.id in env["mod"].names and node.id not in env.get("locals", ()):
            return "(KCls %s)" % cs(env["mod"].names[node.id])
        return None

    def expr(self, node, env):
        lit = self.literal(node, env)
        if lit is not None:
            return "(EConst %s)" % lit
        if isinstance(node, ast.Name):
            if node.id in env["locals"]:
                return "(EVar %s)" % cs(node.id)
            U(node, "name %s is neither a local nor a settings class" % node.id)
        if isinstance(node, ast.Attribute):
            if self.is_self(node.value, env):
                return "(ESelfAttr %s)" % cs(node.attr)
            if self.is_cls(node.value, env):
                return "(EClsAttr %s)" % cs(node.attr)
            return "(EGetAttr %s %s)" % (self.expr(node.value, env), cs(node.attr))
        if isinstance(node, ast.UnaryOp) and isinstance(node.op, ast.Not):
            return "(ENot %s)" % self.expr(node.operand, env)
        if isinstance(node, ast.IfExp):
            return "(EIf %s %s %s)" % (self.expr(node.test, env), self.expr(node.body, env), self.expr(node.orelse, env))
        if isinstance(node, ast.Compare):
            if len(node.ops) != 1:
                U(node, "chained comparison")
            op, l, r = node.ops[0], node.left, node.comparators[0]
            isnone = isinstance(r, ast.Constant) and r.value is None
            if isinstance(op, ast.Is) and isnone:
                return "(EIsNone %s)" % self.expr(l, env)
            if isinstance(op, ast.IsNot) and isnone:
                return "(ENot (EIsNone %s))" % self.expr(l, env)
            if isinstance(op, (ast.Eq, ast.NotEq)):
                e = "(EEq %s %s)" % (self.expr(l, env), self.expr(r, env))
                return e if isinstance(op, ast.Eq) else "(ENot %s)" % e
            if isinstance(op, (ast.In, ast.NotIn)) and isinstance(r, (ast.Set, ast.List, ast.Tuple)):
                ks = [self.literal(x, env) for x in r.elts]
                if any(k is None for k in ks):
                    U(node, "membership in a non-literal collection")
                e = "(EIn %s %s)" % (self.expr(l, env), clist(ks))
                return e if isinstance(op, ast.In) else "(ENot %s)" % e
            U(node, "comparison operator")
        if isinstance(node, ast.Call):
            f = node.func
            if isinstance(f, ast.Attribute):
                if isinstance(f.value, ast.Name) and f.value.id == "torch" and f.attr == "is_tensor" \
                        and "torch" in env["mod"].plain_modules and len(node.args) == 1 and not node.keywords:
                    return "(EIsTensor %s)" % self.expr(node.args[0], env)
                if self.is_cls(f.value, env):
                    self.called.add(f.attr)
                    return "(ECallCls %s %s)" % (cs(f.attr), self.args(node, env))
                if isinstance(f.value, ast.Call) and isinstance(f.value.func, ast.Name) and f.value.func.id == "super" \
                        and not f.value.args and not f.value.keywords and env["kind"] in ("MInst", "MCls"):
                    self.called.add(f.attr)
                    return "(ECallSuper %s %s)" % (cs(f.attr), self.args(node, env))
                if isinstance(f.value, ast.Attribute) and self.is_self(f.value.value, env):
                    self.called.add(f.attr)
                    return "(ECallObj %s %s %s)" % (cs(f.value.attr), cs(f.attr), self.args(node, env))
                U(node, "call of %s" % ast.unparse(f))
            if isinstance(f, ast.Name) and f.id in env["mod"].names and f.id not in env["locals"]:
                self.called.add("__init__")
                return "(ENew %s %s)" % (cs(env["mod"].names[f.id]), self.args(node, env))
            U(node, "call of %s" % ast.unparse(f))
        U(node, "expression outside the subset: %s" % ast.unparse(node)[:60])

    # ------------------------------------------------------------------ statements
    def is_warn(self, st, env):
        return (isinstance(st, ast.Expr) and isinstance(st.value, ast.Call) and isinstance(st.value.func, ast.Attribute)
                and isinstance(st.value.func.value, ast.Name) and st.value.func.value.id == "warnings"
                and "warnings" in env["mod"].plain_modules and st.value.func.attr == "warn")

    def warn_site(self, st, env):
        """`warnings.warn(..)` -> SWarn site.  The arguments are not modelled, so they must not be able to do
        anything: no calls except <string literal>.format(..), no subscripts, no operators on non-literals."""
        call = st.value

        def pure(n, top=False):
            if isinstance(n, ast.Constant):
                return True
            if isinstance(n, ast.Name):
                return True
            if isinstance(n, ast.Attribute):
                return pure(n.value)
            if isinstance(n, ast.JoinedStr):
                return all(pure(v) for v in n.values)
            if isinstance(n, ast.FormattedValue):
                return pure(n.value) and (n.format_spec is None or pure(n.format_spec))
            if isinstance(n, ast.BinOp) and isinstance(n.op, ast.Add):
                return pure(n.left) and pure(n.right)
            if isinstance(n, ast.Call) and isinstance(n.func, ast.Attribute) and n.func.attr == "format" \
                    and isinstance(n.func.value, ast.Constant) and isinstance(n.func.value.value, str):
                return all(pure(a) for a in n.args) and all(k.arg is not None and pure(k.value) for k in n.keywords)
            return False
        if any(isinstance(a, ast.Starred) for a in call.args) or any(k.arg is None for k in call.keywords):
            U(st, "warnings.warn with * / ** arguments")
        for a in list(call.args) + [k.value for k in call.keywords]:
            if not pure(a):
                U(st, "warnings.warn argument outside the subset: %s" % ast.unparse(a)[:60])
        env["nwarn"] = env.get("nwarn", 0) + 1
        site = "%s.%s#%d" % (env["cid"], env["fn"], env["nwarn"])
        self.warn_sites.append(site)
        return "SWarn %s" % cs(site)

    def stmts(self, body, env):
        out = []
        for st in body:
            if isinstance(st, ast.Expr) and isinstance(st.value, ast.Constant) and isinstance(st.value.value, str):
                continue
            if isinstance(st, ast.Pass):
                out.append("SSkip")
            elif self.is_warn(st, env):
                out.append(self.warn_site(st, env))
            elif isinstance(st, ast.Expr):
                out.append("SExpr %s" % self.expr(st.value, env))
            elif isinstance(st, ast.Assign):
                if len(st.targets) != 1:
                    U(st, "multiple assignment targets")
                t = st.targets[0]
                if isinstance(t, ast.Name):
                    e = self.expr(st.value, env)
                    env["locals"].add(t.id)
                    out.append("SSetLocal %s %s" % (cs(t.id), e))
                elif isinstance(t, ast.Attribute) and self.is_cls(t.value, env):
                    out.append("SSetCls %s %s" % (cs(t.attr), self.expr(st.value, env)))
                elif isinstance(t, ast.Attribute) and self.is_self(t.value, env):
                    out.append("SSetSelf %s %s" % (cs(t.attr), self.expr(st.value, env)))
                else:
                    U(st, "assignment target %s" % ast.unparse(t))
            elif isinstance(st, ast.If):
                c = self.expr(st.test, env)
                out.append("SIf %s %s %s" % (c, self.stmts(st.body, env), self.stmts(st.orelse, env)))
            elif isinstance(st, ast.Return):
                out.append("SReturn %s" % ("(EConst KNone)" if st.value is None else self.expr(st.value, env)))
            elif isinstance(st, ast.Raise):
                nm = "Exception"
                if isinstance(st.exc, ast.Call) and isinstance(st.exc.func, ast.Name):
                    nm = st.exc.func.id
                elif isinstance(st.exc, ast.Name):
                    nm = st.exc.id
                out.append("SRaise %s" % cs(nm))
            else:
                U(st, "statement outside the subset")
        return clist(out)

    # ------------------------------------------------------------------ classes
    def method(self, fn: ast.FunctionDef, mod, cid):
        kind = "MInst"
        for d in fn.decorator_list:
            if isinstance(d, ast.Name) and d.id == "classmethod" and kind == "MInst":
                kind = "MCls"
            elif isinstance(d, ast.Name) and d.id == "staticmethod" and kind == "MInst":
                kind = "MStatic"
            else:
                U(fn, "decorator %s" % ast.unparse(d))
        a = fn.args
        if a.kwonlyargs or a.posonlyargs:
            U(fn, "keyword-only / positional-only parameters")
        names = [x.arg for x in a.args]
        recv = None
        if kind != "MStatic":
            if not names:
                U(fn, "method without receiver")
            recv, names = names[0], names[1:]
        star = [x.arg for x in (a.vararg, a.kwarg) if x is not None]
        env = dict(mod=mod, kind=kind, recv=recv, star=star, locals=set(names) | set(star), cid=cid, fn=fn.name)
        ndef = len(a.defaults)
        params, pinfo = [], []
        for i, nm in enumerate(names):
            j = i - (len(names) - ndef)
            if j >= 0:
                lit = self.literal(a.defaults[j], dict(env, locals=set()))
                if lit is None:
                    U(fn, "non-literal default for parameter %s" % nm)
                params.append("(%s, Some %s)" % (cs(nm), lit))
                pinfo.append([nm, ast.unparse(a.defaults[j])])
            else:
                params.append("(%s, None)" % cs(nm))
                pinfo.append([nm, None])
        try:
            body = "Some %s" % self.stmts(fn.body, env)
            why = None
        except C.Unparsed as e:
            body, why = "None", str(e)
            self.opaque_methods.append((cid, fn.name, why))
        coq = "{| m_name := %s; m_kind := %s; m_params := %s; m_star := %s;\n       m_body := %s |}" % (
            cs(fn.name), kind, clist(params), clist(cs(s) for s in star), body)
        return coq, dict(name=fn.name, kind=kind, params=pinfo, opaque=why)

    def klass(self, mod: Module, cd: ast.ClassDef):
        cid = mod.names[cd.name]
        if cd.keywords or cd.decorator_list:
            U(cd, "class keywords / decorators")
        bases = [b for b in cd.bases if not (isinstance(b, ast.Name) and b.id == "object")]
        if len(bases) > 1:
            U(cd, "multiple inheritance")
        base = None
        if bases:
            b = bases[0]
            if not (isinstance(b, ast.Name) and b.id in mod.names):
                U(cd, "base class %s is not a settings class" % ast.unparse(b))
            base = mod.names[b.id]
        attrs, methods, minfo, opaque_locals = [], [], [], set()
        env = dict(mod=mod, kind="body", recv=None, star=[], locals=set())
        for st in cd.body:
            if isinstance(st, ast.Expr) and isinstance(st.value, ast.Constant) and isinstance(st.value.value, str):
                continue
            if isinstance(st, ast.Pass):
                continue
            if isinstance(st, ast.FunctionDef):
                mc, mi = self.method(st, mod, cid)
                methods.append(mc)
                minfo.append(mi)
                continue
            if isinstance(st, ast.Assign) and len(st.targets) == 1 and isinstance(st.targets[0], ast.Name):
                nm = st.targets[0].id
                lit = self.literal(st.value, env)
                if lit is None:
                    v = st.value
                    root = v.func if isinstance(v, ast.Call) else None
                    while isinstance(root, ast.Attribute):
                        root = root.value
                    if isinstance(root, ast.Name) and root.id in mod.plain_modules and root.id != "torch":
                        lit = "(KOpaque %s)" % cs(ast.unparse(v)[:60])
                        opaque_locals.add(nm)
                    else:
                        U(st, "class attribute %s = %s" % (nm, ast.unparse(v)[:60]))
                attrs = [x for x in attrs if x[0] != nm] + [(nm, lit)]
                continue
            if isinstance(st, ast.Expr) and isinstance(st.value, ast.Call) and isinstance(st.value.func, ast.Attribute) \
                    and isinstance(st.value.func.value, ast.Name) and st.value.func.value.id in opaque_locals:
                continue      # configuration of an opaque helper object (logger.setLevel(...))
            U(st, "class-body statement outside the subset")
        coq = "{| c_name := %s; c_base := %s;\n     c_attrs := %s;\n     c_methods := %s |}" % (
            cs(cid), ("Some %s" % cs(base)) if base else "None",
            clist("(%s, %s)" % (cs(n), v) for n, v in attrs), clist("\n     " + m for m in methods))
        self.entries[cid] = dict(id=cid, name=cd.name, module=self.public[mod.prefix], base=base, coq=coq,
                                 attrs=[n for n, _ in attrs], methods=minfo, line=cd.lineno)
        self.order.append(cid)

    def has_method(self, cid, m):
        while cid is not None:
            e = self.entries[cid]
            if any(x["name"] == m for x in e["methods"]):
                return True
            cid = e["base"]
        return False

    def find_method(self, cid, m):
        while cid is not None:
            e = self.entries[cid]
            for x in e["methods"]:
                if x["name"] == m:
                    return x
            cid = e["base"]
        return None

    def translate(self):
        for p in ("lo", "gp", "bf"):
            self.scan_module(self.mods[p])
            for cd in self.mods[p].classes.values():
                self.klass(self.mods[p], cd)
        # keep context managers and their ancestors
        keep = set()
        for cid in self.order:
            if self.has_method(cid, "__enter__") and self.has_method(cid, "__exit__"):
                k = cid
                while k is not None:
                    keep.add(k)
                    k = self.entries[k]["base"]
        self.ignored = [c for c in self.order if c not in keep]
        self.order = [c for c in self.order if c in keep]
        for cid, m, why in self.opaque_methods:
            if cid in keep and m in self.called:
                raise C.Unparsed("method %s.%s is called by translated code but is outside the subset: %s" % (cid, m, why))
        exports = []
        for p in ("gp", "bf"):
            mod = self.mods[p]
            if mod.all is None:
                raise C.Unparsed("%s has no __all__" % mod.path)
            for nm in mod.all:
                if nm not in mod.names or mod.names[nm] not in keep:
                    raise C.Unparsed("exported name %s.%s is not a translated settings class" % (self.public[p], nm))
                exports.append((self.public[p] + "." + nm, mod.names[nm]))
        self.exports = exports
        return self

    # ------------------------------------------------------------------ output
    def coq_text(self):
        L = ["(* GENERATED by harness/translators/settings_tr.py -- do not edit.  Sources:"]
        for p in ("lo", "gp", "bf"):
            L.append("     %s = %s" % (p, self.mods[p].path))
        L.append("   ignored (not context managers): %s" % ", ".join(self.ignored))
        for cid, m, why in self.opaque_methods:
            L.append("   opaque method %s.%s: %s" % (cid, m, why.replace("*)", "* )")))
        L += ["*)", "From Coq Require Import List String ZArith Bool.", "From GPV Require Import Models.C20_ir.",
              "Import ListNotations.", "Open Scope string_scope.", "Open Scope Z_scope.", ""]
        for cid in self.order:
            L.append("Definition cls_%s : class_entry :=\n  %s.\n" % (cid.replace(".", "_"), self.entries[cid]["coq"]))
        L.append("Definition gen_table : table :=\n  %s.\n" % clist("cls_" + c.replace(".", "_") for c in self.order))
        L.append("(* public name -> class of the table, from __all__ of gpytorch.settings and gpytorch.beta_features *)")
        L.append("Definition gen_exports : list (string * string) :=\n  %s.\n" % clist(
            "\n   (%s, %s)" % (cs(a), cs(b)) for a, b in self.exports))
        L.append("Definition gen_parsed : bool := true.")
        return "\n".join(L) + "\n"

    def info(self):
        return dict(classes=[{k: v for k, v in self.entries[c].items() if k != "coq"} for c in self.order],
                    exports=self.exports, ignored=self.ignored,
                    warn_sites=[w for w in self.warn_sites if w.rsplit(".", 1)[0] in self.order],
                    sources={p: self.mods[p].path for p in self.mods})


def generate(repo=None, write=True):
    """translate; write coq/Gen/Settings_gen.v and build/C20_table.json; return the info dict"""
    try:
        tr = Translator(repo).translate()
    except SyntaxError as e:
        raise C.Unparsed("syntax error: %s" % e)
    txt = tr.coq_text()
    if write:
        os.makedirs(os.path.join(C.COQ, "Gen"), exist_ok=True)
        p = os.path.join(C.COQ, "Gen", "Settings_gen.v")
        if not os.path.exists(p) or open(p).read() != txt:
            open(p, "w").write(txt)
        os.makedirs(C.BUILD, exist_ok=True)
        json.dump(tr.info(), open(os.path.join(C.BUILD, "C20_table.json"), "w"), indent=1)
    return tr.info()


if __name__ == "__main__":
    import sys
    info = generate(sys.argv[1] if len(sys.argv) > 1 else None)
    print("%d classes, %d exports, ignored %s" % (len(info["classes"]), len(info["exports"]), info["ignored"]))
