#!/bin/bash
# tools/soak.sh "C01 C03 ..." "3 4 5"  : run quick checks for several seeds in a scratch dir (no evidence overwritten)
# prints one line per run; a non-zero exit on the unchanged tree is a false alarm (or a new finding) to triage.
props="$1"; seeds="$2"; scr=/tmp/scr_soak_$$; mkdir -p $scr
for s in $seeds; do for p in $props; do
  out=$(cd /verif && VERIF_SEED=$s VERIF_SCRATCH=$scr timeout 3000 ./check $p --tier quick 2>&1)
  echo "seed=$s $(echo "$out" | grep -E "^$p tier" | tail -1)"
  echo "$out" | grep -E "^VIOLATION|^  what" | cut -c1-300
done; done
rm -rf $scr
