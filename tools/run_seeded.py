#!/usr/bin/env python3
"""Run registered checks against the seeded changes kept under /verif/seeded/<prop>/<name>/patch.diff.

  tools/run_seeded.py [--only C01[,C03]] [--name m1] [--props C01,C10]  [--jobs 3] [--tier quick]

For every seeded change: a scratch worktree of /repo HEAD is created under /tmp, the patch is applied there,
`./check <prop>` is run with VERIF_REPO=<worktree> and VERIF_SCRATCH=<scratch dir> (so the committed
evidence/replays are untouched), and the verdict (exit code + VIOLATION lines) is written to
seeded/<prop>/<name>/result.json.  The worktree and the scratch dir are removed afterwards.
The check that is run is the one of the property the change was written against (meta.json "property"),
plus any listed with --props.  Properties with a translator tie (C20, C06, C11) regenerate coq/Gen/*.v in
place, so they are run one at a time and the Gen file is regenerated from /repo afterwards.
This is an experiment driver, not a registered check."""
import argparse
import concurrent.futures as cf
import glob
import json
import os
import shutil
import subprocess
import sys
import time

VERIF = os.path.dirname(os.path.dirname(os.path.abspath(__file__)))
TIE_T = {"C20", "C06", "C11"}


def sh(cmd, **kw):
    return subprocess.run(cmd, shell=True, capture_output=True, text=True, **kw)


def run_one(prop, name, check_props, tier):
    d = os.path.join(VERIF, "seeded", prop, name)
    tag = "%s_%s_%d" % (prop, name, os.getpid())
    wt = "/tmp/wt_seedrun_" + tag
    scr = "/tmp/scr_seedrun_" + tag
    sh("git -C /repo worktree remove --force %s" % wt)
    r = sh("git -C /repo worktree add -q --detach %s HEAD" % wt)
    res = {"property": prop, "name": name, "checks": {}}
    try:
        if r.returncode != 0:
            res["error"] = "worktree: " + r.stderr[-300:]
            return res
        r = sh("git -C %s apply %s" % (wt, os.path.join(d, "patch.diff")))
        if r.returncode != 0:
            res["error"] = "patch does not apply to /repo HEAD: " + r.stderr[-300:]
            return res
        for cp in check_props:
            os.makedirs(scr, exist_ok=True)
            t0 = time.time()
            env = dict(os.environ, VERIF_REPO=wt, VERIF_SCRATCH=scr)
            env.pop("VERIF_REEXEC", None)
            r = subprocess.run(["./check", cp, "--tier", tier], cwd=VERIF, capture_output=True, text=True, env=env,
                               timeout=3600)
            lines = [l for l in r.stdout.splitlines() if l.startswith(("VIOLATION", "KNOWN-FINDING", "  what:", cp + " tier"))]
            crashed = "could not be completed on the current tree" in r.stdout and \
                sum(1 for l in lines if l.startswith("VIOLATION")) <= 1
            # a harness crash (e.g. coqc killed for lack of memory) is NOT a detection
            res["checks"][cp] = {"exit": r.returncode, "crashed": crashed,
                                 "caught": r.returncode == 1 and any(l.startswith("VIOLATION") for l in lines) and not crashed,
                                 "wall_s": round(time.time() - t0, 1), "lines": [l[:400] for l in lines[:12]]}
            shutil.rmtree(scr, ignore_errors=True)
    except subprocess.TimeoutExpired:
        res["error"] = "check timed out"
    finally:
        sh("git -C /repo worktree remove --force %s" % wt)
        shutil.rmtree(scr, ignore_errors=True)
    json.dump(res, open(os.path.join(d, "result.json"), "w"), indent=1)
    return res


def main():
    ap = argparse.ArgumentParser()
    ap.add_argument("--only")
    ap.add_argument("--name")
    ap.add_argument("--prefix", help="only seeds whose name starts with this (e.g. r2)")
    ap.add_argument("--props")
    ap.add_argument("--jobs", type=int, default=3)
    ap.add_argument("--tier", default="quick")
    a = ap.parse_args()
    jobs = []
    for meta in sorted(glob.glob(os.path.join(VERIF, "seeded", "*", "*", "meta.json"))):
        d = os.path.dirname(meta)
        prop, name = d.split(os.sep)[-2:]
        if a.only and prop not in a.only.split(","):
            continue
        if a.name and name != a.name:
            continue
        if a.prefix and not name.startswith(a.prefix):
            continue
        cps = [prop] + [p for p in (a.props.split(",") if a.props else []) if p != prop]
        jobs.append((prop, name, cps))
    par = [j for j in jobs if not (set(j[2]) & TIE_T)]
    seq = [j for j in jobs if set(j[2]) & TIE_T]
    out = []
    with cf.ThreadPoolExecutor(max_workers=a.jobs) as ex:
        # never two runs of the same property at once is not needed (scratch dirs are separate)
        for res in ex.map(lambda j: run_one(j[0], j[1], j[2], a.tier), par):
            out.append(res)
    for j in seq:
        out.append(run_one(j[0], j[1], j[2], a.tier))
    if seq:
        # restore coq/Gen from the real /repo
        subprocess.run(["./check", "--setup"], cwd=VERIF, capture_output=True, text=True)
    for res in out:
        for cp, c in res.get("checks", {}).items():
            print("%s/%s  check %s: %s (%.0fs)" % (res["property"], res["name"], cp, "CAUGHT" if c["caught"] else ("CRASHED (not counted)" if c.get("crashed") else "MISSED exit=%d" % c["exit"]), c["wall_s"]))
        if "error" in res:
            print("%s/%s  ERROR %s" % (res["property"], res["name"], res["error"]))
    return 0


if __name__ == "__main__":
    sys.exit(main())
