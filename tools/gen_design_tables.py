#!/usr/bin/env python3
"""Regenerate the machine-written tables of DESIGN.md (between <!-- BEGIN:x --> / <!-- END:x --> markers):
   findings  : every entry of known_findings.json (fixed with commit / known with reason)
   seeded    : every seeded change under seeded/<prop>/<name>/ with the verdict of the last tools/run_seeded.py run
   status    : per property: claimed?, number of theorems in Props, Coq lines, driver lines
Run by hand after integrating; never by a check."""
import glob
import json
import os
import re

HERE = os.path.dirname(os.path.dirname(os.path.abspath(__file__)))


def esc(s):
    return s.replace("|", "\\|").replace("\n", " ")


def findings():
    d = json.load(open(os.path.join(HERE, "known_findings.json")))["findings"]
    rows = ["| prop | id | status | what fails (specific input / call site) |", "|---|---|---|---|"]
    for e in sorted(d, key=lambda e: (e["property"], e["status"], e["id"])):
        st = "fixed in /repo `%s`" % e["commit"] if e["status"] == "fixed" else "known (not repaired)"
        what = re.sub(r"^fixed: property=\S+ \S+ ", "", e["what"])
        rows.append("| %s | %s | %s | %s |" % (e["property"], e["id"], st, esc(what[:420])))
    nf = sum(1 for e in d if e["status"] == "fixed")
    rows.append("")
    rows.append("%d entries: %d repaired by `fix:` commits, %d recorded as known findings." % (len(d), nf, len(d) - nf))
    return "\n".join(rows)


def seeded():
    rows = ["| seeded change | written against | what it changes / what it needs to manifest | caught by |", "|---|---|---|---|"]
    n = c = 0
    for meta in sorted(glob.glob(os.path.join(HERE, "seeded", "*", "*", "meta.json"))):
        d = os.path.dirname(meta)
        prop, name = d.split(os.sep)[-2:]
        m = json.load(open(meta))
        res = {}
        if os.path.exists(os.path.join(d, "result.json")):
            res = json.load(open(os.path.join(d, "result.json")))
        verdicts = []
        for cp, r in res.get("checks", {}).items():
            verdicts.append("`./check %s`: %s" % (cp, "**VIOLATION**" if r["caught"] else "missed (exit %d)" % r["exit"]))
        if "error" in res:
            verdicts.append("not run: " + res["error"][:80])
        n += 1
        c += any(r["caught"] for r in res.get("checks", {}).values())
        rows.append("| seeded/%s/%s | %s | %s — needs: %s | %s |" % (prop, name, m.get("property", prop), esc(str(m.get("what", ""))[:260]),
                                                                  esc(str(m.get("needs", ""))[:200]), "; ".join(verdicts) or "not run yet"))
    rows.append("")
    rows.append("%d seeded changes kept, %d caught by at least one registered check." % (n, c))
    return "\n".join(rows)


def status():
    man = json.load(open(os.path.join(HERE, "MANIFEST.json")))
    claimed = {c["property_id"] for c in man["checks"]}
    rows = ["| prop | claimed | statements in Props | Coq lines (Models+Proofs+Props) | driver lines | ties | quick tier (last committed evidence): cases / distinct non-trivial / wall s |", "|---|---|---|---|---|---|---|"]
    for l in open(os.path.join(HERE, "properties.jsonl")):
        pid = json.loads(l)["id"]
        pf = os.path.join(HERE, "coq", "Props", pid + ".v")
        nth = len(re.findall(r"(?m)^\s*(?:Theorem|Lemma|Corollary|Example)\s+\w+", open(pf).read())) if os.path.exists(pf) else 0
        cl = 0
        for sub in ("Models", "Proofs", "Props"):
            for f in glob.glob(os.path.join(HERE, "coq", sub, pid + "*.v")):
                cl += sum(1 for _ in open(f))
        df = os.path.join(HERE, "harness", "drivers", pid + ".py")
        dl = sum(1 for _ in open(df)) if os.path.exists(df) else 0
        ties = "T+C" if pid in ("C20", "C06", "C11") and glob.glob(os.path.join(HERE, "harness", "translators", "*.py")) else "C"
        ev = os.path.join(HERE, "evidence", pid + ".json")
        evs = "-"
        if os.path.exists(ev):
            e = json.load(open(ev))
            evs = "%s / %s / %s" % (e["coverage"].get("evaluations"), e["coverage"].get("distinct_nontrivial"), e.get("wall_s"))
        rows.append("| %s | %s | %d | %d | %d | %s | %s |" % (pid, "yes" if pid in claimed else "no", nth, cl, dl, ties, evs))
    return "\n".join(rows)


def asbuilt():
    man = json.load(open(os.path.join(HERE, "MANIFEST.json")))
    out = []
    for c in man["checks"]:
        pid = c["property_id"]
        pf = os.path.join(HERE, "coq", "Props", pid + ".v")
        src = re.sub(r"\(\*.*?\*\)", "", open(pf).read(), flags=re.S)
        names = re.findall(r"(?m)^\s*(?:Theorem|Lemma|Corollary|Example)\s+(\w+)", src)
        out.append("### %s (as built)\n" % pid)
        out.append(c["level_claimed"]["text"] + "\n")
        out.append("*Trusted / modelled:* " + c["level_note"] + "\n")
        out.append("*Statements in `coq/Props/%s.v`:* " % pid + ", ".join("`%s`" % n for n in names) + "\n")
    for n in man.get("not_applicable", []):
        out.append("### %s — not claimed\n\n%s\n" % (n["property_id"], n["reason"]))
    return "\n".join(out)


def main():
    p = os.path.join(HERE, "DESIGN.md")
    s = open(p).read()
    for tag, fn in (("findings", findings), ("seeded", seeded), ("status", status), ("asbuilt", asbuilt)):
        a, b = "<!-- BEGIN:%s -->" % tag, "<!-- END:%s -->" % tag
        if a in s and b in s:
            s = s[:s.index(a) + len(a)] + "\n" + fn() + "\n" + s[s.index(b):]
    open(p, "w").write(s)


if __name__ == "__main__":
    main()
