#!/usr/bin/env python3
"""Regenerate MANIFEST.json from tools/manifest_table.json (one row per claimed property)."""
import json, os
here = os.path.dirname(os.path.dirname(os.path.abspath(__file__)))
tab = json.load(open(os.path.join(here, "tools", "manifest_table.json")))
props = [json.loads(l)["id"] for l in open(os.path.join(here, "properties.jsonl"))]
checks, na = [], []


def driver_note(pid):
    """LEVEL_NOTE string literal of the driver (parsed, not imported)"""
    import ast
    src = open(os.path.join(here, "harness", "drivers", pid + ".py")).read()
    for node in ast.parse(src).body:
        if isinstance(node, ast.Assign) and any(getattr(t, "id", None) == "LEVEL_NOTE" for t in node.targets):
            try:
                return ast.literal_eval(node.value)
            except Exception:
                break
    return "Trusted: Coq kernel + vm_compute; torch/linear_operator numerics are compared with the proved model, not verified."


for pid in props:
    row = tab["claimed"].get(pid)
    if row is None or not os.path.exists(os.path.join(here, "harness", "drivers", pid + ".py")) \
            or not os.path.exists(os.path.join(here, "coq", "Props", pid + ".v")):
        na.append({"property_id": pid, "reason": tab["not_applicable"].get(pid, "check not built yet in this round (see DESIGN.md §8 for the planned model/theorems)")})
        continue
    checks.append({
        "property_id": pid,
        "quick_cmd": "./check %s --tier quick" % pid,
        "thorough_cmd": "./check %s --tier thorough" % pid,
        "evidence_file": "/verif/evidence/%s.json" % pid,
        "replay_cmd_template": "./check %s --replay {path}" % pid,
        "engine": "coq-proof+correspondence",
        "level_claimed": {"category": "proof", "text": row["text"], "design_ref": row.get("design_ref", "DESIGN.md §8 " + pid)},
        "level_note": row.get("note") or driver_note(pid),
        "technique": row.get("technique", "Coq 8.16 theorems over a Gallina model + differential correspondence (vm_compute model vs implementation)"),
    })
m = {
    "version": 1,
    "setup_cmd": "cd /verif && ./check --setup",
    "hooks": {"guard": "GPYTORCH_VERIF", "enable": "no hooks are compiled into /repo; checks observe public API only (GPYTORCH_VERIF=1 is exported by ./check but nothing in /repo reads it)",
              "baseline_off_cmd": "cd /repo && /venv/bin/python -m pytest -ra -q -p no:cacheprovider --timeout=900 --continue-on-collection-errors",
              "source_commits": [], "add_only": True},
    "engines": [{"name": "coq-proof+correspondence", "path": "/verif/check", "serves_properties": [c["property_id"] for c in checks],
                 "kind_free_text": "Coq 8.16.1 full .vo build of Base/Models/Proofs/Props (+Gen regenerated from /repo), Print Assumptions gate, then implementation-vs-model differential run (coqc vm_compute on generated cases)"}],
    "checks": checks,
    "notes": tab.get("notes", ""),
    "not_applicable": na,
}
json.dump(m, open(os.path.join(here, "MANIFEST.json"), "w"), indent=1)
print("claimed", [c["property_id"] for c in checks], "not claimed", [n["property_id"] for n in na])
