#!/usr/bin/env python3
"""Merge known_findings.d/*.json into the single committed known_findings.json (never run by a check)."""
import glob, json, os
here = os.path.dirname(os.path.dirname(os.path.abspath(__file__)))
out = []
for f in sorted(glob.glob(os.path.join(here, "known_findings.d", "*.json"))):
    out += json.load(open(f)).get("findings", [])
ids = [e["id"] for e in out]
assert len(ids) == len(set(ids)), "duplicate finding ids"
tmp = os.path.join(here, "known_findings.json.tmp")
json.dump({"comment": "status=known entries suppress a matching failure (KNOWN-FINDING line, exit 0); "
                      "status=fixed entries suppress nothing. Merged from known_findings.d/ by tools/merge_findings.py.",
           "findings": out}, open(tmp, "w"), indent=1)
os.replace(tmp, os.path.join(here, "known_findings.json"))
print("merged %d findings" % len(out))
