#!/usr/bin/env python3
"""Confirm seeded changes produced by a seeding sub-agent and file them under /verif/seeded/.

  tools/confirm_seed.py C01 [/tmp/seed_C01_out]

For every <out>/m*/ (patch.diff, demo.py, meta.json): in a fresh scratch worktree of /repo HEAD
  1. demo.py must exit 0 on the unmodified tree,
  2. the patch must apply, the package must import,
  3. demo.py must exit 1 with the patch applied,
  4. the full pinned test suite (tools/baseline_compare.py) must lose no baseline-passing test.
Only changes that pass all four are copied to /verif/seeded/<prop>/<name>/ (meta.json gets a "confirmed" block
recording what was run).  The worktree is removed afterwards."""
import json
import os
import shutil
import subprocess
import sys

VERIF = os.path.dirname(os.path.dirname(os.path.abspath(__file__)))
ENV = dict(os.environ, OMP_NUM_THREADS="1", MKL_NUM_THREADS="1", PYTHONDONTWRITEBYTECODE="1")


def sh(cmd, **kw):
    return subprocess.run(cmd, shell=True, capture_output=True, text=True, **kw)


def main():
    prop = sys.argv[1]
    out = sys.argv[2] if len(sys.argv) > 2 else "/tmp/seed_%s_out" % prop
    prefix = sys.argv[3] if len(sys.argv) > 3 else ""      # e.g. "r2": second seeding round, kept as r2m1, r2m2, ...
    head = sh("git -C /repo rev-parse --short HEAD").stdout.strip()
    for name in sorted(os.listdir(out)):
        d = os.path.join(out, name)
        if not os.path.exists(os.path.join(d, "patch.diff")):
            continue
        wt = "/tmp/wt_confirm_%s_%s" % (prop, name)
        sh("git -C /repo worktree remove --force " + wt)
        sh("git -C /repo worktree add -q --detach %s HEAD" % wt)
        env = dict(ENV, PYTHONPATH=wt)
        rec = {"repo_head": head}
        try:
            r0 = sh("/venv/bin/python %s" % os.path.join(d, "demo.py"), env=env, cwd=wt, timeout=1800)
            rec["demo_unmodified_exit"] = r0.returncode
            ra = sh("git -C %s apply %s" % (wt, os.path.join(d, "patch.diff")))
            rec["patch_applies"] = ra.returncode == 0
            ri = sh("/venv/bin/python -c 'import gpytorch'", env=env, cwd=wt)
            rec["imports"] = ri.returncode == 0
            r1 = sh("/venv/bin/python %s" % os.path.join(d, "demo.py"), env=env, cwd=wt, timeout=1800)
            rec["demo_modified_exit"] = r1.returncode
            rec["demo_modified_output"] = (r1.stdout + r1.stderr)[-600:]
            rt = sh("NW=6 /venv/bin/python %s %s" % (os.path.join(VERIF, "tools", "baseline_compare.py"), wt), env=ENV,
                    timeout=3600)
            rec["suite"] = rt.stdout.strip().splitlines()[-1] if rt.stdout.strip() else rt.stderr[-300:]
            rec["suite_ok"] = rt.returncode == 0
            if not rec["suite_ok"]:
                rec["suite_lost"] = [l.strip() for l in rt.stdout.splitlines() if "LOST" in l][:10]
        finally:
            sh("git -C /repo worktree remove --force " + wt)
        ok = (rec.get("demo_unmodified_exit") == 0 and rec.get("patch_applies") and rec.get("imports")
              and rec.get("demo_modified_exit") == 1 and rec.get("suite_ok"))
        print(prop, name, "CONFIRMED" if ok else "REJECTED", json.dumps({k: v for k, v in rec.items() if k != "demo_modified_output"}))
        if ok:
            dst = os.path.join(VERIF, "seeded", prop, prefix + name)
            os.makedirs(dst, exist_ok=True)
            shutil.copy(os.path.join(d, "patch.diff"), dst)
            shutil.copy(os.path.join(d, "demo.py"), dst)
            meta = json.load(open(os.path.join(d, "meta.json")))
            meta["confirmed"] = dict(rec, ran=["demo.py on unmodified worktree (exit 0)", "git apply patch.diff", "import gpytorch",
                                               "demo.py on modified worktree (exit 1)",
                                               "tools/baseline_compare.py <worktree> (full pinned suite, no baseline-passing test lost)"])
            json.dump(meta, open(os.path.join(dst, "meta.json"), "w"), indent=1)


if __name__ == "__main__":
    main()
