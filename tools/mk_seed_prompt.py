#!/usr/bin/env python3
import json, sys
pid, k = sys.argv[1], sys.argv[2]
p = [json.loads(l) for l in open('/verif/properties.jsonl') if json.loads(l)['id'] == pid][0]
prop = "%s — %s\n\n%s\n\nQuantifier: %s\n\nRelevant source files: %s" % (p['id'], p['title'], p['statement'], p['quantifier']['text'], ", ".join(p['anchors']['files']))
t = open('/verif/tools/seed_prompt.txt').read()
print(t.replace('{WT}', '/tmp/seed_' + pid).replace('{PROP}', prop).replace('{K}', k).replace('{ID}', pid))
