#!/bin/bash
# tools/final_pass.sh [seed]: run every registered quick check once in /verif against /repo (this is what writes the
# committed evidence/*.json), print one line per property, validate evidence against the schema.
cd /verif; seed=${1:-0}; rc=0
for p in C01 C02 C03 C04 C05 C06 C07 C08 C09 C10 C11 C12 C13 C14 C15 C16 C17 C18 C19 C20; do
  out=$(VERIF_SEED=$seed timeout 3000 ./check $p --tier quick 2>&1); e=$?
  echo "$(echo "$out" | grep -E "^$p tier" | tail -1)  [exit $e]"
  echo "$out" | grep -E "^VIOLATION|^  what" | cut -c1-300
  [ $e -ne 0 ] && rc=1
done
/venv/bin/python - <<'PY'
import json,jsonschema,glob
sch=json.load(open('/root/.vp/EVIDENCE.schema.json'))
for f in sorted(glob.glob('/verif/evidence/*.json')):
    try: jsonschema.validate(json.load(open(f)),sch)
    except Exception as e: print(f,'INVALID',str(e)[:200])
print('evidence validated')
PY
exit $rc
