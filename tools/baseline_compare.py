#!/usr/bin/env python3
"""Run the pinned test suite (optionally with xdist) in a given repo dir and compare with BASELINE.json stable_pass."""
import json, subprocess, sys, xml.etree.ElementTree as ET, os, tempfile
repo = sys.argv[1] if len(sys.argv) > 1 else "/repo"
sel = sys.argv[2:]  # optional test paths
base = set(json.load(open("/root/.vp/BASELINE.json"))["stable_pass"])
xmlp = tempfile.mktemp(suffix=".xml", dir="/verif/build")
cmd = ["/venv/bin/python", "-m", "pytest", "-q", "-p", "no:cacheprovider", "--timeout=900", "--continue-on-collection-errors",
       "-n", os.environ.get("NW", "6"), "--junitxml=" + xmlp] + sel
env = dict(os.environ, PYTHONPATH=repo)
env.pop("GPYTORCH_VERIF", None)
r = subprocess.run(cmd, cwd=repo, capture_output=True, text=True, env=env)
print(r.stdout[-600:])
passed, other = set(), set()
for tc in ET.parse(xmlp).getroot().iter("testcase"):
    name = tc.get("classname") + "::" + tc.get("name")
    if any(c.tag in ("failure", "error", "skipped") for c in tc):
        other.add(name)
    else:
        passed.add(name)
os.remove(xmlp)
seen = passed | other
lost = sorted(t for t in base if t in seen and t not in passed) if sel else sorted(base - passed)
print("baseline stable_pass: %d; passed now: %d; baseline tests not passing now: %d" % (len(base), len(passed & base), len(lost)))
for t in lost[:40]:
    print("  LOST", t)
sys.exit(1 if lost else 0)
