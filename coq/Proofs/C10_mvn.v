(* C10 proofs: indexing is the marginal (image under the selection matrix); affine laws;
   KL(p||p) = 0 (rational part); rsample covariance identity for any rectangular root. *)
From Coq Require Import Arith ZArith List Lia Bool Ring Field.
From GPV Require Import Base.LinAlg Base.Exec Base.PySlice Models.C11_mtmvn Proofs.C11_mtmvn Models.C10_mvn.
Import ListNotations.

Section Law.
Context {K : Fld}.
Add Field Ff_c10 : (@FT K).
Local Open Scope fld_scope.

(* ---- selection matrices *)
Lemma selmat_mul_l n p (A : M) i j : (p i < n)%nat -> mmul n (selmat p) A i j = A (p i) j.
Proof.
  intros Hp. unfold mmul, selmat. rewrite (sum_single n (p i)); [rewrite Nat.eqb_refl; ring|exact Hp|].
  intros l Hl Hne. destruct (Nat.eqb_spec (p i) l); [congruence|ring].
Qed.

Lemma selmat_mul_rT n p (A : M) i j : (p j < n)%nat -> mmul n A (mT (selmat p)) i j = A i (p j).
Proof.
  intros Hp. unfold mmul, mT, selmat. rewrite (sum_single n (p j)); [rewrite Nat.eqb_refl; ring|exact Hp|].
  intros l Hl Hne. destruct (Nat.eqb_spec (p j) l); [congruence|ring].
Qed.

(* d[..., p] is the law of S X for the selection matrix S of p: the marginal of the selected
   components (with repetition / permutation if p says so) *)
Lemma getitem_is_marginal n k (p : nat -> nat) (m C : M) :
  (forall i, (i < k)%nat -> (p i < n)%nat) ->
  meq k 1 (affine_mean n (selmat p) mzero m) (getitem_mean p m)
  /\ meq k k (affine_cov n (selmat p) C) (getitem_cov p C).
Proof.
  intros Hp. split.
  - intros i j Hi Hj. unfold affine_mean, madd, mzero, getitem_mean.
    rewrite selmat_mul_l by (apply Hp; exact Hi). replace j with O by lia. ring.
  - intros i j Hi Hj. unfold affine_cov, getitem_cov, gather.
    rewrite selmat_mul_rT by (apply Hp; exact Hj). apply selmat_mul_l. apply Hp; exact Hi.
Qed.

Lemma getitem_cov_symmetric k (p : nat -> nat) n (C : M) :
  (forall i, (i < k)%nat -> (p i < n)%nat) -> symmetric n C -> symmetric k (getitem_cov p C).
Proof.
  intros Hp HS i j Hi Hj. unfold getitem_cov, gather, mT. apply HS; apply Hp; assumption.
Qed.

(* variance of the indexed law = indexed variance *)
Lemma getitem_variance (p : nat -> nat) (C : M) i : variance (getitem_cov p C) i = variance C (p i).
Proof. reflexivity. Qed.

(* ---- affine laws *)
Lemma mul_is_affine n c (m C : M) :
  meq n 1 (affine_mean n (mscale c mI) mzero m) (mul_mean c m)
  /\ meq n n (affine_cov n (mscale c mI) C) (mul_cov c C).
Proof.
  split.
  - unfold affine_mean, mul_mean.
    transitivity (mmul n (mscale c mI) m).
    { intros i j _ _. unfold madd, mzero. ring. }
    transitivity (mscale c (mmul n mI m)); [apply mmul_scale_l|].
    apply mscale_compat. apply mmul_I_l.
  - unfold affine_cov, mul_cov.
    transitivity (mmul n (mscale c C) (mT (mscale c mI))).
    { apply mmul_compat_l. transitivity (mscale c (mmul n mI C)); [apply mmul_scale_l|].
      apply mscale_compat. apply mmul_I_l. }
    transitivity (mmul n (mscale c C) (mscale c mI)).
    { apply mmul_compat_r. intros i j _ _. unfold mT, mscale, mI. rewrite Nat.eqb_sym. reflexivity. }
    transitivity (mscale c (mmul n (mscale c C) mI)); [apply mmul_scale_r|].
    transitivity (mscale c (mscale c C)); [apply mscale_compat; apply mmul_I_r|].
    intros i j _ _. unfold mscale. ring.
Qed.

Lemma add_scalar_is_affine n c (m C : M) :
  meq n 1 (affine_mean n mI (fun _ _ => c) m) (add_scalar_mean c m)
  /\ meq n n (affine_cov n mI C) C.
Proof.
  split.
  - intros i j Hi Hj. unfold affine_mean, add_scalar_mean, madd.
    rewrite (mmul_I_l n 1 m i j Hi Hj). reflexivity.
  - unfold affine_cov. transitivity (mmul n C (mT mI)); [apply mmul_compat_l; apply mmul_I_l|].
    transitivity (mmul n C mI); [apply mmul_compat_r; apply mT_mI|apply mmul_I_r].
Qed.

Lemma div_is_mul c (m C : M) : div_mean c m = mul_mean (1 / c) m /\ div_cov c C = mul_cov (1 / c) C.
Proof. split; reflexivity. Qed.

(* X + Y for independent X ~ (m1, C1), Y ~ (m2, C2): image of the stacked vector under [I I] *)
Lemma sum_independent_is_affine n (m1 m2 C1 C2 : M) :
  meq n 1 (affine_mean (n + n) (hstack n mI mI) mzero (vstack n m1 m2)) (sum_mean m1 m2)
  /\ meq n n (affine_cov (n + n) (hstack n mI mI) (blk n n C1 mzero mzero C2)) (sum_cov C1 C2).
Proof.
  split.
  - intros i j Hi Hj. unfold affine_mean, sum_mean, madd, mzero, mmul. rewrite sum_split.
    rewrite (sum_single n i); [|exact Hi|].
    2:{ intros l Hl Hne. unfold hstack, mI. destruct (Nat.ltb_spec l n); [|lia].
        destruct (Nat.eqb_spec i l); [congruence|ring]. }
    rewrite (sum_single n i); [|exact Hi|].
    2:{ intros l Hl Hne. unfold hstack, mI. destruct (Nat.ltb_spec (n + l) n); [lia|].
        replace (n + l - n)%nat with l by lia. destruct (Nat.eqb_spec i l); [congruence|ring]. }
    unfold hstack, vstack, mI.
    destruct (Nat.ltb_spec i n); [|lia]. destruct (Nat.ltb_spec (n + i) n); [lia|].
    replace (n + i - n)%nat with i by lia. rewrite Nat.eqb_refl. ring.
  - intros i j Hi Hj. unfold affine_cov, sum_cov, madd.
    assert (HL : forall a, (a < n + n)%nat ->
       mmul (n + n) (hstack n mI mI) (blk n n C1 mzero mzero C2) i a
       = if Nat.ltb a n then C1 i a else C2 i (a - n)%nat).
    { intros a Ha. unfold mmul. rewrite sum_split.
      rewrite (sum_single n i); [|exact Hi|].
      2:{ intros l Hl Hne. unfold hstack, mI. destruct (Nat.ltb_spec l n); [|lia].
          destruct (Nat.eqb_spec i l); [congruence|ring]. }
      rewrite (sum_single n i); [|exact Hi|].
      2:{ intros l Hl Hne. unfold hstack, mI. destruct (Nat.ltb_spec (n + l) n); [lia|].
          replace (n + l - n)%nat with l by lia. destruct (Nat.eqb_spec i l); [congruence|ring]. }
      unfold hstack, blk, mI, mzero.
      destruct (Nat.ltb_spec i n); [|lia]. destruct (Nat.ltb_spec (n + i) n); [lia|].
      replace (n + i - n)%nat with i by lia. rewrite Nat.eqb_refl.
      destruct (Nat.ltb_spec a n); ring. }
    unfold mmul at 1. rewrite sum_split.
    rewrite (sum_ext n _ (fun a => C1 i a * mI j a)).
    2:{ intros a Ha. rewrite HL by lia. destruct (Nat.ltb_spec a n); [|lia].
        unfold mT, hstack. destruct (Nat.ltb_spec a n); [|lia]. reflexivity. }
    rewrite (sum_ext n (fun a => _ (n + a)%nat * _) (fun a => C2 i a * mI j a)).
    2:{ intros a Ha. rewrite HL by lia. destruct (Nat.ltb_spec (n + a) n); [lia|].
        unfold mT, hstack. destruct (Nat.ltb_spec (n + a) n); [lia|].
        replace (n + a - n)%nat with a by lia. reflexivity. }
    rewrite (sum_single n j); [|exact Hj|].
    2:{ intros l Hl Hne. unfold mI. destruct (Nat.eqb_spec j l); [congruence|ring]. }
    rewrite (sum_single n j); [|exact Hj|].
    2:{ intros l Hl Hne. unfold mI. destruct (Nat.eqb_spec j l); [congruence|ring]. }
    unfold mI. rewrite Nat.eqb_refl. ring.
Qed.

Lemma jitter_variance eps (C : M) i : variance (jitter_cov eps C) i = variance C i + eps.
Proof. unfold variance, jitter_cov, madd, mscale, mI. rewrite Nat.eqb_refl. ring. Qed.

Lemma jitter_offdiag eps (C : M) i j : i <> j -> jitter_cov eps C i j = C i j.
Proof.
  intros H. unfold jitter_cov, madd, mscale, mI. destruct (Nat.eqb_spec i j); [contradiction|ring].
Qed.

(* ---- rsample: the law of mean + L e for e ~ (0, I_r) has covariance L L^T, for ANY n x r root
   (rank-deficient RootLinearOperator included), and the second-moment form of the statement *)
Lemma rsample_law n r (m L : M) :
  meq n 1 (rsample_base r m L mzero) m
  /\ meq n n (affine_cov r L mI) (mmul r L (mT L)).
Proof.
  split.
  - intros i j _ _. unfold rsample_base, madd, mmul, mzero. rewrite sum_zero; [ring|]. intros; ring.
  - unfold affine_cov. apply mmul_compat_l. apply mmul_I_r.
Qed.

Lemma rsample_second_moment r (L Ee : M) i j :
  (forall k l, (k < r)%nat -> (l < r)%nat -> Ee k l = mI k l) ->
  sum r (fun k => sum r (fun l => L i k * L j l * Ee k l)) = mmul r L (mT L) i j.
Proof.
  intros HE. unfold mmul, mT. apply sum_ext. intros k Hk.
  rewrite (sum_single r k); [rewrite HE by assumption; unfold mI; rewrite Nat.eqb_refl; ring|exact Hk|].
  intros l Hl Hne. rewrite HE by assumption. unfold mI. destruct (Nat.eqb_spec k l); [congruence|ring].
Qed.

(* ---- KL *)
Lemma trace_mI n : trace n mI = nat_f n.
Proof. unfold trace, nat_f. apply sum_ext. intros i _. unfold mI. rewrite Nat.eqb_refl. reflexivity. Qed.

Lemma trace_compat n A B : meq n n A B -> trace n A = trace n B.
Proof. intros H. unfold trace. apply sum_ext. intros i Hi. apply H; exact Hi. Qed.

Lemma kl_self_zero n (m P Pi : M) : is_inverse n P Pi -> kl_rational n m P m Pi = 0.
Proof.
  intros [_ H2]. unfold kl_rational.
  rewrite (trace_compat n _ mI H2), trace_mI.
  assert (Q0 : quad n Pi (msub m m) = 0).
  { unfold quad, mmul, mT, msub. apply sum_zero. intros l _.
    replace (m l O - m l O) with 0 by ring. ring. }
  rewrite Q0. ring.
Qed.

(* the quadratic form of log_prob / KL does not depend on which inverse is used *)
Lemma quad_inverse_irrelevant n (A Ai Ai' r : M) :
  is_inverse n A Ai -> is_inverse n A Ai' -> quad n Ai r = quad n Ai' r.
Proof.
  intros H1 H2. pose proof (inverse_unique n A Ai Ai' H1 H2) as E.
  unfold quad, mmul. apply sum_ext. intros l Hl. f_equal. apply sum_ext. intros l' Hl'.
  rewrite E by assumption. reflexivity.
Qed.
End Law.

(* ------------------------------------------------------------------ index normalisation *)
Local Open Scope Z_scope.

Lemma has_ell_map_EI l : has_ell (map EI l) = false.
Proof. induction l as [|x r IH]; [reflexivity|]. cbn [map has_ell existsb is_ell orb]. exact IH. Qed.

(* a full explicit index whose last component is a slice or an index vector selects exactly
   torch's positions on the event dimension, leaving the batch components to torch *)
Lemma mvn_getitem_explicit dim n (b : list pyidx) x :
  Z.of_nat (length b) + 1 = dim -> is_int x = false ->
  mvn_getitem dim n (map EI b ++ [EI x]) =
    match idx_positions n x with Some l => Some (dim - 1, Some (1, l)) | None => None end.
Proof.
  intros Hd Hx. unfold mvn_getitem.
  change (map EI b ++ [EI x]) with (map EI b ++ map EI [x]). rewrite <- map_app.
  rewrite map_length, app_length. cbn [length].
  destruct ((dim <? Z.of_nat (length b + 1)) && has_ell (map EI (b ++ [x]))) eqn:E.
  { apply andb_true_iff in E. destruct E as [E _]. apply Z.ltb_lt in E. lia. }
  rewrite map_length, app_length. cbn [length].
  destruct (Z.of_nat (length b + 1) <=? dim - 1) eqn:E1; [apply Z.leb_le in E1; lia|]. cbn [andb].
  destruct (dim <? Z.of_nat (length b + 1)) eqn:E2; [apply Z.ltb_lt in E2; lia|].
  rewrite map_app. cbn [map]. rewrite last_last.
  replace (Z.of_nat (length b + 1) - 1) with (dim - 1) by lia.
  destruct x as [i|s|l]; [discriminate| |]; reflexivity.
Qed.

Lemma mvn_getitem_int dim n (b : list pyidx) i :
  Z.of_nat (length b) + 1 = dim ->
  mvn_getitem dim n (map EI b ++ [EI (IInt i)]) =
    match norm_index n i with Some k => Some (dim - 1, Some (0, [k])) | None => None end.
Proof.
  intros Hd. unfold mvn_getitem.
  change (map EI b ++ [EI (IInt i)]) with (map EI b ++ map EI [IInt i]). rewrite <- map_app.
  rewrite map_length, app_length. cbn [length].
  destruct ((dim <? Z.of_nat (length b + 1)) && has_ell (map EI (b ++ [IInt i]))) eqn:E.
  { apply andb_true_iff in E. destruct E as [E _]. apply Z.ltb_lt in E. lia. }
  rewrite map_length, app_length. cbn [length].
  destruct (Z.of_nat (length b + 1) <=? dim - 1) eqn:E1; [apply Z.leb_le in E1; lia|]. cbn [andb].
  destruct (dim <? Z.of_nat (length b + 1)) eqn:E2; [apply Z.ltb_lt in E2; lia|].
  rewrite map_app. cbn [map]. rewrite last_last.
  replace (Z.of_nat (length b + 1) - 1) with (dim - 1) by lia. reflexivity.
Qed.

(* the positions handed to the covariance are valid event positions *)
Lemma mvn_getitem_positions_valid dim n idx nb kind l k : 0 <= n ->
  mvn_getitem dim n idx = Some (nb, Some (kind, l)) -> In k l -> 0 <= k < n.
Proof.
  intros Hn. unfold mvn_getitem.
  destruct ((dim <? Z.of_nat (length idx)) && has_ell idx).
  - destruct (Z.of_nat (length (drop_ell idx)) <? dim); [discriminate|].
    set (idx' := drop_ell idx).
    destruct ((Z.of_nat (length idx') <=? dim - 1) && negb (has_ell (removelast idx'))); [discriminate|].
    destruct (dim <? Z.of_nat (length idx')); [discriminate|].
    destruct (last idx' EE) as [[i|s|tl]|].
    + destruct (norm_index n i) as [k'|] eqn:E; [|discriminate]. intros H. injection H as _ _ <-.
      intros [<-|[]]. apply (norm_index_spec n i k' E).
    + destruct (idx_positions n (ISlice s)) as [l'|] eqn:E; [|discriminate]. intros H. injection H as _ _ <-.
      intros Hin. pose proof (idx_positions_range n _ l' Hn E) as F. rewrite Forall_forall in F. apply F; exact Hin.
    + destruct (idx_positions n (ITensor tl)) as [l'|] eqn:E; [|discriminate]. intros H. injection H as _ _ <-.
      intros Hin. pose proof (idx_positions_range n _ l' Hn E) as F. rewrite Forall_forall in F. apply F; exact Hin.
    + intros H. injection H as _ _ <-. intros Hin.
      apply (slice_positions_valid n full_slice (range_list 0 n 1) k Hn); [reflexivity|exact Hin].
  - destruct ((Z.of_nat (length idx) <=? dim - 1) && negb (has_ell (removelast idx))); [discriminate|].
    destruct (dim <? Z.of_nat (length idx)); [discriminate|].
    destruct (last idx EE) as [[i|s|tl]|].
    + destruct (norm_index n i) as [k'|] eqn:E; [|discriminate]. intros H. injection H as _ _ <-.
      intros [<-|[]]. apply (norm_index_spec n i k' E).
    + destruct (idx_positions n (ISlice s)) as [l'|] eqn:E; [|discriminate]. intros H. injection H as _ _ <-.
      intros Hin. pose proof (idx_positions_range n _ l' Hn E) as F. rewrite Forall_forall in F. apply F; exact Hin.
    + destruct (idx_positions n (ITensor tl)) as [l'|] eqn:E; [|discriminate]. intros H. injection H as _ _ <-.
      intros Hin. pose proof (idx_positions_range n _ l' Hn E) as F. rewrite Forall_forall in F. apply F; exact Hin.
    + intros H. injection H as _ _ <-. intros Hin.
      apply (slice_positions_valid n full_slice (range_list 0 n 1) k Hn); [reflexivity|exact Hin].
Qed.
