(* C17 lemmas over R: range, strict monotonicity and mutual inverses of the constraint
   transforms; the history invariant of the parameter cell; prior log densities equal the
   documented formulas. *)
From Coq Require Import Arith Lia List Bool Reals Lra QArith Qcanon Qreals.
From GPV Require Import Base.LinAlg Base.Exec Base.Expr Models.C17_constraints.
Import ListNotations.
Local Open Scope R_scope.

(* ---- scalar functions ------------------------------------------------------------------- *)
Definition sigmoid (x : R) : R := 1 / (1 + exp (- x)).
Definition softplus (x : R) : R := ln (1 + exp x).
Definition inv_softplus (y : R) : R := y + ln (1 - exp (- y)).
Definition inv_sigmoid (y : R) : R := ln y - ln (1 - y).

Lemma one_plus_exp_pos x : 0 < 1 + exp x.
Proof. pose proof (exp_pos x). lra. Qed.

Lemma softplus_pos x : 0 < softplus x.
Proof.
  unfold softplus. rewrite <- ln_1. apply ln_increasing; [lra|]. pose proof (exp_pos x). lra.
Qed.

Lemma softplus_increasing x x' : x < x' -> softplus x < softplus x'.
Proof.
  intros H. unfold softplus. apply ln_increasing; [apply one_plus_exp_pos|].
  pose proof (exp_increasing x x' H). lra.
Qed.

Lemma exp_neg_lt_1 y : 0 < y -> exp (- y) < 1.
Proof. intros H. rewrite <- exp_0. apply exp_increasing. lra. Qed.

Lemma inv_softplus_softplus x : inv_softplus (softplus x) = x.
Proof.
  unfold inv_softplus, softplus.
  set (a := 1 + exp x). assert (Ha : 0 < a) by apply one_plus_exp_pos.
  rewrite exp_Ropp, exp_ln by exact Ha.
  assert (Hb : 0 < 1 - / a).
  { assert (/ a < 1).
    { rewrite <- Rinv_1. apply Rinv_lt_contravar; [lra|]. unfold a. pose proof (exp_pos x). lra. }
    lra. }
  rewrite <- ln_mult by assumption.
  replace (a * (1 - / a)) with (exp x).
  - apply ln_exp.
  - unfold a. field. pose proof (exp_pos x). lra.
Qed.

Lemma softplus_inv_softplus y : 0 < y -> softplus (inv_softplus y) = y.
Proof.
  intros Hy. unfold softplus, inv_softplus.
  pose proof (exp_neg_lt_1 y Hy) as H1.
  rewrite exp_plus, exp_ln by lra.
  replace (1 + exp y * (1 - exp (- y))) with (exp y).
  - apply ln_exp.
  - rewrite exp_Ropp. field. pose proof (exp_pos y). lra.
Qed.

Lemma sigmoid_range x : 0 < sigmoid x < 1.
Proof.
  unfold sigmoid. pose proof (exp_pos (- x)) as He.
  assert (Hd : 0 < 1 + exp (- x)) by lra.
  split.
  - apply Rdiv_lt_0_compat; lra.
  - apply (Rmult_lt_reg_r (1 + exp (- x))); [exact Hd|].
    unfold Rdiv. rewrite Rmult_assoc, Rinv_l by lra. lra.
Qed.

Lemma sigmoid_increasing x x' : x < x' -> sigmoid x < sigmoid x'.
Proof.
  intros H. unfold sigmoid, Rdiv. rewrite !Rmult_1_l.
  apply Rinv_lt_contravar.
  - apply Rmult_lt_0_compat; apply one_plus_exp_pos.
  - assert (exp (- x') < exp (- x)) by (apply exp_increasing; lra). lra.
Qed.

Lemma inv_sigmoid_sigmoid x : inv_sigmoid (sigmoid x) = x.
Proof.
  unfold inv_sigmoid. pose proof (sigmoid_range x) as [H0 H1].
  assert (E : 1 - sigmoid x = sigmoid x * exp (- x)).
  { unfold sigmoid. field. pose proof (exp_pos (- x)). lra. }
  rewrite E. rewrite ln_mult; [|exact H0|apply exp_pos]. rewrite ln_exp. lra.
Qed.

Lemma sigmoid_inv_sigmoid y : 0 < y < 1 -> sigmoid (inv_sigmoid y) = y.
Proof.
  intros [H0 H1]. unfold sigmoid, inv_sigmoid.
  replace (- (ln y - ln (1 - y))) with (ln (1 - y) + - ln y) by ring.
  rewrite exp_plus, exp_Ropp, !exp_ln by lra. field. lra.
Qed.

(* ---- the four constraint classes -------------------------------------------------------- *)
Definition q (x : Qc) : R := Q2R' x.

Definition transform_R (c : cons) (x : R) : R :=
  match c with
  | CInterval l u => sigmoid x * (q u - q l) + q l
  | CGreater l => softplus x + q l
  | CLess u => - softplus (- x) + q u
  | CPositive => softplus x
  end.

Definition inverse_R (c : cons) (y : R) : R :=
  match c with
  | CInterval l u => inv_sigmoid ((y - q l) / (q u - q l))
  | CGreater l => inv_softplus (y - q l)
  | CLess u => - inv_softplus (- (y - q u))
  | CPositive => inv_softplus y
  end.

Definition in_bounds (c : cons) (y : R) : Prop :=
  match c with
  | CInterval l u => q l < y < q u
  | CGreater l => q l < y
  | CLess u => y < q u
  | CPositive => 0 < y
  end.

Definition wf (c : cons) : Prop :=
  match c with CInterval l u => q l < q u | _ => True end.

Lemma transform_range c x : wf c -> in_bounds c (transform_R c x).
Proof.
  destruct c as [l u|l|u|]; cbn [wf in_bounds transform_R]; intros Hw.
  - pose proof (sigmoid_range x) as [H0 H1]. split; nra.
  - pose proof (softplus_pos x). lra.
  - pose proof (softplus_pos (- x)). lra.
  - apply softplus_pos.
Qed.

Lemma transform_increasing c x x' : wf c -> x < x' -> transform_R c x < transform_R c x'.
Proof.
  destruct c as [l u|l|u|]; cbn [wf transform_R]; intros Hw H.
  - pose proof (sigmoid_increasing x x' H). nra.
  - pose proof (softplus_increasing x x' H). lra.
  - assert (H' : - x' < - x) by lra. pose proof (softplus_increasing _ _ H'). lra.
  - apply softplus_increasing. exact H.
Qed.

Lemma inverse_transform_id c x : wf c -> inverse_R c (transform_R c x) = x.
Proof.
  destruct c as [l u|l|u|]; cbn [wf inverse_R transform_R]; intros Hw.
  - replace ((sigmoid x * (q u - q l) + q l - q l) / (q u - q l)) with (sigmoid x)
      by (field; lra).
    apply inv_sigmoid_sigmoid.
  - replace (softplus x + q l - q l) with (softplus x) by ring. apply inv_softplus_softplus.
  - replace (- (- softplus (- x) + q u - q u)) with (softplus (- x)) by ring.
    rewrite inv_softplus_softplus. ring.
  - apply inv_softplus_softplus.
Qed.

Lemma transform_inverse_id c y : wf c -> in_bounds c y -> transform_R c (inverse_R c y) = y.
Proof.
  destruct c as [l u|l|u|]; cbn [wf in_bounds inverse_R transform_R]; intros Hw Hy.
  - rewrite sigmoid_inv_sigmoid.
    + field. lra.
    + destruct Hy as [H0 H1]. split.
      * apply Rdiv_lt_0_compat; lra.
      * apply (Rmult_lt_reg_r (q u - q l)); [lra|]. unfold Rdiv.
        rewrite Rmult_assoc, Rinv_l by lra. lra.
  - rewrite softplus_inv_softplus by lra. ring.
  - rewrite Ropp_involutive. rewrite softplus_inv_softplus by lra. ring.
  - apply softplus_inv_softplus. exact Hy.
Qed.

(* injectivity: the transform is a bijection R -> (l, u) *)
Lemma transform_injective c x x' : wf c -> transform_R c x = transform_R c x' -> x = x'.
Proof.
  intros Hw H. rewrite <- (inverse_transform_id c x Hw), <- (inverse_transform_id c x' Hw).
  rewrite H. reflexivity.
Qed.

(* ---- Expr model denotes the R model ------------------------------------------------------ *)
Lemma den_e1 : den e1 = 1.
Proof. unfold e1. cbn [den]. unfold Q2R', Q2R. cbn. field. Qed.

Lemma den_sigmoid x : den (e_sigmoid x) = sigmoid (den x).
Proof. unfold e_sigmoid, sigmoid. cbn [den]. rewrite den_e1. reflexivity. Qed.
Lemma den_softplus x : den (e_softplus x) = softplus (den x).
Proof. unfold e_softplus, softplus. cbn [den]. rewrite den_e1. reflexivity. Qed.
Lemma den_inv_softplus x : den (e_inv_softplus x) = inv_softplus (den x).
Proof. unfold e_inv_softplus, inv_softplus. cbn [den]. rewrite den_e1. reflexivity. Qed.
Lemma den_inv_sigmoid x : den (e_inv_sigmoid x) = inv_sigmoid (den x).
Proof. unfold e_inv_sigmoid, inv_sigmoid. cbn [den]. rewrite den_e1. reflexivity. Qed.

Lemma den_transform c x : den (transform_e c x) = transform_R c (den x).
Proof.
  destruct c as [l u|l|u|]; cbn [transform_e transform_R].
  - cbn [den]. rewrite den_sigmoid, Q2R'_minus. reflexivity.
  - cbn [den]. rewrite den_softplus. reflexivity.
  - cbn [den]. rewrite den_softplus. reflexivity.
  - apply den_softplus.
Qed.

Lemma den_inverse c y : den (inverse_e c y) = inverse_R c (den y).
Proof.
  destruct c as [l u|l|u|]; cbn [inverse_e inverse_R].
  - rewrite den_inv_sigmoid. cbn [den]. rewrite Q2R'_minus. reflexivity.
  - rewrite den_inv_softplus. reflexivity.
  - cbn [den]. rewrite den_inv_softplus. reflexivity.
  - apply den_inv_softplus.
Qed.

(* the rational interior test decides the real one *)
Lemma Qc_ltb_spec a b : Qc_ltb a b = true <-> q a < q b.
Proof.
  unfold Qc_ltb, q, Q2R'. rewrite negb_true_iff. split.
  - intros H. apply Qlt_Rlt. apply Qnot_le_lt. intros Hle.
    apply Qle_bool_iff in Hle. congruence.
  - intros H. destruct (Qle_bool (this b) (this a)) eqn:E; [|reflexivity].
    apply Qle_bool_iff in E. apply Qle_Rle in E. lra.
Qed.

Lemma q_0 : q 0%Qc = 0.
Proof. unfold q, Q2R', Q2R. cbn. field. Qed.

Lemma interior_q_spec c v : interior_q c v = true <-> in_bounds c (q v).
Proof.
  destruct c as [l u|l|u|]; cbn [interior_q in_bounds].
  - rewrite andb_true_iff, !Qc_ltb_spec. reflexivity.
  - apply Qc_ltb_spec.
  - apply Qc_ltb_spec.
  - rewrite Qc_ltb_spec, q_0. reflexivity.
Qed.

(* ---- history invariant ------------------------------------------------------------------- *)
Definition readR (c : cons) (s : cell expr) : R := den (read_e c s).

(* whatever the history, the constrained read is strictly inside the bounds *)
Lemma read_in_bounds c s : wf c -> in_bounds c (readR c s).
Proof. intros Hw. unfold readR, read_e. rewrite den_transform. apply transform_range. exact Hw. Qed.

Lemma history_in_bounds c s ops : wf c ->
  Forall (fun s' => in_bounds c (readR c s')) (trace_e c s ops).
Proof.
  intros Hw. revert s. induction ops as [|o r IH]; intros s; cbn [trace_e trace]; constructor.
  - apply read_in_bounds. exact Hw.
  - apply IH.
Qed.

Lemma final_in_bounds c s ops : wf c ->
  in_bounds c (readR c (run Qc expr (fun v => inverse_e c (EConst v)) (interior_q c) EAdd s ops)).
Proof. intros Hw. apply read_in_bounds. exact Hw. Qed.

(* an accepted assignment reads back the assigned value; the rejection counter is unchanged *)
Lemma set_reads_back c s v : wf c -> interior_q c v = true ->
  readR c (step_e c s (Set_ v)) = q v /\ snd (step_e c s (Set_ v)) = snd s /\
  readR c (step_e c s (InitCons v)) = q v.
Proof.
  intros Hw Hi. destruct s as [raw rej]. unfold step_e, step. rewrite Hi.
  unfold readR, read_e. cbn [fst snd]. rewrite den_transform, den_inverse. cbn [den].
  fold (q v). rewrite transform_inverse_id; [auto|exact Hw|].
  apply interior_q_spec. exact Hi.
Qed.

(* an out-of-bounds assignment is rejected and leaves the raw value (hence the read) unchanged *)
Lemma set_out_of_bounds_rejected c s v : interior_q c v = false ->
  fst (step_e c s (Set_ v)) = fst s /\ snd (step_e c s (Set_ v)) = S (snd s) /\
  step_e c s (InitCons v) = step_e c s (Set_ v).
Proof.
  intros Hi. destruct s as [raw rej]. unfold step_e, step. rewrite Hi. cbn [fst snd]. auto.
Qed.

(* raw initialisation and optimiser steps: the read is the transform of the new raw value *)
Lemma init_raw_reads c s r : readR c (step_e c s (InitRaw r)) = transform_R c (den r).
Proof. destruct s as [raw rej]. unfold readR, read_e, step_e, step. cbn [fst]. apply den_transform. Qed.

Lemma step_reads c s d :
  readR c (step_e c s (Step d)) = transform_R c (den (fst s) + den d).
Proof.
  destruct s as [raw rej]. unfold readR, read_e, step_e, step. cbn [fst].
  rewrite den_transform. reflexivity.
Qed.

(* ---- priors ------------------------------------------------------------------------------ *)
Definition normal_pdf (x mu s : R) : R :=
  exp (- ((x - mu) * (x - mu)) / (2 * (s * s))) / sqrt (2 * PI * (s * s)).

Lemma ln_sqrt_half x : 0 < x -> ln (sqrt x) = / 2 * ln x.
Proof.
  intros Hx. assert (Hs : 0 < sqrt x) by (apply sqrt_lt_R0; exact Hx).
  assert (E : ln x = ln (sqrt x) + ln (sqrt x)).
  { rewrite <- ln_mult by assumption. rewrite sqrt_sqrt by lra. reflexivity. }
  lra.
Qed.

Lemma ln_div_pos a b : 0 < a -> 0 < b -> ln (a / b) = ln a - ln b.
Proof.
  intros Ha Hb. unfold Rdiv. rewrite ln_mult; [|exact Ha|apply Rinv_0_lt_compat; exact Hb].
  rewrite ln_Rinv by exact Hb. ring.
Qed.

Lemma normal_pdf_pos x mu s : 0 < s -> 0 < normal_pdf x mu s.
Proof.
  intros Hs. unfold normal_pdf. apply Rdiv_lt_0_compat; [apply exp_pos|].
  apply sqrt_lt_R0. pose proof PI_RGT_0.
  apply Rmult_lt_0_compat; [lra|apply Rmult_lt_0_compat; exact Hs].
Qed.

Lemma den_e2 : den e2 = 2.
Proof.
  unfold e2. cbn [den]. unfold Q2R'.
  replace (this (qc 2 1)) with (2 # 1)%Q by (vm_compute; reflexivity).
  unfold Q2R. cbn [Qnum Qden]. field.
Qed.
Lemma den_e_half : den e_half = / 2.
Proof.
  unfold e_half. cbn [den]. unfold Q2R'.
  replace (this (qc 1 2)) with (1 # 2)%Q by (vm_compute; reflexivity).
  unfold Q2R. cbn [Qnum Qden]. field.
Qed.
Lemma den_e0 : den (EConst 0%Qc) = 0.
Proof. cbn [den]. apply q_0. Qed.

Lemma den_lp_normal mu s x :
  den (lp_normal mu s x)
  = - ((den x - den mu) * (den x - den mu)) / (2 * (den s * den s))
    - (ln (den s) + / 2 * ln (2 * PI)).
Proof.
  unfold lp_normal, e_sq, e_ln2pi. cbn [den]. rewrite den_e2, den_e_half. unfold Rdiv. ring.
Qed.

(* NormalPrior.log_prob = ln of the documented pdf *)
Lemma lp_normal_correct mu s x : 0 < den s ->
  den (lp_normal mu s x) = ln (normal_pdf (den x) (den mu) (den s)).
Proof.
  intros Hs. rewrite den_lp_normal. unfold normal_pdf.
  assert (Hpi : 0 < 2 * PI) by (pose proof PI_RGT_0; lra).
  assert (Hss : 0 < den s * den s) by (apply Rmult_lt_0_compat; exact Hs).
  assert (Hq : 0 < 2 * PI * (den s * den s)) by (apply Rmult_lt_0_compat; assumption).
  assert (Hsq : 0 < sqrt (2 * PI * (den s * den s))) by (apply sqrt_lt_R0; exact Hq).
  rewrite ln_div_pos; [|apply exp_pos|exact Hsq].
  rewrite ln_exp. rewrite ln_sqrt_half by exact Hq.
  rewrite (ln_mult (2 * PI) (den s * den s)) by assumption.
  rewrite (ln_mult (den s) (den s)) by assumption. field. lra.
Qed.

(* LogNormalPrior.log_prob x = NormalPrior.log_prob (ln x) - ln x
   = ln ( normal_pdf(ln x) / x ), the log-normal density *)
Lemma lp_lognormal_correct mu s x : 0 < den s -> 0 < den x ->
  den (lp_lognormal mu s x) = den (lp_normal mu s (ELog x)) - ln (den x) /\
  den (lp_lognormal mu s x) = ln (normal_pdf (ln (den x)) (den mu) (den s) / den x).
Proof.
  intros Hs Hx. split; [reflexivity|].
  unfold lp_lognormal. cbn [den]. rewrite lp_normal_correct by exact Hs. cbn [den].
  rewrite ln_div_pos; [reflexivity|apply normal_pdf_pos; exact Hs|exact Hx].
Qed.

Lemma lp_halfnormal_correct s x : 0 < den s ->
  den (lp_halfnormal s x) = ln (2 * normal_pdf (den x) 0 (den s)).
Proof.
  intros Hs. unfold lp_halfnormal. cbn [den]. rewrite den_e2, lp_normal_correct by exact Hs.
  rewrite den_e0. rewrite ln_mult; [reflexivity|lra|apply normal_pdf_pos; exact Hs].
Qed.

Lemma lp_uniform_correct a b : den a < den b ->
  den (lp_uniform a b) = ln (1 / (den b - den a)).
Proof.
  intros H. unfold lp_uniform. cbn [den]. rewrite ln_div_pos by lra. rewrite ln_1. ring.
Qed.

Lemma lp_halfcauchy_correct s x : 0 < den s ->
  den (lp_halfcauchy s x)
  = ln (2 / (PI * den s * (1 + (den x / den s) * (den x / den s)))).
Proof.
  intros Hs. unfold lp_halfcauchy, e_sq. cbn [den]. rewrite den_e2, den_e1.
  pose proof PI_RGT_0 as Hpi.
  assert (H1 : 0 < PI * den s) by (apply Rmult_lt_0_compat; lra).
  assert (H2 : 0 < 1 + den x / den s * (den x / den s)) by nra.
  rewrite ln_div_pos; [|lra|apply Rmult_lt_0_compat; lra].
  rewrite (ln_mult (PI * den s) (1 + den x / den s * (den x / den s))) by lra. ring.
Qed.

(* GammaPrior: ln ( b^a x^(a-1) exp(-b x) ) - ln Gamma(a), real powers *)
Lemma lp_gamma_correct a b x : 0 < den b -> 0 < den x ->
  den (lp_gamma a b x)
  = ln (Rpower (den b) (den a) * Rpower (den x) (den a - 1) * exp (- (den b * den x)))
    - ln (Gamma_fn (den a)).
Proof.
  intros Hb Hx. unfold lp_gamma. cbn [den]. rewrite den_e1.
  rewrite ln_mult; [|apply Rmult_lt_0_compat; apply exp_pos|apply exp_pos].
  rewrite ln_mult by apply exp_pos. unfold Rpower. rewrite !ln_exp. ring.
Qed.

(* SmoothedBoxPrior: the density is N(d; 0, s) / (1 + (b-a)/(sqrt(2 pi) s)) with d the distance
   from the box *)
Definition boxdist (a b x : R) : R := Rmax (Rabs (x - (a + b) / 2) - (b - a) / 2) 0.

Lemma lp_smoothedbox_correct a b s x : 0 < den s -> den a < den b ->
  den (lp_smoothedbox a b s x)
  = ln (normal_pdf (boxdist (den a) (den b) (den x)) 0 (den s)
        / (1 + (den b - den a) / (sqrt (2 * PI) * den s))).
Proof.
  intros Hs Hab. unfold lp_smoothedbox. cbn [den]. rewrite lp_normal_correct by exact Hs.
  unfold e_boxdist. cbn [den]. rewrite den_e2, den_e1.
  change (Q2R' 0%Qc) with (q 0%Qc). rewrite q_0.
  fold (boxdist (den a) (den b) (den x)).
  assert (Hpi : 0 < sqrt (2 * PI)) by (apply sqrt_lt_R0; pose proof PI_RGT_0; lra).
  assert (Hd : 0 < 1 + (den b - den a) / (sqrt (2 * PI) * den s)).
  { assert (0 < (den b - den a) / (sqrt (2 * PI) * den s)).
    { apply Rdiv_lt_0_compat; [lra|apply Rmult_lt_0_compat; lra]. }
    lra. }
  rewrite ln_div_pos; [reflexivity|apply normal_pdf_pos; exact Hs|exact Hd].
Qed.

(* inside the box the distance is 0: the density is flat there *)
Lemma boxdist_inside a b x : a <= x <= b -> boxdist a b x = 0.
Proof.
  intros [H1 H2]. unfold boxdist. apply Rmax_right.
  assert (Rabs (x - (a + b) / 2) <= (b - a) / 2); [|lra].
  apply Rabs_le. lra.
Qed.
