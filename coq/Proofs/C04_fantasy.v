From Coq Require Import Arith Lia Ring Field Setoid Morphisms List.
From GPV Require Import Base.LinAlg Base.Exec Models.C01_posterior Proofs.C01_posterior
  Models.C04_fantasy.
Import ListNotations.

Section Proofs.
Context {K : Fld}.
Add Field Ff_c04 : (@FT K).
Local Open Scope fld_scope.

(* ---- general lemmas (candidates for Base/LinAlg.v) -------------------------------------- *)

Lemma mmul_blk_vstack m1 m2 k1 k2 p A B C D x y :
  meq (m1 + m2) p
    (mmul (k1 + k2) (blk m1 k1 A B C D) (vstack k1 x y))
    (vstack m1 (madd (mmul k1 A x) (mmul k2 B y)) (madd (mmul k1 C x) (mmul k2 D y))).
Proof.
  intros i j Hi Hj. unfold mmul at 1. rewrite sum_split.
  unfold blk, vstack, madd, mmul.
  destruct (Nat.ltb_spec i m1); f_equal; apply sum_ext; intros l Hl;
    repeat match goal with
    | |- context [Nat.ltb ?a ?b] => destruct (Nat.ltb_spec a b); try lia
    end;
    repeat (f_equal; try lia).
Qed.

Lemma vstack_compat n m p A A' C C' :
  meq n p A A' -> meq m p C C' -> meq (n + m) p (vstack n A C) (vstack n A' C').
Proof.
  intros HA HC i j Hi Hj. unfold vstack.
  destruct (Nat.ltb_spec i n); [apply HA|apply HC]; lia.
Qed.

Lemma vstack_of_subs n m p A : meq (n + m) p A (vstack n (sub 0 0 A) (sub n 0 A)).
Proof.
  intros i j Hi Hj. unfold vstack, sub. cbn [Nat.add].
  destruct (Nat.ltb_spec i n); f_equal; lia.
Qed.

Lemma mopp_madd_cancel m n A : meq m n (madd (mopp A) A) mzero.
Proof. mat_pt. ring. Qed.

(* (A B) C = A (B C) with the middle dimensions named *)
Lemma assoc3 m n k l A B C : meq m n (mmul l (mmul k A B) C) (mmul k A (mmul l B C)).
Proof. apply mmul_assoc. Qed.

Lemma is_inverse_compat n A A' Ai Ai' :
  meq n n A A' -> meq n n Ai Ai' -> is_inverse n A Ai -> is_inverse n A' Ai'.
Proof.
  intros HA HAi [H1 H2]. split.
  - transitivity (mmul n A Ai); [apply mmul_compat; symmetry; assumption|exact H1].
  - transitivity (mmul n Ai A); [apply mmul_compat; symmetry; assumption|exact H2].
Qed.

(* ---- the mean cache: [a; b] solves the bordered system ---------------------------------- *)

(* what the code relies on: alpha solves A alpha = r, Q solves A Q = U^T, Cinv is a right
   inverse of the Schur complement *)
Lemma fantasy_mean_cache_solves n m A U Ut Sf Q Cinv alpha r rf :
  meq n 1 (mmul n A alpha) r ->
  meq n m (mmul n A Q) Ut ->
  meq m m (mmul m (schur n U Q Sf) Cinv) mI ->
  meq (n + m) 1
    (mmul (n + m) (bordered n A Ut U Sf) (fant_mean_cache n m U Q Cinv alpha rf))
    (vstack n r rf).
Proof.
  intros Ha HQ HC. unfold bordered, fant_mean_cache.
  etransitivity; [apply mmul_blk_vstack|].
  set (b := fant_lower n m U Cinv alpha rf).
  apply vstack_compat.
  - (* A (alpha - Q b) + U^T b = r *)
    unfold fant_upper. fold b.
    assert (E1 : meq n 1 (mmul n A (mmul m Q b)) (mmul m Ut b)).
    { transitivity (mmul m (mmul n A Q) b); [symmetry; apply mmul_assoc|].
      apply mmul_compat_l. exact HQ. }
    assert (E0 : meq n 1 (mmul n A (msub alpha (mmul m Q b)))
                         (msub (mmul n A alpha) (mmul n A (mmul m Q b)))).
    { apply mmul_sub_distr_l. }
    intros i j Hi Hj. unfold madd. rewrite (E0 i j Hi Hj). unfold msub.
    rewrite (E1 i j Hi Hj), (Ha i j Hi Hj). ring.
  - (* U (alpha - Q b) + Sf b = U alpha + C b = rf *)
    unfold fant_upper. fold b.
    assert (E0 : meq m 1 (mmul n U (msub alpha (mmul m Q b)))
                         (msub (mmul n U alpha) (mmul n U (mmul m Q b)))).
    { apply mmul_sub_distr_l. }
    assert (E1 : meq m 1 (mmul n U (mmul m Q b)) (mmul m (mmul n U Q) b)).
    { symmetry. apply mmul_assoc. }
    assert (E2 : meq m 1 (mmul m (schur n U Q Sf) b) (small_rhs n U alpha rf)).
    { unfold b, fant_lower.
      transitivity (mmul m (mmul m (schur n U Q Sf) Cinv) (small_rhs n U alpha rf));
        [symmetry; apply mmul_assoc|].
      transitivity (mmul m mI (small_rhs n U alpha rf)); [apply mmul_compat_l; exact HC|].
      apply mmul_I_l. }
    assert (E3 : meq m 1 (mmul m (schur n U Q Sf) b)
                         (msub (mmul m Sf b) (mmul m (mmul n U Q) b))).
    { unfold schur. apply mmul_sub_distr_r. }
    intros i j Hi Hj. unfold madd. rewrite (E0 i j Hi Hj). unfold msub.
    rewrite (E1 i j Hi Hj).
    generalize (E2 i j Hi Hj). rewrite (E3 i j Hi Hj). unfold small_rhs, msub.
    intros E. transitivity
      (mmul n U alpha i j + (mmul m Sf b i j - mmul m (mmul n U Q) b i j)); [ring|].
    rewrite E. ring.
Qed.

(* ---- the bordered (Schur) inverse ------------------------------------------------------- *)

Ltac chain_l H := etransitivity; [apply mmul_compat_l; exact H|].
Ltac chain_r H := etransitivity; [apply mmul_compat_r; exact H|].

Lemma bordered_inv_right n m A Ainv U Ut Sf Cinv :
  is_inverse n A Ainv ->
  is_inverse m (schur n U (fant_solve n Ainv Ut) Sf) Cinv ->
  meq (n + m) (n + m)
    (mmul (n + m) (bordered n A Ut U Sf) (bordered_inv n m Ainv U Ut Cinv)) mI.
Proof.
  intros [HA1 HA2] [HC1 HC2]. unfold bordered, bordered_inv, fant_solve in *.
  set (Q := mmul n Ainv Ut) in *. set (P := mmul n U Ainv).
  set (X := mmul m Cinv P). set (W := mmul m Q Cinv).
  set (C := schur n U Q Sf) in *.
  assert (AQ : meq n m (mmul n A Q) Ut).
  { unfold Q. transitivity (mmul n (mmul n A Ainv) Ut); [symmetry; apply mmul_assoc|].
    chain_l HA1. apply mmul_I_l. }
  assert (CX : meq m n (mmul m C X) P).
  { unfold X. transitivity (mmul m (mmul m C Cinv) P); [symmetry; apply mmul_assoc|].
    chain_l HC1. apply mmul_I_l. }
  etransitivity; [apply mmul_blk|]. etransitivity; [|symmetry; apply mI_blk].
  apply blk_compat.
  - assert (E1 : meq n n (mmul n A (madd Ainv (mmul m Q X)))
                         (madd (mmul n A Ainv) (mmul n A (mmul m Q X)))) by apply mmul_add_distr_l.
    assert (E2 : meq n n (mmul n A (mmul m Q X)) (mmul m Ut X)).
    { transitivity (mmul m (mmul n A Q) X); [symmetry; apply mmul_assoc|].
      apply mmul_compat_l; exact AQ. }
    assert (E3 : meq n n (mmul m Ut (mopp X)) (mopp (mmul m Ut X))) by apply mmul_opp_r.
    intros i j Hi Hj. unfold madd at 1. rewrite (E1 i j Hi Hj), (E3 i j Hi Hj). unfold madd, mopp.
    rewrite (E2 i j Hi Hj), (HA1 i j Hi Hj). ring.
  - assert (E1 : meq n m (mmul n A (mopp W)) (mopp (mmul n A W))) by apply mmul_opp_r.
    assert (E2 : meq n m (mmul n A W) (mmul m Ut Cinv)).
    { unfold W. transitivity (mmul m (mmul n A Q) Cinv); [symmetry; apply mmul_assoc|].
      apply mmul_compat_l; exact AQ. }
    intros i j Hi Hj. unfold madd at 1. rewrite (E1 i j Hi Hj). unfold mopp, mzero.
    rewrite (E2 i j Hi Hj). ring.
  - assert (E1 : meq m n (mmul n U (madd Ainv (mmul m Q X)))
                         (madd (mmul n U Ainv) (mmul n U (mmul m Q X)))) by apply mmul_add_distr_l.
    assert (E2 : meq m n (mmul n U (mmul m Q X)) (mmul m (mmul n U Q) X)).
    { symmetry; apply mmul_assoc. }
    assert (E3 : meq m n (mmul m Sf (mopp X)) (mopp (mmul m Sf X))) by apply mmul_opp_r.
    assert (E4 : meq m n (mmul m C X) (msub (mmul m Sf X) (mmul m (mmul n U Q) X))).
    { unfold C, schur. apply mmul_sub_distr_r. }
    intros i j Hi Hj. unfold madd at 1. rewrite (E1 i j Hi Hj), (E3 i j Hi Hj). unfold madd, mopp, mzero.
    rewrite (E2 i j Hi Hj). generalize (E4 i j Hi Hj). rewrite (CX i j Hi Hj). unfold msub.
    fold P. intros E. rewrite E. ring.
  - assert (E1 : meq m m (mmul n U (mopp W)) (mopp (mmul n U W))) by apply mmul_opp_r.
    assert (E2 : meq m m (mmul n U W) (mmul m (mmul n U Q) Cinv)).
    { unfold W. symmetry; apply mmul_assoc. }
    assert (E4 : meq m m (mmul m C Cinv) (msub (mmul m Sf Cinv) (mmul m (mmul n U Q) Cinv))).
    { unfold C, schur. apply mmul_sub_distr_r. }
    intros i j Hi Hj. unfold madd at 1. rewrite (E1 i j Hi Hj). unfold mopp.
    rewrite (E2 i j Hi Hj). generalize (E4 i j Hi Hj). rewrite (HC1 i j Hi Hj). unfold msub.
    intros E. rewrite E. ring.
Qed.

Lemma bordered_inv_left n m A Ainv U Ut Sf Cinv :
  is_inverse n A Ainv ->
  is_inverse m (schur n U (fant_solve n Ainv Ut) Sf) Cinv ->
  meq (n + m) (n + m)
    (mmul (n + m) (bordered_inv n m Ainv U Ut Cinv) (bordered n A Ut U Sf)) mI.
Proof.
  intros [HA1 HA2] [HC1 HC2]. unfold bordered, bordered_inv, fant_solve in *.
  set (Q := mmul n Ainv Ut) in *. set (P := mmul n U Ainv).
  set (X := mmul m Cinv P). set (W := mmul m Q Cinv).
  set (C := schur n U Q Sf) in *.
  assert (PA : meq m n (mmul n P A) U).
  { unfold P. transitivity (mmul n U (mmul n Ainv A)); [apply mmul_assoc|].
    chain_r HA2. apply mmul_I_r. }
  assert (XA : meq m n (mmul n X A) (mmul m Cinv U)).
  { unfold X. transitivity (mmul m Cinv (mmul n P A)); [apply mmul_assoc|].
    apply mmul_compat_r; exact PA. }
  assert (PUt : meq m m (mmul n P Ut) (mmul n U Q)).
  { unfold P, Q. apply mmul_assoc. }
  assert (XUt : meq m m (mmul n X Ut) (mmul m Cinv (mmul n U Q))).
  { unfold X. transitivity (mmul m Cinv (mmul n P Ut)); [apply mmul_assoc|].
    apply mmul_compat_r; exact PUt. }
  assert (CiC : meq m m (mmul m Cinv C)
                        (msub (mmul m Cinv Sf) (mmul m Cinv (mmul n U Q)))).
  { unfold C, schur. apply mmul_sub_distr_l. }
  etransitivity; [apply mmul_blk|]. etransitivity; [|symmetry; apply mI_blk].
  apply blk_compat.
  - assert (E1 : meq n n (mmul n (madd Ainv (mmul m Q X)) A)
                         (madd (mmul n Ainv A) (mmul n (mmul m Q X) A))) by apply mmul_add_distr_r.
    assert (E2 : meq n n (mmul n (mmul m Q X) A) (mmul m Q (mmul m Cinv U))).
    { transitivity (mmul m Q (mmul n X A)); [apply mmul_assoc|].
      apply mmul_compat_r; exact XA. }
    assert (E3 : meq n n (mmul m (mopp W) U) (mopp (mmul m W U))) by apply mmul_opp_l.
    assert (E4 : meq n n (mmul m W U) (mmul m Q (mmul m Cinv U))).
    { unfold W. apply mmul_assoc. }
    intros i j Hi Hj. unfold madd at 1. rewrite (E1 i j Hi Hj), (E3 i j Hi Hj). unfold madd, mopp.
    rewrite (E2 i j Hi Hj), (E4 i j Hi Hj), (HA2 i j Hi Hj). ring.
  - assert (E1 : meq n m (mmul n (madd Ainv (mmul m Q X)) Ut)
                         (madd (mmul n Ainv Ut) (mmul n (mmul m Q X) Ut))) by apply mmul_add_distr_r.
    assert (E2 : meq n m (mmul n (mmul m Q X) Ut) (mmul m Q (mmul m Cinv (mmul n U Q)))).
    { transitivity (mmul m Q (mmul n X Ut)); [apply mmul_assoc|].
      apply mmul_compat_r; exact XUt. }
    assert (E3 : meq n m (mmul m (mopp W) Sf) (mopp (mmul m W Sf))) by apply mmul_opp_l.
    assert (E4 : meq n m (mmul m W Sf) (mmul m Q (mmul m Cinv Sf))).
    { unfold W. apply mmul_assoc. }
    assert (E5 : meq n m (mmul m Q (mmul m Cinv C)) Q).
    { chain_r HC2. apply mmul_I_r. }
    assert (E6 : meq n m (mmul m Q (mmul m Cinv C))
                         (msub (mmul m Q (mmul m Cinv Sf)) (mmul m Q (mmul m Cinv (mmul n U Q))))).
    { chain_r CiC. apply mmul_sub_distr_l. }
    intros i j Hi Hj. unfold madd at 1. rewrite (E1 i j Hi Hj), (E3 i j Hi Hj). unfold madd, mopp, mzero.
    rewrite (E2 i j Hi Hj), (E4 i j Hi Hj). generalize (E6 i j Hi Hj). rewrite (E5 i j Hi Hj).
    unfold msub. fold Q. intros E. rewrite E. ring.
  - assert (E1 : meq m n (mmul n (mopp X) A) (mopp (mmul n X A))) by apply mmul_opp_l.
    intros i j Hi Hj. unfold madd at 1. rewrite (E1 i j Hi Hj). unfold mopp, mzero.
    rewrite (XA i j Hi Hj). ring.
  - assert (E1 : meq m m (mmul n (mopp X) Ut) (mopp (mmul n X Ut))) by apply mmul_opp_l.
    intros i j Hi Hj. unfold madd at 1. rewrite (E1 i j Hi Hj). unfold mopp.
    rewrite (XUt i j Hi Hj). generalize (CiC i j Hi Hj). rewrite (HC2 i j Hi Hj). unfold msub.
    intros E. rewrite E. ring.
Qed.

Lemma bordered_inv_correct n m A Ainv U Ut Sf Cinv :
  is_inverse n A Ainv ->
  is_inverse m (schur n U (fant_solve n Ainv Ut) Sf) Cinv ->
  is_inverse (n + m) (bordered n A Ut U Sf) (bordered_inv n m Ainv U Ut Cinv).
Proof.
  intros HA HC. split; [apply bordered_inv_right|apply bordered_inv_left]; assumption.
Qed.

(* Appendix-A form: with alpha = A^-1 r and Q = A^-1 U^T *)
Lemma fantasy_mean_cache_correct n m A Ainv U Ut Sf Cinv r rf :
  is_inverse n A Ainv ->
  is_inverse m (schur n U (fant_solve n Ainv Ut) Sf) Cinv ->
  meq (n + m) 1
    (mmul (n + m) (bordered n A Ut U Sf)
       (fant_mean_cache n m U (fant_solve n Ainv Ut) Cinv (mmul n Ainv r) rf))
    (vstack n r rf).
Proof.
  intros HA [HC1 _]. apply fantasy_mean_cache_solves.
  - apply (solve_unique n 1 A Ainv _ _ HA). reflexivity.
  - unfold fant_solve. apply (solve_unique n m A Ainv _ _ HA). reflexivity.
  - exact HC1.
Qed.

(* ---- iterated update: the invariant carried by the strategy ------------------------------ *)

Definition finv (KJ S r : M) (st : fstate) : Prop :=
  let '(n, Ainv, alpha) := st in
  is_inverse n (train_covar KJ S) Ainv /\ meq n 1 alpha (mmul n Ainv r).

Definition oracle_sound (inv : nat -> M -> option M) : Prop :=
  forall m C Ci, inv m C = Some Ci -> is_inverse m C Ci.

Lemma schur_compat n m U Q Q' Sf : meq n m Q Q' -> meq m m (schur n U Q Sf) (schur n U Q' Sf).
Proof. intros HQ. unfold schur. apply msub_compat; [reflexivity|]. apply mmul_compat_r; exact HQ. Qed.

Lemma fant_mean_cache_staged_eq n m U Q Cinv alpha rf :
  meq (n + m) 1 (fant_mean_cache_staged n m U Q Cinv alpha rf) (fant_mean_cache n m U Q Cinv alpha rf).
Proof.
  unfold fant_mean_cache_staged, fant_mean_cache, fant_upper. apply vstack_compat.
  - apply msub_compat; [reflexivity|]. apply mmul_compat_r. apply mat_meq.
  - apply mat_meq.
Qed.

Lemma bordered_inv_staged_eq n m Ainv U Ut Q P Cinv :
  meq n m Q (mmul n Ainv Ut) -> meq m n P (mmul n U Ainv) ->
  meq (n + m) (n + m) (bordered_inv_staged n m Ainv Q P Cinv) (bordered_inv n m Ainv U Ut Cinv).
Proof.
  intros HQ HP. unfold bordered_inv_staged, bordered_inv. apply blk_compat.
  - apply madd_compat; [reflexivity|]. apply mmul_compat; [exact HQ|].
    etransitivity; [apply mat_meq|]. apply mmul_compat_r. exact HP.
  - apply mopp_compat. etransitivity; [apply mat_meq|]. apply mmul_compat_l. exact HQ.
  - apply mopp_compat. etransitivity; [apply mat_meq|]. apply mmul_compat_r. exact HP.
  - reflexivity.
Qed.

Lemma post_cov_staged_eq n t KJ Ainv : meq t t (post_cov_staged n t KJ Ainv) (post_cov n KJ Ainv).
Proof.
  unfold post_cov_staged, post_cov. apply msub_compat; [reflexivity|].
  apply mmul_compat_r. apply mat_meq.
Qed.

Lemma fantasy_step_inv inv KJ S r st m st' :
  oracle_sound inv -> finv KJ S r st -> fantasy_step inv KJ S r st m = Some st' ->
  finv KJ S r st' /\ fst (fst st') = (fst (fst st) + m)%nat.
Proof.
  intros Hor Hinv Hstep. destruct st as [[n Ainv] alpha]. destruct Hinv as [HA Hal].
  unfold fantasy_step in Hstep.
  set (A := train_covar KJ S) in *.
  set (Um := mat m n (sub n 0 A)) in *. set (Utm := mat n m (sub 0 n A)) in *.
  set (U := sub n 0 A). set (Ut := sub 0 n A). set (Sf := sub n n A) in *.
  set (Qm := mat n m (fant_solve n Ainv Utm)) in *.
  set (Pm := mat m n (mmul n Um Ainv)) in *.
  destruct (inv m (mat m m (schur n Um Qm Sf))) as [Cinv|] eqn:Hi; [|discriminate].
  injection Hstep as <-. cbn [fst]. split; [|reflexivity].
  apply Hor in Hi.
  assert (HU : meq m n Um U) by apply mat_meq.
  assert (HUt : meq n m Utm Ut) by apply mat_meq.
  assert (HQm : meq n m Qm (fant_solve n Ainv Ut)).
  { unfold Qm. etransitivity; [apply mat_meq|]. unfold fant_solve. apply mmul_compat_r. exact HUt. }
  assert (HPm : meq m n Pm (mmul n U Ainv)).
  { unfold Pm. etransitivity; [apply mat_meq|]. apply mmul_compat_l. exact HU. }
  assert (HCm : is_inverse m (schur n U Qm Sf) Cinv).
  { eapply is_inverse_compat; [|reflexivity|exact Hi].
    etransitivity; [apply mat_meq|]. unfold schur. apply msub_compat; [reflexivity|].
    apply mmul_compat_l. exact HU. }
  assert (HC : is_inverse m (schur n U (fant_solve n Ainv Ut) Sf) Cinv).
  { eapply is_inverse_compat; [apply schur_compat; exact HQm|reflexivity|exact HCm]. }
  assert (HAblk : meq (n + m) (n + m) (bordered n (sub 0 0 A) Ut U Sf) A).
  { symmetry. apply blk_of_subs. }
  assert (HB : is_inverse (n + m) A (mat (n + m) (n + m) (bordered_inv_staged n m Ainv Qm Pm Cinv))).
  { eapply is_inverse_compat; [exact HAblk| |apply (bordered_inv_correct n m _ Ainv U Ut Sf Cinv HA HC)].
    symmetry. etransitivity; [apply mat_meq|].
    apply bordered_inv_staged_eq; [exact HQm|exact HPm]. }
  unfold finv. split; [exact HB|].
  apply (solve_unique (n + m) 1 A _ _ _ HB).
  transitivity (mmul (n + m) (bordered n (sub 0 0 A) Ut U Sf)
                  (fant_mean_cache n m U Qm Cinv alpha (sub n 0 r))).
  { apply mmul_compat; [symmetry; exact HAblk|].
    etransitivity; [apply mat_meq|]. etransitivity; [apply fant_mean_cache_staged_eq|].
    unfold fant_mean_cache, fant_upper, fant_lower, small_rhs. apply vstack_compat.
    - apply msub_compat; [reflexivity|]. apply mmul_compat_r. apply mmul_compat_r.
      apply msub_compat; [reflexivity|]. apply mmul_compat_l. exact HU.
    - apply mmul_compat_r. apply msub_compat; [reflexivity|]. apply mmul_compat_l. exact HU. }
  transitivity (vstack n (sub 0 0 r) (sub n 0 r)); [|symmetry; apply vstack_of_subs].
  apply fantasy_mean_cache_solves.
  - apply (solve_unique n 1 A Ainv _ _ HA). exact Hal.
  - transitivity (mmul n A (fant_solve n Ainv Ut)); [apply mmul_compat_r; exact HQm|].
    unfold fant_solve. apply (solve_unique n m A Ainv _ _ HA). reflexivity.
  - destruct HCm as [H1 _]. exact H1.
Qed.

Lemma fantasy_fold_inv inv KJ S r ms : oracle_sound inv -> forall st st',
  finv KJ S r st -> fantasy_fold inv KJ S r st ms = Some st' ->
  finv KJ S r st' /\ fst (fst st') = (fst (fst st) + list_sum ms)%nat.
Proof.
  intros Hor. induction ms as [|m ms IH]; intros st st' Hinv Hf; cbn [fantasy_fold] in Hf.
  - injection Hf as <-. split; [exact Hinv|]. change (list_sum []) with O. lia.
  - destruct (fantasy_step inv KJ S r st m) as [st1|] eqn:Hs; [|discriminate].
    destruct (fantasy_step_inv inv KJ S r st m st1 Hor Hinv Hs) as [H1 H2].
    destruct (IH st1 st' H1 Hf) as [H3 H4]. split; [exact H3|].
    change (list_sum (m :: ms)) with (m + list_sum ms)%nat. rewrite H4, H2. lia.
Qed.

Lemma fantasy_init_inv inv KJ S r n0 st :
  oracle_sound inv -> fantasy_init inv KJ S r n0 = Some st ->
  finv KJ S r st /\ fst (fst st) = n0.
Proof.
  intros Hor H. unfold fantasy_init in H.
  destruct (inv n0 (mat n0 n0 (train_covar KJ S))) as [Ainv|] eqn:Hi; [|discriminate].
  injection H as <-. cbn [fst]. split; [|reflexivity]. apply Hor in Hi. split.
  - eapply is_inverse_compat; [apply mat_meq|reflexivity|exact Hi].
  - apply mat_meq.
Qed.

(* posterior computed from a state that satisfies the invariant = C01 posterior computed from
   scratch (any inverse of the full train covariance).  The test blocks may come from any joint
   prior KJt / muJt that agrees with the world on the n train rows of the mean (the covariance
   enters only through its test-train and test-test blocks). *)
Lemma posterior_from_state n t KJ S muJ y Ainv alpha Ainv' KJt muJt :
  finv KJ S (resid muJ y) (n, Ainv, alpha) ->
  is_inverse n (train_covar KJ S) Ainv' ->
  meq n 1 muJt muJ ->
  meq t 1 (post_mean_from_cache n KJt muJt alpha) (post_mean n KJt muJt Ainv' y)
  /\ meq t t (post_cov n KJt Ainv) (post_cov n KJt Ainv').
Proof.
  intros [HA Hal] HA' Hmu.
  assert (HE : meq n n Ainv Ainv') by (apply (inverse_unique n (train_covar KJ S)); assumption).
  split.
  - unfold post_mean_from_cache, post_mean, mean_cache. apply madd_compat; [|reflexivity].
    apply mmul_compat_r. transitivity (mmul n Ainv (resid muJ y)); [exact Hal|].
    apply mmul_compat; [exact HE|]. unfold resid. apply msub_compat; [reflexivity|].
    intros i j Hi Hj. unfold sub. cbn [Nat.add]. symmetry. apply Hmu; assumption.
  - unfold post_cov. apply msub_compat; [reflexivity|].
    apply mmul_compat_r. apply mmul_compat_l. exact HE.
Qed.

(* k successive fantasy updates = one conditioning on all the data *)
Lemma fantasy_iterated inv KJ S muJ y n0 ms t st0 N Ainv alpha Ainv' KJt muJt :
  oracle_sound inv ->
  fantasy_init inv KJ S (resid muJ y) n0 = Some st0 ->
  fantasy_fold inv KJ S (resid muJ y) st0 ms = Some (N, Ainv, alpha) ->
  is_inverse (n0 + list_sum ms) (train_covar KJ S) Ainv' ->
  meq (n0 + list_sum ms) 1 muJt muJ ->
  N = (n0 + list_sum ms)%nat
  /\ meq N 1 alpha (mean_cache N muJ Ainv' y)
  /\ meq N N Ainv Ainv'
  /\ meq t 1 (post_mean_from_cache N KJt muJt alpha) (post_mean N KJt muJt Ainv' y)
  /\ meq t t (post_cov N KJt Ainv) (post_cov N KJt Ainv').
Proof.
  intros Hor H0 Hf HA' Hmu.
  destruct (fantasy_init_inv _ _ _ _ _ _ Hor H0) as [Hi0 Hn0].
  destruct (fantasy_fold_inv _ _ _ _ ms Hor _ _ Hi0 Hf) as [Hi HN]. cbn [fst] in HN.
  rewrite Hn0 in HN. subst N. split; [reflexivity|].
  destruct (posterior_from_state _ t _ _ _ _ _ _ _ KJt muJt Hi HA' Hmu) as [Hm Hc].
  destruct Hi as [HA Hal].
  assert (HE : meq (n0 + list_sum ms) (n0 + list_sum ms) Ainv Ainv')
    by (apply (inverse_unique _ (train_covar KJ S)); assumption).
  split; [|split; [exact HE|split; assumption]].
  unfold mean_cache. transitivity (mmul (n0 + list_sum ms) Ainv (resid muJ y)); [exact Hal|].
  apply mmul_compat_l. exact HE.
Qed.

(* the per-update trace the executable wrapper prints is the fold on every prefix *)
Lemma fantasy_trace_fold inv KJ S r ms : forall st k, (k < length ms)%nat ->
  nth k (fantasy_trace inv KJ S r st ms) None = fantasy_fold inv KJ S r st (firstn (Datatypes.S k) ms)
  \/ (exists j, (j < k)%nat /\ fantasy_fold inv KJ S r st (firstn (Datatypes.S j) ms) = None).
Proof.
  induction ms as [|m ms IH]; intros st k Hk; cbn [length] in Hk; [lia|].
  cbn [fantasy_trace firstn fantasy_fold].
  destruct (fantasy_step inv KJ S r st m) as [st1|] eqn:Hs.
  - destruct k as [|k].
    + left. cbn [nth firstn fantasy_fold]. reflexivity.
    + cbn [nth]. destruct (IH st1 k ltac:(lia)) as [H|[j [Hj Hn]]].
      * left. exact H.
      * right. exists (Datatypes.S j). split; [lia|]. cbn [firstn fantasy_fold]. try rewrite Hs. exact Hn.
  - destruct k as [|k].
    + left. reflexivity.
    + right. exists O. split; [lia|]. cbn [firstn fantasy_fold]. try rewrite Hs. reflexivity.
Qed.

(* one update, stated on the caches: the posterior computed from the updated caches equals the
   C01 posterior on the concatenated data *)
Lemma fantasy_equals_scratch inv KJ S muJ y n m t Ainv alpha st' Ainv' :
  oracle_sound inv ->
  is_inverse n (train_covar KJ S) Ainv -> meq n 1 alpha (mean_cache n muJ Ainv y) ->
  fantasy_step inv KJ S (resid muJ y) (n, Ainv, alpha) m = Some st' ->
  is_inverse (n + m) (train_covar KJ S) Ainv' ->
  meq t 1 (post_mean_from_cache (n + m) KJ muJ (snd st')) (post_mean (n + m) KJ muJ Ainv' y)
  /\ meq t t (post_cov (n + m) KJ (snd (fst st'))) (post_cov (n + m) KJ Ainv').
Proof.
  intros Hor HA Hal Hs HA'.
  assert (Hi : finv KJ S (resid muJ y) (n, Ainv, alpha)) by (split; [exact HA|exact Hal]).
  destruct (fantasy_step_inv _ _ _ _ _ _ _ Hor Hi Hs) as [Hi' Hn]. cbn [fst] in Hn.
  destruct st' as [[n' Ai'] al']. cbn [fst snd] in *. subst n'.
  apply (posterior_from_state _ t _ _ _ _ _ _ _ KJ muJ Hi' HA'). reflexivity.
Qed.

(* ---- root / inverse-root update (cat_rows) ---------------------------------------------- *)

(* invariant of the carried pair: E E^T = A and R = E^-T *)
Definition root_inv_pair (n : nat) (A E R : M) : Prop :=
  meq n n (mmul n E (mT E)) A /\ is_inverse n E (mT R).

Lemma mT_I_of n X Y : meq n n (mmul n X Y) mI -> meq n n (mmul n (mT Y) (mT X)) mI.
Proof.
  intros H. transitivity (mT (mmul n X Y)); [symmetry; apply mT_mmul|].
  transitivity (mT mI); [apply mT_compat; exact H|apply mT_mI].
Qed.

(* the carried inverse root really is a root of the inverse *)
Lemma root_pair_gives_inverse n A E R :
  root_inv_pair n A E R -> is_inverse n A (mmul n R (mT R)).
Proof.
  intros [HE [H1 H2]].
  assert (H1t : meq n n (mmul n R (mT E)) mI).
  { generalize (mT_I_of n _ _ H1). intros H. exact H. }
  assert (H2t : meq n n (mmul n (mT E) R) mI).
  { generalize (mT_I_of n _ _ H2). intros H. exact H. }
  split.
  - transitivity (mmul n (mmul n E (mT E)) (mmul n R (mT R))); [apply mmul_compat_l; symmetry; exact HE|].
    transitivity (mmul n E (mmul n (mT E) (mmul n R (mT R)))); [apply mmul_assoc|].
    transitivity (mmul n E (mT R)); [|exact H1].
    apply mmul_compat_r.
    transitivity (mmul n (mmul n (mT E) R) (mT R)); [symmetry; apply mmul_assoc|].
    chain_l H2t. apply mmul_I_l.
  - transitivity (mmul n (mmul n R (mT R)) (mmul n E (mT E))); [apply mmul_compat_r; symmetry; exact HE|].
    transitivity (mmul n R (mmul n (mT R) (mmul n E (mT E)))); [apply mmul_assoc|].
    transitivity (mmul n R (mT E)); [|exact H1t].
    apply mmul_compat_r.
    transitivity (mmul n (mmul n (mT R) E) (mT E)); [symmetry; apply mmul_assoc|].
    chain_l H2. apply mmul_I_l.
Qed.

(* the Schur complement cat_rows factors, D - (B R)(B R)^T, is the one of the mean update *)
Lemma root_schur_is_schur n m A E R U Sf :
  root_inv_pair n A E R ->
  meq m m (root_schur n Sf (root_lower_left n U R))
          (schur n U (fant_solve n (mmul n R (mT R)) (mT U)) Sf).
Proof.
  intros _. unfold root_schur, schur, root_lower_left, fant_solve.
  apply msub_compat; [reflexivity|].
  transitivity (mmul n (mmul n U R) (mmul n (mT R) (mT U))); [apply mmul_compat_r; apply mT_mmul|].
  transitivity (mmul n U (mmul n R (mmul n (mT R) (mT U)))); [apply mmul_assoc|].
  apply mmul_compat_r. symmetry. apply mmul_assoc.
Qed.

(* new root: Z Z^T is the bordered matrix *)
Lemma new_root_correct n m A E R U Sf G :
  root_inv_pair n A E R ->
  meq m m (mmul m G (mT G)) (root_schur n Sf (root_lower_left n U R)) ->
  meq (n + m) (n + m)
    (mmul (n + m) (new_root n E (root_lower_left n U R) G)
                  (mT (new_root n E (root_lower_left n U R) G)))
    (bordered n A (mT U) U Sf).
Proof.
  intros [HE [H1 H2]] HG. unfold new_root, bordered.
  set (F := root_lower_left n U R) in *.
  assert (H1t : meq n n (mmul n R (mT E)) mI) by (exact (mT_I_of n _ _ H1)).
  transitivity (mmul (n + m) (blk n n E mzero F G) (blk n n (mT E) (mT F) (mT mzero) (mT G))).
  { apply mmul_compat_r. apply mT_blk. }
  etransitivity; [apply mmul_blk|].
  apply blk_compat.
  - intros i j Hi Hj. unfold madd. rewrite (HE i j Hi Hj).
    rewrite (mmul_zero_l n n m (mT mzero) i j Hi Hj). unfold mzero. ring.
  - assert (E1 : meq n m (mmul n E (mT F)) (mT U)).
    { unfold F, root_lower_left.
      transitivity (mmul n E (mmul n (mT R) (mT U))); [apply mmul_compat_r; apply mT_mmul|].
      transitivity (mmul n (mmul n E (mT R)) (mT U)); [symmetry; apply mmul_assoc|].
      chain_l H1. apply mmul_I_l. }
    intros i j Hi Hj. unfold madd. rewrite (E1 i j Hi Hj).
    rewrite (mmul_zero_l n m m (mT G) i j Hi Hj). unfold mzero. ring.
  - assert (E1 : meq m n (mmul n F (mT E)) U).
    { unfold F, root_lower_left.
      transitivity (mmul n U (mmul n R (mT E))); [apply mmul_assoc|].
      chain_r H1t. apply mmul_I_r. }
    assert (E2 : meq m n (mmul m G (mT mzero)) mzero).
    { intros i j Hi Hj. unfold mmul, mT, mzero. apply sum_zero. intros; ring. }
    intros i j Hi Hj. unfold madd. rewrite (E1 i j Hi Hj), (E2 i j Hi Hj). unfold mzero. ring.
  - intros i j Hi Hj. unfold madd. rewrite (HG i j Hi Hj). unfold root_schur, msub. ring.
Qed.

(* Z^-1 in block form *)
Definition new_root_inverse (n m : nat) (Ei F Ginv : M) : M :=
  blk n n Ei mzero (mopp (mmul m Ginv (mmul n F Ei))) Ginv.

Lemma new_root_inverse_correct n m E Ei F G Ginv :
  is_inverse n E Ei -> is_inverse m G Ginv ->
  is_inverse (n + m) (new_root n E F G) (new_root_inverse n m Ei F Ginv).
Proof.
  intros [H1 H2] [G1 G2]. unfold new_root, new_root_inverse.
  set (Y := mmul m Ginv (mmul n F Ei)).
  split.
  - etransitivity; [apply mmul_blk|]. etransitivity; [|symmetry; apply mI_blk].
    apply blk_compat.
    + intros i j Hi Hj. unfold madd. rewrite (H1 i j Hi Hj).
      rewrite (mmul_zero_l n n m (mopp Y) i j Hi Hj). unfold mzero. ring.
    + intros i j Hi Hj. unfold madd.
      rewrite (mmul_zero_r n m n E i j Hi Hj), (mmul_zero_l n m m Ginv i j Hi Hj).
      unfold mzero. ring.
    + assert (E1 : meq m n (mmul m G (mopp Y)) (mopp (mmul m G Y))) by apply mmul_opp_r.
      assert (E2 : meq m n (mmul m G Y) (mmul n F Ei)).
      { unfold Y. transitivity (mmul m (mmul m G Ginv) (mmul n F Ei)); [symmetry; apply mmul_assoc|].
        chain_l G1. apply mmul_I_l. }
      intros i j Hi Hj. unfold madd. rewrite (E1 i j Hi Hj). unfold mopp, mzero.
      rewrite (E2 i j Hi Hj). ring.
    + intros i j Hi Hj. unfold madd. rewrite (G1 i j Hi Hj).
      rewrite (mmul_zero_r m m n F i j Hi Hj). unfold mzero. ring.
  - etransitivity; [apply mmul_blk|]. etransitivity; [|symmetry; apply mI_blk].
    apply blk_compat.
    + intros i j Hi Hj. unfold madd. rewrite (H2 i j Hi Hj).
      rewrite (mmul_zero_l n n m F i j Hi Hj). unfold mzero. ring.
    + intros i j Hi Hj. unfold madd.
      rewrite (mmul_zero_r n m n Ei i j Hi Hj), (mmul_zero_l n m m G i j Hi Hj).
      unfold mzero. ring.
    + assert (E1 : meq m n (mmul n (mopp Y) E) (mopp (mmul n Y E))) by apply mmul_opp_l.
      assert (E2 : meq m n (mmul n Y E) (mmul m Ginv F)).
      { unfold Y. transitivity (mmul m Ginv (mmul n (mmul n F Ei) E)); [apply mmul_assoc|].
        apply mmul_compat_r. transitivity (mmul n F (mmul n Ei E)); [apply mmul_assoc|].
        chain_r H2. apply mmul_I_r. }
      intros i j Hi Hj. unfold madd. rewrite (E1 i j Hi Hj). unfold mopp, mzero.
      rewrite (E2 i j Hi Hj). ring.
    + intros i j Hi Hj. unfold madd. rewrite (G2 i j Hi Hj).
      rewrite (mmul_zero_r m m n (mopp Y) i j Hi Hj). unfold mzero. ring.
Qed.

(* the code's new inverse root is (Z^-1)^T *)
Lemma new_inv_root_is_inverse_T n m R F Ginv :
  meq (n + m) (n + m) (mT (new_inv_root n m R F Ginv)) (new_root_inverse n m (mT R) F Ginv).
Proof.
  unfold new_inv_root, new_root_inverse.
  etransitivity; [apply mT_blk|].
  apply blk_compat.
  - reflexivity.
  - intros i j _ _. reflexivity.
  - transitivity (mopp (mT (mmul m (mmul n R (mT F)) (mT Ginv)))).
    { intros i j _ _. reflexivity. }
    apply mopp_compat.
    transitivity (mmul m (mT (mT Ginv)) (mT (mmul n R (mT F)))); [apply mT_mmul|].
    apply mmul_compat; [intros i j _ _; reflexivity|].
    transitivity (mmul n (mT (mT F)) (mT R)); [apply mT_mmul|].
    apply mmul_compat_l. intros i j _ _. reflexivity.
  - intros i j _ _. reflexivity.
Qed.

(* one cat_rows step preserves the invariant of the carried (root, inverse root) pair *)
Lemma root_update_preserves n m A E R U Sf G Ginv :
  root_inv_pair n A E R ->
  meq m m (mmul m G (mT G)) (root_schur n Sf (root_lower_left n U R)) ->
  is_inverse m G Ginv ->
  root_inv_pair (n + m) (bordered n A (mT U) U Sf)
    (new_root n E (root_lower_left n U R) G)
    (new_inv_root n m R (root_lower_left n U R) Ginv).
Proof.
  intros HP HG HGi. split.
  - apply (new_root_correct n m A E R U Sf G HP HG).
  - destruct HP as [_ HE].
    eapply is_inverse_compat; [reflexivity|symmetry; apply new_inv_root_is_inverse_T|].
    apply new_root_inverse_correct; assumption.
Qed.

(* hence the updated inverse root R' satisfies R' R'^T = A'^-1 *)
Lemma new_inv_root_correct n m A E R U Sf G Ginv :
  root_inv_pair n A E R ->
  meq m m (mmul m G (mT G)) (root_schur n Sf (root_lower_left n U R)) ->
  is_inverse m G Ginv ->
  let R' := new_inv_root n m R (root_lower_left n U R) Ginv in
  is_inverse (n + m) (bordered n A (mT U) U Sf) (mmul (n + m) R' (mT R')).
Proof.
  intros HP HG HGi R'. eapply (root_pair_gives_inverse (n + m) _ _ R').
  unfold R'. apply (root_update_preserves n m A E R U Sf G Ginv HP HG HGi).
Qed.

(* fast_pred_var on a fantasy model: the carried covar_cache R' gives the from-scratch
   posterior covariance (C01 cov_root with any true inverse of the full train covariance) *)
Lemma fantasy_fast_pred_var_exact n m t KJ S E R G Ginv Ainv' :
  (forall N, symmetric N (train_covar KJ S)) ->
  root_inv_pair n (train_covar KJ S) E R ->
  let A := train_covar KJ S in
  let F := root_lower_left n (sub n 0 A) R in
  meq m m (mmul m G (mT G)) (root_schur n (sub n n A) F) ->
  is_inverse m G Ginv ->
  is_inverse (n + m) A Ainv' ->
  meq t t (cov_root (n + m) (n + m) KJ (new_inv_root n m R F Ginv)) (post_cov (n + m) KJ Ainv').
Proof.
  intros Hsym HP A F HG HGi HA'.
  apply cov_root_correct.
  apply (inverse_unique (n + m) A); [|exact HA'].
  eapply is_inverse_compat; [|reflexivity|
    apply (new_inv_root_correct n m A E R (sub n 0 A) (sub n n A) G Ginv HP HG HGi)].
  transitivity (bordered n (sub 0 0 A) (sub 0 n A) (sub n 0 A) (sub n n A)).
  - unfold bordered. apply blk_compat.
    + intros i j _ _. reflexivity.
    + intros i j Hi Hj. unfold mT, sub. cbn [Nat.add].
      symmetry. apply (Hsym (n + m)%nat); lia.
    + reflexivity.
    + reflexivity.
  - symmetry. apply blk_of_subs.
Qed.

(* ---- source frame ----------------------------------------------------------------------- *)

(* whatever the update functions are, the object get_fantasy_model was called on keeps its
   strategy, data, likelihood and parameters; only the scratch attribute is written *)
Lemma source_frame {T} upd newlik (src : gp_obj T) fin ftg full_in full_tg :
  let src' := fst (get_fantasy_model_obj upd newlik src fin ftg full_in full_tg) in
  o_strategy src' = o_strategy src /\ o_inputs src' = o_inputs src /\
  o_targets src' = o_targets src /\ o_lik src' = o_lik src /\ o_params src' = o_params src.
Proof.
  unfold get_fantasy_model_obj. destruct src as [st i tg l p sc].
  destruct st, l; cbn; repeat split; reflexivity.
Qed.

End Proofs.

Lemma inv_oracle_sound : oracle_sound inv_oracle.
Proof. intros m C Ci H. apply inv_checked_sound. exact H. Qed.
