(* C05 proofs: identities shared by all kernels (distance expansion, composition laws,
   elementary symmetric polynomials / Newton-Girard, interleaved layout) and the derivative
   kernels as Coquelicot derivatives of their base kernel. *)
From Coq Require Import Arith Lia Ring Field List ZArith QArith Qcanon Reals Bool Lra Qreals.
From Coquelicot Require Import Coquelicot.
From GPV Require Import Base.LinAlg Base.Exec Base.Expr Models.C05_kernels.
Import ListNotations.

(* ------------------------------------------------------------------ squared distance *)
Section SqDistProofs.
Context {K : Fld}.
Add Field Ff_c05 : (@FT K).
Local Open Scope fld_scope.

(* the quadratic expansion with ANY adjustment vector (in particular the column means of x1
   that the code subtracts) is the plain squared distance, for every d, i, j *)
Lemma sq_dist_expanded_direct d adj X1 X2 i j :
  sq_dist_expanded d adj X1 X2 i j = sq_dist_direct d X1 X2 i j.
Proof.
  unfold sq_dist_expanded, sq_dist_direct.
  transitivity (sum d (fun k => (- (1 + 1)) * (X1 i k - adj k) * (X2 j k - adj k)
                               + (X1 i k - adj k) * (X1 i k - adj k)
                               + (X2 j k - adj k) * (X2 j k - adj k))).
  - rewrite !sum_add. ring.
  - apply sum_ext. intros k _. ring.
Qed.

Lemma sq_dist_code_direct n1 n2 d X1 X2 :
  meq n1 n2 (sq_dist_code n1 d X1 X2) (sq_dist_direct d X1 X2).
Proof. intros i j _ _. apply sq_dist_expanded_direct. Qed.

End SqDistProofs.

(* ------------------------------------------------------------------ derivative kernels over R *)
Section DerivR.
Local Open Scope R_scope.

Definition upd (x : nat -> R) (i : nat) (t : R) : nat -> R := fun m => if Nat.eqb m i then t else x m.
Lemma upd_same x i t : upd x i t i = t.
Proof. unfold upd. rewrite Nat.eqb_refl. reflexivity. Qed.
Lemma upd_other x i t m : m <> i -> upd x i t m = x m.
Proof. unfold upd. intros H. destruct (Nat.eqb_spec m i); [contradiction|reflexivity]. Qed.

Lemma tsumR_ext n f g : (forall m, (m < n)%nat -> f m = g m) -> @tsum TR n f = @tsum TR n g.
Proof.
  induction n as [|n IH]; intros H; cbn [tsum]; [reflexivity|].
  rewrite IH by (intros; apply H; lia). rewrite H by lia. reflexivity.
Qed.

Lemma tsumR_change d (f g : nat -> R) i : (i < d)%nat ->
  (forall m, (m < d)%nat -> m <> i -> f m = g m) ->
  @tsum TR d f = @tsum TR d g + (f i - g i).
Proof.
  induction d as [|d IH]; intros Hi H; [lia|]. cbn [tsum tadd TR]. change (@tc TR) with R in *.
  destruct (Nat.eq_dec i d) as [->|Hne].
  - rewrite (tsumR_ext d f g) by (intros m Hm; apply H; lia). ring.
  - rewrite IH by (try lia; intros; apply H; lia). rewrite (H d) by lia. ring.
Qed.

Lemma sqd_upd_x d x y l i t : (i < d)%nat ->
  @sqd TR d (upd x i t) y l = @sqd TR d (upd x i (y i)) y l + ((t - y i) / l i) * ((t - y i) / l i).
Proof.
  intros Hi. unfold sqd.
  rewrite (tsumR_change d _ (fun m => @tsq TR (@tdiv TR (@tsub TR (upd x i (y i) m) (y m)) (l m))) i Hi).
  - cbn [tc tadd tsub tmul tdiv tsq TR]. unfold tsq. cbn [tmul TR]. rewrite !upd_same.
    change (@tc TR) with R in *. unfold Rdiv. ring.
  - intros m _ Hm. rewrite !upd_other by exact Hm. reflexivity.
Qed.

Lemma sqd_upd_y d x y l i t : (i < d)%nat ->
  @sqd TR d x (upd y i t) l = @sqd TR d x (upd y i (x i)) l + ((x i - t) / l i) * ((x i - t) / l i).
Proof.
  intros Hi. unfold sqd.
  rewrite (tsumR_change d _ (fun m => @tsq TR (@tdiv TR (@tsub TR (x m) (upd y i (x i) m)) (l m))) i Hi).
  - cbn [tc tadd tsub tmul tdiv tsq TR]. unfold tsq. cbn [tmul TR]. rewrite !upd_same.
    change (@tc TR) with R in *. unfold Rdiv. ring.
  - intros m _ Hm. rewrite !upd_other by exact Hm. reflexivity.
Qed.

Lemma upd_id x i : forall m, upd x i (x i) m = x m.
Proof. intros m. unfold upd. destruct (Nat.eqb_spec m i); [subst; reflexivity|reflexivity]. Qed.

(* 1-d core: derivative of t |-> exp(-(C + ((t-b)/l)^2)/2) *)
Lemma rbf_core_derive (C b l a : R) : l <> 0 ->
  is_derive (fun t => exp (- ((C + ((t - b) / l) * ((t - b) / l)) / (1+1)))) a
            (- ((a - b) / (l * l)) * exp (- ((C + ((a - b) / l) * ((a - b) / l)) / (1+1)))).
Proof.
  intros Hl. auto_derive; [exact I|].
  match goal with |- _ * exp ?u = _ * exp ?v => replace u with v by (field; exact Hl) end.
  set (e := exp _). field. exact Hl.
Qed.

Lemma tprodR_ext n f g : (forall m, (m < n)%nat -> f m = g m) -> @tprod TR n f = @tprod TR n g.
Proof.
  induction n as [|n IH]; intros H; cbn [tprod]; [reflexivity|].
  rewrite IH by (intros; apply H; lia). rewrite H by lia. reflexivity.
Qed.
Lemma tprodR_one n (f : nat -> R) : (forall m, (m < n)%nat -> f m = 1) -> @tprod TR n f = 1.
Proof.
  induction n as [|n IH]; intros H; cbn [tprod t1 tmul TR]; [reflexivity|].
  change (@tc TR) with R in *. rewrite IH by (intros; apply H; lia). rewrite H by lia. ring.
Qed.
Lemma tprodR_single d (f : nat -> R) i : (i < d)%nat ->
  (forall m, (m < d)%nat -> m <> i -> f m = 1) -> @tprod TR d f = f i.
Proof.
  induction d as [|d IH]; intros Hi H; [lia|]. cbn [tprod tmul TR]. change (@tc TR) with R in *.
  destruct (Nat.eq_dec i d) as [->|Hne].
  - rewrite tprodR_one by (intros m Hm; apply H; lia). ring.
  - rewrite IH by (try lia; intros; apply H; lia). rewrite (H d) by lia. ring.
Qed.
Lemma tprodR_two d (f : nat -> R) i j : (i < d)%nat -> (j < d)%nat -> i <> j ->
  (forall m, (m < d)%nat -> m <> i -> m <> j -> f m = 1) -> @tprod TR d f = f i * f j.
Proof.
  induction d as [|d IH]; intros Hi Hj Hij H; [lia|]. cbn [tprod tmul TR]. change (@tc TR) with R in *.
  destruct (Nat.eq_dec i d) as [->|Hni]; [|destruct (Nat.eq_dec j d) as [->|Hnj]].
  - rewrite (tprodR_single d f j) by (try lia; intros; apply H; lia). ring.
  - rewrite (tprodR_single d f i) by (try lia; intros; apply H; lia). ring.
  - rewrite IH by (try lia; intros; apply H; lia). rewrite (H d) by lia. ring.
Qed.

Lemma ord_0 d m : ord d 0 m = 0%nat.
Proof. reflexivity. Qed.
Lemma ord_grad d i m : (i < d)%nat -> ord d (S i) m = if Nat.eqb m i then 1%nat else 0%nat.
Proof.
  intros Hi. unfold ord. cbn [Nat.eqb].
  destruct (Nat.eqb_spec i m) as [->|Hne].
  - rewrite Nat.eqb_refl. reflexivity.
  - destruct (Nat.eqb_spec m i); [congruence|]. destruct (Nat.eqb_spec i (d + m)); [lia|reflexivity].
Qed.

Definition uR (x y l : nat -> R) (m : nat) : R := (x m - y m) / (l m * l m).
Definition sR (l : nat -> R) (m : nat) : R := 1 / (l m * l m).

Lemma rbf_entry_00 d x y l : @rbf_deriv_entry TR d x y l 0 0 = @k_rbf TR d x y l.
Proof.
  unfold rbf_deriv_entry. rewrite tprodR_one; [cbn [tmul TR]; change (@tc TR) with R; ring|].
  intros m _. reflexivity.
Qed.
Lemma rbf_entry_x d x y l i : (i < d)%nat ->
  @rbf_deriv_entry TR d x y l (S i) 0 = - uR x y l i * @k_rbf TR d x y l.
Proof.
  intros Hi. unfold rbf_deriv_entry. rewrite (tprodR_single d _ i Hi).
  - rewrite ord_grad, Nat.eqb_refl by exact Hi. reflexivity.
  - intros m _ Hm. rewrite ord_grad by exact Hi. destruct (Nat.eqb_spec m i); [contradiction|reflexivity].
Qed.
Lemma rbf_entry_y d x y l j : (j < d)%nat ->
  @rbf_deriv_entry TR d x y l 0 (S j) = uR x y l j * @k_rbf TR d x y l.
Proof.
  intros Hj. unfold rbf_deriv_entry. rewrite (tprodR_single d _ j Hj).
  - rewrite ord_grad, Nat.eqb_refl by exact Hj. rewrite !ord_0.
    cbv [Nat.add Nat.odd Nat.even negb rbf_h]. unfold uR, tsq. cbn [tmul tdiv tsub tneg TR].
    change (@tc TR) with R. f_equal. ring.
  - intros m _ Hm. rewrite ord_grad by exact Hj. destruct (Nat.eqb_spec m j); [contradiction|reflexivity].
Qed.
Lemma rbf_entry_xy_ne d x y l i j : (i < d)%nat -> (j < d)%nat -> i <> j ->
  @rbf_deriv_entry TR d x y l (S i) (S j) = - uR x y l i * uR x y l j * @k_rbf TR d x y l.
Proof.
  intros Hi Hj Hij. unfold rbf_deriv_entry. rewrite (tprodR_two d _ i j Hi Hj Hij).
  - rewrite !ord_grad by assumption. rewrite !Nat.eqb_refl.
    destruct (Nat.eqb_spec i j); [contradiction|]. destruct (Nat.eqb_spec j i); [congruence|].
    cbv [Nat.add Nat.odd Nat.even negb rbf_h]. unfold uR, tsq. cbn [tmul tdiv tsub tneg TR].
    change (@tc TR) with R. f_equal. ring.
  - intros m _ Hmi Hmj. rewrite !ord_grad by assumption.
    destruct (Nat.eqb_spec m i); [contradiction|]. destruct (Nat.eqb_spec m j); [contradiction|]. reflexivity.
Qed.
Lemma rbf_entry_xy_eq d x y l i : (i < d)%nat ->
  @rbf_deriv_entry TR d x y l (S i) (S i) = (sR l i - uR x y l i * uR x y l i) * @k_rbf TR d x y l.
Proof.
  intros Hi. unfold rbf_deriv_entry. rewrite (tprodR_single d _ i Hi).
  - rewrite !ord_grad by assumption. rewrite !Nat.eqb_refl.
    cbv [Nat.add Nat.odd Nat.even negb rbf_h]. unfold uR, sR, tsq. cbn [tmul tdiv tsub tneg t1 TR].
    change (@tc TR) with R. f_equal. ring.
  - intros m _ Hm. rewrite !ord_grad by assumption. destruct (Nat.eqb_spec m i); [contradiction|reflexivity].
Qed.

Lemma k_rbf_R d x y l : @k_rbf TR d x y l = exp (- (@sqd TR d x y l / (1 + 1))).
Proof. reflexivity. Qed.

(* d/dx_i of the RBF kernel is the (S i, 0) entry: every d, every point *)
Lemma rbf_grad_x d x y l i a : (i < d)%nat -> l i <> 0 ->
  is_derive (fun t => @k_rbf TR d (upd x i t) y l) a (@rbf_deriv_entry TR d (upd x i a) y l (S i) 0).
Proof.
  intros Hi Hl. rewrite rbf_entry_x by exact Hi. rewrite k_rbf_R, (sqd_upd_x d x y l i a Hi).
  unfold uR. rewrite upd_same.
  apply (is_derive_ext (fun t => exp (- ((@sqd TR d (upd x i (y i)) y l + ((t - y i) / l i) * ((t - y i) / l i)) / (1+1))))).
  { intros t. rewrite k_rbf_R, (sqd_upd_x d x y l i t Hi). reflexivity. }
  apply rbf_core_derive. exact Hl.
Qed.

Lemma rbf_core_derive_y (C a0 l b : R) : l <> 0 ->
  is_derive (fun t => exp (- ((C + ((a0 - t) / l) * ((a0 - t) / l)) / (1+1)))) b
            ((a0 - b) / (l * l) * exp (- ((C + ((a0 - b) / l) * ((a0 - b) / l)) / (1+1)))).
Proof.
  intros Hl. auto_derive; [exact I|].
  match goal with |- _ * exp ?u = _ * exp ?v => replace u with v by (field; exact Hl) end.
  set (e := exp _). field. exact Hl.
Qed.

Lemma rbf_grad_y d x y l j b : (j < d)%nat -> l j <> 0 ->
  is_derive (fun t => @k_rbf TR d x (upd y j t) l) b (@rbf_deriv_entry TR d x (upd y j b) l 0 (S j)).
Proof.
  intros Hj Hl. rewrite rbf_entry_y by exact Hj. rewrite k_rbf_R, (sqd_upd_y d x y l j b Hj).
  unfold uR. rewrite upd_same.
  apply (is_derive_ext (fun t => exp (- ((@sqd TR d x (upd y j (x j)) l + ((x j - t) / l j) * ((x j - t) / l j)) / (1+1))))).
  { intros t. rewrite k_rbf_R, (sqd_upd_y d x y l j t Hj). reflexivity. }
  apply rbf_core_derive_y. exact Hl.
Qed.

(* the Hessian block: d/dy_j of the (S i, 0) entry is the (S i, S j) entry *)
Lemma rbf_grad_xy d x y l i j b : (i < d)%nat -> (j < d)%nat -> l i <> 0 -> l j <> 0 ->
  is_derive (fun t => @rbf_deriv_entry TR d x (upd y j t) l (S i) 0) b
            (@rbf_deriv_entry TR d x (upd y j b) l (S i) (S j)).
Proof.
  intros Hi Hj Hli Hlj.
  destruct (Nat.eq_dec i j) as [->|Hne].
  - rewrite rbf_entry_xy_eq by exact Hj. rewrite k_rbf_R, (sqd_upd_y d x y l j b Hj).
    unfold uR, sR. rewrite upd_same.
    apply (is_derive_ext (fun t => - ((x j - t) / (l j * l j)) *
             exp (- ((@sqd TR d x (upd y j (x j)) l + ((x j - t) / l j) * ((x j - t) / l j)) / (1+1))))).
    { intros t. rewrite rbf_entry_x by exact Hj. rewrite k_rbf_R, (sqd_upd_y d x y l j t Hj).
      unfold uR. rewrite upd_same. reflexivity. }
    set (C := @sqd TR d x (upd y j (x j)) l). change (@tc TR) with R in *.
    auto_derive; [exact I|].
    match goal with |- context [exp ?u] => 
      replace u with (- ((C + (x j - b) / l j * ((x j - b) / l j)) / (1 + 1))) by (field; exact Hlj) end.
    set (e := exp _). field. exact Hlj.
  - rewrite rbf_entry_xy_ne by assumption. rewrite k_rbf_R, (sqd_upd_y d x y l j b Hj).
    unfold uR. rewrite upd_same, (upd_other y j b i Hne).
    apply (is_derive_ext (fun t => - ((x i - y i) / (l i * l i)) *
             exp (- ((@sqd TR d x (upd y j (x j)) l + ((x j - t) / l j) * ((x j - t) / l j)) / (1+1))))).
    { intros t. rewrite rbf_entry_x by exact Hi. rewrite k_rbf_R, (sqd_upd_y d x y l j t Hj).
      unfold uR. rewrite (upd_other y j t i Hne). reflexivity. }
    set (C := @sqd TR d x (upd y j (x j)) l). change (@tc TR) with R in *.
    auto_derive; [exact I|].
    match goal with |- context [exp ?u] => 
      replace u with (- ((C + (x j - b) / l j * ((x j - b) / l j)) / (1 + 1))) by (field; exact Hlj) end.
    set (e := exp _). field. split; assumption.
Qed.

Lemma tipow_pow (x : R) n : @tipow TR x n = x ^ n.
Proof. induction n as [|n IH]; cbn [tipow pow]; [reflexivity|]. cbn [tmul TR]. rewrite IH. reflexivity. Qed.
Lemma tnat_INR n : @tnat TR n = INR n.
Proof.
  induction n as [|[|n] IH]; [reflexivity|reflexivity|].
  change (@tnat TR (S n) + 1 = INR (S (S n))). rewrite IH. rewrite (S_INR (S n)). reflexivity.
Qed.
Lemma dot_upd_x d x y i t : (i < d)%nat ->
  @dot TR d (upd x i t) y = @dot TR d (upd x i 0) y + t * y i.
Proof.
  intros Hi. unfold dot.
  rewrite (tsumR_change d _ (fun m => @tmul TR (upd x i 0 m) (y m)) i Hi).
  - cbn [tmul TR]. rewrite !upd_same. change (@tc TR) with R in *. ring.
  - intros m _ Hm. rewrite !upd_other by exact Hm. reflexivity.
Qed.

(* PolynomialKernelGrad: d/dx_j (x.y + c)^p is the (S j, 0) entry, every d, p *)
Lemma poly_grad_x c pw d x y j a : (j < d)%nat ->
  is_derive (fun t => @k_poly TR c pw d (upd x j t) y) a (@polygrad_entry TR c pw d (upd x j a) y (S j) 0).
Proof.
  intros Hj. unfold k_poly, polygrad_entry. cbn [tadd tmul TR].
  rewrite tipow_pow, tnat_INR, (dot_upd_x d x y j a Hj).
  apply (is_derive_ext (fun t => (@dot TR d (upd x j 0) y + t * y j + c) ^ pw)).
  { intros t. rewrite (dot_upd_x d x y j t Hj). symmetry. apply tipow_pow. }
  set (C := @dot TR d (upd x j 0) y). change (@tc TR) with R in *.
  auto_derive; [exact I|]. replace (pw - 1)%nat with (Init.Nat.pred pw) by lia. ring.
Qed.


Lemma m52_core (C b l a : R) : l <> 0 -> 0 < C + ((a - b) / l) * ((a - b) / l) ->
  let five := 1 + 1 + 1 + 1 + 1 in let three := 1 + 1 + 1 in
  is_derive (fun t => (1 + sqrt five * sqrt (C + ((t - b) / l) * ((t - b) / l))
                         + five / three * (sqrt (C + ((t - b) / l) * ((t - b) / l)) * sqrt (C + ((t - b) / l) * ((t - b) / l))))
                      * exp (- (sqrt five * sqrt (C + ((t - b) / l) * ((t - b) / l))))) a
    (- (five / three * ((1 + sqrt five * sqrt (C + ((a - b) / l) * ((a - b) / l)))
        * exp (- (sqrt five * sqrt (C + ((a - b) / l) * ((a - b) / l))))) * ((a - b) / (l * l)))).
Proof.
  intros Hl HS five three.
  assert (Hc : sqrt five * sqrt five = five) by (apply sqrt_sqrt; unfold five; lra).
  auto_derive; [repeat split; try exact I; try exact Hl; replace (a + - b) with (a - b) by ring; exact HS|].
  replace (a + - b) with (a - b) by ring.
  replace (C + (a - b) * / l * ((a - b) * / l)) with (C + (a - b) / l * ((a - b) / l)) by (unfold Rdiv; ring).
  assert (Hq : sqrt (C + (a - b) / l * ((a - b) / l)) <> 0) by (apply Rgt_not_eq, sqrt_lt_R0; exact HS).
  set (q := sqrt (C + (a - b) / l * ((a - b) / l))) in *.
  set (c := sqrt five) in *. set (e := exp _).
  replace five with (c * c) by exact Hc. unfold three. field. repeat split; first [exact Hq | exact Hl | lra].
Qed.

(* Matern52KernelGrad: the (d/dx_j, value) output is the partial derivative of the Matern-5/2
   kernel, every d, away from coincident points *)
Lemma m52_grad_x d x y l j a : (j < d)%nat -> l j <> 0 -> 0 < @sqd TR d (upd x j a) y l ->
  is_derive (fun t => @k_matern TR 5 d (upd x j t) y l) a (@m52grad_entry TR d (upd x j a) y l (S j) 0).
Proof.
  intros Hj Hl HS. pose proof (sqd_upd_x d x y l j) as E.
  rewrite (E a Hj) in HS.
  unfold m52grad_entry. rewrite (E a Hj), upd_same.
  eapply is_derive_ext.
  { intros t. unfold k_matern. rewrite (E t Hj). reflexivity. }
  exact (m52_core (@sqd TR d (upd x j (y j)) y l) (y j) (l j) a Hl HS).
Qed.

End DerivR.

(* ------------------------------------------------------------------ interleaved layout *)
Section Layout.
Context {T : TOps}.

(* entry (i*p + a, j*p + b) of the big matrix is entry (a, b) of the block of points (i, j):
   any n1, n2 (they do not even enter), any p *)
Lemma interleaved_index p (E : nat -> nat -> nat -> nat -> tc) i j a b :
  (a < p)%nat -> (b < p)%nat -> interleaved p E (i * p + a) (j * p + b) = E i j a b.
Proof.
  intros Ha Hb. unfold interleaved. assert (Hp : (p <> 0)%nat) by lia.
  rewrite !Nat.div_add_l by exact Hp. rewrite !(Nat.div_small _ p) by lia.
  rewrite !(Nat.add_comm (_ * p)), !Nat.mod_add by lia. rewrite !Nat.mod_small by lia.
  rewrite !Nat.add_0_r. reflexivity.
Qed.

(* the library's construction (blocks side by side, then the perfect shuffle on rows and on
   columns with DIFFERENT n1, n2) yields exactly the documented interleaved layout *)
Lemma shuffle_gives_interleaved n1 n2 p (E : nat -> nat -> nat -> nat -> tc) I J :
  (I < n1 * p)%nat -> (J < n2 * p)%nat ->
  block_major n1 n2 E (shuffle n1 p I) (shuffle n2 p J) = interleaved p E I J.
Proof.
  intros HI HJ. unfold block_major, shuffle, interleaved.
  assert (Hp : (p <> 0)%nat) by (intro; subst; lia).
  assert (H1 : (I / p < n1)%nat) by (apply Nat.div_lt_upper_bound; lia).
  assert (H2 : (J / p < n2)%nat) by (apply Nat.div_lt_upper_bound; lia).
  assert (Hn1 : (n1 <> 0)%nat) by (intro; subst; lia).
  assert (Hn2 : (n2 <> 0)%nat) by (intro; subst; lia).
  rewrite !(Nat.add_comm (_ * _)).
  rewrite !Nat.mod_add, !Nat.div_add by assumption.
  rewrite !(Nat.mod_small (_ / p)), !(Nat.div_small (_ / p)) by assumption.
  rewrite !Nat.add_0_l. reflexivity.
Qed.

Lemma shuffle_bound n p k : (k < n * p)%nat -> (shuffle n p k < n * p)%nat.
Proof.
  intros Hk. unfold shuffle.
  assert (Hp : (p <> 0)%nat) by (intro; subst; lia).
  assert (H1 : (k / p < n)%nat) by (apply Nat.div_lt_upper_bound; lia).
  assert (H2 : (k mod p < p)%nat) by (apply Nat.mod_upper_bound; lia).
  nia.
Qed.
End Layout.

(* ------------------------------------------------------------------ den is a homomorphism *)
Section DenHom.
Local Open Scope R_scope.

Lemma Q2R'_0 : Q2R' 0%Qc = 0.
Proof. unfold Q2R'. cbn [this Q2Qc]. unfold Q2R. cbn. lra. Qed.
Lemma Q2R'_1 : Q2R' 1%Qc = 1.
Proof. unfold Q2R'. cbn [this Q2Qc]. unfold Q2R. cbn. lra. Qed.
Lemma Q2R'_neq0 y : y <> 0%Qc -> Q2R' y <> 0.
Proof.
  intros Hy H. apply Hy. apply Qc_is_canon. cbn [this Q2Qc].
  apply eqR_Qeq. unfold Q2R' in H. rewrite H. symmetry. exact Q2R'_0.
Qed.
Lemma Q2R'_div x y : y <> 0%Qc -> Q2R' (x / y)%Qc = Q2R' x / Q2R' y.
Proof.
  intros Hy. unfold Qcdiv. rewrite Q2R'_mult. unfold Rdiv. f_equal.
  unfold Q2R'. unfold Qcinv. cbn [this Q2Qc].
  rewrite <- Q2R_inv.
  - apply Qeq_eqR. apply Qred_correct.
  - intros H. apply Hy. apply Qc_is_canon. exact H.
Qed.
Lemma Qc_eqb_false a b : Qc_eqb a b = false -> a <> b.
Proof. intros H E. subst. unfold Qc_eqb in H. rewrite (proj2 (Qeq_bool_iff _ _)) in H; [discriminate|reflexivity]. Qed.

Ltac qcase x v := let E := fresh "E" in destruct (Qc_eqb x v) eqn:E;
  [apply Qc_eqb_eq in E; subst | apply Qc_eqb_false in E].

Lemma den_sadd a b : den (sadd a b) = den a + den b.
Proof.
  destruct a, b; cbn [sadd]; try reflexivity;
  repeat match goal with
  | |- context [if Qc_eqb ?x ?v then _ else _] => qcase x v
  | |- context [if small2 ?x ?y then _ else _] => destruct (small2 x y)
  end; cbn [den]; rewrite ?Q2R'_plus, ?Q2R'_0; try ring.
Qed.
Lemma den_ssub a b : den (ssub a b) = den a - den b.
Proof.
  destruct a, b; cbn [ssub]; try reflexivity;
  repeat match goal with
  | |- context [if Qc_eqb ?x ?v then _ else _] => qcase x v
  | |- context [if small2 ?x ?y then _ else _] => destruct (small2 x y)
  end; cbn [den]; rewrite ?Q2R'_minus, ?Q2R'_0; try ring.
Qed.
Lemma den_smul a b : den (smul a b) = den a * den b.
Proof.
  destruct a, b; cbn [smul]; try reflexivity;
  repeat match goal with
  | |- context [if Qc_eqb ?x ?v then _ else _] => qcase x v
  | |- context [if small2 ?x ?y then _ else _] => destruct (small2 x y)
  end; cbn [den]; rewrite ?Q2R'_mult, ?Q2R'_0, ?Q2R'_1; try ring.
Qed.
Lemma den_sdiv a b : den (sdiv a b) = den a / den b.
Proof.
  destruct a, b; cbn [sdiv]; try reflexivity;
  repeat match goal with
  | |- context [if Qc_eqb ?x ?v then _ else _] => qcase x v
  | |- context [if small2 ?x ?y then _ else _] => destruct (small2 x y)
  end; cbn [den]; rewrite ?Q2R'_1; try (rewrite Q2R'_div by assumption); try reflexivity;
  try (unfold Rdiv; rewrite Rinv_1; ring).
Qed.
Lemma den_sneg a : den (sneg a) = - den a.
Proof. destruct a; cbn [sneg den]; try reflexivity; [apply Q2R'_opp | ring]. Qed.
Lemma den_smax a b : den (smax a b) = Rmax (den a) (den b).
Proof.
  destruct a, b; cbn [smax]; try reflexivity.
  destruct (Qle_bool (this q) (this q0)) eqn:E; cbn [den]; unfold Q2R'.
  - apply Qle_bool_iff in E. apply Qle_Rle in E. rewrite Rmax_right; [reflexivity|exact E].
  - rewrite Rmax_left; [reflexivity|]. apply Rlt_le. apply Qlt_Rlt.
    apply Qnot_le_lt. intros H. apply Qle_bool_iff in H. congruence.
Qed.
Lemma den_tsum n f : den (@tsum TE n f) = @tsum TR n (fun m => den (f m)).
Proof.
  induction n as [|n IH]; cbn [tsum]; [exact Q2R'_0|].
  cbn [tadd TE TR]. rewrite den_sadd, IH. reflexivity.
Qed.
Lemma den_tprod n f : den (@tprod TE n f) = @tprod TR n (fun m => den (f m)).
Proof.
  induction n as [|n IH]; cbn [tprod]; [exact Q2R'_1|].
  cbn [tmul TE TR]. rewrite den_smul, IH. reflexivity.
Qed.
Lemma den_tipow x n : den (@tipow TE x n) = @tipow TR (den x) n.
Proof.
  induction n as [|n IH]; cbn [tipow]; [exact Q2R'_1|].
  cbn [tmul TE TR]. rewrite den_smul, IH. reflexivity.
Qed.
Lemma den_tnat n : den (@tnat TE n) = @tnat TR n.
Proof.
  induction n as [|[|n] IH]; [exact Q2R'_0|exact Q2R'_1|].
  change (den (sadd (@tnat TE (S n)) (EConst 1)) = @tnat TR (S n) + 1).
  rewrite den_sadd, IH. cbn [den]. rewrite Q2R'_1. reflexivity.
Qed.

Lemma den_sqd d x y l :
  den (@sqd TE d x y l) = @sqd TR d (fun m => den (x m)) (fun m => den (y m)) (fun m => den (l m)).
Proof.
  unfold sqd. rewrite den_tsum. apply tsumR_ext. intros m _. unfold tsq.
  cbn [tmul tdiv tsub TE TR]. rewrite den_smul, den_sdiv, den_ssub. reflexivity.
Qed.

(* what is executed (expr terms with constant folding) means what is proved about (reals) *)
Lemma den_k_rbf d x y l :
  den (@k_rbf TE d x y l) = @k_rbf TR d (fun m => den (x m)) (fun m => den (y m)) (fun m => den (l m)).
Proof.
  unfold k_rbf. cbn [texp tneg tdiv TE TR den]. rewrite den_sneg, den_sdiv, den_sqd.
  unfold t2. rewrite den_tnat. reflexivity.
Qed.

Lemma den_rbf_h n u s : den (@rbf_h TE n u s) = @rbf_h TR n (den u) (den s).
Proof.
  destruct n as [|[|[|[|n]]]]; cbn [rbf_h]; unfold tsq;
  cbn [t1 tneg tsub tadd tmul TE TR];
  repeat (rewrite ?den_sneg, ?den_ssub, ?den_sadd, ?den_smul, ?den_tipow, ?den_tnat);
  try reflexivity. exact Q2R'_1.
Qed.

Lemma den_rbf_deriv_entry d x y l a b :
  den (@rbf_deriv_entry TE d x y l a b)
  = @rbf_deriv_entry TR d (fun m => den (x m)) (fun m => den (y m)) (fun m => den (l m)) a b.
Proof.
  unfold rbf_deriv_entry. cbn [tmul TE TR]. rewrite den_smul, den_k_rbf, den_tprod.
  f_equal. apply tprodR_ext. intros m _.
  destruct (Nat.odd (ord d b m)); cbn [tneg TE TR]; rewrite ?den_sneg, den_rbf_h; unfold tsq;
  cbn [tdiv tsub tmul t1 TE TR]; rewrite !den_sdiv, den_ssub, den_smul; cbn [den]; rewrite Q2R'_1; reflexivity.
Qed.

(* sums, products and scalings of kernels evaluate to the sums, products and scalings of
   their parts, in the executed model (under den) as in the real one *)
Lemma den_eval_sum a b o x y :
  den (@eval TE (KSum a b) o x y) = den (@eval TE a o x y) + den (@eval TE b o x y).
Proof. cbn [eval tadd TE]. apply den_sadd. Qed.
Lemma den_eval_prod a b o x y :
  den (@eval TE (KProd a b) o x y) = den (@eval TE a o x y) * den (@eval TE b o x y).
Proof. cbn [eval tmul TE]. apply den_smul. Qed.
Lemma den_eval_scale s k o x y :
  den (@eval TE (KScale s k) o x y) = Q2R' s * den (@eval TE k o x y).
Proof. cbn [eval tmul tq TE]. rewrite den_smul. reflexivity. Qed.

End DenHom.

(* ---- composition with the public operators (kobj, op_add, op_mul) ---- *)
Section ObjHom.
Local Open Scope R_scope.
Definition osum (o : nat) (x y : list expr) (ks : list kobj) : R :=
  fold_right (fun k acc => den (@oeval TE k o x y) + acc) 0 ks.
Definition oprod (o : nat) (x y : list expr) (ks : list kobj) : R :=
  fold_right (fun k acc => den (@oeval TE k o x y) * acc) 1 ks.

Lemma den_oeval_add ks o x y : den (@oeval TE (OAdd ks) o x y) = osum o x y ks.
Proof.
  unfold osum. cbn [oeval]. induction ks as [|k ks IH]; cbn [fold_right]; [exact Q2R'_0|].
  etransitivity; [apply den_sadd|]. f_equal. exact IH.
Qed.
Lemma den_oeval_mul ks o x y : den (@oeval TE (OMul ks) o x y) = oprod o x y ks.
Proof.
  unfold oprod. cbn [oeval]. induction ks as [|k ks IH]; cbn [fold_right]; [exact Q2R'_1|].
  etransitivity; [apply den_smul|]. f_equal. exact IH.
Qed.
Lemma den_oeval_scale s k o x y :
  den (@oeval TE (OScale s k) o x y) = Q2R' s * den (@oeval TE k o x y).
Proof. cbn [oeval tmul tq TE]. rewrite den_smul. reflexivity. Qed.
Lemma den_oeval_leaf k o x y : den (@oeval TE (OLeaf k) o x y) = den (@eval TE k o x y).
Proof. reflexivity. Qed.

Lemma osum_app o x y l1 l2 : osum o x y (l1 ++ l2) = osum o x y l1 + osum o x y l2.
Proof. unfold osum. induction l1 as [|k l1 IH]; cbn [app fold_right]; [ring|]. rewrite IH. ring. Qed.
Lemma oprod_app o x y l1 l2 : oprod o x y (l1 ++ l2) = oprod o x y l1 * oprod o x y l2.
Proof. unfold oprod. induction l1 as [|k l1 IH]; cbn [app fold_right]; [ring|]. rewrite IH. ring. Qed.

Lemma osum_summands a o x y : osum o x y (summands a) = den (@oeval TE a o x y).
Proof.
  destruct a; cbn [summands]; try (unfold osum; cbn [fold_right]; ring).
  symmetry. apply den_oeval_add.
Qed.
Lemma oprod_factors a o x y : oprod o x y (factors a) = den (@oeval TE a o x y).
Proof.
  destruct a; cbn [factors]; try (unfold oprod; cbn [fold_right]; ring).
  symmetry. apply den_oeval_mul.
Qed.

(* a + b evaluates to the sum, a * b to the product, WHATEVER kind of object the operands are *)
Lemma den_op_add a b o x y :
  den (@oeval TE (op_add a b) o x y) = den (@oeval TE a o x y) + den (@oeval TE b o x y).
Proof. unfold op_add. rewrite den_oeval_add, osum_app, !osum_summands. reflexivity. Qed.
Lemma den_op_mul a b o x y :
  den (@oeval TE (op_mul a b) o x y) = den (@oeval TE a o x y) * den (@oeval TE b o x y).
Proof. unfold op_mul. rewrite den_oeval_mul, oprod_app, !oprod_factors. reflexivity. Qed.
(* in particular a product with a sum on either side is not the product of all the leaves *)
Lemma den_mul_of_add a b c o x y :
  den (@oeval TE (op_mul a (op_add b c)) o x y)
  = den (@oeval TE a o x y) * (den (@oeval TE b o x y) + den (@oeval TE c o x y)).
Proof. rewrite den_op_mul, den_op_add. reflexivity. Qed.
Lemma den_add_of_mul a b c o x y :
  den (@oeval TE (op_add a (op_mul b c)) o x y)
  = den (@oeval TE a o x y) + den (@oeval TE b o x y) * den (@oeval TE c o x y).
Proof. rewrite den_op_add, den_op_mul. reflexivity. Qed.
(* the operators only re-associate: the leaves of a + b / a * b are those of a followed by those of b *)
Fixpoint oleaves (k : kobj) : list kern :=
  match k with
  | OLeaf k' => [k']
  | OScale _ k' => oleaves k'
  | OAdd ks => flat_map oleaves ks
  | OMul ks => flat_map oleaves ks
  end.
Lemma flat_map_summands a : flat_map oleaves (summands a) = oleaves a.
Proof. destruct a; cbn [summands flat_map oleaves]; rewrite ?app_nil_r; reflexivity. Qed.
Lemma flat_map_factors a : flat_map oleaves (factors a) = oleaves a.
Proof. destruct a; cbn [factors flat_map oleaves]; rewrite ?app_nil_r; reflexivity. Qed.
Lemma oleaves_op_add a b : oleaves (op_add a b) = oleaves a ++ oleaves b.
Proof. unfold op_add. cbn [oleaves]. rewrite flat_map_app, !flat_map_summands. reflexivity. Qed.
Lemma oleaves_op_mul a b : oleaves (op_mul a b) = oleaves a ++ oleaves b.
Proof. unfold op_mul. cbn [oleaves]. rewrite flat_map_app, !flat_map_factors. reflexivity. Qed.
Lemma oleaves_ops a b :
  oleaves (op_add a b) = oleaves a ++ oleaves b /\ oleaves (op_mul a b) = oleaves a ++ oleaves b.
Proof. split; [exact (oleaves_op_add a b)|exact (oleaves_op_mul a b)]. Qed.
Lemma ex_mul_of_add :
  den (@oeval TE (op_mul (OLeaf (KConst (Q2Qc 2))) (op_add (OLeaf (KConst (Q2Qc 3))) (OLeaf (KConst (Q2Qc 5))))) 0 nil nil)
  = Q2R' (Q2Qc 16).
Proof. vm_compute oeval. reflexivity. Qed.
End ObjHom.
