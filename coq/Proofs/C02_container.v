(* C02 proofs: plain torch containers (nn.ModuleList / nn.ModuleDict / nn.Sequential: tree nodes that are not gpytorch
   Modules and carry no registrations) are TRANSPARENT for the traversal behind Module.named_added_loss_terms
   (Models/C02_priors.v collect_by_prior): the terms registered below them are yielded exactly as if the children of the
   container were attached to the container's parent directly.  The traversal that returns at a node without
   registrations of its own (stops at plain containers) is refuted. *)
From Coq Require Import Arith List Bool Lia.
From GPV Require Import Base.LinAlg Base.Exec Base.Expr Models.C02_mll Models.C02_priors.
Import ListNotations.

(* threading the memo through a concatenation of child lists *)
Lemma collect_list_app (f : mtree -> list nat -> list reg * list nat) l1 l2 memo :
  collect_list f (l1 ++ l2) memo =
  let '(o1, m1) := collect_list f l1 memo in let '(o2, m2) := collect_list f l2 m1 in (o1 ++ o2, m2).
Proof.
  revert memo. induction l1 as [|c r IH]; intros memo.
  - cbn [app collect_list]. destruct (collect_list f l2 memo) as [o2 m2]. reflexivity.
  - cbn [app collect_list]. destruct (f c memo) as [o1 m1]. rewrite IH.
    destruct (collect_list f r m1) as [o2 m2]. destruct (collect_list f l2 m2) as [o3 m3].
    rewrite app_assoc. reflexivity.
Qed.

(* a node without registrations yields what its children yield, with the same memo *)
Lemma container_is_its_children c ch memo :
  collect_by_prior (MNode c [] ch) memo = collect_list collect_by_prior ch memo.
Proof.
  cbn [collect_by_prior own_by_prior].
  change ((fix go (l : list mtree) (memo0 : list nat) {struct l} : list reg * list nat :=
             match l with
             | [] => ([], memo0)
             | c0 :: r => let '(o1, m1) := collect_by_prior c0 memo0 in let '(o2, m2) := go r m1 in (o1 ++ o2, m2)
             end) ch memo) with (collect_list collect_by_prior ch memo).
  destruct (collect_list collect_by_prior ch memo) as [oc m']. reflexivity.
Qed.

(* splicing: a registration-free container among the children can be replaced by its own children *)
Lemma container_splice pre c ch post memo :
  collect_list collect_by_prior (pre ++ MNode c [] ch :: post) memo
  = collect_list collect_by_prior (pre ++ ch ++ post) memo.
Proof.
  rewrite !collect_list_app.
  destruct (collect_list collect_by_prior pre memo) as [o1 m1].
  replace (collect_list collect_by_prior (MNode c [] ch :: post) m1)
    with (collect_list collect_by_prior (ch ++ post) m1); [reflexivity|].
  rewrite collect_list_app. cbn [collect_list]. rewrite container_is_its_children. reflexivity.
Qed.

Lemma collect_by_prior_node i ps chs memo :
  collect_by_prior (MNode i ps chs) memo =
  let '(o0, m0) := own_by_prior i ps memo in
  let '(oc, m') := collect_list collect_by_prior chs m0 in (o0 ++ oc, m').
Proof. reflexivity. Qed.

(* named_added_loss_terms of a module whose child list contains a plain container = that of the module with the
   container's children attached directly (at any depth of nesting, by repeated use) *)
Lemma named_added_container_transparent i ps pre c ch post :
  named_added (MNode i ps (pre ++ MNode c [] ch :: post)) = named_added (MNode i ps (pre ++ ch ++ post)).
Proof.
  unfold named_added. rewrite !collect_by_prior_node.
  destruct (own_by_prior i ps []) as [o0 m0]. rewrite container_splice. reflexivity.
Qed.

(* the root itself may be a container *)
Lemma named_added_of_container c ch :
  named_added (MNode c [] ch) = fst (collect_list collect_by_prior ch []).
Proof. unfold named_added. rewrite container_is_its_children. reflexivity. Qed.

(* ---- the traversal that returns at nodes that are not gpytorch Modules -------------------------------------- *)
(* [plain id] = the node is a plain torch container (it has no _added_loss_terms attribute) *)
Fixpoint collect_stop_at_plain (plain : nat -> bool) (t : mtree) (memo : list nat) {struct t} : list reg * list nat :=
  match t with
  | MNode id ps ch =>
      if plain id then ([], memo)
      else let '(o0, m0) := own_by_prior id ps memo in
           let '(oc, m') := collect_list (collect_stop_at_plain plain) ch m0 in (o0 ++ oc, m')
  end.

(* a sum kernel (node 1) keeps its two components in a ModuleList (node 2); the second component (node 4) carries
   an added-loss term (name 0, object 0): the stopping traversal loses it *)
Lemma stop_at_plain_refuted :
  exists (plain : nat -> bool) (t : mtree),
    (forall id ps ch, In (MNode id ps ch) [t] -> plain id = false) /\
    fst (collect_stop_at_plain plain t []) <> named_added t.
Proof.
  exists (fun id => Nat.eqb id 2),
         (MNode 0 [] [MNode 1 [] [MNode 2 [] [MNode 3 [] []; MNode 4 [(0, 0)] []]]]).
  split.
  - intros id ps ch [H|[]]. inversion H. reflexivity.
  - vm_compute. discriminate.
Qed.
