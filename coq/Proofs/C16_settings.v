From Coq Require Import Arith List Bool Lia.
From GPV Require Import Base.LinAlg Base.Exec Models.C01_posterior Models.C16_missing Models.C16_settings
  Proofs.C16_missing.
Import ListNotations.

Section Settings.
Context {K : Fld}.
Local Open Scope fld_scope.

Lemma call_memo_ok n KJ Ainv Aoinv Afinv TT tm (y r : nvec) fv st s :
  memo_ok n Aoinv Afinv r fv (ps_memo st) ->
  memo_ok n Aoinv Afinv r fv (ps_memo (fst (call n KJ Ainv Aoinv Afinv TT tm y r fv st s))).
Proof.
  intros Hm. unfold call. destruct (cs_policy s) as [p|].
  - destruct (predict_step n Aoinv Afinv TT tm r fv (ps_memo st) p) as [m' mean] eqn:E.
    cbn [fst ps_memo].
    assert (H := memo_ok_step n Aoinv Afinv TT tm r fv (ps_memo st) p Hm). rewrite E in H.
    cbn [fst] in H. apply H.
  - cbn [fst ps_memo]. exact Hm.
Qed.

Lemma call_history_memo_ok n KJ Ainv Aoinv Afinv TT tm (y r : nvec) fv h st :
  memo_ok n Aoinv Afinv r fv (ps_memo st) ->
  memo_ok n Aoinv Afinv r fv
    (ps_memo (fold_left (fun st s => fst (call n KJ Ainv Aoinv Afinv TT tm y r fv st s)) h st)).
Proof.
  revert st. induction h as [|s h IH]; intros st Hm; [exact Hm|].
  cbn [fold_left]. apply IH. apply call_memo_ok. exact Hm.
Qed.

(* after ANY history of calls (policies ignore / mask / fill, fast_pred_var on / off, in any order)
   a call under 'mask' or 'fill' returns the deletion posterior: mean and covariance *)
Lemma call_after_history_is_deletion n t KJ muJ S Ainv Afinv Aoinv (y : nvec) fv
  (h : list call_settings) (p : policy) (fpv : bool) :
  let A := train_covar KJ S in let ob := is_obs y in
  is_inverse n A Ainv ->
  is_inverse n (fill_kernel ob A) Afinv ->
  is_inverse (nobs n ob) (masked n n ob ob A) Aoinv ->
  let TT := Ksx n KJ in let tm := sub n 0 muJ in let r := offset muJ y in
  let res := snd (call n KJ Ainv Aoinv Afinv TT tm y r fv
                    (call_history n KJ Ainv Aoinv Afinv TT tm y r fv h)
                    {| cs_policy := Some p; cs_fpv := fpv |}) in
  (exists mean, fst res = Some mean /\ meq t 1 mean (del_mean n KJ muJ Aoinv y))
  /\ meq t t (snd res) (del_cov n ob KJ Aoinv).
Proof.
  intros A ob Ha Hf Ho TT tm r res.
  assert (H0 : memo_ok n Aoinv Afinv r fv (ps_memo pstate_empty)) by (intros q mc H; discriminate H).
  assert (Hh := call_history_memo_ok n KJ Ainv Aoinv Afinv TT tm y r fv h _ H0).
  fold (call_history n KJ Ainv Aoinv Afinv TT tm y r fv h) in Hh.
  subst res. unfold call. cbn [cs_policy cs_fpv].
  destruct (memo_ok_step n Aoinv Afinv TT tm r fv _ p Hh) as [_ E].
  destruct (predict_step n Aoinv Afinv TT tm r fv
              (ps_memo (call_history n KJ Ainv Aoinv Afinv TT tm y r fv h)) p) as [m' mean] eqn:E2.
  cbn [snd fst] in *. split.
  - exists mean. split; [reflexivity|]. rewrite E. subst TT tm r.
    destruct p; cbn [read_cache compute_cache].
    + apply mask_mean_is_deletion.
    + apply (fill_mean_is_deletion n t KJ muJ S Afinv Aoinv y fv fv Hf Ho).
  - unfold call_cov. cbn [cs_policy].
    apply (pred_cov_is_deletion n t p KJ S Ainv Aoinv Afinv y Ha Hf Ho).
Qed.

(* the covariance of a call does not depend on the state at all (no memo enters it) *)
Lemma call_cov_stateless n KJ Ainv Aoinv Afinv TT tm (y r : nvec) fv st st' s :
  snd (snd (call n KJ Ainv Aoinv Afinv TT tm y r fv st s))
  = snd (snd (call n KJ Ainv Aoinv Afinv TT tm y r fv st' s)).
Proof.
  unfold call. destruct (cs_policy s) as [p|] eqn:E.
  - destruct (predict_step n Aoinv Afinv TT tm r fv (ps_memo st) p).
    destruct (predict_step n Aoinv Afinv TT tm r fv (ps_memo st') p). reflexivity.
  - reflexivity.
Qed.

End Settings.

(* the memoised-mask reading is refuted on the witness data of C16_missing (n = 2, second target
   NaN, t = 1): after a first call under 'ignore' it returns 4/5 under 'mask', deletion is 7/8 *)
Lemma memoised_mask_differs :
  exists (n t : nat) (KJ S Ainv Aoinv Afinv : @M QcF) (y : @nvec QcF) (p : policy),
    is_inverse n (train_covar KJ S) Ainv /\
    is_inverse n (fill_kernel (is_obs y) (train_covar KJ S)) Afinv /\
    is_inverse (nobs n (is_obs y)) (masked n n (is_obs y) (is_obs y) (train_covar KJ S)) Aoinv /\
    ~ meq t t (call_cov_memoised_mask n KJ Ainv Aoinv Afinv y
                 {| cs_policy := None; cs_fpv := false |} {| cs_policy := Some p; cs_fpv := false |})
              (del_cov n (is_obs y) KJ Aoinv).
Proof.
  destruct ex_pred_cov_witness as (Ha & Hf & Ho & _ & Hm & _ & Hold).
  exists 2, 1, wit_KJ, wit_S, wit_Ainv, wit_Aoinv, wit_Afinv, wit_y, PMask.
  split; [exact Ha|]. split; [exact Hf|]. split; [exact Ho|].
  intros H. unfold call_cov_memoised_mask in H. cbn [cs_policy] in H.
  assert (Hd := pred_cov_is_deletion 2 1 PMask wit_KJ wit_S wit_Ainv wit_Aoinv wit_Afinv wit_y Ha Hf Ho).
  specialize (H O O Nat.lt_0_1 Nat.lt_0_1). specialize (Hd O O Nat.lt_0_1 Nat.lt_0_1).
  unfold cov_unmasked_old in Hold. rewrite Hold in H. rewrite <- Hd in H. rewrite Hm in H.
  revert H. vm_compute. discriminate.
Qed.
