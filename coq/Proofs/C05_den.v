(* C05 proofs, third part: what is EXECUTED is what is PROVED ABOUT, for every kernel term.
   [den (@eval TE k o x y) = @eval TR k o (map den x) (map den y)] by structural induction on
   the kernel term [k]: the expr term printed by the model (constant folding included) denotes
   the real-valued documented formula on the denoted inputs.  Same for [oeval] (objects built by
   the public operators). *)
From Coq Require Import Arith Lia Ring Field List ZArith QArith Qcanon Reals Bool Lra Qreals
  FunctionalExtensionality.
From Coquelicot Require Import Coquelicot.
From GPV Require Import Base.LinAlg Base.Exec Base.Expr Models.C05_kernels Proofs.C05_kernels.
Import ListNotations.
Local Open Scope R_scope.

(* [den] commutes with every operation of the carrier.  Stated on the projections of [TE] / [TR]
   themselves so that pushing [den] through a term is pure rewriting (no conversion steps:
   re-checking conversions between nested folding constructors is exponential in the kernel). *)
Lemma den_tadd a b : den (@tadd TE a b) = @tadd TR (den a) (den b). Proof. apply den_sadd. Qed.
Lemma den_tsub a b : den (@tsub TE a b) = @tsub TR (den a) (den b). Proof. apply den_ssub. Qed.
Lemma den_tmul a b : den (@tmul TE a b) = @tmul TR (den a) (den b). Proof. apply den_smul. Qed.
Lemma den_tdiv a b : den (@tdiv TE a b) = @tdiv TR (den a) (den b). Proof. apply den_sdiv. Qed.
Lemma den_tneg a : den (@tneg TE a) = @tneg TR (den a). Proof. apply den_sneg. Qed.
Lemma den_tmax a b : den (@tmax TE a b) = @tmax TR (den a) (den b). Proof. apply den_smax. Qed.
Lemma den_texp a : den (@texp TE a) = @texp TR (den a). Proof. reflexivity. Qed.
Lemma den_tsqrt a : den (@tsqrt TE a) = @tsqrt TR (den a). Proof. reflexivity. Qed.
Lemma den_tsin a : den (@tsin TE a) = @tsin TR (den a). Proof. reflexivity. Qed.
Lemma den_tcos a : den (@tcos TE a) = @tcos TR (den a). Proof. reflexivity. Qed.
Lemma den_tpow a b : den (@tpow TE a b) = @tpow TR (den a) (den b). Proof. reflexivity. Qed.
Lemma den_t0 : den (@t0 TE) = @t0 TR. Proof. exact Q2R'_0. Qed.
Lemma den_t1 : den (@t1 TE) = @t1 TR. Proof. exact Q2R'_1. Qed.
Lemma den_tpi : den (@tpi TE) = @tpi TR. Proof. reflexivity. Qed.
Lemma den_tq q : den (@tq TE q) = @tq TR q. Proof. reflexivity. Qed.
Lemma den_tipow' x n : den (@tipow TE x n) = @tipow TR (den x) n. Proof. apply den_tipow. Qed.
Lemma den_tnat' n : den (@tnat TE n) = @tnat TR n. Proof. apply den_tnat. Qed.
Global Hint Rewrite den_tadd den_tsub den_tmul den_tdiv den_tneg den_tmax den_texp den_tsqrt den_tsin
  den_tcos den_tpow den_t0 den_t1 den_tpi den_tq den_tipow' den_tnat' : den_hom.
Ltac dn := autorewrite with den_hom.
Ltac tr := idtac.
Ltac fin := reflexivity.

Definition dfun (f : nat -> expr) : nat -> R := fun m => den (f m).

Lemma den_tsum' n f : den (@tsum TE n f) = @tsum TR n (dfun f).
Proof. apply den_tsum. Qed.
Lemma den_tprod' n f : den (@tprod TE n f) = @tprod TR n (dfun f).
Proof. apply den_tprod. Qed.

Lemma den_sqd' d x y l : den (@sqd TE d x y l) = @sqd TR d (dfun x) (dfun y) (dfun l).
Proof. apply den_sqd. Qed.

Lemma den_dot d x y : den (@dot TE d x y) = @dot TR d (dfun x) (dfun y).
Proof. unfold dot. rewrite den_tsum'. apply tsumR_ext. intros m _. unfold dfun. dn. fin. Qed.

Lemma den_k_rbf' d x y l : den (@k_rbf TE d x y l) = @k_rbf TR d (dfun x) (dfun y) (dfun l).
Proof. apply den_k_rbf. Qed.

Lemma den_k_matern nu2 d x y l :
  den (@k_matern TE nu2 d x y l) = @k_matern TR nu2 d (dfun x) (dfun y) (dfun l).
Proof.
  destruct nu2 as [|[|[|[|n]]]]; unfold k_matern, tsq; dn; rewrite ?den_sqd'; reflexivity.
Qed.

Lemma den_k_rq al d x y l :
  den (@k_rq TE al d x y l) = @k_rq TR (den al) d (dfun x) (dfun y) (dfun l).
Proof. unfold k_rq, t2. dn. rewrite den_sqd'. reflexivity. Qed.

Lemma den_k_periodic d x y p l :
  den (@k_periodic TE d x y p l) = @k_periodic TR d (dfun x) (dfun y) (dfun p) (dfun l).
Proof.
  unfold k_periodic, t2. dn. rewrite den_tsum'. tr. f_equal. f_equal.
  apply tsumR_ext. intros m _. unfold dfun, tsq. dn. fin.
Qed.

Lemma den_k_cosine p d x y :
  den (@k_cosine TE p d x y) = @k_cosine TR (den p) d (dfun x) (dfun y).
Proof.
  unfold k_cosine. dn. rewrite den_tsum'. tr. do 4 f_equal.
  apply tsumR_ext. intros m _. unfold dfun, tsq. dn. fin.
Qed.

Lemma den_k_linear d x y v :
  den (@k_linear TE d x y v) = @k_linear TR d (dfun x) (dfun y) (dfun v).
Proof.
  unfold k_linear. rewrite den_tsum'. apply tsumR_ext. intros m _. unfold dfun. dn. fin.
Qed.

Lemma den_k_poly c pw d x y :
  den (@k_poly TE c pw d x y) = @k_poly TR (den c) pw d (dfun x) (dfun y).
Proof. unfold k_poly. dn. rewrite den_dot. reflexivity. Qed.

Lemma den_pp_poly q j r : den (@pp_poly TE q j r) = @pp_poly TR q (den j) (den r).
Proof. destruct q as [|[|[|q]]]; unfold pp_poly, tsq, t2; dn; fin. Qed.

Lemma den_k_pp q d x y l :
  den (@k_pp TE q d x y l) = @k_pp TR q d (dfun x) (dfun y) (dfun l).
Proof.
  unfold k_pp. dn. rewrite den_pp_poly. dn. rewrite den_sqd'. reflexivity.
Qed.

Lemma den_k_sm nq w mu s d x y :
  den (@k_sm TE nq w mu s d x y)
  = @k_sm TR nq (dfun w) (fun q => dfun (mu q)) (fun q => dfun (s q)) d (dfun x) (dfun y).
Proof.
  unfold k_sm. rewrite den_tprod'. apply tprodR_ext. intros m _. unfold dfun at 1.
  rewrite den_tsum'. apply tsumR_ext. intros q _. unfold dfun, tsq, t2. dn. fin.
Qed.

Lemma den_k_sdelta nz z d x y l :
  den (@k_sdelta TE nz z d x y l)
  = @k_sdelta TR nz (fun s => dfun (z s)) d (dfun x) (dfun y) (dfun l).
Proof.
  unfold k_sdelta. dn. rewrite den_tsum'. tr. f_equal.
  apply tsumR_ext. intros s _. unfold dfun at 1. unfold t2. dn. rewrite den_tsum'. tr. do 2 f_equal.
  apply tsumR_ext. intros m _. unfold dfun. dn. fin.
Qed.

Lemma den_arc_embed d rad ang l act x m :
  den (@arc_embed TE d rad ang l act x m)
  = @arc_embed TR d (dfun rad) (dfun ang) (dfun l) (dfun act) (dfun x) m.
Proof. unfold arc_embed, dfun. destruct (Nat.ltb m d); dn; fin. Qed.

Lemma den_vnorm d x : den (@vnorm TE d x) = @vnorm TR d (dfun x).
Proof.
  unfold vnorm. dn. rewrite den_tsum'. tr. f_equal.
  apply tsumR_ext. intros m _. unfold dfun, tsq. dn. fin.
Qed.

Lemma den_kuma al be ep r : den (@kuma TE al be ep r) = @kuma TR (den al) (den be) (den ep) (den r).
Proof. unfold kuma. dn. fin. Qed.

Lemma den_cyl_angular np w d x y :
  den (@cyl_angular TE np w d x y) = @cyl_angular TR np (dfun w) d (dfun x) (dfun y).
Proof.
  unfold cyl_angular. rewrite den_tsum'. apply tsumR_ext. intros p _. unfold dfun at 1.
  destruct p as [|p]; [reflexivity|]. dn. rewrite den_tsum'. do 2 f_equal.
  apply tsumR_ext. intros m _. unfold dfun at 1. dn. rewrite !den_vnorm. reflexivity.
Qed.

Lemma den_k_hamming al be vocab d x y :
  den (@k_hamming TE al be vocab d x y) = @k_hamming TR (den al) (den be) vocab d (dfun x) (dfun y).
Proof. unfold k_hamming. dn. rewrite den_dot. reflexivity. Qed.

Lemma den_gskl_dist ep d x y :
  den (@gskl_dist TE ep d x y) = @gskl_dist TR (den ep) d (dfun x) (dfun y).
Proof.
  unfold gskl_dist. rewrite den_tsum'. apply tsumR_ext. intros m _. unfold dfun, tsq, t2. dn. fin.
Qed.

Lemma den_k_gskl mf a ep d x y :
  den (@k_gskl TE mf a ep d x y) = @k_gskl TR mf (den a) (den ep) d (dfun x) (dfun y).
Proof. unfold k_gskl. destruct mf; dn; rewrite den_gskl_dist; reflexivity. Qed.

(* elementary symmetric polynomials *)
Lemma map_repeat' {A B} (f : A -> B) a n : map f (repeat a n) = repeat (f a) n.
Proof. induction n as [|n IH]; cbn [repeat map]; [reflexivity|]. rewrite IH. reflexivity. Qed.
Lemma dn_esp_add z prev es :
  map den (@esp_add TE z prev es) = @esp_add TR (den z) (den prev) (map den es).
Proof.
  revert prev. induction es as [|e es IH]; intros prev; cbn [esp_add map]; [reflexivity|].
  rewrite IH. dn. fin.
Qed.
Lemma dn_esp_list kmax zs :
  map den (@esp_list TE kmax zs) = @esp_list TR kmax (map den zs).
Proof.
  induction zs as [|z zs IH]; cbn [esp_list map].
  - dn. f_equal. rewrite map_repeat'. dn. fin.
  - rewrite <- IH. destruct (@esp_list TE kmax zs) as [|e0 tl]; cbn [map]; [reflexivity|].
    rewrite dn_esp_add. reflexivity.
Qed.
Lemma dn_esp k zs : den (@esp TE k zs) = @esp TR k (map den zs).
Proof.
  unfold esp. rewrite <- dn_esp_list. rewrite <- den_t0. symmetry. apply map_nth.
Qed.

(* ------------------------------------------------------------------ the evaluator *)
Lemma den_vfun x : dfun (@vfun TE x) = @vfun TR (map den x).
Proof.
  apply functional_extensionality. intros m. unfold dfun, vfun.
  rewrite <- den_t0. symmetry. apply map_nth.
Qed.
Lemma den_pick l : dfun (@pick TE l) = @pick TR l.
Proof. reflexivity. Qed.
Lemma den_pick_o l o : dfun (fun m => @pick TE l (o + m)) = (fun m => @pick TR l (o + m)).
Proof. reflexivity. Qed.
Lemma den_pick2 l : (fun q => dfun (@pick2 TE l q)) = @pick2 TR l.
Proof. reflexivity. Qed.

Theorem den_eval k : forall o (x y : list expr),
  den (@eval TE k o x y) = @eval TR k o (map den x) (map den y).
Proof.
  induction k; intros o x y; cbn [eval]; rewrite ?map_length, <- ?den_vfun.
  - apply den_k_rbf'.
  - apply den_k_matern.
  - apply den_k_rq.
  - apply den_k_periodic.
  - apply den_k_cosine.
  - apply den_k_linear.
  - apply den_k_poly.
  - apply den_k_pp.
  - reflexivity.
  - dn. rewrite IHk. rewrite <- ?den_vfun. reflexivity.
  - dn. rewrite IHk1, IHk2. rewrite <- ?den_vfun. reflexivity.
  - dn. rewrite IHk1, IHk2. rewrite <- ?den_vfun. reflexivity.
  - apply den_k_sm.
  - apply den_k_sdelta.
  - rewrite IHk. rewrite !map_map.
    f_equal; apply map_ext; intros m; rewrite den_arc_embed; unfold dfun;
      change (fun m0 : nat => den (@vfun TE ?z m0)) with (dfun (@vfun TE z));
      rewrite ?den_vfun; reflexivity.
  - dn. rewrite IHk, den_cyl_angular. cbn [map]. rewrite !den_kuma, !den_vnorm. reflexivity.
  - apply den_k_hamming.
  - apply den_k_gskl.
  - rewrite den_tsum'. apply tsumR_ext. intros m _. unfold dfun at 1. rewrite IHk. reflexivity.
  - rewrite den_tprod'. apply tprodR_ext. intros m _. unfold dfun at 1. rewrite IHk. reflexivity.
  - rewrite den_tsum'. apply tsumR_ext. intros g _. unfold dfun at 1. dn. rewrite dn_esp.
    rewrite map_map. do 2 f_equal. apply map_ext. intros m. rewrite IHk. reflexivity.
  - rewrite IHk, !map_map. reflexivity.
Qed.

(* the derivative kernels whose entries are not covered by [den_rbf_deriv_entry] *)
Lemma den_m52grad_entry d x y l a b :
  den (@m52grad_entry TE d x y l a b) = @m52grad_entry TR d (dfun x) (dfun y) (dfun l) a b.
Proof.
  unfold m52grad_entry. destruct a as [|j], b as [|i].
  - apply den_k_matern.
  - unfold tsq. dn. rewrite den_sqd'. reflexivity.
  - unfold tsq. dn. rewrite den_sqd'. reflexivity.
  - unfold tsq. destruct (Nat.eqb i j); dn; rewrite ?den_sqd'; reflexivity.
Qed.
Lemma den_polygrad_entry c pw d x y a b :
  den (@polygrad_entry TE c pw d x y a b) = @polygrad_entry TR (den c) pw d (dfun x) (dfun y) a b.
Proof.
  unfold polygrad_entry. destruct a as [|j], b as [|i]; try destruct (Nat.eqb i j); dn; rewrite ?den_dot; reflexivity.
Qed.

(* objects built by the public operators *)
Fixpoint kobj_size (k : kobj) : nat :=
  match k with
  | OLeaf _ => 1%nat
  | OScale _ k' => S (kobj_size k')
  | OAdd ks => S (fold_right (fun k' acc => (kobj_size k' + acc)%nat) 0%nat ks)
  | OMul ks => S (fold_right (fun k' acc => (kobj_size k' + acc)%nat) 0%nat ks)
  end.

Theorem den_oeval k : forall o (x y : list expr),
  den (@oeval TE k o x y) = @oeval TR k o (map den x) (map den y).
Proof.
  assert (H : forall n k, (kobj_size k <= n)%nat -> forall o (x y : list expr),
            den (@oeval TE k o x y) = @oeval TR k o (map den x) (map den y)).
  { induction n as [|n IH]; intros k0 Hk o x y.
    - destruct k0; cbn [kobj_size] in Hk; lia.
    - destruct k0 as [k'|s k'|ks|ks]; cbn [kobj_size] in Hk.
      + apply den_eval.
      + cbn [oeval]. dn. rewrite IH by lia. reflexivity.
      + cbn [oeval]. induction ks as [|k1 ks IHks]; cbn [fold_right] in *; [dn; fin|].
        dn. rewrite (IH k1) by lia. rewrite IHks by lia. reflexivity.
      + cbn [oeval]. induction ks as [|k1 ks IHks]; cbn [fold_right] in *; [dn; fin|].
        dn. rewrite (IH k1) by lia. rewrite IHks by lia. reflexivity. }
  intros o x y. apply (H (kobj_size k) k (le_n _)).
Qed.

(* non-vacuity: a nested kernel term evaluated through both carriers *)
Lemma ex_den_eval :
  den (@eval TE (KScale (Q2Qc 2) (KSum (KRBF [Q2Qc 1]) (KAddStruct (KMatern 5 [Q2Qc 1; Q2Qc 3])))) 0
         [EConst (Q2Qc 1); EConst (Q2Qc 2)] [EConst (Q2Qc 0); EConst (Q2Qc 5)])
  = @eval TR (KScale (Q2Qc 2) (KSum (KRBF [Q2Qc 1]) (KAddStruct (KMatern 5 [Q2Qc 1; Q2Qc 3])))) 0
         [Q2R' (Q2Qc 1); Q2R' (Q2Qc 2)] [Q2R' (Q2Qc 0); Q2R' (Q2Qc 5)].
Proof. exact (den_eval _ 0%nat _ _). Qed.
