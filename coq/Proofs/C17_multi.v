(* C17, modules with several constrained parameters (Models/C17_constraints.v: mstate / mstep_via):
   the setter of parameter i that consults ITS OWN constraint reads back the assigned value and rejects
   exactly the values outside constraint i, whatever the other parameters' constraints are, and never
   touches another parameter; a setter that consults ANOTHER parameter's constraint (the copy/paste
   defect class) reads back a shifted value / accepts out-of-bounds values as soon as the two
   constraints differ. *)
From Coq Require Import Arith Lia List Bool Reals Lra QArith Qcanon.
From GPV Require Import Base.LinAlg Base.Exec Base.Expr Models.C17_constraints Proofs.C17_constraints.
Import ListNotations.
Local Open Scope R_scope.

(* ---- structure: mupd touches position i only, constraints never change --------------------- *)
Lemma mupd_other f : forall (s : mstate) i j, j <> i -> nth_error (mupd s i f) j = nth_error s j.
Proof.
  induction s as [|[c cl] r IH]; intros i j Hne; [destruct i; reflexivity|].
  destruct i as [|i]; destruct j as [|j]; cbn [mupd nth_error]; try reflexivity.
  - contradiction.
  - apply IH. intros E. apply Hne. rewrite E. reflexivity.
Qed.

Lemma mupd_own f : forall (s : mstate) i c cl, nth_error s i = Some (c, cl) ->
  nth_error (mupd s i f) i = Some (c, f c cl).
Proof.
  induction s as [|[c0 cl0] r IH]; intros i c cl H; [destruct i; discriminate|].
  destruct i as [|i]; cbn [mupd nth_error] in *.
  - inversion H; subst. reflexivity.
  - apply IH. exact H.
Qed.

Lemma mupd_cons f : forall (s : mstate) i, map fst (mupd s i f) = map fst s.
Proof.
  induction s as [|[c cl] r IH]; intros i; [destruct i; reflexivity|].
  destruct i as [|i]; cbn [mupd map fst]; [reflexivity|]. rewrite IH. reflexivity.
Qed.

Lemma mupd_length f : forall (s : mstate) i, length (mupd s i f) = length s.
Proof. intros s i. rewrite <- (map_length fst), mupd_cons, map_length. reflexivity. Qed.

Lemma cons_at_nth (s : mstate) i c cl : nth_error s i = Some (c, cl) -> cons_at s i = c.
Proof. intros H. unfold cons_at. rewrite (nth_error_nth s i _ H). reflexivity. Qed.

(* frame: an operation on parameter i leaves every other parameter (constraint, raw value, counter)
   unchanged -- whichever constraint the setter consults *)
Lemma mstep_frame via (s : mstate) i o j : j <> i ->
  nth_error (mstep_via via s (i, o)) j = nth_error s j.
Proof. intros H. unfold mstep_via. cbn [fst snd]. apply mupd_other. exact H. Qed.

(* the correct setter is the single-parameter cell with constraint i *)
Lemma mstep_own (s : mstate) i o c cl : nth_error s i = Some (c, cl) ->
  nth_error (mstep s (i, o)) i = Some (c, step_e c cl o).
Proof.
  intros H. unfold mstep, mstep_via. cbn [fst snd].
  rewrite (mupd_own _ s i c cl H), (cons_at_nth s i c cl H). reflexivity.
Qed.

Lemma mstep_constraints via (s : mstate) io : map fst (mstep_via via s io) = map fst s.
Proof. unfold mstep_via. apply mupd_cons. Qed.

(* ---- set / read back / rejection with the parameter's own constraint ------------------------ *)
Lemma mset_reads_back (s : mstate) i c cl v :
  nth_error s i = Some (c, cl) -> wf c -> interior_q c v = true ->
  exists cl', nth_error (mstep s (i, Set_ v)) i = Some (c, cl') /\ readR c cl' = q v /\ snd cl' = snd cl
              /\ nth_error (mstep s (i, InitCons v)) i = Some (c, cl').
Proof.
  intros H Hw Hi. exists (step_e c cl (Set_ v)).
  destruct (set_reads_back c cl v Hw Hi) as [A [B _]].
  repeat split; [apply mstep_own; exact H|exact A|exact B|].
  rewrite (mstep_own s i (InitCons v) c cl H). reflexivity.
Qed.

Lemma mset_out_of_bounds (s : mstate) i c cl v :
  nth_error s i = Some (c, cl) -> interior_q c v = false ->
  nth_error (mstep s (i, Set_ v)) i = Some (c, (fst cl, S (snd cl))).
Proof.
  intros H Hi. rewrite (mstep_own s i (Set_ v) c cl H).
  destruct (set_out_of_bounds_rejected c cl v Hi) as [A [B _]].
  destruct (step_e c cl (Set_ v)) as [r n]. cbn [fst snd] in A, B. subst. reflexivity.
Qed.

(* ---- history invariant for the whole module ------------------------------------------------- *)
Definition all_wf (s : mstate) : Prop := Forall wf (map fst s).
Definition all_in_bounds (s : mstate) : Prop :=
  Forall (fun p : cons * cell expr => in_bounds (fst p) (readR (fst p) (snd p))) s.

Lemma all_in_bounds_of_wf (s : mstate) : all_wf s -> all_in_bounds s.
Proof.
  unfold all_wf, all_in_bounds. induction s as [|[c cl] r IH]; cbn [map fst]; intros H; constructor.
  - cbn [fst snd]. apply read_in_bounds. inversion H; assumption.
  - apply IH. inversion H; assumption.
Qed.

Lemma mhistory_in_bounds (s : mstate) ops : all_wf s -> Forall all_in_bounds (mtrace s ops).
Proof.
  revert s. induction ops as [|o r IH]; intros s Hw; cbn [mtrace]; constructor.
  - apply all_in_bounds_of_wf. unfold all_wf, mstep. rewrite mstep_constraints. exact Hw.
  - apply IH. unfold all_wf, mstep. rewrite mstep_constraints. exact Hw.
Qed.

(* ---- a setter that consults another parameter's constraint ----------------------------------- *)
(* GreaterThan family (Positive = GreaterThan 0 up to q 0 = 0): the value stored through constraint l'
   and read through constraint l is shifted by l - l' *)
Lemma setter_via_other_greater l l' cl v : interior_q (CGreater l') v = true ->
  readR (CGreater l) (step_via (CGreater l) (CGreater l') cl (Set_ v)) = q v - q l' + q l.
Proof.
  intros Hi. destruct cl as [raw rej]. unfold step_via, step. rewrite Hi.
  unfold readR, read_e. cbn [fst]. rewrite den_transform, den_inverse. cbn [den transform_R inverse_R].
  fold (q v). apply interior_q_spec in Hi. cbn [in_bounds] in Hi.
  rewrite softplus_inv_softplus by lra. ring.
Qed.

Corollary setter_via_other_greater_iff l l' cl v : interior_q (CGreater l') v = true ->
  (readR (CGreater l) (step_via (CGreater l) (CGreater l') cl (Set_ v)) = q v <-> q l = q l').
Proof. intros Hi. rewrite (setter_via_other_greater l l' cl v Hi). split; intros H; lra. Qed.

(* Interval read through (l, u), stored through (l', u'): the read is the affine image of v *)
Lemma setter_via_other_interval l u l' u' cl v :
  wf (CInterval l' u') -> interior_q (CInterval l' u') v = true ->
  readR (CInterval l u) (step_via (CInterval l u) (CInterval l' u') cl (Set_ v))
  = (q v - q l') / (q u' - q l') * (q u - q l) + q l.
Proof.
  intros Hw Hi. destruct cl as [raw rej]. unfold step_via, step. rewrite Hi.
  unfold readR, read_e. cbn [fst]. rewrite den_transform, den_inverse. cbn [den transform_R inverse_R].
  fold (q v). apply interior_q_spec in Hi. cbn [in_bounds wf] in Hi, Hw.
  rewrite sigmoid_inv_sigmoid; [reflexivity|].
  destruct Hi as [H0 H1]. split.
  - apply Rdiv_lt_0_compat; lra.
  - apply (Rmult_lt_reg_r (q u' - q l')); [lra|]. unfold Rdiv.
    rewrite Rmult_assoc, Rinv_l by lra. lra.
Qed.

(* the acceptance test is the consulted constraint's: a value outside the parameter's own bounds is
   accepted when it is inside the other constraint's *)
Lemma setter_via_other_accepts c cv cl v : interior_q cv v = true ->
  snd (step_via c cv cl (Set_ v)) = snd cl.
Proof. intros Hi. destruct cl as [raw rej]. unfold step_via, step. rewrite Hi. reflexivity. Qed.

Lemma q_of_Z (n : Z) : q (Q2Qc (inject_Z n)) = IZR n.
Proof.
  unfold q, Q2R'. rewrite (Qreals.Qeq_eqR _ (inject_Z n)); [|apply Qred_correct].
  unfold Q2R. cbn [Qnum Qden inject_Z]. field.
Qed.

(* the module-level statement "set reads back / out-of-bounds rejected" FAILS for a setter that consults the
   other parameter's constraint: witness = two GreaterThan parameters with bounds 0 and 1 *)
Lemma setter_wrong_constraint_refuted :
  exists (s : mstate) (i : nat) (c : cons) (cl : cell expr) (v w : Qc),
    all_wf s /\ nth_error s i = Some (c, cl) /\ interior_q c v = true /\ interior_q c w = false /\
    (forall cl', nth_error (mstep_via (fun j => (1 - j)%nat) s (i, Set_ v)) i = Some (c, cl') -> readR c cl' <> q v) /\
    (forall cl', nth_error (mstep_via (fun j => (1 - j)%nat) s (i, Set_ w)) i = Some (c, cl') -> snd cl' = snd cl).
Proof.
  set (z := Q2Qc (inject_Z 0)). set (o := Q2Qc (inject_Z 1)).
  exists [(CGreater o, (EConst z, O)); (CGreater z, (EConst z, O))], O, (CGreater o), (EConst z, O),
         (Q2Qc (inject_Z 2)), (Q2Qc (inject_Z 1 / inject_Z 2)).
  split; [repeat constructor|]. split; [reflexivity|]. split; [reflexivity|]. split; [reflexivity|].
  split.
  - intros cl' H. unfold mstep_via in H. cbn [fst snd mupd nth_error Nat.sub] in H.
    change (cons_at _ 1%nat) with (CGreater z) in H.
    assert (E : cl' = step_via (CGreater o) (CGreater z) (EConst z, O) (Set_ (Q2Qc (inject_Z 2)))) by congruence.
    rewrite E.
    rewrite (setter_via_other_greater o z (EConst z, O) (Q2Qc (inject_Z 2))) by reflexivity.
    unfold z, o. rewrite !q_of_Z. lra.
  - intros cl' H. unfold mstep_via in H. cbn [fst snd mupd nth_error Nat.sub] in H.
    change (cons_at _ 1%nat) with (CGreater z) in H.
    assert (E : cl' = step_via (CGreater o) (CGreater z) (EConst z, O) (Set_ (Q2Qc (inject_Z 1 / inject_Z 2)))) by congruence.
    rewrite E.
    apply setter_via_other_accepts. reflexivity.
Qed.

(* non-vacuity: a three-parameter module with three different constraint classes *)
Lemma ex_multi_module :
  let s := [(CInterval (qc 1 2) (qc 4 1), (EConst 0%Qc, O)); (CGreater (qc 5 1), (EConst 0%Qc, O));
            (CLess (qc 3 1), (EConst 0%Qc, O))] in
  all_wf s /\ nth_error s 1 = Some (CGreater (qc 5 1), (EConst 0%Qc, O)) /\
  interior_q (CGreater (qc 5 1)) (qc 6 1) = true /\ interior_q (CInterval (qc 1 2) (qc 4 1)) (qc 6 1) = false /\
  length (mtrace s [(1%nat, Set_ (qc 6 1)); (0%nat, Set_ (qc 6 1)); (2%nat, Step (EConst (qc 1 1)))]) = 3%nat.
Proof.
  cbn zeta. split; [|repeat split; reflexivity].
  unfold all_wf. cbn [map fst]. repeat constructor. cbn [wf]. unfold q, Q2R', Q2R. cbn. lra.
Qed.
