(* C14: the KL statements without determinant / factor side conditions.
   For EVERY symmetric positive definite S_w (and every root L of Kzz that has an inverse -- in
   particular the Cholesky factor: lower triangular, non-zero diagonal, for which the inverse is
   constructed in Base/Cholesky.v) the complete whitened 2 KL  tr Sw + |mw|^2 - m - ln det Sw
   equals the complete 2 KL(q(u) || p(u)) of the described q(u), all three determinants are positive
   and the common value is >= 0. *)
From Coq Require Import Arith Lia Reals Lra.
From GPV Require Import Base.LinAlg Base.Exec Base.Expr Base.Det Base.Psd Base.Cholesky.
From GPV Require Import Models.C10_mvn Proofs.C10_mvn Proofs.C10_kl Proofs.C10_det Proofs.C10_kl_pd.
From GPV Require Import Models.C14_variational Proofs.C14_variational Proofs.C14_more Proofs.C14_det.
Local Open Scope R_scope.

(* the whitened 2 KL is C10's closed form for KL( N(mw, Sw) || N(0, I) ) *)
Lemma kl_wh_is_kl_rational n (Sw mw : @M RF) :
  @kl_wh_alg RF n Sw mw - @fnat RF n = @kl_rational RF n mw Sw mzero mI.
Proof.
  unfold kl_wh_alg, kl_rational.
  assert (E1 : @C10_mvn.trace RF n (mmul n mI Sw) = @C14_variational.trace RF n Sw).
  { unfold C10_mvn.trace, C14_variational.trace. apply (@sum_ext RF). intros i Hi.
    apply (@mmul_I_l RF n n Sw i i Hi Hi). }
  assert (E2 : @C10_mvn.quad RF n mI (msub mw mzero) = @dot RF n mw mw).
  { unfold C10_mvn.quad, dot. unfold mmul at 1. apply (@sum_ext RF). intros l Hl.
    rewrite (@mmul_I_l RF n 1 (msub mw mzero) l O Hl ltac:(lia)).
    unfold mT, msub, mzero. rf. ring. }
  rewrite E1, E2. reflexivity.
Qed.

Theorem kl_whitened_nonneg_pd n (Sw mw : @M RF) :
  @symmetric RF n Sw -> PDR n Sw ->
  0 < @det RF n Sw /\ 0 <= @kl_wh_alg RF n Sw mw - @fnat RF n - ln (@det RF n Sw).
Proof.
  intros HS HP. destruct (pd_mI n) as [HIs HIp].
  assert (HII : @is_inverse RF n mI mI) by (split; apply mmul_I_l).
  destruct (kl_nonneg_pd n mw mzero Sw mI mI HS HP HIs HIp HII) as (H1 & _ & H3).
  split; [exact H1|].
  rewrite (@det_mI RF n) in H3. rewrite <- kl_wh_is_kl_rational in H3. rf. rewrite ln_1 in H3. lra.
Qed.

(* any root L of Kzz with an inverse, any symmetric PD S_w: no determinant hypotheses *)
Theorem kl_whitened_eq_log_pd m (Kzz Kinv L Linv : @M RF) :
  @meq RF m m (@mmul RF m L (@mT RF L)) Kzz -> @is_inverse RF m L Linv -> @is_inverse RF m Kzz Kinv ->
  forall (mz mw Sw : @M RF), @symmetric RF m Sw -> PDR m Sw ->
  0 < @det RF m Sw /\ 0 < @det RF m Kzz /\ 0 < @det RF m (unwhiten_cov m L Sw) /\
  @kl_wh_alg RF m Sw mw - @fnat RF m - ln (@det RF m Sw)
  = @kl_unwh_alg RF m Kinv (unwhiten_cov m L Sw) (unwhiten_mean m L mz mw) mz - @fnat RF m
    + ln (@det RF m Kzz) - ln (@det RF m (unwhiten_cov m L Sw)) /\
  0 <= @kl_wh_alg RF m Sw mw - @fnat RF m - ln (@det RF m Sw).
Proof.
  intros HL HLi HK mz mw Sw HS HP.
  destruct (kl_whitened_nonneg_pd m Sw mw HS HP) as [HdS Hnn].
  destruct (gram_root_pd m L Linv Kzz HL (proj1 HLi)) as [HKs HKp].
  pose proof (pd_det_pos m Kzz HKs HKp) as HdK.
  destruct (kl_whitened_eq_log m Kzz Kinv L Linv HL HLi HK mz mw Sw HdS HdK) as [HdU E].
  split; [exact HdS|]. split; [exact HdK|]. split; [exact HdU|]. split; [exact E|exact Hnn].
Qed.

(* the factor the code uses: L lower triangular with non-zero diagonal (Cholesky factor of Kzz);
   its inverse is constructed, not assumed *)
Theorem kl_whitened_eq_log_cholesky m (Kzz Kinv L : @M RF) :
  @tri_lower RF m L -> (forall i, (i < m)%nat -> L i i <> 0) ->
  @meq RF m m (@mmul RF m L (@mT RF L)) Kzz -> @is_inverse RF m Kzz Kinv ->
  forall (mz mw Sw : @M RF), @symmetric RF m Sw -> PDR m Sw ->
  0 < @det RF m Sw /\ 0 < @det RF m Kzz /\ 0 < @det RF m (unwhiten_cov m L Sw) /\
  @kl_wh_alg RF m Sw mw - @fnat RF m - ln (@det RF m Sw)
  = @kl_unwh_alg RF m Kinv (unwhiten_cov m L Sw) (unwhiten_mean m L mz mw) mz - @fnat RF m
    + ln (@det RF m Kzz) - ln (@det RF m (unwhiten_cov m L Sw)) /\
  0 <= @kl_wh_alg RF m Sw mw - @fnat RF m - ln (@det RF m Sw).
Proof.
  intros HT Hd HL HK mz mw Sw HS HP.
  destruct (@tri_lower_has_inverse RF m L HT Hd) as (Linv & HLi & _).
  exact (kl_whitened_eq_log_pd m Kzz Kinv L Linv HL HLi HK mz mw Sw HS HP).
Qed.

(* and for every symmetric PD Kzz such a factor exists *)
Theorem pd_prior_has_whitening_factor m (Kzz : @M RF) :
  @symmetric RF m Kzz -> PDR m Kzz ->
  exists L : @M RF, @tri_lower RF m L /\ (forall i, (i < m)%nat -> L i i <> 0) /\
                    @meq RF m m (@mmul RF m L (@mT RF L)) Kzz.
Proof.
  intros HS HP. destruct (pd_cholesky_inverse m Kzz HS HP) as (L & Li & H1 & H2 & H3 & _ & _).
  exists L. split; [exact H1|]. split; [|exact H3].
  intros i Hi E. specialize (H2 i Hi). rewrite E in H2. rf. lra.
Qed.

(* non-vacuity: S_w = [[2,1],[1,2]] (not given in factored form), L = [[1,0],[1,1]] *)
Lemma ex_kl_pd_c14_hyps :
  @symmetric RF 2 exPD /\ PDR 2 exPD /\
  @tri_lower RF 2 exR_L /\ (forall i, (i < 2)%nat -> exR_L i i <> 0).
Proof.
  destruct ex_pd_hyps_hold as [H1 H2]. destruct ex_kl_nonneg_hyps as (H3 & H4 & _).
  split; [exact H1|]. split; [exact H2|]. split; [exact H3|].
  intros i Hi E. specialize (H4 i Hi). rewrite E in H4. rf. lra.
Qed.
