From Coq Require Import Arith Lia Ring Field Setoid Morphisms List.
From GPV Require Import Base.LinAlg Models.C04_fantasy Proofs.C04_fantasy Models.C04_wiski.

Section Proofs.
Context {K : Fld}.
Add Field Ff_c04w : (@FT K).
Local Open Scope fld_scope.

Lemma mmul_mT_vstack_vstack g p n m W Wf x y :
  meq g p (mmul (n + m) (mT (vstack n W Wf)) (vstack n x y))
          (madd (mmul n (mT W) x) (mmul m (mT Wf) y)).
Proof.
  intros i j Hi Hj. unfold mmul at 1. rewrite sum_split.
  unfold madd, mmul, mT, vstack. f_equal; apply sum_ext; intros l Hl.
  - destruct (Nat.ltb_spec l n); [reflexivity|lia].
  - destruct (Nat.ltb_spec (n + l) n); [lia|]. replace (n + l - n)%nat with l by lia. reflexivity.
Qed.

Lemma blkdiag_vstack n m p Dinv Dfinv x y :
  meq (n + m) p (mmul (n + m) (blkdiag n Dinv Dfinv) (vstack n x y))
                (vstack n (mmul n Dinv x) (mmul m Dfinv y)).
Proof.
  unfold blkdiag. eapply meq_trans; [apply mmul_blk_vstack|].
  apply vstack_compat.
  - intros i j Hi Hj. unfold madd, mmul, mzero.
    rewrite (sum_zero m) by (intros; ring). ring.
  - intros i j Hi Hj. unfold madd, mmul, mzero.
    rewrite (sum_zero n) by (intros; ring). ring.
Qed.

(* W'^T D'^-1 X' over the concatenated rows = old quantity + contribution of the new rows *)
Lemma wiski_quad_additive g p n m W Wf Dinv Dfinv x y :
  meq g p
    (mmul (n + m) (mT (vstack n W Wf)) (mmul (n + m) (blkdiag n Dinv Dfinv) (vstack n x y)))
    (madd (mmul n (mT W) (mmul n Dinv x)) (mmul m (mT Wf) (mmul m Dfinv y))).
Proof.
  eapply meq_trans.
  - apply (mmul_compat_r g (n + m) p). apply blkdiag_vstack.
  - apply mmul_mT_vstack_vstack.
Qed.

Lemma wiski_inner_update_correct g n m W Wf Dinv Dfinv :
  meq g g (wiski_inner (n + m) (vstack n W Wf) (blkdiag n Dinv Dfinv))
          (wiski_inner_update m (wiski_inner n W Dinv) Wf Dfinv).
Proof. unfold wiski_inner, wiski_inner_update. apply wiski_quad_additive. Qed.

Lemma wiski_resp_update_correct g n m W Wf Dinv Dfinv r rf :
  meq g 1 (wiski_resp (n + m) (vstack n W Wf) (blkdiag n Dinv Dfinv) (vstack n r rf))
          (wiski_resp_update m (wiski_resp n W Dinv r) Wf Dfinv rf).
Proof. unfold wiski_resp, wiski_resp_update. apply wiski_quad_additive. Qed.

(* the block-diagonal matrix of the two noise inverses is the inverse of the concatenated noise *)
Lemma blkdiag_inverse n m D Dinv Df Dfinv :
  is_inverse n D Dinv -> is_inverse m Df Dfinv ->
  is_inverse (n + m) (blkdiag n D Df) (blkdiag n Dinv Dfinv).
Proof.
  intros [H1 H2] [H3 H4]. unfold blkdiag.
  assert (E : forall a b A Ai B Bi, meq a a (mmul a A Ai) mI -> meq b b (mmul b B Bi) mI ->
            meq (a + b) (a + b) (mmul (a + b) (blk a a A mzero mzero B) (blk a a Ai mzero mzero Bi)) mI).
  { intros a b A Ai B Bi HA HB. eapply meq_trans; [apply mmul_blk|].
    eapply meq_trans; [|apply meq_sym, mI_blk].
    apply blk_compat; intros i j Hi Hj; unfold madd, mmul, mzero.
    - rewrite (sum_zero b) by (intros; ring). rewrite <- (HA i j Hi Hj). unfold mmul. ring.
    - rewrite (sum_zero a) by (intros; ring). rewrite (sum_zero b) by (intros; ring). ring.
    - rewrite (sum_zero a) by (intros; ring). rewrite (sum_zero b) by (intros; ring). ring.
    - rewrite (sum_zero a) by (intros; ring). rewrite <- (HB i j Hi Hj). unfold mmul. ring. }
  split; apply E; assumption.
Qed.

End Proofs.
