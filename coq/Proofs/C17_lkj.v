(* C17, LKJ priors: the density of the Cholesky factor (torch LKJCholesky, what LKJPrior.log_prob
   returns) = the documented density C |Sigma|^(eta-1) of the correlation matrix + log Jacobian. *)
From Coq Require Import Arith List Reals QArith Qcanon Lra Lia.
From GPV Require Import Base.LinAlg Base.Exec Base.Expr Models.C17_constraints Proofs.C17_constraints.
Import ListNotations.
Local Open Scope R_scope.

(* ---- LKJ priors ------------------------------------------------------------------------ *)
Lemma den_e_sum_cons x l : den (e_sum (x :: l)) = den x + den (e_sum l).
Proof. reflexivity. Qed.
Lemma den_e_sum_nil : den (e_sum []) = 0.
Proof. unfold e_sum. cbn [fold_right den]. change (Q2R' 0%Qc) with (q 0%Qc). apply q_0. Qed.

(* splitting the exponent 2(eta-1) + (n-i) of the Cholesky-factor density *)
Lemma lkj_split n eta : forall ds k,
  den (e_sum (map (fun id => EMul (EAdd (EMul e2 (ESub eta e1)) (EConst (qn (n - fst id)))) (ELog (snd id)))
                  (combine (seq k (length ds)) ds)))
  = den (e_sum (map (fun d => EMul (EMul e2 (ESub eta e1)) (ELog d)) ds))
    + den (e_sum (map (fun id => EMul (EConst (qn (n - fst id))) (ELog (snd id))) (combine (seq k (length ds)) ds))).
Proof.
  induction ds as [|d ds IH]; intros k.
  - cbn [length seq combine map]. rewrite den_e_sum_nil. lra.
  - cbn [length seq combine map]. rewrite !den_e_sum_cons. rewrite (IH (S k)).
    cbn [den fst snd]. lra.
Qed.

(* LKJCholesky's density of the factor L = documented density C |Sigma|^(eta-1) of the matrix
   Sigma = L L^T times the Jacobian prod_{i>=2} L_ii^(n-i) of Sigma -> L  (log scale; L_11 = 1) *)
Lemma lkj_chol_is_corr_plus_jacobian eta d ds :
  den d = 1 ->
  den (lp_lkj_chol (S (length ds)) eta (d :: ds))
  = den (lp_lkj_corr (S (length ds)) eta (d :: ds)) + den (e_lkj_logjac (S (length ds)) (d :: ds)).
Proof.
  intros Hd. unfold lp_lkj_chol, lp_lkj_corr, e_lkj_logjac.
  cbn [seq combine tl map]. cbn [den]. rewrite den_e_sum_cons.
  rewrite (lkj_split (S (length ds)) eta ds 2). cbn [den]. rewrite Hd, ln_1. lra.
Qed.

(* |Sigma| = prod_i L_ii^2 *)
Fixpoint prod_sq (l : list R) : R := match l with [] => 1 | d :: r => d * d * prod_sq r end.
Lemma prod_sq_pos l : Forall (fun d => 0 < d) l -> 0 < prod_sq l.
Proof.
  induction 1 as [|d r Hd _ IH]; cbn [prod_sq]; [lra|].
  apply Rmult_lt_0_compat; [apply Rmult_lt_0_compat; assumption|exact IH].
Qed.
Lemma ln_prod_sq l : Forall (fun d => 0 < d) l -> ln (prod_sq l) = fold_right (fun d acc => 2 * ln d + acc) 0 l.
Proof.
  induction 1 as [|d r Hd Hr IH]; cbn [prod_sq fold_right]; [apply ln_1|].
  rewrite ln_mult; [|apply Rmult_lt_0_compat; assumption|apply prod_sq_pos; exact Hr].
  rewrite ln_mult by assumption. rewrite IH. lra.
Qed.

(* the documented LKJPrior density: log( C |Sigma|^(eta-1) ) = (eta-1) ln|Sigma| - log normaliser *)
Lemma lkj_corr_is_det_power n eta ds :
  Forall (fun d => 0 < den d) ds ->
  den (lp_lkj_corr n eta ds) = (den eta - 1) * ln (prod_sq (map den ds)) - den (e_lkj_lognorm n eta).
Proof.
  intros Hp. unfold lp_lkj_corr. cbn [den]. f_equal.
  rewrite ln_prod_sq by (rewrite Forall_map; exact Hp).
  induction ds as [|d r IH]; [cbn [map fold_right]; rewrite den_e_sum_nil; lra|].
  cbn [map]. rewrite den_e_sum_cons. cbn [fold_right]. inversion Hp; subst.
  rewrite IH by assumption. cbn [den]. rewrite den_e2, den_e1. lra.
Qed.
