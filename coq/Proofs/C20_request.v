(* C20 — INNERMOST WINS, the "what a block requests" half: soundness of [enter_sets_requested]
   (Models/C20_request.v) for EVERY class table, composites / caches table, documentation table, store and
   argument list.  As for [class_ok], the step from "checked for both answers to every question" to "true
   for the answers any actual store and arguments give" is [explore_sound]; what is added here are facts
   about the answer lists themselves (the answers collected by [conc] are true: [conc_true]; answers about
   the store a block established translate into true answers about the block's inputs: [pull_sound]) and
   about instantiation ([inst_subst]).  Nothing is proved about the interpreter.

     requested_sound : if the obligation holds for c and the header of `with c(args):` completes at G,
                       then on every store S that shows, for the non-cache attributes of the query's
                       class, what the store established by the header shows, every documented query
                       of the block returns the documented value [requested T args G t].
     inner_requested : run-level form -- the first observation of the body and every later one, for the
                       classes of the block that have no inner block in the body. *)
From Coq Require Import List String ZArith Bool Lia.
From GPV Require Import Models.C20_ir Models.C20_check Models.C20_request Proofs.C20_scoped Proofs.C20_inner.
Import ListNotations.
Open Scope string_scope.

(* ------------------------------------------------------------------ decidable equalities *)
Lemma const_eqb_eq : forall a b, const_eqb a b = true -> a = b.
Proof.
  intros [| x | n d | s | s | s | s] [| y | n' d' | s' | s' | s' | s']; cbn; intros H; try discriminate; try reflexivity.
  - apply Bool.eqb_prop in H. subst. reflexivity.
  - apply andb_true_iff in H. destruct H as [H1 H2]. apply Z.eqb_eq in H1. apply Pos.eqb_eq in H2. subst. reflexivity.
  - apply String.eqb_eq in H. subst. reflexivity.
  - apply String.eqb_eq in H. subst. reflexivity.
  - apply String.eqb_eq in H. subst. reflexivity.
  - apply String.eqb_eq in H. subst. reflexivity.
Qed.
Lemma var_eqb_eq : forall x y, var_eqb x y = true -> x = y.
Proof.
  intros [p | t c a] [q | t' c' a']; cbn; intros H; try discriminate.
  - apply String.eqb_eq in H. subst. reflexivity.
  - apply andb_true_iff in H. destruct H as [H H3]. apply andb_true_iff in H. destruct H as [H1 H2].
    apply Bool.eqb_prop in H1. apply String.eqb_eq in H2, H3. subst. reflexivity.
Qed.
Lemma pred_eqb_eq : forall p q, pred_eqb p q = true -> p = q.
Proof.
  intros [| | k] [| | k']; cbn; intros H; try discriminate; try reflexivity.
  apply const_eqb_eq in H. subst. reflexivity.
Qed.
Lemma sval_eqb_eq : forall a b, sval_eqb a b = true -> a = b.
Proof.
  induction a as [k | x | w IH | c fs]; intros [k' | x' | w' | c' fs']; cbn; intros H; try discriminate.
  - apply const_eqb_eq in H. subst. reflexivity.
  - apply var_eqb_eq in H. subst. reflexivity.
  - rewrite (IH _ H). reflexivity.
Qed.

(* ------------------------------------------------------------------ true answers *)
Definition facts_true (hold : var -> pred -> bool) (fs : list fact) : Prop :=
  forall x p b, In (x, p, b) fs -> b = hold x p.

Lemma facts_true_nil : forall hold, facts_true hold [].
Proof. intros hold x p b []. Qed.
Lemma facts_true_cons : forall hold x p fs, facts_true hold fs -> facts_true hold ((x, p, hold x p) :: fs).
Proof. intros hold x p fs H y q b [E|Hin]; [inversion E; subst; reflexivity | apply H; exact Hin]. Qed.

Lemma known_true : forall hold fs x p b, facts_true hold fs -> known fs x p = Some b -> b = hold x p.
Proof.
  induction fs as [|[[y q] b0] r IH]; cbn [known]; intros x p b Ht H; [discriminate|].
  destruct (var_eqb x y && pred_eqb p q) eqn:E.
  - apply andb_true_iff in E. destruct E as [E1 E2]. apply var_eqb_eq in E1. apply pred_eqb_eq in E2. subst.
    inversion H; subst. apply Ht. left. reflexivity.
  - apply IH; [|exact H]. intros x' p' b' Hin. apply Ht. right. exact Hin.
Qed.

Lemma conc_true : forall A n (f : list fact -> res A) hold fs,
  facts_true hold fs -> facts_true hold (snd (conc n hold f fs)).
Proof.
  induction n as [|n IH]; intros f hold fs H; cbn [conc]; destruct (f fs) as [a|W|[x p]|s]; cbn [snd]; try exact H.
  apply IH. apply facts_true_cons. exact H.
Qed.

(* ------------------------------------------------------------------ documentation trees *)
Lemma rs_sym_conc : forall hold r t fs v, facts_true hold fs -> rs_sym fs t = Ok v -> inst r v = rs_conc hold r t.
Proof.
  induction t as [w | x p y IHy n IHn]; intros fs v Ht H; cbn [rs_sym rs_conc] in *.
  - inversion H; subst. reflexivity.
  - unfold ask in H. destruct (known fs x p) as [b|] eqn:Ek; cbn [bind] in H; [|discriminate].
    rewrite <- (known_true hold fs x p b Ht Ek). destruct b; [eapply IHy | eapply IHn]; eauto.
Qed.

Lemma rs_conc_sound : forall hold r t n fs v fs',
  facts_true hold fs -> conc n hold (fun fs0 => rs_sym fs0 t) fs = (Ok v, fs') -> inst r v = rs_conc hold r t.
Proof.
  induction n as [|n IH]; intros fs v fs' Ht H; cbn [conc] in H.
  - destruct (rs_sym fs t) as [a|W|[x p]|s] eqn:E; inversion H; subst. eapply rs_sym_conc; eauto.
  - destruct (rs_sym fs t) as [a|W|[x p]|s] eqn:E; try (inversion H; subst; eapply rs_sym_conc; eauto; fail).
    eapply IH; [|exact H]. apply facts_true_cons. exact Ht.
Qed.

Lemma inst_snot : forall r w, inst r (snot w) = inst r (VNot w).
Proof. intros r [k|x|w|c fs]; reflexivity. Qed.

(* ------------------------------------------------------------------ reading the documentation trees *)
Section Reading.
Variable T : table.
Variables (args : list (string * sval)) (G : store).
Let req := requested T args G.

Lemma requested_const : forall k, req (RVal (VK k)) = VK k.
Proof. reflexivity. Qed.
Lemma requested_arg : forall p, req (RVal (arg p)) = match assoc p args with Some v => v | None => VK KNone end.
Proof. reflexivity. Qed.
Lemma requested_outer : forall c a, req (RVal (outer c a)) = lookup_v T G c a.
Proof. reflexivity. Qed.
Lemma requested_if_absent : forall p y n,
  req (if_absent p y n) = match assoc p args with None => req y | Some _ => req n end.
Proof. intros p y n. unfold req, requested, if_absent. cbn [rs_conc holds]. destruct (assoc p args); reflexivity. Qed.
Lemma requested_if_none : forall p y n,
  req (if_none p y n) = match assoc p args with None | Some (VK KNone) => req y | Some _ => req n end.
Proof.
  intros p y n. unfold req, requested, if_none. cbn [rs_conc holds rho].
  destruct (assoc p args) as [[[]| | |]|]; reflexivity.
Qed.
(* "the argument p (default d)" *)
Lemma requested_arg_default : forall p d,
  req (arg_default p d) = match assoc p args with Some v => v | None => VK d end.
Proof.
  intros p d. unfold arg_default. rewrite requested_if_absent, requested_arg, requested_const.
  destruct (assoc p args); reflexivity.
Qed.
(* "the argument p if supplied and not None, else e" *)
Lemma requested_arg_or_else : forall p e,
  req (arg_or_else p e) = match assoc p args with None | Some (VK KNone) => req e | Some v => v end.
Proof.
  intros p e. unfold arg_or_else. rewrite requested_if_absent, requested_if_none, requested_arg.
  destruct (assoc p args) as [[[]| | |]|]; reflexivity.
Qed.
(* off() = not on() *)
Lemma requested_snot : forall t, req (rs_map snot t) = VK (KBool (negb (conc_truth (req t)))).
Proof.
  unfold req, requested. induction t as [v | x p y IHy n IHn]; cbn [rs_map rs_conc].
  - rewrite inst_snot. reflexivity.
  - destruct (holds T args G G x p); assumption.
Qed.
(* the three queries of a flag whose state is parameter p (default True) *)
Lemma requested_flag_on : forall p k t, In ((k, "on", []), t) (req_flag p k) ->
  req t = match assoc p args with
          | None => VK (KBool true)
          | Some (VK KNone) => lookup_v T G k "_default"
          | Some v => v
          end.
Proof.
  intros p k t [H|[H|[H|[]]]]; inversion H; subst.
  rewrite requested_if_absent, requested_if_none, requested_arg, requested_outer, requested_const.
  destruct (assoc p args) as [[[]| | |]|]; reflexivity.
Qed.
Lemma requested_flag_off : forall p k t ton, In ((k, "off", []), t) (req_flag p k) -> In ((k, "on", []), ton) (req_flag p k) ->
  req t = VK (KBool (negb (conc_truth (req ton)))).
Proof.
  intros p k t ton [H|[H|[H|[]]]] [H'|[H'|[H'|[]]]]; inversion H; inversion H'; subst.
  exact (requested_snot (if_absent p (RVal (VK (KBool true))) (if_none p (RVal (outer k "_default")) (RVal (arg p))))).
Qed.
Lemma requested_flag_is_default : forall p k t, In ((k, "is_default", []), t) (req_flag p k) ->
  req t = match assoc p args with Some (VK KNone) => VK (KBool true) | _ => VK (KBool false) end.
Proof.
  intros p k t [H|[H|[H|[]]]]; inversion H; subst.
  rewrite requested_if_absent, requested_if_none, !requested_const.
  destruct (assoc p args) as [[[]| | |]|]; reflexivity.
Qed.
End Reading.

Section Generic3.
Variable T : table.
Variable comp : string -> list string.
Variable cache : string -> string -> bool.
Variable spec : string -> list (qry * rspec).

Lemma holds_valp : forall args G G2 x p, p <> PAbsent -> holds T args G G2 x p = valp (rho T args G G2 x) p.
Proof. intros args G G2 x [| |k] Hp; [contradiction| |]; reflexivity. Qed.

(* ---- answers about the store established by WA, pulled back to the inputs of the block *)
Section Pull.
Variables (args : list (string * sval)) (G S : store) (WA : writes) (k : string).
Let hG := holds T args G G.
Let rG := rho T args G G.
Let hS := holds T [] S S.
Hypothesis HS : forall a, cache k a = false ->
  lookup_v T S k a = match find_w WA k a with Some w => inst rG w | None => lookup_v T G k a end.

Lemma add_fact_sound : forall acc x p b, facts_true hG acc -> b = hG x p ->
  add_fact acc x p b <> PContra /\ forall fs', add_fact acc x p b = POk fs' -> facts_true hG fs'.
Proof.
  intros acc x p b Ht Hb. unfold add_fact. destruct (known acc x p) as [b'|] eqn:Ek.
  - rewrite (known_true hG acc x p b' Ht Ek), Hb, Bool.eqb_reflx. split; [discriminate|].
    intros fs' E. inversion E; subst. exact Ht.
  - split; [discriminate|]. intros fs' E. inversion E; subst. apply facts_true_cons. exact Ht.
Qed.

Lemma pull1_sound : forall acc x p b, facts_true hG acc -> local_var cache k x = true -> b = hS x p ->
  pull1 WA acc (x, p, b) <> PContra /\ forall fs', pull1 WA acc (x, p, b) = POk fs' -> facts_true hG fs'.
Proof.
  intros acc x p b Ht Hl Hb. destruct x as [q | t k' a]; [discriminate|]. destruct t; [discriminate|].
  cbn [local_var] in Hl. apply andb_true_iff in Hl. destruct Hl as [Hk Hc]. apply String.eqb_eq in Hk. subst k'.
  apply negb_true_iff in Hc.
  assert (Hp : p = PAbsent \/ p <> PAbsent) by (destruct p; [left; reflexivity | right; discriminate | right; discriminate]).
  destruct Hp as [Hp|Hp].
  - subst p. cbn [pull1]. replace b with false by (rewrite Hb; reflexivity).
    split; [discriminate|]. intros fs' E. inversion E; subst. exact Ht.
  - assert (Hb' : b = valp (match find_w WA k a with Some w => inst rG w | None => lookup_v T G k a end) p).
    { rewrite Hb. unfold hS. rewrite holds_valp by exact Hp. cbn [rho]. rewrite (HS a Hc). reflexivity. }
    assert (E1 : pull1 WA acc (XCell false k a, p, b)
                 = match find_w WA k a with
                   | None => add_fact acc (XCell false k a) p b
                   | Some (VSym y) => add_fact acc y p b
                   | Some (VK k0) => if Bool.eqb b (valp (VK k0) p) then POk acc else PContra
                   | Some _ => PFail
                   end) by (destruct p; [contradiction| |]; reflexivity).
    rewrite E1. clear E1. destruct (find_w WA k a) as [[k0 | y | w | c fs]|].
    + cbn [inst] in Hb'. rewrite <- Hb', Bool.eqb_reflx. split; [discriminate|]. intros fs' E. inversion E; subst. exact Ht.
    + apply add_fact_sound; [exact Ht|]. rewrite Hb'. unfold hG. rewrite holds_valp by exact Hp. reflexivity.
    + split; [discriminate|]. intros fs' E. discriminate E.
    + split; [discriminate|]. intros fs' E. discriminate E.
    + apply add_fact_sound; [exact Ht|]. rewrite Hb'. unfold hG. rewrite holds_valp by exact Hp. reflexivity.
Qed.

Lemma pull_sound : forall fsQ acc, facts_true hG acc -> facts_true hS fsQ ->
  forallb (fun f : fact => local_var cache k (fst (fst f))) fsQ = true ->
  pull WA acc fsQ <> PContra /\ forall fs', pull WA acc fsQ = POk fs' -> facts_true hG fs'.
Proof.
  induction fsQ as [|[[x p] b] r IH]; intros acc Ht HtQ Hl; cbn [pull].
  - split; [discriminate|]. intros fs' E. inversion E; subst. exact Ht.
  - cbn [forallb fst] in Hl. apply andb_true_iff in Hl. destruct Hl as [Hl1 Hl2].
    destruct (pull1_sound acc x p b Ht Hl1 (HtQ x p b (or_introl eq_refl))) as [Hn Hok].
    destruct (pull1 WA acc (x, p, b)) as [| |acc'] eqn:E1.
    + exfalso. apply Hn. reflexivity.
    + split; [discriminate|]. intros fs' E. discriminate E.
    + apply IH; [apply Hok; reflexivity | | exact Hl2]. intros x' p' b' Hin. apply HtQ. right. exact Hin.
Qed.

Lemma inst_subst : forall v sv, local_val cache k v = true -> subst WA v = Some sv ->
  inst (rho T [] S S) v = inst rG sv.
Proof.
  induction v as [k0 | x | w IH | c fs]; intros sv Hl Hs; cbn [subst local_val] in *.
  - inversion Hs; subst. reflexivity.
  - destruct x as [q | t k' a]; [discriminate|]. destruct t; [discriminate|].
    cbn [local_var] in Hl. apply andb_true_iff in Hl. destruct Hl as [Hk Hc]. apply String.eqb_eq in Hk. subst k'.
    apply negb_true_iff in Hc. inversion Hs; subst. cbn [inst rho]. rewrite (HS a Hc).
    destruct (find_w WA k a); reflexivity.
  - destruct (subst WA w) as [sw|] eqn:Ew; [|discriminate]. cbn [option_map] in Hs. inversion Hs; subst.
    rewrite inst_snot. cbn [inst]. rewrite (IH sw Hl eq_refl). reflexivity.
  - discriminate.
Qed.
End Pull.

Strategy opaque [QFUEL conc explore symA symB symObs].

(* the value of a documented query on any store S that shows what the header established *)
Theorem requested_sound : forall c args G ob WA fsA,
  enter_sets_requested T comp cache spec c = true ->
  conc QFUEL (holds T args G G) (fun fs => symA T fs c) [] = (Ok (AEntered ob WA), fsA) ->
  forall k m qa t S, In ((k, m, qa), t) (spec c) ->
    (forall a, cache k a = false ->
       lookup_v T S k a = lookup_v T (apply_writes (rho T args G G) WA G) k a) ->
    observe T S k m qa = requested T args G t.
Proof.
  intros c args G ob WA fsA Hreq HA k m qa t S Hin HSs.
  unfold enter_sets_requested in Hreq. apply andb_true_iff in Hreq. destruct Hreq as [_ Hreq].
  pose proof (explore_sound _ QFUEL (fun fs => symA T fs c) (chkR T comp cache spec c) (holds T args G G) [] Hreq) as H1.
  pose proof (conc_true _ QFUEL (fun fs => symA T fs c) (holds T args G G) [] (facts_true_nil _)) as HtA.
  rewrite HA in H1, HtA. cbn [fst snd] in H1, HtA. cbn [chkR] in H1.
  apply andb_true_iff in H1. destruct H1 as [Hfoot Hall].
  destruct (footprint_ok_spec T comp c WA Hfoot) as [Hleaf _].
  rewrite forallb_forall in Hall. specialize (Hall _ Hin). cbn beta iota in Hall.
  assert (HS : forall a, cache k a = false ->
            lookup_v T S k a = match find_w WA k a with Some w => inst (rho T args G G) w | None => lookup_v T G k a end).
  { intros a Hc. rewrite (HSs a Hc). apply lookup_v_apply. exact Hleaf. }
  pose proof (explore_sound _ QFUEL (fun fs' => symObs T fs' k m qa) (chkQ cache WA fsA k t) (holds T [] S S) [] Hall) as H2.
  pose proof (conc_true _ QFUEL (fun fs' => symObs T fs' k m qa) (holds T [] S S) [] (facts_true_nil _)) as HtQ.
  unfold observe, requested.
  destruct (conc QFUEL (holds T [] S S) (fun fs' => symObs T fs' k m qa) []) as [rQ fsQ]. cbn [fst snd] in H2, HtQ.
  destruct rQ as [[v Wq]|W|q|s]; cbn [chkQ] in H2; try discriminate.
  apply andb_true_iff in H2. destruct H2 as [H2 Hm]. apply andb_true_iff in H2. destruct H2 as [H2 Hlv].
  apply andb_true_iff in H2. destruct H2 as [_ Hlf].
  destruct (pull_sound args G S WA k HS fsQ fsA HtA HtQ Hlf) as [Hnc Hok].
  destruct (pull WA fsA fsQ) as [| |fs'] eqn:Ep; [exfalso; apply Hnc; reflexivity | discriminate |].
  specialize (Hok fs' eq_refl).
  destruct (subst WA v) as [sv|] eqn:Es; [|discriminate].
  pose proof (explore_sound _ QFUEL (fun fs => rs_sym fs t) (chkV sv) (holds T args G G) fs' Hm) as H3.
  destruct (conc QFUEL (holds T args G G) (fun fs => rs_sym fs t) fs') as [r3 fs3] eqn:E3. cbn [fst snd] in H3.
  destruct r3 as [v'|W|q|s]; cbn [chkV] in H3; try discriminate.
  apply sval_eqb_eq in H3. subst v'.
  rewrite (inst_subst args G S WA k HS v sv Hlv Es).
  exact (rs_conc_sound (holds T args G G) (rho T args G G) t QFUEL fs' sv fs3 Hok E3).
Qed.

Lemma enter_sets_requested_nonempty : forall c, enter_sets_requested T comp cache spec c = true -> spec c <> [].
Proof. intros c H E. unfold enter_sets_requested in H. rewrite E in H. discriminate H. Qed.

(* a with-block either does not complete its header (nothing is observed), or runs its body from the store
   established by constructor + __enter__ *)
Lemma run_with_inv2 : forall c args body G G' o tr,
  run T (PWith c args body) G = (G', o, tr) ->
  (enters T c args G = false /\ tr = []) \/
  exists ob WA fsA G2 r,
    conc QFUEL (holds T args G G) (fun fs => symA T fs c) [] = (Ok (AEntered ob WA), fsA) /\
    run T body (apply_writes (rho T args G G) WA G) = (G2, r, tr).
Proof.
  intros c args body G G' o tr H. cbn [run] in H. unfold enters.
  destruct (args_valid T c args); cbn [negb andb] in *; [|left; inversion H; auto].
  destruct (conc QFUEL (holds T args G G) (fun fs => symA T fs c) []) as [rA fsA] eqn:EA. cbn [fst].
  destruct rA as [[W|W|ob WA]|W|q|s]; try (left; inversion H; auto; fail).
  right.
  destruct (run T body (apply_writes (rho T args G G) WA G)) as [[G2 r] trb] eqn:E.
  exists ob, WA, fsA, G2, r. split; [reflexivity|].
  destruct r.
  - destruct (conc QFUEL (holds T args G G2) (fun fs' => symB T fs' c ob) fsA) as [[[sup WB|WB]|W|q|s] fsB];
      inversion H; subst; exact E.
  - destruct (conc QFUEL (holds T args G G2) (fun fs' => symB T fs' c ob) fsA) as [[[sup WB|WB]|W|q|s] fsB];
      inversion H; subst; exact E.
  - inversion H; subst; exact E.
Qed.

(* INNERMOST WINS, both halves: the first observation in the body of `with c(args):` shows, for every
   documented query of the block, the documented value; so does every later observation in the body for
   the queries whose class has no block (own or composite) in the body *)
Theorem inner_requested : forall c args body G G' o tr,
  enter_sets_requested T comp cache spec c = true ->
  prog_ok T comp cache body = true ->
  run T (PWith c args (PSeq PObserve body)) G = (G', o, tr) ->
  (enters T c args G = false /\ tr = []) \/
  exists s0 tr', tr = s0 :: tr' /\
    (forall k m qa t, In ((k, m, qa), t) (spec c) -> observe T s0 k m qa = requested T args G t) /\
    (forall s, In s tr' -> forall k m qa t, In ((k, m, qa), t) (spec c) -> ~ In k (footprint comp body) ->
       observe T s k m qa = requested T args G t).
Proof.
  intros c args body G G' o tr Hreq Hok H.
  destruct (run_with_inv2 _ _ _ _ _ _ _ H) as [Hl|[ob [WA [fsA [G2 [r [HA Hb]]]]]]]; [left; exact Hl|right].
  set (G1 := apply_writes (rho T args G G) WA G) in *.
  cbn [run] in Hb. destruct (run T body G1) as [[G3 o3] tr3] eqn:E3.
  cbn in Hb. injection Hb as HG Ho Htr.
  exists G1, tr3. split; [symmetry; exact Htr|]. split.
  - intros k m qa t Hin. apply (requested_sound c args G ob WA fsA Hreq HA k m qa t G1 Hin). intros a Hc. reflexivity.
  - intros s Hs k m qa t Hin Hnf.
    destruct (run_inv T comp cache body G1 G3 o3 tr3 Hok E3) as [_ [_ Hf]].
    apply (requested_sound c args G ob WA fsA Hreq HA k m qa t s Hin). intros a Hc. apply Hf; assumption.
Qed.
(* ... UNTIL: the body may go on (b2, arbitrary) with blocks of the same classes; up to there -- in b1 --
   the documented values stay visible for the queries whose class has no block in b1 *)
Theorem inner_requested_until : forall c args b1 b2 G G' o tr,
  enter_sets_requested T comp cache spec c = true ->
  prog_ok T comp cache b1 = true ->
  run T (PWith c args (PSeq PObserve (PSeq b1 b2))) G = (G', o, tr) ->
  (enters T c args G = false /\ tr = []) \/
  exists s0 tr1 tr2, tr = s0 :: tr1 ++ tr2 /\
    (exists Ga oa, run T b1 s0 = (Ga, oa, tr1)) /\
    (forall k m qa t, In ((k, m, qa), t) (spec c) -> observe T s0 k m qa = requested T args G t) /\
    (forall s, In s tr1 -> forall k m qa t, In ((k, m, qa), t) (spec c) -> ~ In k (footprint comp b1) ->
       observe T s k m qa = requested T args G t).
Proof.
  intros c args b1 b2 G G' o tr Hreq Hok H.
  destruct (run_with_inv2 _ _ _ _ _ _ _ H) as [Hl|[ob [WA [fsA [G2 [r [HA Hb]]]]]]]; [left; exact Hl|right].
  set (G1 := apply_writes (rho T args G G) WA G) in *.
  cbn [run] in Hb. destruct (run T b1 G1) as [[Ga oa] tra] eqn:Ea.
  assert (Hs0 : forall k m qa t, In ((k, m, qa), t) (spec c) -> observe T G1 k m qa = requested T args G t).
  { intros k m qa t Hin. apply (requested_sound c args G ob WA fsA Hreq HA k m qa t G1 Hin). intros a Hc. reflexivity. }
  assert (Hs1 : forall s, In s tra -> forall k m qa t, In ((k, m, qa), t) (spec c) -> ~ In k (footprint comp b1) ->
            observe T s k m qa = requested T args G t).
  { intros s Hs k m qa t Hin Hnf.
    destruct (run_inv T comp cache b1 G1 Ga oa tra Hok Ea) as [_ [_ Hf]].
    apply (requested_sound c args G ob WA fsA Hreq HA k m qa t s Hin). intros a Hc. apply Hf; assumption. }
  destruct oa.
  - destruct (run T b2 Ga) as [[Gb ob2] trb] eqn:Eb. cbn in Hb. injection Hb as HG Ho Htr.
    exists G1, tra, trb. split; [symmetry; exact Htr|]. split; [eauto|]. split; assumption.
  - cbn in Hb. injection Hb as HG Ho Htr.
    exists G1, tra, []. split; [rewrite app_nil_r; symmetry; exact Htr|]. split; [eauto|]. split; assumption.
  - cbn in Hb. injection Hb as HG Ho Htr.
    exists G1, tra, []. split; [rewrite app_nil_r; symmetry; exact Htr|]. split; [eauto|]. split; assumption.
Qed.
End Generic3.
