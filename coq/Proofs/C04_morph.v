(* C04: the executed fantasy update (QcF) is the real-number fantasy update (RF) on the mapped
   inputs; generic over a field morphism, instance Q2R' (Base/Morph.v). *)
From Coq Require Import Arith List ZArith QArith Qcanon Reals.
From GPV Require Import Base.LinAlg Base.Exec Base.Expr Base.Det Base.Morph
  Models.C01_posterior Proofs.C01_posterior Proofs.C01_morph Models.C04_fantasy Proofs.C04_fantasy.
Import ListNotations.

Section C04Morph.
Context {K1 K2 : Fld} (phi : @car K1 -> @car K2) {HM : FldMorph K1 K2 phi}.
Local Notation mp := (mmap phi).

Ltac c04_unfold :=
  unfold fant_mean_cache_staged, bordered_inv_staged, post_cov_staged, fant_mean_cache, bordered_inv,
    new_root, new_inv_root, bordered, post_mean_from_cache, resid in *;
  unfold fant_upper, root_schur, root_lower_left in *;
  unfold fant_lower in *; unfold small_rhs, schur, fant_solve, fant_solve_root in *;
  unfold train_covar, Kxx, Kxs, Ksx, Kss, mmap in *.

Lemma fant_solve_morph n Ainv Ut i j :
  phi (fant_solve n Ainv Ut i j) = fant_solve n (mp Ainv) (mp Ut) i j.
Proof. c04_unfold. morph_pt. Qed.
Lemma fant_solve_root_morph n r R Ut i j :
  phi (fant_solve_root n r R Ut i j) = fant_solve_root n r (mp R) (mp Ut) i j.
Proof. c04_unfold. morph_pt. Qed.
Lemma schur_morph n U Q Sf i j : phi (schur n U Q Sf i j) = schur n (mp U) (mp Q) (mp Sf) i j.
Proof. c04_unfold. morph_pt. Qed.
Lemma small_rhs_morph n U alpha rf i j :
  phi (small_rhs n U alpha rf i j) = small_rhs n (mp U) (mp alpha) (mp rf) i j.
Proof. c04_unfold. morph_pt. Qed.
Lemma fant_mean_cache_morph n m U Q Cinv alpha rf i j :
  phi (fant_mean_cache n m U Q Cinv alpha rf i j)
  = fant_mean_cache n m (mp U) (mp Q) (mp Cinv) (mp alpha) (mp rf) i j.
Proof. c04_unfold. morph_pt. Qed.
Lemma fant_mean_cache_staged_morph n m U Q Cinv alpha rf i j :
  phi (fant_mean_cache_staged n m U Q Cinv alpha rf i j)
  = fant_mean_cache_staged n m (mp U) (mp Q) (mp Cinv) (mp alpha) (mp rf) i j.
Proof. c04_unfold. morph_pt. Qed.
Lemma bordered_morph n A Ut U Sf i j :
  phi (bordered n A Ut U Sf i j) = bordered n (mp A) (mp Ut) (mp U) (mp Sf) i j.
Proof. c04_unfold. morph_pt. Qed.
Lemma bordered_inv_morph n m Ainv U Ut Cinv i j :
  phi (bordered_inv n m Ainv U Ut Cinv i j) = bordered_inv n m (mp Ainv) (mp U) (mp Ut) (mp Cinv) i j.
Proof. c04_unfold. morph_pt. Qed.
Lemma bordered_inv_staged_morph n m Ainv Q P Cinv i j :
  phi (bordered_inv_staged n m Ainv Q P Cinv i j)
  = bordered_inv_staged n m (mp Ainv) (mp Q) (mp P) (mp Cinv) i j.
Proof. c04_unfold. morph_pt. Qed.
Lemma new_root_morph n E F G i j : phi (new_root n E F G i j) = new_root n (mp E) (mp F) (mp G) i j.
Proof. c04_unfold. morph_pt. Qed.
Lemma new_inv_root_morph n m R F Ginv i j :
  phi (new_inv_root n m R F Ginv i j) = new_inv_root n m (mp R) (mp F) (mp Ginv) i j.
Proof. c04_unfold. morph_pt. Qed.
Lemma root_schur_morph n Sf F i j : phi (root_schur n Sf F i j) = root_schur n (mp Sf) (mp F) i j.
Proof. c04_unfold. morph_pt. Qed.
Lemma post_mean_from_cache_morph N KJ muJ alpha i j :
  phi (post_mean_from_cache N KJ muJ alpha i j) = post_mean_from_cache N (mp KJ) (mp muJ) (mp alpha) i j.
Proof. c04_unfold. morph_pt. Qed.
Lemma post_cov_staged_morph n t KJ Ainv i j :
  phi (post_cov_staged n t KJ Ainv i j) = post_cov_staged n t (mp KJ) (mp Ainv) i j.
Proof. c04_unfold. morph_pt. Qed.
Lemma resid_morph muJ y i j : phi (resid muJ y i j) = resid (mp muJ) (mp y) i j.
Proof. c04_unfold. morph_pt. Qed.

(* the invariant carried by a chain of fantasy updates is preserved by the morphism *)
Lemma finv_morph KJ S muJ y n Ainv alpha :
  finv KJ S (resid muJ y) (n, Ainv, alpha) ->
  finv (mp KJ) (mp S) (resid (mp muJ) (mp y)) (n, mp Ainv, mp alpha).
Proof.
  intros [HA Hal]. split.
  - apply (train_inverse_morph phi). exact HA.
  - intros i j Hi Hj. unfold mmap at 1. rewrite (Hal i j Hi Hj).
    change (mp (mmul n Ainv (resid muJ y)) i j = mmul n (mp Ainv) (resid (mp muJ) (mp y)) i j).
    rewrite (mmap_mmul phi). unfold mmul. apply sum_ext. intros l _. f_equal. apply resid_morph.
Qed.

End C04Morph.

Lemma fantasy_update_commutes_with_field_morphisms (K1 K2 : Fld) (phi : @car K1 -> @car K2) :
  FldMorph K1 K2 phi ->
  forall n m (Ainv U Ut Sf Q Cinv alpha rf : @M K1) i j,
    phi (@schur K1 n U Q Sf i j) = @schur K2 n (mmap phi U) (mmap phi Q) (mmap phi Sf) i j /\
    phi (@fant_mean_cache K1 n m U Q Cinv alpha rf i j)
      = @fant_mean_cache K2 n m (mmap phi U) (mmap phi Q) (mmap phi Cinv) (mmap phi alpha) (mmap phi rf) i j /\
    phi (@bordered_inv K1 n m Ainv U Ut Cinv i j)
      = @bordered_inv K2 n m (mmap phi Ainv) (mmap phi U) (mmap phi Ut) (mmap phi Cinv) i j.
Proof.
  intros H n m Ainv U Ut Sf Q Cinv alpha rf i j.
  exact (conj (@schur_morph K1 K2 phi H n U Q Sf i j)
        (conj (@fant_mean_cache_morph K1 K2 phi H n m U Q Cinv alpha rf i j)
              (@bordered_inv_morph K1 K2 phi H n m Ainv U Ut Cinv i j))).
Qed.

(* ---- the instance QcF -> RF on what [run_fantasy] executes -------------------------------- *)
(* After the source solve and ANY number of fantasy updates of ANY sizes, executed on rationals with the
   certificate-checked oracle, the carried state (A^-1, mean cache), read as reals, is the state of the
   real-number problem: mapR Ainv inverts the real train covariance of all N rows, mapR alpha is the real
   mean cache, and the predictions the wrapper prints from that state (post_mean_from_cache,
   post_cov_staged; test blocks from any joint prior KJt / muJt with the same train mean rows) are the
   real-number C01 posterior of the real-number concatenated data, for ANY real inverse AinvR. *)
Lemma executed_fantasy_is_real_fantasy (KJ S muJ y : @M QcF) n0 ms t st0 N Ainv alpha :
  fantasy_init inv_oracle KJ S (resid muJ y) n0 = Some st0 ->
  fantasy_fold inv_oracle KJ S (resid muJ y) st0 ms = Some (N, Ainv, alpha) ->
  N = (n0 + list_sum ms)%nat /\
  is_inverse N (@train_covar RF (mapR KJ) (mapR S)) (mapR Ainv) /\
  forall (AinvR : @M RF), is_inverse N (@train_covar RF (mapR KJ) (mapR S)) AinvR ->
    meq N 1 (mapR alpha) (@mean_cache RF N (mapR muJ) AinvR (mapR y)) /\
    meq N N (mapR Ainv) AinvR /\
    forall (KJt muJt : @M QcF), meq N 1 muJt muJ ->
      meq t 1 (mapR (post_mean_from_cache N KJt muJt alpha))
              (@post_mean RF N (mapR KJt) (mapR muJt) AinvR (mapR y)) /\
      meq t t (mapR (post_cov_staged N t KJt Ainv)) (@post_cov RF N (mapR KJt) AinvR).
Proof.
  intros H0 Hf.
  destruct (fantasy_init_inv _ _ _ _ _ _ inv_oracle_sound H0) as [Hi0 Hn0].
  destruct (fantasy_fold_inv _ _ _ _ ms inv_oracle_sound _ _ Hi0 Hf) as [Hi HN]. cbn [fst] in HN.
  rewrite Hn0 in HN. split; [exact HN|].
  pose proof (@finv_morph QcF RF Q2R' _ KJ S muJ y N Ainv alpha Hi) as HiR.
  fold (mapR KJ) (mapR S) (mapR muJ) (mapR y) (mapR Ainv) (mapR alpha) in HiR.
  split; [exact (proj1 HiR)|]. intros AinvR HR.
  assert (HE : meq N N (mapR Ainv) AinvR) by (apply (inverse_unique N _ _ _ (proj1 HiR) HR)).
  split; [|split; [exact HE|]].
  - transitivity (@mmul RF N (mapR Ainv) (@resid RF (mapR muJ) (mapR y))); [exact (proj2 HiR)|].
    unfold mean_cache, resid. apply mmul_compat_l. exact HE.
  - intros KJt muJt Hmu.
    assert (HmuR : meq N 1 (mapR muJt) (mapR muJ)) by (apply (@mmap_meq QcF RF Q2R'); exact Hmu).
    destruct (@posterior_from_state RF N t (mapR KJ) (mapR S) (mapR muJ) (mapR y) (mapR Ainv) (mapR alpha)
                AinvR (mapR KJt) (mapR muJt) HiR HR HmuR) as [Hm Hc].
    split.
    + transitivity (@post_mean_from_cache RF N (mapR KJt) (mapR muJt) (mapR alpha)); [|exact Hm].
      intros i j _ _. apply (@post_mean_from_cache_morph QcF RF Q2R' _).
    + transitivity (@post_cov_staged RF N t (mapR KJt) (mapR Ainv)).
      * intros i j _ _. apply (@post_cov_staged_morph QcF RF Q2R' _).
      * transitivity (@post_cov RF N (mapR KJt) (mapR Ainv)); [apply post_cov_staged_eq|exact Hc].
Qed.

(* non-vacuity: source solve on 1 row, one fantasy update of size 1, both certificate checks succeed *)
Definition exf_KJ : @M QcF := @of_list QcF [[qc 2 1; qc 1 1; qc 1 2]; [qc 1 1; qc 3 1; qc 1 1]; [qc 1 2; qc 1 1; qc 2 1]].
Definition exf_S : @M QcF := @of_list QcF [[qc 1 2; 0%Qc]; [0%Qc; qc 1 2]].
Definition exf_mu : @M QcF := @vec_of_list QcF [0%Qc; qc 1 1; 0%Qc].
Definition exf_y : @M QcF := @vec_of_list QcF [qc 1 1; qc (-1) 1].
Lemma ex_executed_fantasy_hyp :
  exists st0 st, fantasy_init inv_oracle exf_KJ exf_S (resid exf_mu exf_y) 1 = Some st0 /\
    fantasy_fold inv_oracle exf_KJ exf_S (resid exf_mu exf_y) st0 [1%nat] = Some st /\ fst (fst st) = 2%nat.
Proof.
  destruct (fantasy_init inv_oracle exf_KJ exf_S (resid exf_mu exf_y) 1) as [st0|] eqn:H0;
    [|vm_compute in H0; discriminate].
  exists st0.
  destruct (fantasy_fold inv_oracle exf_KJ exf_S (resid exf_mu exf_y) st0 [1%nat]) as [st|] eqn:H1.
  - exists st. split; [reflexivity|split; [reflexivity|]].
    destruct st as [[N Ai] al].
    destruct (fantasy_init_inv _ _ _ _ _ _ inv_oracle_sound H0) as [Hi0 Hn0].
    destruct (fantasy_fold_inv _ _ _ _ [1%nat] inv_oracle_sound _ _ Hi0 H1) as [_ HN].
    cbn [fst] in *. rewrite HN, Hn0. reflexivity.
  - exfalso. revert H1. injection H0 as <-. vm_compute. discriminate.
Qed.
