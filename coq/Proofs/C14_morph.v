(* C14: the executed variational predictive q(f) and the printed KL terms (QcF + Expr) are the
   real-number ones (RF) on the mapped inputs; generic over a field morphism, instance Q2R'. *)
From Coq Require Import Arith List Bool ZArith QArith Qcanon Reals Lra.
From GPV Require Import Base.LinAlg Base.Exec Base.Expr Base.Det Base.Morph Base.Psd
  Models.C14_variational Proofs.C14_variational.
Import ListNotations.

Section C14Morph.
Context {K1 K2 : Fld} (phi : @car K1 -> @car K2) {HM : FldMorph K1 K2 phi}.
Local Notation mp := (mmap phi).

Ltac c14_unfold :=
  unfold unwh_cov_staged, unwh_mean_staged, wh_cov_staged, unwhiten_cov_staged in *;
  unfold unwh_mean, unwh_cov, unwh_cov_code, wh_mean, wh_cov, unwhiten_mean, unwhiten_cov, interp,
    kl_wh_alg, kl_unwh_alg, chol_cov, meanfield_cov, delta_cov, nat_precision, nat_mean, nat_cov_code,
    moment_to_nat_vec, moment_to_nat_mat, trilnat_precision, trilnat_cov_code in *;
  unfold add_jitter, tril, quad, dot, trace, fnat, two, mmap in *.

Lemma fnat_morph n : phi (fnat n) = fnat n.
Proof. c14_unfold. morph_pt. Qed.
Lemma trace_morph n A : phi (trace n A) = trace n (mp A).
Proof. c14_unfold. morph_pt. Qed.
Lemma dot_morph n a b : phi (dot n a b) = dot n (mp a) (mp b).
Proof. c14_unfold. morph_pt. Qed.
Lemma quad_morph n a B : phi (quad n a B) = quad n (mp a) (mp B).
Proof. c14_unfold. morph_pt. Qed.
Lemma add_jitter_morph j A i k : phi (add_jitter j A i k) = add_jitter (phi j) (mp A) i k.
Proof. c14_unfold. morph_pt. Qed.
Lemma tril_morph A i j : phi (tril A i j) = tril (mp A) i j.
Proof. c14_unfold. morph_pt. Qed.

(* variational distributions: parameters -> moments *)
Lemma chol_cov_morph n L i j : phi (chol_cov n L i j) = chol_cov n (mp L) i j.
Proof. c14_unfold. morph_pt. Qed.
Lemma meanfield_cov_morph s i j : phi (meanfield_cov s i j) = meanfield_cov (mp s) i j.
Proof. c14_unfold. morph_pt. Qed.
Lemma nat_precision_morph Th i j : phi (nat_precision Th i j) = nat_precision (mp Th) i j.
Proof. c14_unfold. morph_pt. Qed.
Lemma nat_mean_morph n S th i j : phi (nat_mean n S th i j) = nat_mean n (mp S) (mp th) i j.
Proof. c14_unfold. morph_pt. Qed.
Lemma nat_cov_code_morph n Ci i j : phi (nat_cov_code n Ci i j) = nat_cov_code n (mp Ci) i j.
Proof. c14_unfold. morph_pt. Qed.
Lemma trilnat_precision_morph n T i j : phi (trilnat_precision n T i j) = trilnat_precision n (mp T) i j.
Proof. c14_unfold. morph_pt. Qed.
Lemma trilnat_cov_code_morph n Ti i j : phi (trilnat_cov_code n Ti i j) = trilnat_cov_code n (mp Ti) i j.
Proof. c14_unfold. morph_pt. Qed.
Lemma moment_to_nat_mat_morph P i j : phi (moment_to_nat_mat P i j) = moment_to_nat_mat (mp P) i j.
Proof. c14_unfold. morph_pt. Qed.

(* unwhitened strategy *)
Lemma unwh_mean_morph m Kzx Kinv mx mz mq i j :
  phi (unwh_mean m Kzx Kinv mx mz mq i j) = unwh_mean m (mp Kzx) (mp Kinv) (mp mx) (mp mz) (mp mq) i j.
Proof. c14_unfold. morph_pt. Qed.
Lemma unwh_cov_morph m Kzz Kzx Kxx Kinv S i j :
  phi (unwh_cov m Kzz Kzx Kxx Kinv S i j) = unwh_cov m (mp Kzz) (mp Kzx) (mp Kxx) (mp Kinv) (mp S) i j.
Proof. c14_unfold. morph_pt. Qed.
Lemma unwh_cov_code_morph m r Kzx Kxx Kinv R i j :
  phi (unwh_cov_code m r Kzx Kxx Kinv R i j) = unwh_cov_code m r (mp Kzx) (mp Kxx) (mp Kinv) (mp R) i j.
Proof. c14_unfold. morph_pt. Qed.
Lemma unwh_mean_staged_morph m Kzx Kinv mx mz mq i j :
  phi (unwh_mean_staged m Kzx Kinv mx mz mq i j)
  = unwh_mean_staged m (mp Kzx) (mp Kinv) (mp mx) (mp mz) (mp mq) i j.
Proof. c14_unfold. morph_pt. Qed.
Lemma unwh_cov_staged_morph m n Kzz Kzx Kxx Kinv S i j :
  phi (unwh_cov_staged m n Kzz Kzx Kxx Kinv S i j)
  = unwh_cov_staged m n (mp Kzz) (mp Kzx) (mp Kxx) (mp Kinv) (mp S) i j.
Proof. c14_unfold. morph_pt. Qed.

(* whitened strategies *)
Lemma interp_morph m Linv Kzx i j : phi (interp m Linv Kzx i j) = interp m (mp Linv) (mp Kzx) i j.
Proof. c14_unfold. morph_pt. Qed.
Lemma wh_mean_morph m A mx mw i j : phi (wh_mean m A mx mw i j) = wh_mean m (mp A) (mp mx) (mp mw) i j.
Proof. c14_unfold. morph_pt. Qed.
Lemma wh_cov_morph m A Kxx Sw i j : phi (wh_cov m A Kxx Sw i j) = wh_cov m (mp A) (mp Kxx) (mp Sw) i j.
Proof. c14_unfold. morph_pt. Qed.
Lemma wh_cov_staged_morph m n A Kxx Sw i j :
  phi (wh_cov_staged m n A Kxx Sw i j) = wh_cov_staged m n (mp A) (mp Kxx) (mp Sw) i j.
Proof. c14_unfold. morph_pt. Qed.
Lemma unwhiten_mean_morph m L mz mw i j :
  phi (unwhiten_mean m L mz mw i j) = unwhiten_mean m (mp L) (mp mz) (mp mw) i j.
Proof. c14_unfold. morph_pt. Qed.
Lemma unwhiten_cov_morph m L Sw i j : phi (unwhiten_cov m L Sw i j) = unwhiten_cov m (mp L) (mp Sw) i j.
Proof. c14_unfold. morph_pt. Qed.
Lemma unwhiten_cov_staged_morph m L Sw i j :
  phi (unwhiten_cov_staged m L Sw i j) = unwhiten_cov_staged m (mp L) (mp Sw) i j.
Proof. c14_unfold. morph_pt. Qed.

(* rational parts of the KL terms *)
Lemma kl_wh_alg_morph n Sw mw : phi (kl_wh_alg n Sw mw) = kl_wh_alg n (mp Sw) (mp mw).
Proof. c14_unfold. morph_pt. Qed.
Lemma kl_unwh_alg_morph n Kinv S mq mz :
  phi (kl_unwh_alg n Kinv S mq mz) = kl_unwh_alg n (mp Kinv) (mp S) (mp mq) (mp mz).
Proof. c14_unfold. morph_pt. Qed.

End C14Morph.

Lemma variational_model_commutes_with_field_morphisms (K1 K2 : Fld) (phi : @car K1 -> @car K2) :
  FldMorph K1 K2 phi ->
  forall m r (Kzz Kzx Kxx Kinv mx mz mq S R A Sw mw L : @M K1) i j,
    phi (@unwh_mean K1 m Kzx Kinv mx mz mq i j)
      = @unwh_mean K2 m (mmap phi Kzx) (mmap phi Kinv) (mmap phi mx) (mmap phi mz) (mmap phi mq) i j /\
    phi (@unwh_cov K1 m Kzz Kzx Kxx Kinv S i j)
      = @unwh_cov K2 m (mmap phi Kzz) (mmap phi Kzx) (mmap phi Kxx) (mmap phi Kinv) (mmap phi S) i j /\
    phi (@unwh_cov_code K1 m r Kzx Kxx Kinv R i j)
      = @unwh_cov_code K2 m r (mmap phi Kzx) (mmap phi Kxx) (mmap phi Kinv) (mmap phi R) i j /\
    phi (@wh_mean K1 m A mx mw i j) = @wh_mean K2 m (mmap phi A) (mmap phi mx) (mmap phi mw) i j /\
    phi (@wh_cov K1 m A Kxx Sw i j) = @wh_cov K2 m (mmap phi A) (mmap phi Kxx) (mmap phi Sw) i j /\
    phi (@unwhiten_mean K1 m L mz mw i j) = @unwhiten_mean K2 m (mmap phi L) (mmap phi mz) (mmap phi mw) i j /\
    phi (@unwhiten_cov K1 m L Sw i j) = @unwhiten_cov K2 m (mmap phi L) (mmap phi Sw) i j /\
    phi (@kl_wh_alg K1 m Sw mw) = @kl_wh_alg K2 m (mmap phi Sw) (mmap phi mw) /\
    phi (@kl_unwh_alg K1 m Kinv S mq mz)
      = @kl_unwh_alg K2 m (mmap phi Kinv) (mmap phi S) (mmap phi mq) (mmap phi mz).
Proof.
  intros H m r Kzz Kzx Kxx Kinv mx mz mq S R A Sw mw L i j.
  split; [apply (unwh_mean_morph phi)|]. split; [apply (unwh_cov_morph phi)|].
  split; [apply (unwh_cov_code_morph phi)|]. split; [apply (wh_mean_morph phi)|].
  split; [apply (wh_cov_morph phi)|]. split; [apply (unwhiten_mean_morph phi)|].
  split; [apply (unwhiten_cov_morph phi)|]. split; [apply (kl_wh_alg_morph phi)|apply (kl_unwh_alg_morph phi)].
Qed.

(* ---- the instance QcF -> RF: what [run_c14] prints ------------------------------------------ *)
From GPV Require Import Base.Cholesky Proofs.C14_kl_pd.
Local Open Scope R_scope.

Lemma Q2R'_half : Q2R' half = / 2.
Proof.
  unfold half. change (Q2Qc (1 # 2)) with (qc 1 2). rewrite Q2R'_qc_lit. lra.
Qed.
Lemma Q2R'_qcn n : Q2R' (qcn n) = @fnat RF n.
Proof. unfold qcn. apply (@fnat_morph QcF RF Q2R' _). Qed.
Lemma Q2R'_two : Q2R' (Q2Qc 2) = 2.
Proof. change (Q2Qc 2) with (qc 2 1). rewrite Q2R'_qc_lit. lra. Qed.

(* the printed whitened KL term denotes  1/2 (tr Sw + |mw|^2 - n - ln det Sw)  over R on the mapped
   moments (has_cov), resp.  1/2 |mw|^2 + n/2 ln 2pi  (delta distribution) *)
Lemma den_kl_wh_expr_cov n (Sw mw : @M QcF) :
  den (kl_wh_expr n true Sw mw)
  = / 2 * (@kl_wh_alg RF n (mapR Sw) (mapR mw) - @fnat RF n - ln (@det RF n (mapR Sw))).
Proof.
  unfold kl_wh_expr. cbn [den]. rewrite Q2R'_half, Q2R'_minus, Q2R'_qcn.
  rewrite (@kl_wh_alg_morph QcF RF Q2R' _), (@phi_det QcF RF Q2R' _). reflexivity.
Qed.
Lemma den_kl_wh_expr_delta n (Sw mw : @M QcF) :
  den (kl_wh_expr n false Sw mw)
  = / 2 * @dot RF n (mapR mw) (mapR mw) + / 2 * @fnat RF n * ln (2 * PI).
Proof.
  unfold kl_wh_expr, elog2pi. cbn [den]. rewrite !Q2R'_mult, Q2R'_half, Q2R'_qcn, Q2R'_two.
  rewrite (@dot_morph QcF RF Q2R' _). reflexivity.
Qed.

(* the printed unwhitened KL term denotes
   1/2 (tr(Kp^-1 S) + (mq-mz)^T Kp^-1 (mq-mz) - n + ln det Kp - ln det S)  over R *)
Lemma den_kl_unwh_expr_cov n (Kp Kpinv Sq mq mz : @M QcF) :
  den (kl_unwh_expr n true Kp Kpinv Sq mq mz)
  = / 2 * (@kl_unwh_alg RF n (mapR Kpinv) (mapR Sq) (mapR mq) (mapR mz) - @fnat RF n
           + (ln (@det RF n (mapR Kp)) - ln (@det RF n (mapR Sq)))).
Proof.
  unfold kl_unwh_expr. cbn [den]. rewrite Q2R'_half, Q2R'_minus, Q2R'_qcn.
  rewrite (@kl_unwh_alg_morph QcF RF Q2R' _), !(@phi_det QcF RF Q2R' _). reflexivity.
Qed.
Lemma den_kl_unwh_expr_delta n (Kp Kpinv Sq mq mz : @M QcF) :
  den (kl_unwh_expr n false Kp Kpinv Sq mq mz)
  = / 2 * @quad RF n (@msub RF (mapR mq) (mapR mz)) (mapR Kpinv)
    + (/ 2 * ln (@det RF n (mapR Kp)) + / 2 * @fnat RF n * ln (2 * PI)).
Proof.
  unfold kl_unwh_expr, elog2pi. cbn [den]. rewrite !Q2R'_mult, Q2R'_half, Q2R'_qcn, Q2R'_two.
  rewrite (@phi_det QcF RF Q2R' _), (@quad_morph QcF RF Q2R' _).
  f_equal. f_equal. unfold quad, mmul, mT. apply sum_ext. intros l _. f_equal.
  - apply (@mmap_msub QcF RF Q2R' _).
  - apply sum_ext. intros l' _. f_equal. apply (@mmap_msub QcF RF Q2R' _).
Qed.

(* The executed predictive q(f) of both strategies and the executed KL terms, read as reals, are the
   generic definitions instantiated at RF on the mapped inputs (staged = what run_c14 evaluates); the
   certified inverses map to real inverses. *)
Lemma executed_variational_is_real m n (Kzz Kzx Kxx mx mz mq Sq L A Sw mw : @M QcF) Kinv Linv :
  inv_checked m Kzz = Some Kinv -> inv_checked m (mat m m L) = Some Linv ->
  is_inverse m (mapR Kzz) (mapR Kinv) /\ is_inverse m (mapR L) (mapR Linv) /\
  (forall i j, Q2R' (unwh_mean_staged m Kzx Kinv mx mz mq i j)
     = @unwh_mean_staged RF m (mapR Kzx) (mapR Kinv) (mapR mx) (mapR mz) (mapR mq) i j) /\
  (forall i j, Q2R' (unwh_cov_staged m n Kzz Kzx Kxx Kinv Sq i j)
     = @unwh_cov_staged RF m n (mapR Kzz) (mapR Kzx) (mapR Kxx) (mapR Kinv) (mapR Sq) i j) /\
  (forall i j, Q2R' (interp m Linv Kzx i j) = @interp RF m (mapR Linv) (mapR Kzx) i j) /\
  (forall i j, Q2R' (wh_mean m A mx mw i j) = @wh_mean RF m (mapR A) (mapR mx) (mapR mw) i j) /\
  (forall i j, Q2R' (wh_cov_staged m n A Kxx Sw i j)
     = @wh_cov_staged RF m n (mapR A) (mapR Kxx) (mapR Sw) i j).
Proof.
  intros HK HL. split; [apply inv_checked_real; exact HK|]. split.
  - apply inv_checked_sound in HL.
    apply (@morph_inverse_of QcF RF Q2R' _ m (mat m m L) Linv (mapR L) HL).
    apply (@mmap_meq QcF RF Q2R'). apply mat_meq.
  - repeat split; intros i j.
    + apply (@unwh_mean_staged_morph QcF RF Q2R' _).
    + apply (@unwh_cov_staged_morph QcF RF Q2R' _).
    + apply (@interp_morph QcF RF Q2R' _).
    + apply (@wh_mean_morph QcF RF Q2R' _).
    + apply (@wh_cov_staged_morph QcF RF Q2R' _).
Qed.

Lemma den_kl_exprs n (Kp Kpinv Sq mq mz Sw mw : @M QcF) :
  den (kl_wh_expr n true Sw mw)
    = / 2 * (@kl_wh_alg RF n (mapR Sw) (mapR mw) - @fnat RF n - ln (@det RF n (mapR Sw))) /\
  den (kl_wh_expr n false Sw mw)
    = / 2 * @dot RF n (mapR mw) (mapR mw) + / 2 * @fnat RF n * ln (2 * PI) /\
  den (kl_unwh_expr n true Kp Kpinv Sq mq mz)
    = / 2 * (@kl_unwh_alg RF n (mapR Kpinv) (mapR Sq) (mapR mq) (mapR mz) - @fnat RF n
             + (ln (@det RF n (mapR Kp)) - ln (@det RF n (mapR Sq)))) /\
  den (kl_unwh_expr n false Kp Kpinv Sq mq mz)
    = / 2 * @quad RF n (@msub RF (mapR mq) (mapR mz)) (mapR Kpinv)
      + (/ 2 * ln (@det RF n (mapR Kp)) + / 2 * @fnat RF n * ln (2 * PI)).
Proof.
  split; [apply den_kl_wh_expr_cov|]. split; [apply den_kl_wh_expr_delta|].
  split; [apply den_kl_unwh_expr_cov|apply den_kl_unwh_expr_delta].
Qed.

(* hence the theorems over R apply to the EXECUTED KL: whenever the real image of the executed S_w is
   symmetric positive definite, the printed whitened KL term is well defined (det > 0) and >= 0 *)
Lemma executed_kl_wh_nonneg n (Sw mw : @M QcF) :
  @symmetric RF n (mapR Sw) -> @PD RF ROrd n (mapR Sw) ->
  0 < Q2R' (det n Sw) /\ 0 <= den (kl_wh_expr n true Sw mw).
Proof.
  intros HS HP. destruct (kl_whitened_nonneg_pd n (mapR Sw) (mapR mw) HS HP) as [H1 H2].
  split.
  - rewrite (@phi_det QcF RF Q2R' _). exact H1.
  - rewrite den_kl_wh_expr_cov. lra.
Qed.

(* symmetry is reflected: it can be checked on the rationals *)
Lemma mapR_symmetric_iff n (A : @M QcF) : symmetric n A <-> @symmetric RF n (mapR A).
Proof.
  split; [apply (@mmap_symmetric QcF RF Q2R')|apply (@mmap_symmetric_inv QcF RF Q2R' Q2R'_inj)].
Qed.

(* non-vacuity: S_w = [[2,1],[1,2]] on rationals; its real image is Base/Cholesky.v's exPD *)
Definition exq_Sw : @M QcF := fun i j => if Nat.eqb i j then qc 2 1 else qc 1 1.
Lemma ex_executed_kl_wh_hyps : @symmetric RF 2 (mapR exq_Sw) /\ @PD RF ROrd 2 (mapR exq_Sw).
Proof.
  assert (E : @meq RF 2 2 exPD (mapR exq_Sw)).
  { intros i j _ _. unfold mapR, mmap, exq_Sw, exPD. destruct (Nat.eqb i j); rewrite Q2R'_qc_lit; lra. }
  destruct ex_pd_hyps_hold as [H1 H2]. split.
  - intros i j Hi Hj. unfold mT. rewrite <- !E by assumption. apply H1; assumption.
  - apply (@PD_meq RF ROrd 2 exPD _ E H2).
Qed.
