(* C15: KL(q(u) || p(u)) >= 0 and ELBO <= likelihood term for the MODEL's own KL expression
     [kl2_model] = kl_unwh_alg n Kinv S mq mz - n + ln det Kzz - ln det S
   for EVERY q(u) = N(mq, S) with symmetric positive definite S and EVERY symmetric positive definite
   prior covariance Kzz (no Cholesky-factor hypotheses: Base/Cholesky.v produces the factors that
   Proofs/C15_kl_det.v asks for), Kinv any inverse of Kzz, every size. *)
From Coq Require Import Reals Lra Arith Lia List.
From GPV Require Import Base.LinAlg Base.Exec Base.Expr Base.Det Base.Psd Base.Cholesky.
From GPV Require Import Models.C10_mvn Proofs.C10_mvn Proofs.C10_kl Proofs.C10_det Proofs.C10_kl_pd.
From GPV Require Import Models.C02_mll Proofs.C02_mll Models.C14_variational.
From GPV Require Import Models.C15_elbo Proofs.C15_elbo Proofs.C15_real Proofs.C15_kl Proofs.C15_kl_det.
Local Open Scope R_scope.

Theorem kl2_model_nonneg_pd n (Kzz Kinv S mq mz : @M RF) :
  @symmetric RF n S -> PDR n S -> @symmetric RF n Kzz -> PDR n Kzz ->
  @is_inverse RF n Kzz Kinv ->
  0 < @det RF n S /\ 0 < @det RF n Kzz /\ 0 <= kl2_model n Kzz Kinv S mq mz /\
  (@meq RF n n S Kzz -> @meq RF n 1 mq mz -> kl2_model n Kzz Kinv S mq mz = 0).
Proof.
  intros H1 H2 H3 H4 H5.
  destruct (kl_pd_full n mq mz S Kzz Kinv H1 H2 H3 H4 H5) as (Ha & Hb & Hc & Hd).
  split; [exact Ha|]. split; [exact Hb|].
  unfold kl2_model.
  change (@kl_unwh_alg RF n Kinv S mq mz - @fnat RF n) with (@kl_rational RF n mq S mz Kinv).
  split; [exact Hc|exact Hd].
Qed.

Theorem elbo_le_likelihood_term_pd n (Kzz Kinv S mq mz : @M RF)
        (ell nb beta nd lp added : R) :
  @symmetric RF n S -> PDR n S -> @symmetric RF n Kzz -> PDR n Kzz ->
  @is_inverse RF n Kzz Kinv ->
  0 < beta -> 0 < nd ->
  @elbo_value RF ell nb (/ 2 * kl2_model n Kzz Kinv S mq mz) beta nd lp added
  <= ell / nb + lp / nd - added.
Proof.
  intros H1 H2 H3 H4 H5 Hb Hn. apply elbo_le_without_kl; [|exact Hb|exact Hn].
  destruct (kl2_model_nonneg_pd n Kzz Kinv S mq mz H1 H2 H3 H4 H5) as (_ & _ & H & _).
  lra.
Qed.

(* at q(u) = prior the KL term vanishes and the bound is attained *)
Theorem elbo_eq_likelihood_term_at_prior n (Kzz Kinv mz : @M RF) (ell nb beta nd lp added : R) :
  @symmetric RF n Kzz -> PDR n Kzz -> @is_inverse RF n Kzz Kinv ->
  @elbo_value RF ell nb (/ 2 * kl2_model n Kzz Kinv Kzz mz mz) beta nd lp added
  = ell / nb + lp / nd - added.
Proof.
  intros H3 H4 H5.
  destruct (kl2_model_nonneg_pd n Kzz Kinv Kzz mz mz H3 H4 H3 H4 H5) as (_ & _ & _ & H).
  rewrite H; [|reflexivity|reflexivity].
  unfold elbo_value. cbn [fadd fsub fdiv RF]. unfold Rdiv. lra.
Qed.

(* non-vacuity: q(u) = prior = [[2,1],[1,2]], which is not given in factored form *)
Lemma ex_kl2_model_pd_hyps :
  @symmetric RF 2 exPD /\ PDR 2 exPD /\ @is_inverse RF 2 exPD exPD_inv.
Proof. exact ex_kl_pd_hyps. Qed.
