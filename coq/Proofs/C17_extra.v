(* C17, further lemmas: Horseshoe prior = documented bound average; SmoothedBox plateau; the Uniform
   prior is normalised (Coquelicot RInt).  Separate file because it needs Coquelicot. *)
From Coq Require Import Arith List Reals QArith Qcanon Lra Lia.
From Coquelicot Require Import Coquelicot.
From GPV Require Import Base.LinAlg Base.Exec Base.Expr Models.C17_constraints Proofs.C17_constraints.
Import ListNotations.
Local Open Scope R_scope.

(* HorseshoePrior: log of the average of the two documented bounds, K = 1/sqrt(2 pi^3) *)
Definition horseshoe_K : R := 1 / sqrt (2 * PI ^ 3).
Definition horseshoe_lb (s x : R) : R := horseshoe_K / 2 * ln (1 + 4 * ((s / x) * (s / x))).
Definition horseshoe_ub (s x : R) : R := horseshoe_K * ln (1 + 2 * ((s / x) * (s / x))).
Lemma lp_horseshoe_correct s x :
  den (lp_horseshoe s x) = ln ((horseshoe_lb (den s) (den x) + horseshoe_ub (den s) (den x)) / 2).
Proof.
  unfold lp_horseshoe, e_sq, horseshoe_lb, horseshoe_ub, horseshoe_K. cbn [den].
  rewrite den_e2, den_e1. change (Q2R' (qc 4 1)) with (q (qc 4 1)).
  replace (q (qc 4 1)) with 4; [reflexivity|].
  unfold q, Q2R'. cbn. lra.
Qed.

(* SmoothedBoxPrior: flat on the box *)
Lemma lp_smoothedbox_plateau a b s x x' : 0 < den s -> den a < den b ->
  den a <= den x <= den b -> den a <= den x' <= den b ->
  den (lp_smoothedbox a b s x) = den (lp_smoothedbox a b s x').
Proof.
  intros Hs Hab Hx Hx'. rewrite !lp_smoothedbox_correct by assumption.
  rewrite !boxdist_inside by assumption. reflexivity.
Qed.

(* UniformPrior is normalised: the density exp(log_prob) integrates to 1 over [a, b] *)
Lemma uniform_normalised a b : den a < den b ->
  RInt (fun _ => exp (den (lp_uniform a b))) (den a) (den b) = 1.
Proof.
  intros H. rewrite lp_uniform_correct by exact H.
  rewrite exp_ln; [|apply Rdiv_lt_0_compat; lra].
  rewrite RInt_const. unfold scal; cbn. unfold mult; cbn. field. lra.
Qed.

(* raw initialisation and optimiser steps read the transform of the new raw value *)
Lemma raw_ops_read (c : cons) (s : cell expr) (r d : expr) :
  readR c (step_e c s (InitRaw r)) = transform_R c (den r) /\
  readR c (step_e c s (Step d)) = transform_R c (den (fst s) + den d).
Proof. split; [apply init_raw_reads|apply step_reads]. Qed.

(* the DESIGN Appendix-A statement for GreaterThan, as an instance of the general lemmas *)
Lemma greater_than_bijection (lb : Qc) (x : R) :
    q lb < transform_R (CGreater lb) x
    /\ inverse_R (CGreater lb) (transform_R (CGreater lb) x) = x
    /\ (forall y, q lb < y -> transform_R (CGreater lb) (inverse_R (CGreater lb) y) = y)
    /\ (forall x', x < x' -> transform_R (CGreater lb) x < transform_R (CGreater lb) x').
Proof.
  repeat split.
  - exact (transform_range (CGreater lb) x I).
  - exact (inverse_transform_id (CGreater lb) x I).
  - intros y Hy. exact (transform_inverse_id (CGreater lb) y I Hy).
  - intros x' H. exact (transform_increasing (CGreater lb) x x' I H).
Qed.

Lemma model_denotes (c : cons) (x : expr) :
  den (transform_e c x) = transform_R c (den x) /\ den (inverse_e c x) = inverse_R c (den x).
Proof. split; [apply den_transform|apply den_inverse]. Qed.

Lemma ex_interval_history :
  wf (CInterval (qc 1 10) (qc 5 2)) /\ interior_q (CInterval (qc 1 10) (qc 5 2)) (qc 3 2) = true /\
  length (trace_e (CInterval (qc 1 10) (qc 5 2)) (EConst 0%Qc, O)
            [Set_ (qc 3 2); Step (EConst (qc (-7) 1)); Set_ (qc 3 1); InitRaw (EConst (qc 40 1))]) = 4%nat.
Proof.
  split; [|split; reflexivity].
  apply (proj1 (Qc_ltb_spec (qc 1 10) (qc 5 2))). reflexivity.
Qed.
