(* C08 proofs, part 3: reduction of prior terms to the batch shape of the objective. *)
From Coq Require Import Arith Lia List Bool ZArith.
Import ListNotations.
From GPV Require Import Models.C08_shape Models.C08_diag Models.C08_prior Proofs.C08_shape Proofs.C08_diag.

(* owner with a batch_shape attribute equal to the parameters' batch shape: exactly the event dims are summed *)
Lemma prior_known_owner sp ev r : prior_reduced_shape (Some sp) r (sp ++ ev) = sp.
Proof.
  unfold prior_reduced_shape, prior_batch_dims. rewrite app_length.
  rewrite Nat.min_l by lia. rewrite firstn_app, Nat.sub_diag, firstn_all. cbn [firstn]. apply app_nil_r.
Qed.

Lemma firstn_app_eq_l {A} (n : nat) (l ev : list A) : firstn n (l ++ ev) = l -> n = length l \/ ev = [].
Proof.
  intros H. destruct ev as [|e ev]; [right; reflexivity|left].
  assert (L : length (firstn n (l ++ e :: ev)) = length l) by (rewrite H; reflexivity).
  rewrite firstn_length, app_length in L. cbn [length] in L.
  destruct (Nat.le_gt_cases n (length l)) as [Hle|Hgt]; [lia|]. exfalso. lia.
Qed.

(* owner WITHOUT batch_shape: the guess "rank of the objective" is right exactly when the parameters have the full
   batch rank or the value has no event dimensions *)
Lemma prior_unknown_owner_iff sp ev r : length sp <= r ->
  (prior_reduced_shape None r (sp ++ ev) = sp <-> (r = length sp \/ ev = [])).
Proof.
  intros Hr. unfold prior_reduced_shape, prior_batch_dims. rewrite app_length. split.
  - intros H. apply firstn_app_eq_l in H. destruct H as [H|H]; [|right; exact H].
    destruct ev as [|e ev]; [right; reflexivity|left]. cbn [length] in H. lia.
  - intros [H|H].
    + subst r. rewrite Nat.min_l by lia. rewrite firstn_app, Nat.sub_diag, firstn_all. cbn [firstn]. apply app_nil_r.
    + subst ev. rewrite app_nil_r, Nat.add_0_r. rewrite Nat.min_r by lia. apply firstn_all.
Qed.

(* ... so the code is refuted as a batch reduction: a non-batched LinearMean on 2 inputs (weights [2;1]) under a data
   batch [2] keeps the two weights as if they were two batch elements *)
Lemma prior_unknown_owner_refuted :
  exists sp sd t ev, broadcast_shapes sp sd = Some t /\ prior_reduced_shape None (length t) (sp ++ ev) <> sp
                     /\ prior_reduced_shape None (length t) (sp ++ ev) = t.
Proof. exists [], [2], [2], [2; 1]. cbv. repeat split; congruence. Qed.

(* treating a missing batch_shape as the EMPTY batch shape (or summing everything, as the approximate MLLs do) keeps
   nothing: every element of the objective receives the total over all parameter slices *)
Lemma prior_empty_owner term r : prior_reduced_shape (Some []) r term = [].
Proof. reflexivity. Qed.
Lemma prior_sum_all_wrong sp ev : sp <> [] -> approx_prior_reduced_shape (sp ++ ev) <> sp.
Proof. intros H E. apply H. symmetry. exact E. Qed.

Lemma param_rank_short_spec sp sd t : broadcast_shapes sp sd = Some t ->
  (param_rank_short sp t = false <-> length t = length sp).
Proof.
  intros H. apply broadcast_length in H. unfold param_rank_short. rewrite Nat.ltb_ge. lia.
Qed.
