(* C10 — complement to mvn_getitem_positions_valid (which covers every index form the model accepts:
   int, slice, index tensor, trailing Ellipsis): unless the event component is an index TENSOR (which
   may repeat entries on purpose), no event position is handed to the covariance twice; and the number
   of positions of an int component is one. *)
From Coq Require Import Arith ZArith List Lia Bool FinFun.
From GPV Require Import Base.LinAlg Base.Exec Base.PySlice Models.C11_mtmvn Proofs.C11_mtmvn Models.C10_mvn.
Import ListNotations.
Local Open Scope Z_scope.

Lemma range_list_nodup a b k : k <> 0 -> NoDup (range_list a b k).
Proof.
  intros Hk. unfold range_list. apply Injective_map_NoDup; [|apply seq_NoDup].
  intros i j H. assert (E : Z.of_nat i = Z.of_nat j) by (apply (Z.mul_reg_r _ _ k Hk); lia). lia.
Qed.

Lemma last_in {A} (l : list A) d : l <> [] -> In (last l d) l.
Proof.
  intros H. rewrite (app_removelast_last d H) at 2. apply in_or_app. right. left. reflexivity.
Qed.

Lemma event_component_nodup n (idx' : list pyidx_e) (nb : Z) kind l : 0 <= n ->
  (forall tl, ~ In (EI (ITensor tl)) idx') ->
  match last idx' EE with
  | EI (IInt i) => match norm_index n i with Some k => Some (nb, Some (0, [k])) | None => None end
  | EI x => match idx_positions n x with Some l => Some (nb, Some (1, l)) | None => None end
  | EE => Some (nb, Some (2, range_list 0 n 1))
  end = Some (nb, Some (kind, l)) -> NoDup l /\ (kind = 0 -> List.length l = 1%nat).
Proof.
  intros Hn HT. destruct (last idx' EE) as [[i|s|tl]|] eqn:EL.
  - destruct (norm_index n i) as [k|]; [|discriminate]. intros H. injection H as <- <-.
    split; [constructor; [intros []|constructor]|reflexivity].
  - destruct (idx_positions n (ISlice s)) as [l'|] eqn:E; [|discriminate]. intros H. injection H as <- <-.
    split; [|discriminate].
    destruct (slice_accepted n s l' Hn E) as (a & b & k & _ & Hk & _ & _ & ->). apply range_list_nodup. lia.
  - exfalso. apply (HT tl). rewrite <- EL. apply last_in. intros ->. cbn in EL. discriminate.
  - intros H. injection H as <- <-. split; [apply range_list_nodup; lia|discriminate].
Qed.

Theorem mvn_getitem_positions_nodup dim n idx nb kind l : 0 <= n ->
  (forall tl, ~ In (EI (ITensor tl)) idx) ->
  mvn_getitem dim n idx = Some (nb, Some (kind, l)) -> NoDup l /\ (kind = 0 -> List.length l = 1%nat).
Proof.
  intros Hn HT. unfold mvn_getitem.
  destruct ((dim <? Z.of_nat (length idx)) && has_ell idx).
  - destruct (Z.of_nat (length (drop_ell idx)) <? dim); [discriminate|].
    set (idx' := drop_ell idx).
    destruct ((Z.of_nat (length idx') <=? dim - 1) && negb (has_ell (removelast idx'))); [discriminate|].
    destruct (dim <? Z.of_nat (length idx')); [discriminate|].
    intros H. assert (nb = Z.of_nat (length idx') - 1).
    { destruct (last idx' EE) as [[i|s|tl]|].
      - destruct (norm_index n i); [|discriminate]. injection H as <- _ _. reflexivity.
      - destruct (idx_positions n (ISlice s)); [|discriminate]. injection H as <- _ _. reflexivity.
      - destruct (idx_positions n (ITensor tl)); [|discriminate]. injection H as <- _ _. reflexivity.
      - injection H as <- _ _. reflexivity. }
    subst nb. apply (event_component_nodup n idx' (Z.of_nat (length idx') - 1) kind l Hn); [|exact H].
    intros tl Hin. apply (HT tl). unfold idx', drop_ell in Hin. apply filter_In in Hin. tauto.
  - destruct ((Z.of_nat (length idx) <=? dim - 1) && negb (has_ell (removelast idx))); [discriminate|].
    destruct (dim <? Z.of_nat (length idx)); [discriminate|].
    intros H. assert (nb = Z.of_nat (length idx) - 1).
    { destruct (last idx EE) as [[i|s|tl]|].
      - destruct (norm_index n i); [|discriminate]. injection H as <- _ _. reflexivity.
      - destruct (idx_positions n (ISlice s)); [|discriminate]. injection H as <- _ _. reflexivity.
      - destruct (idx_positions n (ITensor tl)); [|discriminate]. injection H as <- _ _. reflexivity.
      - injection H as <- _ _. reflexivity. }
    subst nb. apply (event_component_nodup n idx (Z.of_nat (length idx) - 1) kind l Hn HT). exact H.
Qed.

Example ex_mvn_getitem_nodup :
  mvn_getitem 2 5 [EE; EI (ISlice (mk (Some (-4)) None (Some 2)))] = Some (1, Some (1, [1; 3])).
Proof. vm_compute. reflexivity. Qed.
