(* C11, tie T: obligations over the index arithmetic REGENERATED from the current source
   (Gen/MTIndex_gen.v, written by harness/translators/mtindex_tr.py on every run).
   Every gen_* definition is shown equal, for ALL arguments, to the corresponding definition of the
   proved model (Models/C11_mtmvn.v); the index theorems of Proofs/C11_mtmvn.v are then restated
   over the regenerated arithmetic.  The proofs are semantic where the source could be rewritten
   harmlessly (ring / lia on every arithmetic leaf, boolean comparisons via ZifyBool), so that
   `a + r * c` vs `r * c + a` or `len > dim` vs `dim < len` do not matter, but a changed formula
   (a dropped `* num_cols`, swapped num_rows / num_cols, `<=` for `<`) leaves an unprovable goal. *)
From Coq Require Import ZArith List Lia Bool ZifyBool.
From GPV Require Import Base.PySlice Models.C11_mtmvn Proofs.C11_mtmvn Gen.MTIndex_gen.
Import ListNotations.
Local Open Scope Z_scope.

Ltac ite_leaves :=
  repeat match goal with |- context [if ?c then _ else _] => destruct c eqn:? end;
  try reflexivity; try ring; try lia.

Lemma gen_normalize_index_eq i d : gen_normalize_index i d = normalize_index i d.
Proof. first [reflexivity | unfold gen_normalize_index, normalize_index; ite_leaves]. Qed.

Lemma gen_normalize_index_t_eq i d : gen_normalize_index_t i d = normalize_index i d.
Proof. first [reflexivity | unfold gen_normalize_index_t, normalize_index; ite_leaves]. Qed.

Lemma gen_normalize_slice_eq s d : gen_normalize_slice s d = normalize_slice s d.
Proof.
  first [reflexivity |
    unfold gen_normalize_slice, normalize_slice; destruct (slice_indices d s) as [[[a b] k]|]; [|reflexivity];
    f_equal; repeat (apply f_equal2); ring].
Qed.

Ltac norm_gen :=
  repeat match goal with |- context [gen_normalize_index ?i ?d] => rewrite (gen_normalize_index_eq i d) end;
  repeat match goal with |- context [gen_normalize_index_t ?i ?d] => rewrite (gen_normalize_index_t_eq i d) end;
  repeat match goal with |- context [gen_normalize_slice ?s ?d] => rewrite (gen_normalize_slice_eq s d) end.

Lemma sl_ext A B K A' B' K' : A = A' -> B = B' -> K = K' -> sl A B K = sl A' B' K'.
Proof. intros -> -> ->. reflexivity. Qed.

Lemma gen_vec_eq num x : gen_vec num num x = idx_vector num x.
Proof.
  first [reflexivity |
    destruct x as [i|s|l]; cbn [gen_vec idx_vector];
    [norm_gen; reflexivity | reflexivity |
     f_equal; apply map_ext; intros; apply gen_normalize_index_t_eq]].
Qed.

Lemma gen_vec_nt_eq num x : is_slice x = false -> gen_vec_nt num x = idx_vector num x.
Proof.
  intros H. first [reflexivity |
    destruct x as [i|s|l]; cbn [gen_vec_nt idx_vector]; [norm_gen; reflexivity | discriminate |
     f_equal; apply map_ext; intros; apply gen_normalize_index_t_eq]].
Qed.

(* the generic tail of the chain (full / meshgrid / pairs), reached by six of the nine kind combinations *)
Definition reaches_tail (R Cc : pyidx) : Prop :=
  match R, Cc with
  | IInt _, IInt _ | IInt _, ISlice _ | ISlice _, IInt _ => False
  | _, _ => True
  end.

Ltac tail_leaf :=
  first [ reflexivity
        | f_equal; apply flat_map_ext; intros; apply map_ext; intros; ring
        | match goal with |- context [bcast2 ?a ?b] => destruct (bcast2 a b) end;
          [f_equal; apply map_ext; intros; cbv zeta; ring | reflexivity] ].

Lemma gen_tail_eq R Cc NR NC : reaches_tail R Cc -> gen_code_indices R Cc NR NC = code_indices R Cc NR NC.
Proof.
  intros H. first [reflexivity |
    destruct R as [r|sr|lr]; destruct Cc as [c|sc|lc]; try contradiction;
    unfold gen_code_indices, code_indices;
    (destruct (is_full_slice _ && is_full_slice _); [reflexivity|]);
    cbn [is_slice orb];
    rewrite ?gen_vec_eq, ?(fun n l => gen_vec_nt_eq n (ITensor l) eq_refl), ?(fun n i => gen_vec_nt_eq n (IInt i) eq_refl);
    (destruct (idx_vector NR _); [|reflexivity]); (destruct (idx_vector NC _); [|reflexivity]);
    unfold outer; tail_leaf ].
Qed.

Lemma gen_code_indices_eq R Cc NR NC : gen_code_indices R Cc NR NC = code_indices R Cc NR NC.
Proof.
  first [reflexivity |
    destruct R as [r|sr|lr]; destruct Cc as [c|sc|lc]; try (apply gen_tail_eq; exact I);
    unfold gen_code_indices, code_indices; cbv zeta;
    norm_gen;
    [ f_equal; f_equal; ring
    | destruct (normalize_slice sc NC) as [[[a b] k]|]; [|reflexivity]; apply f_equal, sl_ext; ring
    | destruct (normalize_slice sr NR) as [[[a b] k]|]; [|reflexivity]; apply f_equal, sl_ext; ring ] ].
Qed.

Lemma gen_getitem_event_eq il n t ri ci : gen_getitem_event il n t ri ci = getitem_event il n t ri ci.
Proof.
  first [reflexivity |
    unfold gen_getitem_event, getitem_event;
    destruct (idx_positions n ri); [|reflexivity]; destruct (idx_positions t ci); [|reflexivity];
    destruct il; cbv beta iota delta [gen_row_idx gen_col_idx gen_num_rows gen_num_cols]; apply gen_code_indices_eq ].
Qed.

(* thresholds of the tuple normalisation *)
Lemma gen_infix_length_eq d a b : gen_infix_length d a b = d - a - b.
Proof. unfold gen_infix_length. ring. Qed.
Lemma gen_infix_bad_eq d x : gen_infix_bad d x = (x <? 0).
Proof. unfold gen_infix_bad. lia. Qed.
Lemma gen_add_task_eq d l : gen_add_task d l = (l =? d - 1).
Proof. unfold gen_add_task. lia. Qed.
Lemma gen_batch_only_eq d l : gen_batch_only d l = (l <=? d - 2).
Proof. unfold gen_batch_only. lia. Qed.
Lemma gen_too_many_eq d l : gen_too_many d l = (d <? l).
Proof. unfold gen_too_many. lia. Qed.

Lemma gen_normalize_tuple_eq dim idx : gen_normalize_tuple dim idx = normalize_tuple dim idx.
Proof.
  first [reflexivity |
    unfold gen_normalize_tuple, normalize_tuple;
    destruct (split_ell idx) as [pre [suf|]]; cbv zeta;
    [ destruct (existsb is_ell suf); [reflexivity|];
      rewrite gen_infix_length_eq, gen_infix_bad_eq;
      destruct (dim - Z.of_nat (length pre) - Z.of_nat (length suf) <? 0); [reflexivity|]
    | rewrite gen_add_task_eq; destruct (Z.of_nat (length pre) =? dim - 1) ];
    cbv beta iota; rewrite gen_batch_only_eq, gen_too_many_eq; reflexivity ].
Qed.

Lemma gen_run_getitem_eq c : gen_run_getitem c = run_getitem c.
Proof.
  first [reflexivity |
    destruct c as [[[[il dim] n] t] idx]; unfold gen_run_getitem, run_getitem;
    rewrite gen_normalize_tuple_eq; destruct (normalize_tuple dim idx) as [[b [[ri ci]|]]|]; try reflexivity;
    rewrite gen_getitem_event_eq; reflexivity ].
Qed.

(* ---- the index theorems, over the regenerated arithmetic *)
Theorem gen_getitem_event_correct il n t ri ci : 0 < n -> 0 < t ->
  gen_getitem_event il n t ri ci = spec_indices il n t ri ci.
Proof. intros Hn Ht. rewrite gen_getitem_event_eq. apply getitem_event_correct; assumption. Qed.

Theorem gen_getitem_event_in_range il n t ri ci l k : 0 < n -> 0 < t ->
  gen_getitem_event il n t ri ci = Some l -> In k l -> 0 <= k < n * t.
Proof. intros Hn Ht. rewrite gen_getitem_event_eq. apply getitem_event_in_range; assumption. Qed.

Theorem gen_tuple_explicit dim (b : list pyidx) ri ci : Z.of_nat (length b) + 2 = dim ->
  gen_normalize_tuple dim (map EI b ++ [EI ri; EI ci]) = Some (b, Some (ri, ci)).
Proof. intros H. rewrite gen_normalize_tuple_eq. apply normalize_tuple_explicit; assumption. Qed.

Theorem gen_tuple_no_task dim (b : list pyidx) ri : Z.of_nat (length b) + 2 = dim ->
  gen_normalize_tuple dim (map EI b ++ [EI ri])
  = gen_normalize_tuple dim (map EI b ++ [EI ri; EI (ISlice full_slice)]).
Proof. intros H. rewrite !gen_normalize_tuple_eq. apply normalize_tuple_no_task; assumption. Qed.

(* ---- to_data_independent_dist: the two aranges address block i at the flat positions of (i, a) *)
Lemma range_len_exact a s m : 0 < s -> 0 <= m -> range_len a (a + m * s) s = m.
Proof.
  intros Hs Hm. unfold range_len. destruct (0 <? s) eqn:E; [|lia].
  destruct (a <? a + m * s) eqn:L.
  - replace (a + m * s - a - 1) with ((m - 1) * s + (s - 1)) by ring.
    destruct (divmod_lin (m - 1) s (s - 1) ltac:(lia)) as [-> _]. ring.
  - assert (m = 0) by nia. lia.
Qed.

Lemma nth_range_list a b s k : (Z.of_nat k < range_len a b s) ->
  nth k (range_list a b s) 0 = a + Z.of_nat k * s.
Proof.
  intros Hk. unfold range_list.
  assert (Hn : (k < Z.to_nat (range_len a b s))%nat) by lia.
  rewrite (nth_indep _ 0 ((fun j => a + Z.of_nat j * s) 0%nat)) by (rewrite map_length, seq_length; exact Hn).
  rewrite (map_nth (fun j => a + Z.of_nat j * s)), seq_nth by exact Hn. reflexivity.
Qed.

Lemma nth_arange a b s m k : 0 < s -> 0 <= m -> b = a + m * s -> 0 <= k < m ->
  nth (Z.to_nat k) (range_list a b s) 0 = a + k * s.
Proof.
  intros Hs Hm -> Hk. rewrite nth_range_list by (rewrite range_len_exact by lia; lia).
  rewrite Z2Nat.id by lia. reflexivity.
Qed.

Theorem gen_tdid_index_flat il n t i a : 0 < n -> 0 < t -> 0 <= i < n -> 0 <= a < t ->
  gen_tdid_index il n t i a = flat il n t i a.
Proof.
  intros Hn Ht Hi Ha. unfold gen_tdid_index, gen_tdid_data, gen_tdid_task, flat, flat_il, flat_nil.
  destruct il.
  - rewrite (nth_arange _ _ _ n i) by (try lia; ring).
    rewrite (nth_arange _ _ _ t a) by (try lia; ring). ring.
  - rewrite (nth_arange _ _ _ n i) by (try lia; ring).
    rewrite (nth_arange _ _ _ t a) by (try lia; ring). ring.
Qed.
