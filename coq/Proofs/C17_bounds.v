(* C17 lemmas about histories in which the bounds of a parameter are REPLACED (load_state_dict of the
   bound buffers, register_constraint, casts / copies): the read is always governed by the constraint in
   force; a transform that keeps the width of earlier bounds leaves the new bounds. *)
From Coq Require Import Arith Lia List Bool Reals Lra QArith Qcanon Qreals.
From GPV Require Import Base.LinAlg Base.Exec Base.Expr Models.C17_constraints Proofs.C17_constraints.
Import ListNotations.
Local Open Scope R_scope.

Definition breadR (s : bstate) : R := den (bread s).
(* the constraints a history installs *)
Definition bop_wf (o : bop) : Prop :=
  match o with BOp _ => True | BReplace c' => wf c' | BLoad c' _ => wf c' end.

Lemma bstep_wf s o : wf (fst s) -> bop_wf o -> wf (fst (bstep s o)).
Proof. destruct o; cbn [bstep fst bop_wf]; auto. Qed.

Lemma bread_in_bounds s : wf (fst s) -> in_bounds (fst s) (breadR s).
Proof. intros Hw. unfold breadR, bread. apply (read_in_bounds (fst s) (snd s) Hw). Qed.

(* after ANY history - bounds replaced any number of times, by any well-formed constraints - every
   intermediate and the final read lies strictly inside the bounds IN FORCE at that moment *)
Lemma bhistory_in_bounds s ops : wf (fst s) -> Forall bop_wf ops ->
  Forall (fun s' => in_bounds (fst s') (breadR s')) (btrace s ops).
Proof.
  intros Hw Hops. revert s Hw. induction Hops as [|o r Ho Hr IH]; intros s Hw; cbn [btrace]; constructor.
  - apply bread_in_bounds. apply bstep_wf; assumption.
  - apply IH. apply bstep_wf; assumption.
Qed.

(* replacing the bounds keeps the raw value: the read becomes the NEW transform of the old raw value,
   the rejection counter is untouched *)
Lemma breplace_reads s c' :
  breadR (bstep s (BReplace c')) = transform_R c' (den (fst (snd s))) /\
  fst (bstep s (BReplace c')) = c' /\ snd (bstep s (BReplace c')) = snd s.
Proof.
  unfold breadR, bread, read_e. cbn [bstep fst snd]. rewrite den_transform. auto.
Qed.

(* loading a state dict (bounds c', raw r): the read is the new transform of the loaded raw value; in
   particular a donor that held the interior value v (raw = inverse under c') is read back as v *)
Lemma bload_reads s c' r :
  breadR (bstep s (BLoad c' r)) = transform_R c' (den r) /\ fst (bstep s (BLoad c' r)) = c'.
Proof.
  unfold breadR, bread, read_e. cbn [bstep fst snd]. rewrite den_transform. auto.
Qed.

Lemma bload_saved_value_reads_back s c' v : wf c' -> interior_q c' v = true ->
  breadR (bstep s (BLoad c' (inverse_e c' (EConst v)))) = q v.
Proof.
  intros Hw Hi. destruct (bload_reads s c' (inverse_e c' (EConst v))) as [H _]. rewrite H.
  rewrite den_inverse. cbn [den]. fold (q v). apply transform_inverse_id; [exact Hw|].
  apply interior_q_spec. exact Hi.
Qed.

(* after a replacement, assignments are judged by the NEW bounds: interior of c' reads back, outside of
   c' is rejected - whatever the earlier constraint was *)
Lemma bset_after_replace s c' v : wf c' ->
  (interior_q c' v = true ->
     breadR (bstep (bstep s (BReplace c')) (BOp (Set_ v))) = q v /\
     snd (snd (bstep (bstep s (BReplace c')) (BOp (Set_ v)))) = snd (snd s)) /\
  (interior_q c' v = false ->
     fst (snd (bstep (bstep s (BReplace c')) (BOp (Set_ v)))) = fst (snd s) /\
     snd (snd (bstep (bstep s (BReplace c')) (BOp (Set_ v)))) = S (snd (snd s))).
Proof.
  intros Hw. split; intros Hi.
  - cbn [bstep fst snd]. unfold breadR, bread. cbn [fst snd].
    destruct (set_reads_back c' (snd s) v Hw Hi) as [H1 [H2 _]]. split; [exact H1|exact H2].
  - cbn [bstep fst snd].
    destruct (set_out_of_bounds_rejected c' (snd s) v Hi) as [H1 [H2 _]]. split; [exact H1|exact H2].
Qed.

(* optimiser steps after a replacement move the raw value; the read stays the NEW transform of it *)
Lemma bstep_after_replace s c' d :
  breadR (bstep (bstep s (BReplace c')) (BOp (Step d))) = transform_R c' (den (fst (snd s)) + den d).
Proof.
  cbn [bstep fst snd]. unfold breadR, bread. cbn [fst snd]. apply (step_reads c' (snd s) d).
Qed.

(* a transform that keeps the WIDTH w0 of earlier bounds while using the new lower bound leaves the new
   interval (l, u) for some raw value whenever w0 is larger than the new width *)
Lemma den_transform_stale l w0 x : den (transform_stale_e l w0 x) = sigmoid (den x) * q w0 + q l.
Proof. unfold transform_stale_e. cbn [den]. rewrite den_sigmoid. reflexivity. Qed.

Lemma stale_width_leaves_bounds l u w0 : q l < q u -> q u - q l < q w0 ->
  exists x : R, ~ in_bounds (CInterval l u) (sigmoid x * q w0 + q l).
Proof.
  intros Hlu Hw.
  set (t := ((q u - q l) / q w0 + 1) / 2).
  assert (Hw0 : 0 < q w0) by lra.
  assert (Hr : 0 < (q u - q l) / q w0 < 1).
  { split.
    - apply Rdiv_lt_0_compat; lra.
    - apply (Rmult_lt_reg_r (q w0)); [exact Hw0|]. unfold Rdiv. rewrite Rmult_assoc, Rinv_l by lra. lra. }
  assert (Ht : 0 < t < 1) by (unfold t; lra).
  exists (inv_sigmoid t). rewrite (sigmoid_inv_sigmoid t Ht).
  cbn [in_bounds]. intros [_ Hup].
  assert (Hgt : (q u - q l) / q w0 < t) by (unfold t; lra).
  apply (Rmult_lt_compat_r (q w0)) in Hgt; [|exact Hw0].
  unfold Rdiv in Hgt. rewrite Rmult_assoc, Rinv_l in Hgt by lra. lra.
Qed.

Lemma ex_bhistory :
  let c0 := CInterval (qc 1 1000) (qc 4 1) in
  let c1 := CInterval (qc 1 1000) (qc 1 2) in
  wf c0 /\ Forall bop_wf [BLoad c1 (inverse_e c1 (EConst (qc 3 10))); BOp (Set_ (qc 4 5)); BOp (Step (EConst (qc 5 1)));
                         BReplace (CGreater (qc 2 1)); BOp (Set_ (qc 3 1))] /\
  interior_q c1 (qc 3 10) = true /\ interior_q c0 (qc 4 5) = true /\ interior_q c1 (qc 4 5) = false /\
  (q (qc 1 2) - q (qc 1 1000) < q (qc 3999 1000))%R.
Proof.
  cbn zeta.
  assert (H0 : q (qc 1 1000) < q (qc 4 1)) by (apply (proj1 (Qc_ltb_spec _ _)); reflexivity).
  assert (H1 : q (qc 1 1000) < q (qc 1 2)) by (apply (proj1 (Qc_ltb_spec _ _)); reflexivity).
  split; [exact H0|]. split.
  - repeat constructor; cbn [bop_wf wf]; auto.
  - split; [reflexivity|]. split; [reflexivity|]. split; [reflexivity|].
    assert (H2 : q (qc 1 2) < q (qc 3999 1000)) by (apply (proj1 (Qc_ltb_spec _ _)); reflexivity).
    assert (H3 : q 0%Qc < q (qc 1 1000)) by (apply (proj1 (Qc_ltb_spec _ _)); reflexivity).
    rewrite q_0 in H3. lra.
Qed.
