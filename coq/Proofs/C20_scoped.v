(* C20 — proofs.
   GENERIC (proved once, for every class table T, every composites/caches table, every program,
   store and argument list):
     explore_sound : a check that passed for both answers to every question holds for the answers
                     given by any actual store/arguments (five-line induction, because the concrete
                     semantics [conc] and the checker [explore] drive the SAME interpreter);
     run_inv       : by induction on the program: if every with-block uses a class with
                     [class_ok = true] then the program does not get stuck, the visible store after
                     equals the visible store before (normal or exceptional exit), and every
                     observation inside shows the outer value for every class outside the footprint.
   COMPUTED per class on the regenerated table (Props/C20.v, vm_compute): [class_ok T .. c = true]. *)
From Coq Require Import List String ZArith Bool Lia.
From GPV Require Import Models.C20_ir Models.C20_check.
Import ListNotations.
Open Scope string_scope.

Lemma explore_sound : forall A n (f : list fact -> res A) chk hold fs,
  explore n f chk fs = true ->
  chk (snd (conc n hold f fs)) (fst (conc n hold f fs)) = true.
Proof.
  induction n as [|n IH]; intros f chk hold fs H; cbn [explore conc] in *.
  - destruct (f fs) as [a|W|[x p]|s]; cbn; try exact H. discriminate.
  - destruct (f fs) as [a|W|[x p]|s]; cbn; try exact H.
    apply andb_true_iff in H. destruct H as [H1 H2].
    destruct (hold x p); apply IH; assumption.
Qed.

Lemma mem_str_In : forall s l, mem_str s l = true -> In s l.
Proof.
  intros s l H. unfold mem_str in H. apply existsb_exists in H. destruct H as [x [Hin Hx]].
  apply String.eqb_eq in Hx. subst. exact Hin.
Qed.
Lemma In_mem_str : forall s l, In s l -> mem_str s l = true.
Proof.
  intros s l H. unfold mem_str. apply existsb_exists. exists s. split; [exact H | apply String.eqb_refl].
Qed.

Section Generic.
Variable T : table.
Variable comp : string -> list string.
Variable cache : string -> string -> bool.

Lemma find_class_in_spec : forall l c e, find_class_in l c = Some e -> In e l /\ c_name e = c.
Proof.
  induction l as [|x r IH]; cbn; intros c e H; [discriminate|].
  destruct (String.eqb c (c_name x)) eqn:E.
  - inversion H; subst. apply String.eqb_eq in E. auto.
  - destruct (IH _ _ H). auto.
Qed.

Lemma chain_head : forall c, exists r, chain T c = c :: r.
Proof. intros c. unfold chain. destruct (List.length T); cbn; eauto. Qed.

Lemma leaf_spec : forall k c, leaf T k = true -> In k (chain T c) -> k = c.
Proof.
  intros k c Hl Hin. unfold leaf in Hl. rewrite forallb_forall in Hl.
  destruct (find_class T c) as [e|] eqn:Ef.
  - unfold find_class in Ef. apply find_class_in_spec in Ef. destruct Ef as [HinT Hn].
    specialize (Hl e HinT). rewrite Hn in Hl. apply orb_true_iff in Hl. destruct Hl as [Hl|Hl].
    + apply String.eqb_eq in Hl. auto.
    + apply In_mem_str in Hin. rewrite Hin in Hl. discriminate.
  - unfold chain in Hin. assert (Hb : base_of T c = None) by (unfold base_of; rewrite Ef; reflexivity).
    destruct (List.length T); cbn in Hin; [|rewrite Hb in Hin]; destruct Hin as [Hin|[]]; auto.
Qed.

Definition writes_leaf (W : writes) : Prop := forall k a v, In (k, a, v) W -> leaf T k = true.

Lemma first_slot_upd_other : forall G k a0 v cs a,
  (a0 = a -> ~ In k cs) -> first_slot (upd G k a0 v) cs a = first_slot G cs a.
Proof.
  induction cs as [|x r IH]; intros a H; cbn; [reflexivity|].
  unfold upd at 1.
  destruct (String.eqb x k && String.eqb a a0) eqn:E.
  - apply andb_true_iff in E. destruct E as [E1 E2]. apply String.eqb_eq in E1, E2. subst.
    exfalso. apply H; cbn; auto.
  - destruct (G x a); [reflexivity|]. apply IH. intros Ha Hin. apply (H Ha). cbn; auto.
Qed.

Lemma lookup_upd : forall G k a0 v c a, leaf T k = true ->
  lookup T (upd G k a0 v) c a = if String.eqb c k && String.eqb a a0 then Some v else lookup T G c a.
Proof.
  intros G k a0 v c a Hl. unfold lookup.
  destruct (String.eqb c k && String.eqb a a0) eqn:E.
  - destruct (chain_head c) as [r Hr]. rewrite Hr. cbn. unfold upd. rewrite E. reflexivity.
  - apply first_slot_upd_other. intros Ha Hin. subst a0.
    apply (leaf_spec k c Hl) in Hin. subst k. rewrite !String.eqb_refl in E. discriminate.
Qed.

Lemma lookup_apply : forall r W G c a, writes_leaf W ->
  lookup T (apply_writes r W G) c a
  = match find_w W c a with Some v => Some (inst r v) | None => lookup T G c a end.
Proof.
  induction W as [|[[k a0] v] W IH]; intros G c a HW; cbn; [reflexivity|].
  rewrite lookup_upd by (eapply HW; left; reflexivity).
  destruct (String.eqb c k && String.eqb a a0); [reflexivity|].
  apply IH. intros k' a' v' Hin. eapply HW. right. exact Hin.
Qed.

Lemma lookup_v_apply : forall r W G c a, writes_leaf W ->
  lookup_v T (apply_writes r W G) c a
  = match find_w W c a with Some v => inst r v | None => lookup_v T G c a end.
Proof.
  intros. unfold lookup_v. rewrite lookup_apply by assumption. destruct (find_w W c a); reflexivity.
Qed.

Lemma find_w_In : forall W c a v, find_w W c a = Some v -> In (c, a, v) W.
Proof.
  induction W as [|[[k a0] v0] W IH]; cbn; intros c a v H; [discriminate|].
  destruct (String.eqb c k && String.eqb a a0) eqn:E.
  - apply andb_true_iff in E. destruct E as [E1 E2]. apply String.eqb_eq in E1, E2. inversion H; subst. auto.
  - right. apply IH. exact H.
Qed.
Lemma In_find_w : forall W c a v, In (c, a, v) W -> exists v', find_w W c a = Some v'.
Proof.
  induction W as [|[[k a0] v0] W IH]; cbn; intros c a v H; [contradiction|].
  destruct (String.eqb c k && String.eqb a a0) eqn:E; [eauto|].
  destruct H as [H|H]; [|eapply IH; exact H].
  inversion H; subst. rewrite !String.eqb_refl in E. discriminate.
Qed.

Lemma footprint_ok_spec : forall c W, footprint_ok T comp c W = true ->
  writes_leaf W /\ (forall k a v, In (k, a, v) W -> In k (allowed comp c)).
Proof.
  intros c W H. unfold footprint_ok in H. rewrite forallb_forall in H. split; intros k a v Hin;
    specialize (H _ Hin); cbn in H; apply andb_true_iff in H; destruct H as [H1 H2]; auto using mem_str_In.
Qed.

Lemma restores_spec : forall WA WB k a v, restores cache WA WB = true -> In (k, a, v) (WA ++ WB) ->
  cache k a = false -> find_w WB k a = Some (VSym (XCell false k a)).
Proof.
  intros WA WB k a v H Hin Hc. unfold restores in H. rewrite forallb_forall in H.
  specialize (H _ Hin). cbn in H. rewrite Hc in H. cbn in H.
  unfold is_entry_value in H. destruct (find_w WB k a) as [[ | [|t k' a'] | | ]|]; try discriminate.
  destruct t; try discriminate.
  apply andb_true_iff in H. destruct H as [H1 H2]. apply String.eqb_eq in H1, H2. subst. reflexivity.
Qed.


(* ---- the warning filter (pseudo-class WARN of the store) *)
Lemma warn_free_find : warn_free T = true -> find_class T WARN = None.
Proof.
  intros H. destruct (find_class T WARN) as [e|] eqn:Ef; [|reflexivity]. exfalso.
  unfold find_class in Ef. apply find_class_in_spec in Ef. destruct Ef as [Hin Hn].
  unfold warn_free in H. rewrite forallb_forall in H. specialize (H e Hin). rewrite Hn in H.
  destruct (chain_head WARN) as [r Hr]. rewrite Hr in H.
  rewrite (In_mem_str WARN (WARN :: r) (or_introl eq_refl)) in H. discriminate.
Qed.

Lemma chain_WARN : warn_free T = true -> chain T WARN = [WARN].
Proof.
  intros H. pose proof (warn_free_find H) as Ef.
  assert (Hb : base_of T WARN = None) by (unfold base_of; rewrite Ef; reflexivity).
  unfold chain. destruct (List.length T); cbn; [|rewrite Hb]; reflexivity.
Qed.

Lemma warn_free_chain : warn_free T = true -> forall c, c <> WARN -> ~ In WARN (chain T c).
Proof.
  intros H c Hne Hin. destruct (find_class T c) as [e|] eqn:Ef.
  - unfold find_class in Ef. apply find_class_in_spec in Ef. destruct Ef as [HinT Hn].
    unfold warn_free in H. rewrite forallb_forall in H. specialize (H e HinT). rewrite Hn in H.
    rewrite (In_mem_str _ _ Hin) in H. discriminate.
  - assert (Hb : base_of T c = None) by (unfold base_of; rewrite Ef; reflexivity).
    unfold chain in Hin. destruct (List.length T); cbn in Hin; [|rewrite Hb in Hin];
      destruct Hin as [Hin|[]]; apply Hne; auto.
Qed.

Lemma first_slot_unesc : forall G G2 cs a, ~ In WARN cs -> first_slot (unescalate G G2) cs a = first_slot G2 cs a.
Proof.
  induction cs as [|x r IH]; intros a H; cbn; [reflexivity|].
  unfold unescalate at 1. destruct (String.eqb_spec x WARN) as [E|E]; [exfalso; apply H; left; exact E|].
  rewrite IH; [reflexivity|]. intros Hin. apply H. right. exact Hin.
Qed.
Lemma first_slot_esc : forall b G cs a, ~ In WARN cs -> first_slot (escalate b G) cs a = first_slot G cs a.
Proof.
  induction cs as [|x r IH]; intros a H; cbn; [reflexivity|].
  unfold escalate at 1. destruct (String.eqb_spec x WARN) as [E|E]; [exfalso; apply H; left; exact E|].
  rewrite IH; [reflexivity|]. intros Hin. apply H. right. exact Hin.
Qed.

Lemma lookup_v_esc : warn_free T = true -> forall b G c a, c <> WARN ->
  lookup_v T (escalate b G) c a = lookup_v T G c a.
Proof.
  intros H b G c a Hne. unfold lookup_v, lookup. rewrite first_slot_esc by (apply warn_free_chain; assumption). reflexivity.
Qed.
Lemma lookup_v_unesc : warn_free T = true -> forall G G2 c a,
  lookup_v T (unescalate G G2) c a = if String.eqb c WARN then lookup_v T G c a else lookup_v T G2 c a.
Proof.
  intros H G G2 c a. destruct (String.eqb_spec c WARN) as [E|E].
  - subst c. unfold lookup_v, lookup. rewrite (chain_WARN H). cbn [first_slot]. unfold unescalate. rewrite String.eqb_refl. reflexivity.
  - unfold lookup_v, lookup. rewrite first_slot_unesc by (apply warn_free_chain; assumption). reflexivity.
Qed.

(* the visible store: what every class shows for every attribute that is not a documented cache *)
Definition vis_eq (G G' : store) : Prop :=
  forall c a, cache c a = false -> lookup_v T G' c a = lookup_v T G c a.

Strategy opaque [QFUEL conc explore symA symB].
Theorem run_inv : forall p G G' o tr,
  prog_ok T comp cache p = true -> run T p G = (G', o, tr) ->
  o <> OStuck /\ vis_eq G G' /\
  (forall s, In s tr -> forall c a, ~ In c (footprint comp p) -> cache c a = false ->
                        lookup_v T s c a = lookup_v T G c a).
Proof.
  induction p as [|p1 IH1 p2 IH2|c args body IHb| | |b body IHe|body IHt]; intros G G' o tr Hok Hrun; cbn [run] in Hrun.
  - inversion Hrun; subst. repeat split; try discriminate; try (intros ? []); intros ? ? ?; reflexivity.
  - cbn [prog_ok] in Hok. apply andb_true_iff in Hok. destruct Hok as [Hok1 Hok2].
    destruct (run T p1 G) as [[G1 o1] tr1] eqn:E1.
    destruct (IH1 _ _ _ _ Hok1 E1) as [Hs1 [Hv1 Hf1]].
    assert (Hfoot1 : forall c, ~ In c (footprint comp (PSeq p1 p2)) -> ~ In c (footprint comp p1))
      by (intros c0 H H'; apply H; cbn; apply in_or_app; auto).
    assert (Hfoot2 : forall c, ~ In c (footprint comp (PSeq p1 p2)) -> ~ In c (footprint comp p2))
      by (intros c0 H H'; apply H; cbn; apply in_or_app; auto).
    destruct o1.
    + destruct (run T p2 G1) as [[G2 o2] tr2] eqn:E2. inversion Hrun; subst.
      destruct (IH2 _ _ _ _ Hok2 E2) as [Hs2 [Hv2 Hf2]].
      split; [exact Hs2|]. split.
      * intros c0 a Hc. rewrite (Hv2 c0 a Hc). apply Hv1; exact Hc.
      * intros s Hin c0 a Hnf Hc. apply in_app_or in Hin. destruct Hin as [Hin|Hin].
        -- apply Hf1; auto.
        -- rewrite (Hf2 s Hin c0 a); auto.
    + inversion Hrun; subst. split; [discriminate|]. split; [exact Hv1|].
      intros s Hin c0 a Hnf Hc. apply Hf1; auto.
    + exfalso. apply Hs1. reflexivity.
  - cbn [prog_ok] in Hok. apply andb_true_iff in Hok. destruct Hok as [Hcls Hokb].
    destruct (negb (args_valid T c args)).
    { inversion Hrun; subst. repeat split; try discriminate; try (intros ? []); intros ? ? ?; reflexivity. }
    unfold class_ok in Hcls.
    pose proof (explore_sound _ QFUEL (fun fs => symA T fs c) (chkA T comp cache c) (holds T args G G) [] Hcls) as HA.
    destruct (conc QFUEL (holds T args G G) (fun fs => symA T fs c) []) as [rA fsA]. cbn [fst snd] in HA.
    destruct rA as [[W|W|ob WA]|W|q|s]; cbn [chkA] in HA; try discriminate.
    + destruct W; [|discriminate]. inversion Hrun; subst. cbn.
      repeat split; try discriminate; try (intros ? []); intros ? ? ?; reflexivity.
    + destruct W; [|discriminate]. inversion Hrun; subst. cbn.
      repeat split; try discriminate; try (intros ? []); intros ? ? ?; reflexivity.
    + apply andb_true_iff in HA. destruct HA as [HfA HB].
      destruct (footprint_ok_spec _ _ HfA) as [HleafA HallA].
      set (G1 := apply_writes (rho T args G G) WA G) in *.
      destruct (run T body G1) as [[G2 r] trb] eqn:Eb.
      destruct (IHb _ _ _ _ Hokb Eb) as [Hsb [Hvb Hfb]].
      pose proof (explore_sound _ QFUEL (fun fs' => symB T fs' c ob) (chkB T comp cache c WA)
                    (holds T args G G2) fsA HB) as HB'.
      destruct (conc QFUEL (holds T args G G2) (fun fs' => symB T fs' c ob) fsA) as [rB fsB]. cbn [fst snd] in HB'.
      assert (Hfr : forall s, In s trb -> forall c0 a, ~ In c0 (footprint comp (PWith c args body)) ->
                cache c0 a = false -> lookup_v T s c0 a = lookup_v T G c0 a).
      { intros s Hin c0 a Hnf Hc. rewrite (Hfb s Hin c0 a); auto.
        - unfold G1. rewrite lookup_v_apply by exact HleafA.
          destruct (find_w WA c0 a) eqn:Ew; [|reflexivity].
          exfalso. apply Hnf. cbn [footprint]. apply in_or_app. left. apply find_w_In in Ew. eapply HallA; exact Ew.
        - intros H. apply Hnf. cbn [footprint]. apply in_or_app. right. exact H. }
      destruct rB as [[sup WB|WB]|W|q|s]; cbn [chkB] in HB'; try (destruct r; discriminate).
      apply andb_true_iff in HB'. destruct HB' as [HB' Hres]. apply andb_true_iff in HB'. destruct HB' as [Hsup HfB].
      destruct sup; [discriminate|].
      destruct (footprint_ok_spec _ _ HfB) as [HleafB HallB].
      assert (Hvis : vis_eq G (apply_writes (rho T args G G2) WB G2)).
      { intros c0 a Hc. rewrite lookup_v_apply by exact HleafB.
        destruct (find_w WB c0 a) as [v|] eqn:Ew.
        - pose proof (find_w_In _ _ _ _ Ew) as Hin.
          rewrite (restores_spec WA WB c0 a v Hres) in Ew by (try apply in_or_app; auto).
          inversion Ew; subst. reflexivity.
        - rewrite (Hvb c0 a Hc). unfold G1. rewrite lookup_v_apply by exact HleafA.
          destruct (find_w WA c0 a) as [v|] eqn:EwA; [|reflexivity].
          apply find_w_In in EwA.
          rewrite (restores_spec WA WB c0 a v Hres) in Ew by (try apply in_or_app; auto). discriminate. }
      destruct r; [ | | exfalso; apply Hsb; reflexivity]; inversion Hrun; subst; (split; [discriminate|]); (split; [exact Hvis|exact Hfr]).
  - inversion Hrun; subst. repeat split; try discriminate; try (intros ? []); intros ? ? ?; reflexivity.
  - inversion Hrun; subst. split; [discriminate|]. split; [intros ? ? ?; reflexivity|].
    intros s [Hs|[]] c0 a _ _. subst. reflexivity.
  - (* PEsc: the body runs under the changed filter; leaving the block puts the filter back *)
    cbn [prog_ok] in Hok. apply andb_true_iff in Hok. destruct Hok as [Hwf Hokb].
    destruct (run T body (escalate b G)) as [[G2 o2] tr2] eqn:E2. inversion Hrun; subst.
    destruct (IHe _ _ _ _ Hokb E2) as [Hs [Hv Hf]].
    split; [exact Hs|]. split.
    + intros c0 a Hc. rewrite (lookup_v_unesc Hwf). destruct (String.eqb_spec c0 WARN) as [E|E]; [reflexivity|].
      rewrite (Hv c0 a Hc). apply lookup_v_esc; assumption.
    + intros s Hin c0 a Hnf Hc. cbn [footprint] in Hnf.
      rewrite (Hf s Hin c0 a) by (auto; intros H; apply Hnf; right; exact H).
      apply lookup_v_esc; [assumption|]. intros E. apply Hnf. left. symmetry. exact E.
  - (* PTry *)
    cbn [prog_ok] in Hok. destruct (run T body G) as [[G1 o1] tr1] eqn:E1. inversion Hrun; subst.
    destruct (IHt _ _ _ _ Hok E1) as [Hs [Hv Hf]].
    split; [destruct o1; [discriminate|discriminate|exact Hs]|]. split; [exact Hv|exact Hf].
Qed.

(* a with-header that fails -- constructor or __enter__ raise, for whatever reason, an escalated warning
   included -- leaves the store UNTOUCHED (not merely the visible values) and runs nothing *)
Lemma failed_entry_inv : forall c args body G,
  class_ok T comp cache c = true -> enters T c args G = false ->
  run T (PWith c args body) G = (G, ORaised, []).
Proof.
  intros c args body G Hcls He. cbn [run]. unfold enters in He.
  destruct (args_valid T c args); cbn [negb andb] in *; [|reflexivity].
  unfold class_ok in Hcls.
  pose proof (explore_sound _ QFUEL (fun fs => symA T fs c) (chkA T comp cache c) (holds T args G G) [] Hcls) as HA.
  destruct (conc QFUEL (holds T args G G) (fun fs => symA T fs c) []) as [rA fsA]. cbn [fst snd] in HA, He.
  destruct rA as [[W|W|ob WA]|W|q|s]; cbn [chkA] in HA; try discriminate;
    destruct W; try discriminate; reflexivity.
Qed.

(* what Setting.m(..) returns depends on the store only through the visible values *)
Lemma conc_ext : forall A n (f : list fact -> res A) h1 h2 fs,
  (forall x p, h1 x p = h2 x p) -> conc n h1 f fs = conc n h2 f fs.
Proof.
  induction n as [|n IH]; intros f h1 h2 fs H; cbn [conc]; destruct (f fs) as [a|W|[x p]|s]; try reflexivity.
  rewrite (H x p). apply IH. exact H.
Qed.

Lemma inst_ext : forall r1 r2, (forall x, r1 x = r2 x) -> forall v, inst r1 v = inst r2 v.
Proof.
  intros r1 r2 H. fix IH 1. intros v. destruct v as [k|x|w|c fs]; cbn [inst].
  - reflexivity.
  - apply H.
  - rewrite (IH w). reflexivity.
  - f_equal. induction fs as [|[f0 v0] fs IHfs]; cbn; [reflexivity|]. rewrite (IH v0). f_equal. exact IHfs.
Qed.

Lemma observe_ext : forall G G' c m args,
  (forall c a, lookup_v T G' c a = lookup_v T G c a) -> observe T G' c m args = observe T G c m args.
Proof.
  intros G G' c m args H. unfold observe.
  assert (Hr : forall x, rho T [] G' G' x = rho T [] G G x).
  { intros [p|[|] c0 a]; cbn; auto. }
  assert (Hh : forall x p, holds T [] G' G' x p = holds T [] G G x p).
  { intros x p. unfold holds. rewrite Hr. reflexivity. }
  rewrite (conc_ext _ QFUEL _ _ _ [] Hh).
  destruct (conc QFUEL (holds T [] G G) (fun fs => symObs T fs c m args) []) as [[[v W]|W|q|s] fs]; try reflexivity.
  apply inst_ext. exact Hr.
Qed.
End Generic.
