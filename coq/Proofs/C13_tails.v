(* C13, second strengthening round: (a) the rule is a weighted MEAN of the integrand's node values
   (positive weights summing to sqrt pi), hence log_marginal = ln(rule(exp o logp)) lies between
   the smallest and the largest log-density over the nodes - it cannot stop at a floor in the far
   tail; (b) module transformations (_apply): a cast that fixes the stored numbers leaves the rule
   unchanged, casts compose, and E[1] of any module state is (sum of weights)/sqrt pi. *)
From Coq Require Import Arith List Reals Lra Lia.
From GPV Require Import Base.LinAlg Base.Exec Base.Expr Models.C13_quadrature Proofs.C13_quadrature.
Import ListNotations.

(* ---------------------------------------------------------------- any field *)
Section Apply.
Context {K : Fld}.
Add Field Ff_c13t : (@FT K).
Local Open Scope fld_scope.

Lemma wsum_const ts ws c : length ts = length ws -> wsum ts ws (fun _ => c) = c * lsum ws.
Proof.
  revert ws. induction ts as [|t ts IH]; intros [|w ws] H; cbn [wsum lsum]; try discriminate H; [ring|].
  rewrite IH by (injection H; auto). ring.
Qed.

(* E[c] of ANY module state: c * (sum of the weights), before the factor 1/sqrt(pi) *)
Lemma gh_core_const ts ws s m c : length ts = length ws -> gh_core ts ws s m (fun _ => c) = c * lsum ws.
Proof. intros H. unfold gh_core. apply wsum_const. exact H. Qed.

Lemma gh_apply_fixed fn ts ws :
  (forall t, In t ts -> fn t = t) -> (forall w, In w ws -> fn w = w) -> gh_apply fn (ts, ws) = (ts, ws).
Proof.
  intros Ht Hw. unfold gh_apply. cbn [fst snd]. f_equal.
  - rewrite <- (map_id ts) at 2. apply map_ext_in. exact Ht.
  - rewrite <- (map_id ws) at 2. apply map_ext_in. exact Hw.
Qed.

Lemma gh_apply_compose f g q : gh_apply g (gh_apply f q) = gh_apply (fun x => g (f x)) q.
Proof. unfold gh_apply. cbn [fst snd]. rewrite !map_map. reflexivity. Qed.

Lemma gh_apply_length fn q :
  length (fst (gh_apply fn q)) = length (fst q) /\ length (snd (gh_apply fn q)) = length (snd q).
Proof. unfold gh_apply. cbn [fst snd]. rewrite !map_length. split; reflexivity. Qed.

End Apply.

(* ---------------------------------------------------------------- over R *)
Local Open Scope R_scope.

Lemma wsum_le (ts ws : list R) (f g : R -> R) :
  Forall (fun w => 0 <= w) ws -> (forall t, In t ts -> f t <= g t) ->
  @wsum RF ts ws f <= @wsum RF ts ws g.
Proof.
  revert ws. induction ts as [|t ts IH]; intros [|w ws] Hw H; cbn [wsum fadd fmul f0 RF]; try lra.
  inversion Hw as [|? ? Hw0 Hw1]; subst.
  apply Rplus_le_compat.
  - apply Rmult_le_compat_l; [exact Hw0|]. apply H. left. reflexivity.
  - apply IH; [exact Hw1|]. intros u Hu. apply H. right. exact Hu.
Qed.

Lemma inv_sqrt_PI_pos : 0 < 1 / sqrt PI.
Proof. apply Rdiv_lt_0_compat; [lra|]. apply sqrt_lt_R0. exact PI_RGT_0. Qed.

(* the rule is a weighted mean: nonnegative weights with sum sqrt(pi) => the value lies between
   any lower and upper bound of the integrand ON THE SHIFTED NODES.  Any node list, any integrand. *)
Theorem gh_rule_between (ts ws : list R) (m v : R) (f : R -> R) (lo hi : R) :
  length ts = length ws -> Forall (fun w => 0 <= w) ws -> @lsum RF ws = sqrt PI ->
  (forall t, In t ts -> lo <= f (sqrt (2 * v) * t + m) <= hi) ->
  lo <= gh_rule ts ws m v f <= hi.
Proof.
  intros Hlen Hw Hs Hf. unfold gh_rule, gh_core.
  pose proof (@wsum_const RF ts ws lo Hlen) as Elo. pose proof (@wsum_const RF ts ws hi Hlen) as Ehi.
  cbn [fmul RF] in Elo, Ehi. rewrite Hs in Elo, Ehi.
  assert (Hp := inv_sqrt_PI_pos).
  assert (Hlo : @wsum RF ts ws (fun _ => lo) <= @wsum RF ts ws (fun t => f (@fadd RF (@fmul RF (sqrt (2 * v)) t) m))).
  { apply wsum_le; [exact Hw|]. intros t Ht. cbn [fadd fmul RF]. apply (Hf t Ht). }
  assert (Hhi : @wsum RF ts ws (fun t => f (@fadd RF (@fmul RF (sqrt (2 * v)) t) m)) <= @wsum RF ts ws (fun _ => hi)).
  { apply wsum_le; [exact Hw|]. intros t Ht. cbn [fadd fmul RF]. apply (Hf t Ht). }
  rewrite Elo in Hlo. rewrite Ehi in Hhi.
  assert (Hsp : sqrt PI <> 0) by exact sqrt_PI_neq0.
  split.
  - replace lo with (1 / sqrt PI * (lo * sqrt PI)) by (field; exact Hsp).
    apply Rmult_le_compat_l; [lra|exact Hlo].
  - replace hi with (1 / sqrt PI * (hi * sqrt PI)) by (field; exact Hsp).
    apply Rmult_le_compat_l; [lra|exact Hhi].
Qed.

(* log_marginal = ln (rule applied to exp o logp): between the smallest and the largest value of
   the log-density over the shifted nodes.  In particular, where every node has log-density
   <= L the log marginal is <= L, however negative L is: no floor. *)
Theorem gh_log_marginal_between (ts ws : list R) (m v : R) (lp : R -> R) (lo hi : R) :
  length ts = length ws -> Forall (fun w => 0 <= w) ws -> @lsum RF ws = sqrt PI ->
  (forall t, In t ts -> lo <= lp (sqrt (2 * v) * t + m) <= hi) ->
  lo <= ln (gh_rule ts ws m v (fun f => exp (lp f))) <= hi.
Proof.
  intros Hlen Hw Hs Hf.
  destruct (gh_rule_between ts ws m v (fun f => exp (lp f)) (exp lo) (exp hi) Hlen Hw Hs) as [A B].
  { intros t Ht. destruct (Hf t Ht) as [a b]. split.
    - destruct a as [a|a]; [left; apply exp_increasing; exact a|right; rewrite a; reflexivity].
    - destruct b as [b|b]; [left; apply exp_increasing; exact b|right; rewrite b; reflexivity]. }
  assert (P : 0 < gh_rule ts ws m v (fun f => exp (lp f))) by (pose proof (exp_pos lo); lra).
  split.
  - rewrite <- (ln_exp lo). destruct A as [A|A]; [left; apply ln_increasing; [apply exp_pos|exact A]|right; rewrite A; reflexivity].
  - rewrite <- (ln_exp hi). destruct B as [B|B]; [left; apply ln_increasing; [exact P|exact B]|right; rewrite B; reflexivity].
Qed.

(* Laplace(loc = f, scale = b): if the observation is at distance >= d from every shifted node the
   log marginal is at most -ln(2b) - d/b  (linear decay in the distance, e.g. -84.2 at d = 60 b) *)
Theorem laplace_log_marginal_tail (ts ws : list R) (m v y b d : R) :
  length ts = length ws -> Forall (fun w => 0 <= w) ws -> @lsum RF ws = sqrt PI -> ts <> [] ->
  0 < b -> (forall t, In t ts -> d <= Rabs (y - (sqrt (2 * v) * t + m))) ->
  ln (gh_rule ts ws m v (fun f => exp (- ln (2 * b) - Rabs (y - f) / b))) <= - ln (2 * b) - d / b.
Proof.
  intros Hlen Hw Hs Hne Hb Hd.
  (* a lower bound exists because the node list is finite: take the minimum over the nodes *)
  assert (L : exists lo, forall t, In t ts -> lo <= - ln (2 * b) - Rabs (y - (sqrt (2 * v) * t + m)) / b).
  { clear Hlen Hne Hd. induction ts as [|t ts IH].
    - exists 0. intros t [].
    - destruct IH as [l0 Hl0].
      exists (Rmin l0 (- ln (2 * b) - Rabs (y - (sqrt (2 * v) * t + m)) / b)).
      intros u [Hu|Hu].
      + subst u. apply Rmin_r.
      + eapply Rle_trans; [apply Rmin_l|apply Hl0; exact Hu]. }
  destruct L as [lo Hlo].
  apply (gh_log_marginal_between ts ws m v (fun f => - ln (2 * b) - Rabs (y - f) / b) lo _ Hlen Hw Hs).
  intros t Ht. split; [apply Hlo; exact Ht|].
  pose proof (Hd t Ht) as H.
  assert (d / b <= Rabs (y - (sqrt (2 * v) * t + m)) / b).
  { unfold Rdiv. apply Rmult_le_compat_r; [left; apply Rinv_0_lt_compat; exact Hb|exact H]. }
  lra.
Qed.

(* E[1] of a module state, with the factor 1/sqrt(pi): (sum of weights)/sqrt(pi); so E[1] = 1 iff
   the weights sum to sqrt(pi) - the detector used by the driver after every transformation *)
Lemma gh_rule_const (ts ws : list R) (m v c : R) :
  length ts = length ws -> gh_rule ts ws m v (fun _ => c) = c * (@lsum RF ws / sqrt PI).
Proof.
  intros H. unfold gh_rule. rewrite (@gh_core_const RF ts ws _ _ c H). cbn [fmul RF].
  field. exact sqrt_PI_neq0.
Qed.

(* a transformation that fixes the stored numbers (a cast to the same or a wider dtype, a move, a
   copy) leaves the rule unchanged on every integrand *)
Lemma gh_rule_apply_fixed (fn : R -> R) (ts ws : list R) (m v : R) (f : R -> R) :
  (forall t, In t ts -> fn t = t) -> (forall w, In w ws -> fn w = w) ->
  gh_rule (fst (@gh_apply RF fn (ts, ws))) (snd (@gh_apply RF fn (ts, ws))) m v f = gh_rule ts ws m v f.
Proof.
  intros Ht Hw.
  assert (E1 : map fn ts = ts).
  { rewrite <- (map_id ts) at 2. apply map_ext_in. exact Ht. }
  assert (E2 : map fn ws = ws).
  { rewrite <- (map_id ws) at 2. apply map_ext_in. exact Hw. }
  transitivity (gh_rule (map fn ts) (map fn ws) m v f); [reflexivity|]. rewrite E1, E2. reflexivity.
Qed.

(* non-vacuity: the two-point rule meets the hypotheses of the mean-value theorems *)
Lemma two_point_mean_hyps :
  length ts2 = length ws2 /\ Forall (fun w => 0 <= w) ws2 /\ @lsum RF ws2 = sqrt PI /\ ts2 <> [].
Proof.
  assert (P : 0 < sqrt PI) by (apply sqrt_lt_R0; exact PI_RGT_0).
  split; [reflexivity|]. split; [|split].
  - unfold ws2. repeat constructor; lra.
  - unfold ws2. cbn [lsum fadd f0 RF]. lra.
  - discriminate.
Qed.
