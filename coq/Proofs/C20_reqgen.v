(* C20 — INNERMOST WINS on the regenerated class table: the obligation [enter_sets_requested]
   (Models/C20_request.v) is COMPUTED for every usable class of Gen/Settings_gen.v (one vm_compute, checked
   by the kernel at Qed) and lifted to all programs, stores and arguments by Proofs/C20_request.v.
   A change of the sources that makes some block establish something else than the documentation table
   [doc_requested] says (wrong default of an omitted argument, None not treated as "keep the outer value",
   a member of a composite not set, a query that no longer reads what the block writes ...) makes
   [req_table] fail to type-check, hence Props/C20.v fail to build. *)
From Coq Require Import List String ZArith Bool.
From GPV Require Import Models.C20_ir Models.C20_check Models.C20_request Models.C20_run Gen.Settings_gen
                        Proofs.C20_scoped Proofs.C20_inner Proofs.C20_request Proofs.C20_gen.
Import ListNotations.
Open Scope string_scope.

Definition req_ok := enter_sets_requested gen_table doc_composites doc_caches doc_requested.
Strategy opaque [gen_table usable class_ok run observe enter_sets_requested].

(* THE computed obligation: every usable class (the installed linear_operator's cholesky_jitter included:
   its defect is in __exit__) establishes what the documentation table requests; in particular the table
   has an entry for every usable class *)
Lemma req_table : map req_ok usable_now = map (fun _ => true) usable_now.
Proof. vm_cast_no_check (eq_refl (map (fun _ : string => true) usable_now)). Qed.

Lemma req_usable : forall c, In c (usable gen_table) -> req_ok c = true.
Proof.
  intros c H. rewrite usable_now_eq in H.
  exact (map_eq_In _ _ req_ok (fun _ => true) usable_now c req_table H).
Qed.

Lemma req_usable_nonempty : forall c, In c (usable gen_table) ->
  enter_sets_requested gen_table doc_composites doc_caches doc_requested c = true /\ doc_requested c <> [].
Proof.
  intros c H. pose proof (req_usable c H) as E. split; [exact E|].
  exact (enter_sets_requested_nonempty gen_table doc_composites doc_caches doc_requested c E).
Qed.

Lemma innermost_requested_gen : forall c args body G G' o tr,
  In c (usable gen_table) ->
  (forall k, In k (prog_classes body) -> In k checked) ->
  run gen_table (PWith c args (PSeq PObserve body)) G = (G', o, tr) ->
  (enters gen_table c args G = false /\ tr = []) \/
  exists s0 tr', tr = s0 :: tr' /\
    (forall k m qa t, In ((k, m, qa), t) (doc_requested c) ->
       observe gen_table s0 k m qa = requested gen_table args G t) /\
    (forall s, In s tr' -> forall k m qa t, In ((k, m, qa), t) (doc_requested c) ->
       ~ In k (footprint doc_composites body) ->
       observe gen_table s k m qa = requested gen_table args G t).
Proof.
  intros c args body G G' o tr Hc Hb Hr.
  exact (inner_requested gen_table doc_composites doc_caches doc_requested c args body G G' o tr
           (req_usable c Hc) (prog_ok_of_classes body Hb) Hr).
Qed.

Lemma innermost_requested_until_gen : forall c args b1 b2 G G' o tr,
  In c (usable gen_table) ->
  (forall k, In k (prog_classes b1) -> In k checked) ->
  run gen_table (PWith c args (PSeq PObserve (PSeq b1 b2))) G = (G', o, tr) ->
  (enters gen_table c args G = false /\ tr = []) \/
  exists s0 tr1 tr2, tr = s0 :: tr1 ++ tr2 /\
    (exists Ga oa, run gen_table b1 s0 = (Ga, oa, tr1)) /\
    (forall k m qa t, In ((k, m, qa), t) (doc_requested c) ->
       observe gen_table s0 k m qa = requested gen_table args G t) /\
    (forall s, In s tr1 -> forall k m qa t, In ((k, m, qa), t) (doc_requested c) ->
       ~ In k (footprint doc_composites b1) ->
       observe gen_table s k m qa = requested gen_table args G t).
Proof.
  intros c args b1 b2 G G' o tr Hc Hb Hr.
  exact (inner_requested_until gen_table doc_composites doc_caches doc_requested c args b1 b2 G G' o tr
           (req_usable c Hc) (prog_ok_of_classes b1 Hb) Hr).
Qed.

(* ------------------------------------------------------------------ readable specialisations *)
(* a flag block with an explicit boolean state *)
Lemma flag_block_gen : forall c b body G G' o tr,
  In c (usable gen_table) -> doc_requested c = req_flag "state" c ->
  run gen_table (PWith c [("state", VK (KBool b))] (PSeq PObserve body)) G = (G', o, tr) ->
  (enters gen_table c [("state", VK (KBool b))] G = false /\ tr = []) \/
  exists s0 tr', tr = s0 :: tr' /\
    observe gen_table s0 c "on" [] = VK (KBool b) /\
    observe gen_table s0 c "off" [] = VK (KBool (negb b)) /\
    observe gen_table s0 c "is_default" [] = VK (KBool false).
Proof.
  intros c b body G G' o tr Hc Hd Hr.
  destruct (run_with_inv2 gen_table _ _ _ _ _ _ _ Hr) as [Hl|[ob [WA [fsA [G2 [r [HA Hb]]]]]]]; [left; exact Hl|right].
  cbn [run] in Hb.
  destruct (run gen_table body (apply_writes (rho gen_table [("state", VK (KBool b))] G G) WA G)) as [[G3 o3] tr3] eqn:E3.
  cbn in Hb. injection Hb as HG Ho Htr.
  eexists. exists tr3. split; [symmetry; exact Htr|].
  assert (Hq : forall m t, In ((c, m, []), t) (req_flag "state" c) ->
            observe gen_table (apply_writes (rho gen_table [("state", VK (KBool b))] G G) WA G) c m []
            = requested gen_table [("state", VK (KBool b))] G t).
  { intros m t Hin. rewrite <- Hd in Hin.
    apply (requested_sound gen_table doc_composites doc_caches doc_requested c _ G ob WA fsA (req_usable c Hc) HA c m [] t _ Hin).
    intros a Ha. reflexivity. }
  assert (Hon : In ((c, "on", []), if_absent "state" (RVal (VK (KBool true)))
                                     (if_none "state" (RVal (outer c "_default")) (RVal (arg "state"))))
                   (req_flag "state" c)) by (left; reflexivity).
  assert (Hoff : In ((c, "off", []), rs_map snot (if_absent "state" (RVal (VK (KBool true)))
                                     (if_none "state" (RVal (outer c "_default")) (RVal (arg "state")))))
                   (req_flag "state" c)) by (right; left; reflexivity).
  assert (Hdef : In ((c, "is_default", []), if_absent "state" (RVal (VK (KBool false)))
                             (if_none "state" (RVal (VK (KBool true))) (RVal (VK (KBool false)))))
                   (req_flag "state" c)) by (right; right; left; reflexivity).
  split; [|split].
  - rewrite (Hq _ _ Hon). rewrite (requested_flag_on gen_table _ G "state" c _ Hon). reflexivity.
  - rewrite (Hq _ _ Hoff). rewrite (requested_flag_off gen_table _ G "state" c _ _ Hoff Hon).
    rewrite (requested_flag_on gen_table _ G "state" c _ Hon). reflexivity.
  - rewrite (Hq _ _ Hdef). rewrite (requested_flag_is_default gen_table _ G "state" c _ Hdef). reflexivity.
Qed.

(* ------------------------------------------------------------------ non-vacuity *)
Lemma ex_debug_is_flag : In "gp.debug" (usable gen_table) /\ doc_requested "gp.debug" = req_flag "state" "gp.debug".
Proof. split; [apply mem_str_In; rewrite usable_now_eq; vm_compute; reflexivity | vm_compute; reflexivity]. Qed.

(* the outer block of ex_prog (fast_pred_var(state=True, num_probe_vectors=7)) enters, its class is usable,
   the classes of its body are checked, and the table requests 7 probe vectors *)
Definition ex_outer_args : list (string * sval) := [("state", VK (KBool true)); ("num_probe_vectors", VK (KNum 7 1))].
Lemma ex_outer_enters :
  In "gp.fast_pred_var" (usable gen_table) /\
  enters gen_table "gp.fast_pred_var" ex_outer_args (init_store gen_table) = true /\
  In (("gp.fast_pred_var", "num_probe_vectors", []), arg_default "num_probe_vectors" (KNum 1 1))
     (doc_requested "gp.fast_pred_var") /\
  requested gen_table ex_outer_args (init_store gen_table) (arg_default "num_probe_vectors" (KNum 1 1)) = VK (KNum 7 1).
Proof.
  split; [apply mem_str_In; rewrite usable_now_eq; vm_compute; reflexivity|].
  split; [vm_compute; reflexivity|].
  split; [vm_compute; right; right; right; left; reflexivity|].
  rewrite requested_arg_default. reflexivity.
Qed.
