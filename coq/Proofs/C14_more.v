(* C14, additional lemmas: NGD-CIQ marginal variances, the log-det part of the whitening change
   of variables for triangular factors, the exact limit of the grid-interpolation strategy,
   delta distributions. *)
From Coq Require Import Arith Lia Ring Field Setoid Morphisms List ZArith QArith Qcanon.
Import ListNotations.
From GPV Require Import Base.LinAlg Base.Exec Models.C14_variational.

Section More.
Context {K : Fld}.
Add Field Ff_c14m : (@FT K).
Local Open Scope fld_scope.

(* ------------------------------------------------------------------ NGD-CIQ variances *)
(* ciq_variational_strategy.py, _ngd() branch: with A = interp_term (m x n) and S the q(u)
   covariance,  predictive_var = diag(Kxx) - (A o A).sum(-2) + ((S A) o A).sum(-2) *)
Definition ciq_ngd_var (m : nat) (A Kxx S : M) (i : nat) : car :=
  Kxx i i - sum m (fun k => A k i * A k i) + sum m (fun k => mmul m S A k i * A k i).

Lemma ciq_ngd_var_is_diag m A Kxx S i :
  ciq_ngd_var m A Kxx S i = wh_cov m A Kxx S i i.
Proof.
  unfold ciq_ngd_var, wh_cov, madd, mmul, mT, msub.
  assert (E : sum m (fun l => A l i * sum m (fun l0 => (S l l0 - mI l l0) * A l0 i))
              = sum m (fun k => sum m (fun l => S k l * A l i) * A k i)
                - sum m (fun k => A k i * A k i)).
  { rewrite <- sum_sub. apply sum_ext. intros k Hk.
    assert (E2 : sum m (fun l0 => (S k l0 - mI k l0) * A l0 i)
                 = sum m (fun l0 => S k l0 * A l0 i) - A k i).
    { transitivity (sum m (fun l0 => S k l0 * A l0 i) - sum m (fun l0 => mI k l0 * A l0 i)).
      - rewrite <- sum_sub. apply sum_ext. intros l _. ring.
      - f_equal. rewrite (sum_single m k); [unfold mI; rewrite Nat.eqb_refl; ring|exact Hk|].
        intros l Hl Hne. unfold mI. destruct (Nat.eqb_spec k l); [congruence|ring]. }
    rewrite E2. ring. }
  rewrite E. ring.
Qed.

(* ------------------------------------------------------------------ triangular log-det *)
Fixpoint prodf (n : nat) (f : nat -> car) : car :=
  match n with
  | O => 1
  | S k => prodf k f * f k
  end.
Definition diag_prod (n : nat) (A : M) : car := prodf n (fun i => A i i).
Definition lower (n : nat) (A : M) : Prop :=
  forall i j, (i < n)%nat -> (j < n)%nat -> (i < j)%nat -> A i j = 0.

Lemma prodf_ext n f g : (forall i, (i < n)%nat -> f i = g i) -> prodf n f = prodf n g.
Proof.
  induction n as [|n IH]; intros H; cbn [prodf]; [reflexivity|].
  rewrite IH by (intros i Hi; apply H; lia). rewrite H by lia. reflexivity.
Qed.

Lemma prodf_mul n f g : prodf n (fun i => f i * g i) = prodf n f * prodf n g.
Proof. induction n as [|n IH]; cbn [prodf]; [ring|]. rewrite IH. ring. Qed.

Lemma lower_mmul n L C : lower n L -> lower n C -> lower n (mmul n L C).
Proof.
  intros HL HC i j Hi Hj Hij. unfold mmul. apply sum_zero. intros k Hk.
  destruct (Nat.lt_ge_cases i k) as [Hik|Hki].
  - rewrite (HL i k) by assumption. ring.
  - rewrite (HC k j) by (try assumption; lia). ring.
Qed.

Lemma lower_mmul_diag n L C i : lower n L -> lower n C -> (i < n)%nat ->
  mmul n L C i i = L i i * C i i.
Proof.
  intros HL HC Hi. unfold mmul. rewrite (sum_single n i); [reflexivity|exact Hi|].
  intros k Hk Hne.
  destruct (Nat.lt_ge_cases i k) as [Hik|Hki].
  - rewrite (HL i k) by assumption. ring.
  - rewrite (HC k i) by (try assumption; lia). ring.
Qed.

(* for lower-triangular L (Cholesky factor of Kzz) and C (factor of S_w): L C is the
   lower-triangular factor of S = L S_w L^T and its diagonal product is the product of the two *)
Lemma triangular_factor_logdet n L C Sw :
  lower n L -> lower n C -> meq n n (mmul n C (mT C)) Sw ->
  lower n (mmul n L C) /\
  meq n n (mmul n (mmul n L C) (mT (mmul n L C))) (unwhiten_cov n L Sw) /\
  diag_prod n (mmul n L C) * diag_prod n (mmul n L C)
  = (diag_prod n L * diag_prod n L) * (diag_prod n C * diag_prod n C).
Proof.
  intros HL HC HS. split; [apply lower_mmul; assumption|]. split.
  - unfold unwhiten_cov.
    transitivity (mmul n (mmul n L C) (mmul n (mT C) (mT L))).
    { apply mmul_compat_r. apply mT_mmul. }
    transitivity (mmul n L (mmul n C (mmul n (mT C) (mT L)))); [apply mmul_assoc|].
    apply mmul_compat_r.
    transitivity (mmul n (mmul n C (mT C)) (mT L)); [symmetry; apply mmul_assoc|].
    apply mmul_compat_l. exact HS.
  - assert (E : diag_prod n (mmul n L C) = diag_prod n L * diag_prod n C).
    { unfold diag_prod. rewrite <- prodf_mul. apply prodf_ext. intros i Hi.
      apply lower_mmul_diag; assumption. }
    rewrite E. ring.
Qed.

(* ------------------------------------------------------------------ grid strategy, exact limit *)
(* an interpolation matrix whose rows are one-hot (inputs at grid nodes: cubic weights are
   exact at nodes, C09 c09_cubic_exact_at_nodes) selects: W m = m[ix], W S W^T = S[ix, ix] *)
Definition onehot_rows (ix : nat -> nat) : M := fun i j => if Nat.eqb j (ix i) then 1 else 0.

Lemma onehot_mean m ix mq i : (ix i < m)%nat ->
  mmul m (onehot_rows ix) mq i O = gather ix (fun x => x) mq i O.
Proof.
  intros H. unfold mmul, onehot_rows, gather.
  rewrite (sum_single m (ix i)); [rewrite Nat.eqb_refl; ring|exact H|].
  intros l Hl Hne. destruct (Nat.eqb_spec l (ix i)); [contradiction|ring].
Qed.

Lemma onehot_cov m ix S i j : (ix i < m)%nat -> (ix j < m)%nat ->
  mmul m (onehot_rows ix) (mmul m S (mT (onehot_rows ix))) i j = gather ix ix S i j.
Proof.
  intros Hi Hj. unfold mmul, onehot_rows, gather, mT.
  rewrite (sum_single m (ix i)); [|exact Hi|].
  - rewrite Nat.eqb_refl.
    rewrite (sum_single m (ix j)); [rewrite Nat.eqb_refl; ring|exact Hj|].
    intros l Hl Hne. destruct (Nat.eqb_spec l (ix j)); [contradiction|ring].
  - intros l Hl Hne. destruct (Nat.eqb_spec l (ix i)); [contradiction|ring].
Qed.

(* ------------------------------------------------------------------ delta distributions *)
(* S = 0: the whitened predictive covariance is Kxx - A^T A, the unwhitened one is the prior
   conditional Kxx - Kxz Kzz^-1 Kzx *)
Lemma delta_whitened_cov m n A Kxx :
  meq n n (wh_cov m A Kxx delta_cov) (msub Kxx (mmul m (mT A) A)).
Proof.
  unfold wh_cov, delta_cov.
  assert (E : meq n n (mmul m (mT A) (mmul m (msub mzero mI) A)) (mopp (mmul m (mT A) A))).
  { transitivity (mmul m (mT A) (mopp A)); [|apply mmul_opp_r].
    apply mmul_compat_r.
    transitivity (msub (mmul m mzero A) (mmul m mI A)); [apply mmul_sub_distr_r|].
    intros i j Hi Hj. unfold msub, mopp.
    rewrite (mmul_zero_l m n m A i j Hi Hj), (mmul_I_l m n A i j Hi Hj). unfold mzero. ring. }
  intros i j Hi Hj. specialize (E i j Hi Hj). unfold madd, msub, mopp in *. rewrite E. ring.
Qed.

Lemma delta_unwhitened_cov m n Kzz Kzx Kxx Kinv :
  is_inverse m Kzz Kinv ->
  meq n n (unwh_cov m Kzz Kzx Kxx Kinv delta_cov)
          (msub Kxx (mmul m (mT Kzx) (mmul m Kinv Kzx))).
Proof.
  intros [H1 H2]. unfold unwh_cov, delta_cov. apply msub_compat; [reflexivity|].
  apply mmul_compat_r.
  transitivity (mmul m Kinv (mmul m Kzz (mmul m Kinv Kzx))).
  { apply mmul_compat_r. apply mmul_compat_l. apply msub_zero_r. }
  apply mmul_compat_r.
  transitivity (mmul m (mmul m Kzz Kinv) Kzx); [symmetry; apply mmul_assoc|].
  transitivity (mmul m mI Kzx); [apply mmul_compat_l; exact H1|apply mmul_I_l].
Qed.

Lemma onehot_selects m ix mq S i j : (ix i < m)%nat -> (ix j < m)%nat ->
  mmul m (onehot_rows ix) mq i O = gather ix (fun x => x) mq i O /\
  mmul m (onehot_rows ix) (mmul m S (mT (onehot_rows ix))) i j = gather ix ix S i j.
Proof. intros Hi Hj. split; [apply onehot_mean|apply onehot_cov]; assumption. Qed.

Lemma delta_covariances m n :
  (forall A Kxx, meq n n (wh_cov m A Kxx delta_cov) (msub Kxx (mmul m (mT A) A))) /\
  (forall Kzz Kzx Kxx Kinv, is_inverse m Kzz Kinv ->
     meq n n (unwh_cov m Kzz Kzx Kxx Kinv delta_cov)
             (msub Kxx (mmul m (mT Kzx) (mmul m Kinv Kzx)))).
Proof. split; [apply delta_whitened_cov|apply delta_unwhitened_cov]. Qed.

End More.

(* non-vacuity: lower-triangular factors over Qc *)
Definition exL : @M QcF := @of_list QcF [[qc 2 1; 0%Qc]; [qc 1 1; qc 1 1]].
Definition exC : @M QcF := @of_list QcF [[qc 1 2; 0%Qc]; [qc 1 3; qc 3 1]].
Lemma ex_lower : @lower QcF 2 exL /\ @lower QcF 2 exC.
Proof.
  split; intros i j Hi Hj Hij;
    (destruct i as [|[|i]]; destruct j as [|[|j]]; try lia; vm_compute; reflexivity).
Qed.
