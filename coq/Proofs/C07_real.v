(* C07 lemmas that need the reals: CosineKernel in d = 1 is a rank-2 Gram matrix, the variance
   clamp and the real standard deviation, the noise lower bound (softplus > 0), and for the
   kernels whose positive-definiteness needs Bochner-type arguments (RBF, Matern, RQ,
   Periodic) the part that is provable here: symmetry, unit diagonal, |k(x,y)| <= k(x,x). *)
From Coq Require Import Arith Lia List Bool Reals Lra QArith Qcanon Qreals.
From GPV Require Import Base.LinAlg Base.Exec Base.Expr Models.C01_posterior Models.C04_fantasy Models.C17_constraints
  Proofs.C17_constraints Models.C07_psd Proofs.C07_psd.
Import ListNotations.
Local Open Scope R_scope.

(* ---- CosineKernel, d = 1: k(x, x') = cos(pi |x - x'| / p)  (cosine_kernel.py) ------------ *)
Definition k_cosine (p : R) (x : nat -> R) : @M RF :=
  fun i j => cos (PI * Rabs (x i - x j) / p).
Definition cosine_feat (p : R) (x : nat -> R) : @M RF :=
  fun i k => match k with O => cos (PI * x i / p) | _ => sin (PI * x i / p) end.

Lemma cos_Rabs z : cos (Rabs z) = cos z.
Proof. unfold Rabs. destruct (Rcase_abs z); [apply cos_neg|reflexivity]. Qed.

Lemma k_cosine_is_gram p x i j : k_cosine p x i j = gram 2 (cosine_feat p x) i j.
Proof.
  unfold k_cosine, gram, mmul, mT, cosine_feat. cbn.
  replace (PI * Rabs (x i - x j) / p) with (Rabs (x i - x j) * (PI / p)) by (unfold Rdiv; ring).
  destruct (Rcase_abs (x i - x j)) as [Hneg|Hpos].
  - rewrite (Rabs_left _ Hneg).
    replace (- (x i - x j) * (PI / p)) with (PI * x j / p - PI * x i / p) by (unfold Rdiv; ring).
    rewrite cos_minus. ring.
  - rewrite (Rabs_right _ Hpos).
    replace ((x i - x j) * (PI / p)) with (PI * x i / p - PI * x j / p) by (unfold Rdiv; ring).
    rewrite cos_minus. ring.
Qed.

Lemma k_cosine_psd n p x : @PSD RF ROrd n (k_cosine p x).
Proof.
  apply (PSD_meq n (gram 2 (cosine_feat p x))).
  - intros i j _ _. symmetry. apply k_cosine_is_gram.
  - apply PSD_gram.
Qed.

(* ---- variance clamp and standard deviation ----------------------------------------------- *)
(* MultivariateNormal.variance = max(diag, min_variance); stddev = sqrt(variance) *)
Definition variance_R (mv d : R) : R := Rmax d mv.
Definition stddev_R (mv d : R) : R := sqrt (variance_R mv d).

Lemma variance_clamped mv d :
  mv <= variance_R mv d /\ d <= variance_R mv d /\ (mv <= d -> variance_R mv d = d).
Proof.
  unfold variance_R. split; [apply Rmax_r|]. split; [apply Rmax_l|].
  intros H. apply Rmax_left. exact H.
Qed.

Lemma stddev_real mv d : 0 <= mv ->
  0 <= stddev_R mv d /\ stddev_R mv d * stddev_R mv d = variance_R mv d.
Proof.
  intros Hmv. unfold stddev_R. split; [apply sqrt_pos|].
  apply sqrt_sqrt. apply Rle_trans with mv; [exact Hmv|apply (variance_clamped mv d)].
Qed.

(* the executable clamp is the real clamp *)
Lemma Q2R'_le a b : (a <= b)%Qc -> Q2R' a <= Q2R' b.
Proof. intros H. unfold Q2R'. apply Qle_Rle. exact H. Qed.

Lemma Qc_max_real a b : Q2R' (Qc_max a b) = Rmax (Q2R' a) (Q2R' b).
Proof.
  unfold Qc_max. destruct (Qc_leb a b) eqn:H.
  - symmetry. apply Rmax_right. apply Q2R'_le. apply Qc_leb_le. exact H.
  - symmetry. apply Rmax_left. apply Q2R'_le. apply Qclt_le_weak. apply Qc_leb_gt. exact H.
Qed.

(* ---- noise >= the constraint's lower bound ------------------------------------------------ *)
(* _HomoskedasticNoiseBase: noise = softplus(raw_noise) + lb  (GreaterThan(lb), default 1e-4) *)
Lemma noise_gt_lower_bound lb raw : Q2R' lb < den (noise_e lb raw).
Proof.
  unfold noise_e. rewrite den_transform.
  exact (transform_range (CGreater lb) (den (EConst raw)) I).
Qed.

(* for every raw value, not only rational ones *)
Lemma noise_R_gt_lower_bound lb (x : R) : Q2R' lb < transform_R (CGreater lb) x.
Proof. exact (transform_range (CGreater lb) x I). Qed.

(* a likelihood adds noise*I: the marginal variance exceeds the latent one by more than lb *)
Lemma marginal_variance_gap lb x v : v + Q2R' lb < v + transform_R (CGreater lb) x.
Proof. pose proof (noise_R_gt_lower_bound lb x). lra. Qed.

(* FixedGaussianNoise: clamp_min(min_fixed_noise) *)
Lemma fixed_noise_ge_min mn d : mn <= Rmax d mn.
Proof. apply Rmax_r. Qed.

(* ---- non-vacuity witnesses ---------------------------------------------------------------- *)
Definition exKJ : @M RF := fun i j => if Nat.eqb i j then 2 else 1.
Definition exS : @M RF := fun _ _ => 1.
Definition exAinv : @M RF := fun _ _ => / 3.

Lemma ex_conditioning_hyps_holds :
  symmetric 1 (train_covar exKJ exS) /\ @PSD RF ROrd 1 (train_covar exKJ exS) /\
  is_inverse 1 (train_covar exKJ exS) exAinv /\
  (0 < msub (Kss 1 exKJ) (post_cov 1 exKJ exAinv) 0%nat 0%nat).
Proof.
  split; [|split; [|split]].
  - intros i j Hi Hj. assert (i = 0)%nat by lia. assert (j = 0)%nat by lia. subst. reflexivity.
  - intros x. unfold qform, bform, train_covar, Kxx, sub, madd, exKJ, exS. cbn.
    pose proof (Rle_0_sqr (x 0%nat)) as H. unfold Rsqr in H. lra.
  - split; intros i j Hi Hj; assert (i = 0)%nat by lia; assert (j = 0)%nat by lia; subst;
      unfold mmul, train_covar, Kxx, sub, madd, exKJ, exS, exAinv, mI; cbn; field.
  - unfold msub, Kss, post_cov, Ksx, sub, mmul, mT, exKJ, exAinv. cbn. lra.
Qed.

(* witnesses for the Schur-complement theorems: n = m = t = 1 *)
Definition ex1 (c : R) : @M RF := fun _ _ => c.
Definition exB : @M RF := bordered 1 (ex1 2) (ex1 1) (ex1 1) (ex1 2).      (* [[2,1],[1,2]] *)
Definition exBinv : @M RF := fun i j => if Nat.eqb i j then 2 / 3 else - (1 / 3).

Ltac two_by_two := intros i j Hi Hj;
  destruct i as [|[|i]]; [| |lia]; (destruct j as [|[|j]]; [| |lia]).

Lemma ex_more_data_hyps_holds :
  symmetric 2 exB /\ @PSD RF ROrd 2 exB /\ is_inverse 1 (ex1 2) (ex1 (/ 2)) /\
  is_inverse 1 (schur 1 (ex1 1) (fant_solve 1 (ex1 (/ 2)) (ex1 1)) (ex1 2)) (ex1 (2 / 3)) /\
  is_inverse 2 exB exBinv.
Proof.
  split; [|split; [|split; [|split]]].
  - two_by_two; reflexivity.
  - intros x. unfold qform, bform, exB, bordered, blk, ex1. cbn.
    pose proof (Rle_0_sqr (x 0%nat + x 1%nat)) as H1. pose proof (Rle_0_sqr (x 0%nat)) as H2.
    pose proof (Rle_0_sqr (x 1%nat)) as H3. unfold Rsqr in *. lra.
  - split; intros i j Hi Hj; assert (i = 0)%nat by lia; assert (j = 0)%nat by lia; subst;
      unfold mmul, ex1, mI; cbn; field.
  - split; intros i j Hi Hj; assert (i = 0)%nat by lia; assert (j = 0)%nat by lia; subst;
      unfold mmul, schur, fant_solve, msub, mmul, ex1, mI; cbn; field.
  - split; two_by_two; unfold mmul, exB, exBinv, bordered, blk, ex1, mI; cbn; field.
Qed.

Lemma ex_posterior_psd_hyps_holds :
  symmetric 2 (joint_obs 1 exKJ exS) /\ @PSD RF ROrd 2 (joint_obs 1 exKJ exS) /\
  is_inverse 1 (train_covar exKJ exS) exAinv.
Proof.
  split; [|split].
  - two_by_two; reflexivity.
  - intros x. unfold qform, bform, joint_obs, exKJ, exS. cbn.
    pose proof (Rle_0_sqr (x 0%nat + x 1%nat)) as H1. pose proof (Rle_0_sqr (x 0%nat)) as H2.
    pose proof (Rle_0_sqr (x 1%nat)) as H3. unfold Rsqr in *. lra.
  - apply ex_conditioning_hyps_holds.
Qed.

(* ---- kernels whose PSD needs Bochner: what IS provable (names end in _partial in Props) ---- *)
Definition sqdist (d : nat) (x y : nat -> R) : R := @sum RF d (fun l => (x l - y l) * (x l - y l)).

Lemma sum_R_nn n f : (forall i, (i < n)%nat -> 0 <= f i) -> 0 <= @sum RF n f.
Proof. exact (@sum_nn RF ROrd n f). Qed.

Lemma sqdist_sym d x y : sqdist d x y = sqdist d y x.
Proof. unfold sqdist. apply (@sum_ext RF). intros l _. cbn. ring. Qed.
Lemma sqdist_self d x : sqdist d x x = 0.
Proof. unfold sqdist. apply (@sum_zero RF). intros l _. cbn. ring. Qed.
Lemma sqdist_nn d x y : 0 <= sqdist d x y.
Proof.
  unfold sqdist. apply sum_R_nn. intros l _.
  pose proof (Rle_0_sqr (x l - y l)) as H. unfold Rsqr in H. exact H.
Qed.

(* a radial profile g with g(0) = 1 and |g| <= 1 on [0, inf) gives a kernel that is symmetric,
   has unit diagonal and is dominated by its diagonal *)
Definition radial (g : R -> R) (d : nat) (x y : nat -> R) : R := g (sqdist d x y).
Definition profile_ok (g : R -> R) : Prop := g 0 = 1 /\ forall r, 0 <= r -> Rabs (g r) <= 1.

Lemma radial_partial g d x y : profile_ok g ->
  radial g d x y = radial g d y x /\ radial g d x x = 1 /\
  Rabs (radial g d x y) <= radial g d x x.
Proof.
  intros [H0 H1]. unfold radial. rewrite (sqdist_sym d y x), sqdist_self, H0.
  split; [reflexivity|]. split; [reflexivity|]. apply H1. apply sqdist_nn.
Qed.

Lemma exp_nonpos_le_1 z : z <= 0 -> Rabs (exp z) <= 1.
Proof.
  intros Hz. rewrite Rabs_right by (left; apply exp_pos).
  destruct Hz as [Hz|Hz]; [left; rewrite <- exp_0; apply exp_increasing; exact Hz|subst; rewrite exp_0; lra].
Qed.

(* RBFKernel: exp(-r^2 / (2 l^2)) *)
Definition g_rbf (l : R) (r2 : R) : R := exp (- r2 / (2 * (l * l))).
Lemma g_rbf_ok l : l <> 0 -> profile_ok (g_rbf l).
Proof.
  intros Hl. assert (0 < 2 * (l * l)) by (assert (0 < l * l) by nra; lra).
  split; unfold g_rbf.
  - replace (- 0 / (2 * (l * l))) with 0 by (field; lra). apply exp_0.
  - intros r Hr. apply exp_nonpos_le_1.
    unfold Rdiv. assert (0 < / (2 * (l * l))) by (apply Rinv_0_lt_compat; assumption). nra.
Qed.

(* MaternKernel nu = 1/2, 3/2, 5/2 with a = sqrt(2 nu) r / l *)
Definition g_matern12 (l r2 : R) : R := exp (- (sqrt r2 / l)).
Definition g_matern32 (l r2 : R) : R := let a := sqrt 3 * sqrt r2 / l in (1 + a) * exp (- a).
Definition g_matern52 (l r2 : R) : R :=
  let a := sqrt 5 * sqrt r2 / l in (1 + a + a * a / 3) * exp (- a).

Lemma scaled_dist_nn c l r2 : 0 <= c -> 0 < l -> 0 <= c * sqrt r2 / l.
Proof.
  intros Hc Hl. unfold Rdiv. pose proof (sqrt_pos r2).
  assert (0 < / l) by (apply Rinv_0_lt_compat; exact Hl).
  assert (0 <= c * sqrt r2) by nra. nra.
Qed.

Lemma exp_ge_1_plus a : 0 <= a -> 1 + a <= exp a.
Proof. intros _. apply exp_ineq1_le. Qed.

Lemma poly_exp_le_1 p a : 0 <= a -> 0 <= p -> p <= exp a -> Rabs (p * exp (- a)) <= 1.
Proof.
  intros Ha Hp Hle. pose proof (exp_pos (- a)) as He.
  rewrite Rabs_right by (apply Rle_ge; nra).
  assert (E : exp a * exp (- a) = 1) by (rewrite <- exp_plus; replace (a + - a) with 0 by ring; apply exp_0).
  nra.
Qed.

Lemma g_matern12_ok l : 0 < l -> profile_ok (g_matern12 l).
Proof.
  intros Hl. split; unfold g_matern12.
  - rewrite sqrt_0. replace (- (0 / l)) with 0 by (field; lra). apply exp_0.
  - intros r Hr. apply exp_nonpos_le_1.
    pose proof (scaled_dist_nn 1 l r ltac:(lra) Hl) as H. unfold Rdiv in *. lra.
Qed.

Lemma g_matern32_ok l : 0 < l -> profile_ok (g_matern32 l).
Proof.
  intros Hl. split; unfold g_matern32; cbn zeta.
  - rewrite sqrt_0. replace (sqrt 3 * 0 / l) with 0 by (field; lra).
    replace (- 0) with 0 by ring. rewrite exp_0. ring.
  - intros r Hr. set (a := sqrt 3 * sqrt r / l).
    assert (Ha : 0 <= a) by (apply scaled_dist_nn; [apply sqrt_pos|exact Hl]).
    apply poly_exp_le_1; [exact Ha|lra|apply exp_ge_1_plus; exact Ha].
Qed.

Lemma exp_ge_cubic a : 0 <= a -> 1 + a + a * a / 3 <= exp a.
Proof.
  intros Ha. pose proof (exp_ge_1_plus (a / 3) ltac:(lra)) as H.
  assert (E : exp a = exp (a / 3) * exp (a / 3) * exp (a / 3)).
  { rewrite <- !exp_plus. f_equal. field. }
  rewrite E. set (e := exp (a / 3)) in *.
  assert (H1 : (1 + a / 3) * (1 + a / 3) <= e * e) by nra.
  assert (H2 : (1 + a / 3) * (1 + a / 3) * (1 + a / 3) <= e * e * e) by nra.
  nra.
Qed.

Lemma g_matern52_ok l : 0 < l -> profile_ok (g_matern52 l).
Proof.
  intros Hl. split; unfold g_matern52; cbn zeta.
  - rewrite sqrt_0. replace (sqrt 5 * 0 / l) with 0 by (field; lra).
    replace (- 0) with 0 by ring. rewrite exp_0. field.
  - intros r Hr. set (a := sqrt 5 * sqrt r / l).
    assert (Ha : 0 <= a) by (apply scaled_dist_nn; [apply sqrt_pos|exact Hl]).
    apply poly_exp_le_1; [exact Ha|nra|apply exp_ge_cubic; exact Ha].
Qed.

(* RQKernel: (1 + r^2 / (2 alpha l^2))^(-alpha) *)
Definition g_rq (alpha l r2 : R) : R := Rpower (1 + r2 / (2 * alpha * (l * l))) (- alpha).
Lemma g_rq_ok alpha l : 0 < alpha -> l <> 0 -> profile_ok (g_rq alpha l).
Proof.
  intros Ha Hl. assert (Hll : 0 < l * l) by nra.
  assert (Hd : 0 < 2 * alpha * (l * l)) by nra.
  split; unfold g_rq, Rpower.
  - replace (1 + 0 / (2 * alpha * (l * l))) with 1 by (field; lra). rewrite ln_1.
    replace (- alpha * 0) with 0 by ring. apply exp_0.
  - intros r Hr. apply exp_nonpos_le_1.
    assert (Hb : 1 <= 1 + r / (2 * alpha * (l * l))).
    { unfold Rdiv. assert (0 < / (2 * alpha * (l * l))) by (apply Rinv_0_lt_compat; exact Hd). nra. }
    assert (Hln : 0 <= ln (1 + r / (2 * alpha * (l * l)))).
    { destruct Hb as [Hb|Hb]; [left; rewrite <- ln_1; apply ln_increasing; lra|rewrite <- Hb, ln_1; lra]. }
    nra.
Qed.

(* PeriodicKernel (one lengthscale, one period): exp(-2 sum_l sin^2(pi (x_l - y_l) / p) / l^2) *)
Definition k_periodic (p l : R) (d : nat) (x y : nat -> R) : R :=
  exp (- 2 * @sum RF d (fun k => sin (PI * (x k - y k) / p) * sin (PI * (x k - y k) / p)) / (l * l)).

Lemma k_periodic_partial p l d x y : l <> 0 ->
  k_periodic p l d x y = k_periodic p l d y x /\ k_periodic p l d x x = 1 /\
  Rabs (k_periodic p l d x y) <= k_periodic p l d x x.
Proof.
  intros Hl. assert (Hll : 0 < l * l) by nra.
  assert (Hself : k_periodic p l d x x = 1).
  { unfold k_periodic. rewrite (@sum_zero RF).
    - cbn. replace (- 2 * 0 / (l * l)) with 0 by (field; lra). apply exp_0.
    - intros k _. cbn. replace (PI * (x k - x k) / p) with 0 by (unfold Rdiv; ring).
      rewrite sin_0. ring. }
  split; [|split; [exact Hself|]].
  - unfold k_periodic. f_equal. f_equal. f_equal. apply (@sum_ext RF). intros k _. cbn.
    replace (PI * (y k - x k) / p) with (- (PI * (x k - y k) / p)) by (unfold Rdiv; ring).
    rewrite sin_neg. ring.
  - rewrite Hself. unfold k_periodic. apply exp_nonpos_le_1.
    assert (Hs : 0 <= @sum RF d (fun k => sin (PI * (x k - y k) / p) * sin (PI * (x k - y k) / p))).
    { apply sum_R_nn. intros k _. pose proof (Rle_0_sqr (sin (PI * (x k - y k) / p))) as H.
      unfold Rsqr in H. exact H. }
    unfold Rdiv. assert (0 < / (l * l)) by (apply Rinv_0_lt_compat; exact Hll). nra.
Qed.
