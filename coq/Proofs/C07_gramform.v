(* C07 lemmas, part 4: every symmetric PSD real matrix is a Gram matrix F F^T with F lower
   triangular (a semi-definite Cholesky factorisation, by induction on the size with the Schur
   complement of the leading entry), hence the FULL Schur product theorem (Hadamard product of
   PSD matrices is PSD) and PSD (x) PSD is PSD for Kronecker products.
   General-purpose material (re-exported by Base/Psd.v): qform_S, qform_rank1_sub,
   psd_has_gram_form, psd_has_cholesky, hadamard_psd, kprod_psd. *)
From Coq Require Import Arith Lia Ring Field Setoid Morphisms List Bool Reals Lra Psatz.
From GPV Require Import Base.LinAlg Base.Exec Base.Expr Models.C07_psd Proofs.C07_psd Proofs.C07_more.
Import ListNotations.

(* ---- peeling the first row / column off a quadratic form (any field) --------------------- *)
Section QformS.
Context {K : Fld}.
Add Field Ff_c07g : (@FT K).
Local Open Scope fld_scope.

Definition tailM (A : M) : M := fun i j => A (Datatypes.S i) (Datatypes.S j).
Definition tailv (x : nat -> car) : nat -> car := fun i => x (Datatypes.S i).

Lemma qform_S n A x :
  qform (Datatypes.S n) A x =
    x O * A O O * x O
    + sum n (fun j => x O * A O (Datatypes.S j) * x (Datatypes.S j))
    + sum n (fun i => x (Datatypes.S i) * A (Datatypes.S i) O * x O)
    + qform n (tailM A) (tailv x).
Proof.
  unfold qform, bform. rewrite sum_S_first.
  rewrite (sum_S_first n (fun j => x O * A O j * x j)).
  assert (E : sum n (fun i => sum (Datatypes.S n) (fun j => x (Datatypes.S i) * A (Datatypes.S i) j * x j))
            = sum n (fun i => x (Datatypes.S i) * A (Datatypes.S i) O * x O)
              + sum n (fun i => sum n (fun j =>
                  x (Datatypes.S i) * A (Datatypes.S i) (Datatypes.S j) * x (Datatypes.S j)))).
  { rewrite <- sum_add. apply sum_ext. intros i _. apply sum_S_first. }
  rewrite E. unfold tailM, tailv. ring.
Qed.

(* x^T (B - c c^T) x = x^T B x - (c . x)^2 *)
Lemma qform_rank1_sub n B (c : nat -> car) y :
  qform n (fun i j => B i j - c i * c j) y
  = qform n B y - sum n (fun i => c i * y i) * sum n (fun i => c i * y i).
Proof.
  unfold qform, bform.
  rewrite <- (sum_mul n n (fun i => c i * y i) (fun i => c i * y i)).
  rewrite <- sum_sub. apply sum_ext. intros i _.
  rewrite <- sum_sub. apply sum_ext. intros j _. ring.
Qed.

(* the Gram matrix of [[s, 0],[c, F]] *)
Definition consF (s : car) (c : nat -> car) (F : M) : M := fun i k =>
  match i, k with
  | O, O => s
  | O, Datatypes.S _ => 0
  | Datatypes.S i', O => c i'
  | Datatypes.S i', Datatypes.S k' => F i' k'
  end.

Lemma gram_consF n s c F i j :
  gram (Datatypes.S n) (consF s c F) i j =
  match i, j with
  | O, O => s * s
  | O, Datatypes.S j' => s * c j'
  | Datatypes.S i', O => c i' * s
  | Datatypes.S i', Datatypes.S j' => c i' * c j' + gram n F i' j'
  end.
Proof.
  unfold gram, mmul, mT. rewrite sum_S_first.
  destruct i as [|i'], j as [|j']; cbn [consF].
  - rewrite sum_zero; [ring|]. intros; ring.
  - rewrite sum_zero; [ring|]. intros; ring.
  - rewrite sum_zero; [ring|]. intros; ring.
  - reflexivity.
Qed.
End QformS.

(* ---- the reals ---------------------------------------------------------------------------- *)
Ltac rf := change (@car RF) with R in *; change (@fadd RF) with Rplus in *;
  change (@fmul RF) with Rmult in *; change (@fsub RF) with Rminus in *;
  change (@fopp RF) with Ropp in *; change (@fdiv RF) with Rdiv in *;
  change (@f0 RF) with 0%R in *; change (@f1 RF) with 1%R in *;
  change (@fle RF ROrd) with Rle in *.

Section RealGram.
Local Open Scope R_scope.
Notation MR := (@M RF).
Notation PSDR := (@PSD RF ROrd).
Notation sumR := (@sum RF).

(* one elimination step: A = [[a, b^T],[b, C]] symmetric PSD  ==>  a = s^2, b = s c and
   C - c c^T is again PSD (a > 0: s = sqrt a, c = b / s;  a = 0 forces b = 0: s = 0, c = 0) *)
Lemma psd_step n (A : MR) :
  symmetric (Datatypes.S n) A -> PSDR (Datatypes.S n) A ->
  exists (s : R) (c : nat -> R),
    s * s = A O O /\ (forall i, (i < n)%nat -> s * c i = A (Datatypes.S i) O) /\
    PSDR n (fun i j => A (Datatypes.S i) (Datatypes.S j) - c i * c j).
Proof.
  intros HS HP.
  assert (Ha : 0 <= A O O).
  { pose proof (@PSD_diag_nn RF ROrd (Datatypes.S n) A O HP ltac:(lia)) as H. rf. exact H. }
  (* the quadratic form on (x0, y) *)
  assert (HQ : forall (x0 : R) (y : nat -> R),
            0 <= x0 * A O O * x0 + 2 * x0 * sumR n (fun i => A (Datatypes.S i) O * y i)
                 + @qform RF n (tailM A) y).
  { intros x0 y.
    pose proof (HP (fun k => match k with O => x0 | Datatypes.S i => y i end)) as H.
    rewrite qform_S in H. rf.
    assert (E1 : sumR n (fun j => x0 * A O (Datatypes.S j) * y j)
                 = x0 * sumR n (fun i => A (Datatypes.S i) O * y i)).
    { rewrite <- (@sum_scale_l RF). apply (@sum_ext RF). intros j Hj. rf.
      rewrite (HS O (Datatypes.S j) ltac:(lia) ltac:(lia)). unfold mT. ring. }
    assert (E2 : sumR n (fun i => y i * A (Datatypes.S i) O * x0)
                 = x0 * sumR n (fun i => A (Datatypes.S i) O * y i)).
    { rewrite <- (@sum_scale_l RF). apply (@sum_ext RF). intros j Hj. rf. ring. }
    rewrite E1, E2 in H.
    change (tailv _) with y in H.
    lra. }
  destruct (Rle_lt_or_eq_dec 0 (A O O) Ha) as [Hpos|Hzero].
  - (* a > 0 *)
    set (a := A O O) in *.
    assert (Hs : sqrt a * sqrt a = a) by (apply sqrt_sqrt; lra).
    assert (Hs0 : sqrt a <> 0) by (intros E; rewrite E in Hs; lra).
    exists (sqrt a), (fun i => A (Datatypes.S i) O / sqrt a).
    split; [exact Hs|]. split; [intros i _; field; exact Hs0|].
    intros y.
    pose proof (@qform_rank1_sub RF n (tailM A) (fun i => A (Datatypes.S i) O / sqrt a) y) as E.
    unfold tailM in E at 1. rf. rewrite E. clear E.
    set (beta := sumR n (fun i => A (Datatypes.S i) O * y i)).
    assert (Eb : sumR n (fun i => A (Datatypes.S i) O / sqrt a * y i) = beta / sqrt a).
    { unfold beta, Rdiv. rewrite Rmult_comm. rewrite <- (@sum_scale_l RF).
      apply (@sum_ext RF). intros i _. rf. ring. }
    rewrite Eb.
    pose proof (HQ (- beta / a) y) as H. fold beta in H.
    replace (beta / sqrt a * (beta / sqrt a)) with (beta * beta / a)
      by (rewrite <- Hs at 1; field; exact Hs0).
    replace (- beta / a * a * (- beta / a) + 2 * (- beta / a) * beta)
      with (- (beta * beta / a)) in H by (field; lra).
    lra.
  - (* a = 0: the first column vanishes *)
    assert (Hb : forall i, (i < n)%nat -> A (Datatypes.S i) O = 0).
    { intros i Hi.
      destruct (Req_dec (A (Datatypes.S i) O) 0) as [E|Hne]; [exact E|exfalso].
      set (b := A (Datatypes.S i) O) in *.
      set (d := A (Datatypes.S i) (Datatypes.S i)).
      pose proof (HQ (- (d + 1) / (2 * b)) (fun k => if Nat.eqb k i then 1 else 0)) as H.
      rewrite <- Hzero in H.
      assert (E1 : sumR n (fun k => A (Datatypes.S k) O * (if Nat.eqb k i then 1 else 0)) = b).
      { rewrite (@sum_single RF n i); [rewrite Nat.eqb_refl; rf; fold b; ring|exact Hi|].
        intros k _ Hk. destruct (Nat.eqb_spec k i); [contradiction|rf; ring]. }
      rewrite E1 in H.
      pose proof (@qform_basis RF n (tailM A) i Hi) as E2. rf. rewrite E2 in H.
      unfold tailM in H. fold d in H.
      replace (- (d + 1) / (2 * b) * 0 * (- (d + 1) / (2 * b)) + 2 * (- (d + 1) / (2 * b)) * b + d)
        with (-1) in H by (field; exact Hne).
      lra. }
    exists 0, (fun _ => 0).
    split; [lra|]. split; [intros i Hi; rewrite (Hb i Hi); ring|].
    intros y.
    pose proof (@qform_rank1_sub RF n (tailM A) (fun _ => 0) y) as E.
    unfold tailM in E at 1. rf. rewrite E. clear E.
    pose proof (HQ 0 y) as H.
    assert (E0 : sumR n (fun i => 0 * y i) = 0) by (apply (@sum_zero RF); intros; rf; ring).
    rewrite E0. lra.
Qed.

(* every symmetric PSD real matrix has a lower-triangular root: A = F F^T
   (Cholesky factorisation, semi-definite case included), all n *)
Theorem psd_has_cholesky n : forall (A : MR),
  symmetric n A -> PSDR n A ->
  exists F : MR, meq n n A (gram n F) /\ (forall i k, (i < k)%nat -> F i k = 0).
Proof.
  induction n as [|n IH]; intros A HS HP.
  - exists (fun _ _ => 0). split; [intros i j Hi; lia|reflexivity].
  - destruct (psd_step n A HS HP) as (s & c & Hss & Hsc & HP').
    destruct (IH (fun i j => A (Datatypes.S i) (Datatypes.S j) - c i * c j)) as (F & HF & Htri).
    + intros i j Hi Hj. unfold mT.
      rewrite (HS (Datatypes.S i) (Datatypes.S j) ltac:(lia) ltac:(lia)). unfold mT. rf. ring.
    + exact HP'.
    + exists (@consF RF s c F). split.
      * intros i j Hi Hj. rewrite gram_consF. rf.
        destruct i as [|i'], j as [|j'].
        -- symmetry; exact Hss.
        -- rewrite (HS O (Datatypes.S j') ltac:(lia) ltac:(lia)). unfold mT.
           symmetry. apply Hsc. lia.
        -- rewrite Rmult_comm. symmetry. apply Hsc. lia.
        -- rewrite <- (HF i' j' ltac:(lia) ltac:(lia)). rf. lra.
      * intros i k Hik. destruct i as [|i'], k as [|k']; cbn [consF]; try lia; try reflexivity.
        apply Htri. lia.
Qed.

Corollary psd_has_gram_form n (A : MR) :
  symmetric n A -> PSDR n A -> exists F : MR, meq n n A (gram n F).
Proof.
  intros HS HP. destruct (psd_has_cholesky n A HS HP) as (F & HF & _). exists F. exact HF.
Qed.

(* a matrix is symmetric PSD iff it is a Gram matrix *)
Corollary psd_iff_gram n (A : MR) :
  (symmetric n A /\ PSDR n A) <-> exists F : MR, meq n n A (gram n F).
Proof.
  split.
  - intros [HS HP]. apply psd_has_gram_form; assumption.
  - intros (F & HF). split.
    + intros i j Hi Hj. unfold mT. rewrite (HF i j Hi Hj), (HF j i Hj Hi).
      unfold gram, mmul, mT. apply (@sum_ext RF). intros; rf; ring.
    + apply (@PSD_meq RF ROrd n (gram n F)); [symmetry; exact HF|apply PSD_gram].
Qed.

(* ---- Schur product theorem ---------------------------------------------------------------- *)
Lemma gram_wgram_ones n (A F : MR) :
  meq n n A (gram n F) -> meq n n A (wgram n F (fun _ => 1)).
Proof.
  intros HF i j Hi Hj. rewrite (HF i j Hi Hj). apply (@gram_is_wgram RF).
Qed.

Theorem hadamard_psd n (A B : MR) :
  symmetric n A -> PSDR n A -> PSDR n B -> PSDR n (k_prod A B).
Proof.
  intros HS HA HB. destruct (psd_has_gram_form n A HS HA) as (F & HF).
  apply (@k_prod_wgram_psd RF ROrd n n F (fun _ => 1) A B).
  - intros k _. rf. lra.
  - apply gram_wgram_ones. exact HF.
  - exact HB.
Qed.

(* Kronecker product of PSD matrices: one of the two factors symmetric *)
Theorem kprod_psd p q (A B : MR) :
  symmetric p A \/ symmetric q B -> PSDR p A -> PSDR q B -> PSDR (p * q) (kprod q A B).
Proof.
  intros [HS|HS] HA HB.
  - destruct (psd_has_gram_form p A HS HA) as (F & HF).
    apply (@kprod_psd_l RF ROrd p q p F (fun _ => 1) A B).
    + intros k _. rf. lra.
    + apply gram_wgram_ones. exact HF.
    + exact HB.
  - destruct (psd_has_gram_form q B HS HB) as (F & HF).
    apply (@kprod_psd_r RF ROrd p q q F (fun _ => 1) A B).
    + intros k _. rf. lra.
    + exact HA.
    + apply gram_wgram_ones. exact HF.
Qed.

(* Hadamard powers of any symmetric PSD matrix *)
Theorem hpow_psd n (A : MR) p : symmetric n A -> PSDR n A -> PSDR n (hpow p A).
Proof.
  intros HS HA. destruct (psd_has_gram_form n A HS HA) as (F & HF).
  apply (@PSD_hpow_wgram RF ROrd n n F (fun _ => 1) A p).
  - intros k _. rf. lra.
  - apply gram_wgram_ones. exact HF.
Qed.

(* ---- non-vacuity: two PSD matrices that are NOT given in Gram form ------------------------- *)
Definition exH : MR := fun i j => if Nat.eqb i j then 2 else 1.        (* [[2,1],[1,2]] *)
Definition exG : MR := fun i j => if Nat.eqb i j then 1 else -1/2.     (* [[1,-1/2],[-1/2,1]] *)

Lemma ex_schur_product_hyps_holds :
  symmetric 2 exH /\ PSDR 2 exH /\ symmetric 2 exG /\ PSDR 2 exG.
Proof.
  split; [|split; [|split]].
  - intros i j Hi Hj. unfold mT, exH. rewrite Nat.eqb_sym. reflexivity.
  - intros x. unfold qform, bform, exH. cbn.
    pose proof (Rle_0_sqr (x 0%nat + x 1%nat)) as H1. pose proof (Rle_0_sqr (x 0%nat)) as H2.
    pose proof (Rle_0_sqr (x 1%nat)) as H3. unfold Rsqr in *. lra.
  - intros i j Hi Hj. unfold mT, exG. rewrite Nat.eqb_sym. reflexivity.
  - intros x. unfold qform, bform, exG. cbn.
    pose proof (Rle_0_sqr (x 0%nat - x 1%nat)) as H1. pose proof (Rle_0_sqr (x 0%nat)) as H2.
    pose proof (Rle_0_sqr (x 1%nat)) as H3. unfold Rsqr in *. lra.
Qed.

End RealGram.
