(* C02 proofs, prior terms: the traversal behind named_priors (memo on modules) yields every
   registration of a module tree exactly once whatever the registration names and prior objects are,
   never yields a (module, name) pair twice when modules are shared; the batch slot of a prior
   term (non-batch module: every entry counts for every batch element; fully batched module: the
   blocks partition the entries). *)
From Coq Require Import Arith Lia Ring Field Setoid Morphisms List Permutation Bool.
From GPV Require Import Base.LinAlg Base.Exec Models.C02_mll Models.C02_priors Proofs.C02_mll.
Import ListNotations.

(* ---- induction over module trees ------------------------------------------------------- *)
Section MtreeInd.
Variable P : mtree -> Prop.
Hypothesis H : forall id ps ch, Forall P ch -> P (MNode id ps ch).
Fixpoint mtree_ind' (t : mtree) : P t :=
  match t with
  | MNode id ps ch =>
      H id ps ch ((fix go (l : list mtree) : Forall P l :=
                     match l with
                     | [] => Forall_nil P
                     | c :: r => Forall_cons c (mtree_ind' c) (go r)
                     end) ch)
  end.
End MtreeInd.

Lemma mem_spec x l : mem x l = true <-> In x l.
Proof.
  unfold mem. rewrite existsb_exists. split.
  - intros [y [Hy E]]. apply Nat.eqb_eq in E. subst. exact Hy.
  - intros Hx. exists x. split; [exact Hx|apply Nat.eqb_refl].
Qed.

Lemma mem_false x l : ~ In x l -> mem x l = false.
Proof. intros Hn. destruct (mem x l) eqn:E; [|reflexivity]. apply mem_spec in E. contradiction. Qed.

Lemma NoDup_app_inv {A} (l1 l2 : list A) :
  NoDup (l1 ++ l2) -> NoDup l1 /\ NoDup l2 /\ (forall x, In x l1 -> ~ In x l2).
Proof.
  induction l1 as [|a l IH]; cbn; intros H.
  - split; [constructor|]. split; [exact H|]. intros ? [].
  - inversion H as [|? ? Hna H']; subst. destruct (IH H') as [A1 [A2 A3]].
    split; [|split].
    + constructor; [|exact A1]. intros Hi. apply Hna. apply in_or_app. left. exact Hi.
    + exact A2.
    + intros x [->|Hx]; [|apply A3; exact Hx]. intros Hi. apply Hna. apply in_or_app. right. exact Hi.
Qed.

(* ---- trees without sharing: every registration, in order -------------------------------- *)
Definition collect_ok (t : mtree) : Prop :=
  forall memo, NoDup (ids t) -> (forall i, In i (ids t) -> ~ In i memo) ->
    fst (collect t memo) = regs t
    /\ (forall i, In i (snd (collect t memo)) <-> In i (ids t) \/ In i memo).

Lemma collect_list_ok ch : Forall collect_ok ch ->
  forall memo, NoDup (flat_map ids ch) -> (forall i, In i (flat_map ids ch) -> ~ In i memo) ->
    fst (collect_list collect ch memo) = flat_map regs ch
    /\ (forall i, In i (snd (collect_list collect ch memo)) <-> In i (flat_map ids ch) \/ In i memo).
Proof.
  induction 1 as [|c r Hc _ IH]; intros memo Hnd Hdis.
  - cbn. split; [reflexivity|]. intros i. tauto.
  - cbn [flat_map] in Hnd, Hdis. cbn [collect_list flat_map].
    destruct (NoDup_app_inv _ _ Hnd) as [Hnd1 [Hnd2 Hnd3]].
    destruct (Hc memo Hnd1) as [E1 M1].
    { intros i Hi. apply Hdis. apply in_or_app. left. exact Hi. }
    destruct (collect c memo) as [o1 m1] eqn:Ec. cbn [fst snd] in E1, M1.
    destruct (IH m1 Hnd2) as [E2 M2].
    { intros i Hi Hm. apply M1 in Hm. destruct Hm as [Hm|Hm].
      - exact (Hnd3 i Hm Hi).
      - apply (Hdis i); [apply in_or_app; right; exact Hi|exact Hm]. }
    destruct (collect_list collect r m1) as [o2 m2] eqn:Er. cbn [fst snd] in E2, M2 |- *.
    split.
    + rewrite E1, E2. reflexivity.
    + intros i. rewrite M2, M1, in_app_iff. tauto.
Qed.

Lemma collect_all_ok : forall t, collect_ok t.
Proof.
  apply mtree_ind'. intros id ps ch Hch memo Hnd Hdis.
  cbn [ids] in Hnd, Hdis. cbn [collect regs ids].
  rewrite (mem_false id memo) by (apply Hdis; left; reflexivity).
  inversion Hnd as [|? ? Hnid Hnd']; subst.
  destruct (collect_list_ok ch Hch (id :: memo) Hnd') as [E M].
  { intros i Hi [->|Hm]; [contradiction|]. apply (Hdis i); [right; exact Hi|exact Hm]. }
  destruct (collect_list collect ch (id :: memo)) as [oc m'] eqn:Ec. cbn [fst snd] in E, M |- *.
  split.
  - rewrite E. reflexivity.
  - intros i. rewrite M. cbn [In]. split.
    + intros [Hi|[->|Hm]]; [left; right; exact Hi|left; left; reflexivity|right; exact Hm].
    + intros [[->|Hi]|Hm]; [right; left; reflexivity|left; exact Hi|right; right; exact Hm].
Qed.

Theorem named_priors_tree_all t : NoDup (ids t) -> named_priors t = regs t.
Proof.
  intros Hnd. unfold named_priors. apply (collect_all_ok t []); [exact Hnd|]. intros i _ [].
Qed.

(* the number of prior terms is the number of registrations *)
Corollary named_priors_tree_count t : NoDup (ids t) -> length (named_priors t) = length (regs t).
Proof. intros H. rewrite (named_priors_tree_all t H). reflexivity. Qed.

(* ---- shared modules: no (module, name) pair twice ---------------------------------------- *)
Fixpoint names_nodup (t : mtree) : Prop :=
  match t with
  | MNode _ ps ch => NoDup (map fst ps) /\ (fix all (l : list mtree) : Prop :=
                                              match l with [] => True | c :: r => names_nodup c /\ all r end) ch
  end.
Definition reg_key (r : reg) : nat * nat := (reg_mod r, reg_name r).

Definition once_ok (t : mtree) : Prop :=
  forall memo, names_nodup t ->
    let '(o, m) := collect t memo in
    NoDup (map reg_key o)
    /\ (forall r, In r o -> ~ In (reg_mod r) memo /\ In (reg_mod r) m)
    /\ (forall i, In i memo -> In i m).

Lemma NoDup_app_disjoint {A} (l1 l2 : list A) :
  NoDup l1 -> NoDup l2 -> (forall x, In x l1 -> ~ In x l2) -> NoDup (l1 ++ l2).
Proof.
  induction l1 as [|a l IH]; intros H1 H2 Hd; [exact H2|].
  cbn. inversion H1 as [|? ? Hna H1']; subst. constructor.
  - rewrite in_app_iff. intros [Hi|Hi]; [contradiction|]. apply (Hd a); [left; reflexivity|exact Hi].
  - apply IH; [exact H1'|exact H2|]. intros x Hx. apply Hd. right. exact Hx.
Qed.

Lemma once_list ch : Forall once_ok ch ->
  forall memo, (fix all (l : list mtree) : Prop := match l with [] => True | c :: r => names_nodup c /\ all r end) ch ->
    let '(o, m) := collect_list collect ch memo in
    NoDup (map reg_key o)
    /\ (forall r, In r o -> ~ In (reg_mod r) memo /\ In (reg_mod r) m)
    /\ (forall i, In i memo -> In i m).
Proof.
  induction 1 as [|c r Hc _ IH]; intros memo Hn.
  - cbn. split; [constructor|]. split; [intros ? []|tauto].
  - destruct Hn as [Hn1 Hn2]. cbn [collect_list].
    specialize (Hc memo Hn1). destruct (collect c memo) as [o1 m1].
    destruct Hc as [N1 [R1 I1]].
    specialize (IH m1 Hn2). destruct (collect_list collect r m1) as [o2 m2].
    destruct IH as [N2 [R2 I2]].
    split; [|split].
    + rewrite map_app. apply NoDup_app_disjoint; [exact N1|exact N2|].
      intros k Hk1 Hk2. apply in_map_iff in Hk1 as [r1 [<- Hr1]]. apply in_map_iff in Hk2 as [r2 [E Hr2]].
      destruct (R1 r1 Hr1) as [_ In1]. destruct (R2 r2 Hr2) as [Nin2 _].
      unfold reg_key in E. inversion E as [[Em En]]. rewrite Em in Nin2. contradiction.
    + intros r0 Hr0. apply in_app_or in Hr0 as [Hr0|Hr0].
      * destruct (R1 r0 Hr0) as [A B]. split; [exact A|apply I2; exact B].
      * destruct (R2 r0 Hr0) as [A B]. split; [|exact B]. intros Hm. apply A. apply I1. exact Hm.
    + intros i Hi. apply I2, I1, Hi.
Qed.

Lemma own_keys_nodup id ps : NoDup (map fst ps) -> NoDup (map reg_key (own_regs id ps)).
Proof.
  unfold own_regs. rewrite map_map.
  induction ps as [|p ps IH]; cbn [map]; intros Hn; [constructor|].
  inversion Hn as [|? ? Hna Hn']; subst. constructor; [|apply IH; exact Hn'].
  intros Hi. apply in_map_iff in Hi as [q [E Hq]]. unfold reg_key, reg_mod, reg_name in E. cbn [fst snd] in E.
  inversion E as [E']. apply Hna. rewrite <- E'. apply in_map. exact Hq.
Qed.

Lemma once_all : forall t, once_ok t.
Proof.
  apply mtree_ind'. intros id ps ch Hch memo Hn. cbn [collect].
  destruct (mem id memo) eqn:Em.
  - split; [constructor|]. split; [intros ? []|tauto].
  - destruct Hn as [Hnames Hn].
    pose proof (once_list ch Hch (id :: memo) Hn) as HL.
    destruct (collect_list collect ch (id :: memo)) as [oc m'].
    destruct HL as [N [R I]].
    assert (Hnid : ~ In id memo) by (intros Hi; apply mem_spec in Hi; congruence).
    split; [|split].
    + rewrite map_app. apply NoDup_app_disjoint.
      * apply own_keys_nodup. exact Hnames.
      * exact N.
      * intros k Hk1 Hk2. apply in_map_iff in Hk1 as [r1 [<- Hr1]]. apply in_map_iff in Hk2 as [r2 [E Hr2]].
        unfold own_regs in Hr1. apply in_map_iff in Hr1 as [p [<- _]].
        destruct (R r2 Hr2) as [Nin _]. unfold reg_key, reg_mod in E. cbn [fst snd] in E.
        apply (f_equal fst) in E. cbn [fst] in E.
        apply Nin. left. unfold reg_mod. symmetry. exact E.
    + intros r0 Hr0. apply in_app_or in Hr0 as [Hr0|Hr0].
      * unfold own_regs in Hr0. apply in_map_iff in Hr0 as [p [<- _]]. unfold reg_mod. cbn.
        split; [exact Hnid|apply I; left; reflexivity].
      * destruct (R r0 Hr0) as [A B]. split; [|exact B]. intros Hm. apply A. right. exact Hm.
    + intros i Hi. apply I. right. exact Hi.
Qed.

Theorem named_priors_once t : names_nodup t -> NoDup (map reg_key (named_priors t)).
Proof.
  intros Hn. unfold named_priors. pose proof (once_all t [] Hn) as H.
  destruct (collect t []) as [o m]. exact (proj1 H).
Qed.

(* ---- batch slots ------------------------------------------------------------------------ *)
Section Slot.
Context {K : Fld}.
Add Field Ff_c02p : (@FT K).
Local Open Scope fld_scope.

Lemma slot_nonbatch (vals : list car) idx : slot_sum [] (length vals) vals idx = csum vals.
Proof.
  unfold slot_sum, slot_offset, block. cbn [length offset lastn]. cbn [Nat.mul skipn].
  rewrite firstn_all. reflexivity.
Qed.

Lemma skipn_add {A} (a b : nat) (l : list A) : skipn (a + b) l = skipn b (skipn a l).
Proof.
  revert l. induction a as [|a IH]; intros l; [reflexivity|].
  destruct l as [|x l]; cbn [Nat.add skipn]; [destruct b; reflexivity|apply IH].
Qed.

Lemma csum_blocks t : forall N (vals : list car), length vals = (N * t)%nat ->
  csum (map (fun k => csum (block t k vals)) (seq 0 N)) = csum vals.
Proof.
  induction N as [|N IH]; intros vals Hl.
  - cbn in Hl. destruct vals; [reflexivity|discriminate].
  - cbn [seq map]. rewrite <- seq_shift, map_map.
    rewrite (map_ext (fun k => csum (block t (S k) vals)) (fun k => csum (block t k (skipn t vals)))).
    + change (csum (?a :: ?l)) with (a + csum l).
      rewrite IH by (rewrite skipn_length; lia).
      unfold block. cbn [Nat.mul skipn]. rewrite <- csum_app, firstn_skipn. reflexivity.
    + intros k. unfold block. cbn [Nat.mul]. rewrite skipn_add. reflexivity.
Qed.

Lemma seq_blocks p : forall s a,
  flat_map (fun i => seq ((a + i) * p) p) (seq 0 s) = seq (a * p) (s * p).
Proof.
  induction s as [|s IH]; intros a; [reflexivity|].
  rewrite seq_S, flat_map_app, IH. cbn [flat_map Nat.add]. rewrite app_nil_r.
  replace (S s * p)%nat with (s * p + p)%nat by lia. rewrite seq_app.
  replace (a * p + s * p)%nat with ((a + s) * p)%nat by lia. reflexivity.
Qed.

Lemma flat_map_ext_in {A B} (f g : A -> list B) l :
  (forall a, In a l -> f a = g a) -> flat_map f l = flat_map g l.
Proof.
  induction l as [|a l IH]; intros H; [reflexivity|]. cbn [flat_map].
  rewrite (H a) by (left; reflexivity). rewrite IH; [reflexivity|]. intros b Hb. apply H. right. exact Hb.
Qed.

Lemma offset_all : forall F acc,
  map (fun idx => offset F idx acc) (all_idx F) = seq (acc * prodn F) (prodn F).
Proof.
  induction F as [|s F IH]; intros acc.
  - cbn. rewrite Nat.mul_1_r. reflexivity.
  - cbn [all_idx prodn fold_right]. fold (prodn F).
    rewrite flat_map_concat_map, concat_map, map_map, <- flat_map_concat_map.
    rewrite (flat_map_ext_in _ (fun i => seq ((acc * s + i) * prodn F) (prodn F))).
    + rewrite seq_blocks. f_equal. lia.
    + intros i Hi. apply in_seq in Hi. rewrite map_map. cbn [offset].
      rewrite IH. destruct (Nat.eqb_spec s 1) as [->|Hs]; [|reflexivity].
      (* a dimension of size one: its only index is 0 *)
      replace i with 0%nat by lia. reflexivity.
Qed.

Lemma all_idx_length F : forall idx, In idx (all_idx F) -> length idx = length F.
Proof.
  induction F as [|s F IH]; intros idx Hi.
  - destruct Hi as [<-|[]]. reflexivity.
  - cbn [all_idx] in Hi. apply in_flat_map in Hi as [i [_ Hi]]. apply in_map_iff in Hi as [r [<- Hr]].
    cbn [length]. rewrite (IH r Hr). reflexivity.
Qed.

(* fully batched module (P = the objective's batch shape): the blocks of the batch elements partition
   the entries of the prior term -- every entry counts for exactly one element *)
Lemma slot_partition F tail (vals : list car) : length vals = (prodn F * tail)%nat ->
  csum (map (slot_sum F tail vals) (all_idx F)) = csum vals.
Proof.
  intros Hl. rewrite <- (csum_blocks tail (prodn F) vals Hl).
  pose proof (offset_all F 0) as Ho. cbn [Nat.mul] in Ho. rewrite <- Ho, map_map. f_equal.
  apply map_ext_in. intros idx Hi. unfold slot_sum, slot_offset, lastn.
  rewrite (all_idx_length F idx Hi), Nat.sub_diag. reflexivity.
Qed.

(* a module batch shape made of ones only behaves like a non-batch module *)
Lemma offset_ones : forall P idx acc, Forall (fun s => s = 1%nat) P -> offset P idx acc = acc.
Proof.
  induction P as [|s P IH]; intros idx acc H; [reflexivity|].
  inversion H as [|? ? Hs HP]; subst. destruct idx as [|i idx]; [reflexivity|].
  cbn [offset Nat.eqb]. rewrite IH by exact HP. lia.
Qed.

Lemma slot_ones P (vals : list car) idx : Forall (fun s => s = 1%nat) P ->
  slot_sum P (length vals) vals idx = csum vals.
Proof.
  intros H. unfold slot_sum, slot_offset, block. rewrite (offset_ones P _ 0 H).
  cbn [Nat.mul skipn]. rewrite firstn_all. reflexivity.
Qed.

End Slot.

(* ---- the rule of /repo (memo on prior objects) drops a registration ------------------------ *)
Lemma by_prior_object_drops :
  exists t, NoDup (ids t) /\ names_nodup t /\ (length (fst (collect_by_prior t [])) < length (regs t))%nat.
Proof.
  exists (MNode 0 [] [MNode 1 [(0, 7)] []; MNode 2 [(0, 7)] []])%nat.
  split; [|split].
  - repeat constructor; cbn; intuition discriminate.
  - cbn. repeat split; repeat constructor; cbn; intuition.
  - vm_compute. lia.
Qed.

Lemma by_module_keeps_example :
  named_priors (MNode 0 [] [MNode 1 [(0, 7)] []; MNode 2 [(0, 7)] []])%nat = [(1, 0, 7); (2, 0, 7)]%nat.
Proof. reflexivity. Qed.
