From Coq Require Import Arith Lia Ring Field Setoid Morphisms List ZArith QArith Qcanon.
From GPV Require Import Base.LinAlg Base.Exec Models.C01_posterior Proofs.C01_posterior
  Models.C09_structured.
Import ListNotations.

Section Proofs.
Context {K : Fld}.
Add Field Ff_c09 : (@FT K).
Local Open Scope fld_scope.

(* ================================================================== cubic interpolation *)

Lemma cubic_sum_one t : (1 + 1 : car) <> 0 ->
  cubic_w t 0 + cubic_w t 1 + cubic_w t 2 + cubic_w t 3 = 1.
Proof. intros H. unfold cubic_w, keys_inner, keys_outer, half, two. field. exact H. Qed.

Lemma cubic_at_node : (1 + 1 : car) <> 0 ->
  cubic_w 0 0 = 0 /\ cubic_w 0 1 = 1 /\ cubic_w 0 2 = 0 /\ cubic_w 0 3 = 0.
Proof.
  intros H. unfold cubic_w, keys_inner, keys_outer, half, two.
  repeat split; field; exact H.
Qed.

(* the two branches of the Keys kernel agree where they meet (|s| = 1) and the outer one
   vanishes at |s| = 2: the choice of branch at the break points is immaterial *)
Lemma keys_branches_meet : (1 + 1 : car) <> 0 ->
  keys_inner 1 = 0 /\ keys_outer 1 = 0 /\ keys_outer two = 0 /\ keys_inner 0 = 1.
Proof.
  intros H. unfold keys_inner, keys_outer, half, two. repeat split; field; exact H.
Qed.

Lemma fnat_add a b : fnat (a + b) = fnat a + fnat b.
Proof. induction a as [|a IH]; cbn [fnat Nat.add]; [ring|]. rewrite IH. ring. Qed.

(* reproduction of 1, x, x^2 in offset coordinates: nodes at -1, 0, 1, 2 *)
Lemma cubic_linear t : (1 + 1 : car) <> 0 ->
  cubic_w t 0 * node_off 0 + cubic_w t 1 * node_off 1 + cubic_w t 2 * node_off 2
    + cubic_w t 3 * node_off 3 = t.
Proof.
  intros H. unfold cubic_w, node_off, keys_inner, keys_outer, half, two. cbn [fnat].
  field. exact H.
Qed.

Lemma cubic_quadratic t : (1 + 1 : car) <> 0 ->
  cubic_w t 0 * (node_off 0 * node_off 0) + cubic_w t 1 * (node_off 1 * node_off 1)
    + cubic_w t 2 * (node_off 2 * node_off 2) + cubic_w t 3 * (node_off 3 * node_off 3) = t * t.
Proof.
  intros H. unfold cubic_w, node_off, keys_inner, keys_outer, half, two. cbn [fnat].
  field. exact H.
Qed.

(* on an actual equispaced grid x_k = x0 + k h: a point x = x_{lo+1} + t h, interpolated from the
   nodes lo .. lo+3, reproduces every quadratic polynomial exactly *)
Lemma cubic_reproduces_quadratics x0 h t lo a b c : (1 + 1 : car) <> 0 ->
  let p := fun z => a + b * z + c * (z * z) in
  let x := equi x0 h (lo + 1) + t * h in
  cubic_w t 0 * p (equi x0 h (lo + 0)) + cubic_w t 1 * p (equi x0 h (lo + 1))
   + cubic_w t 2 * p (equi x0 h (lo + 2)) + cubic_w t 3 * p (equi x0 h (lo + 3)) = p x.
Proof.
  intros H p x. subst p x. unfold equi. rewrite !fnat_add.
  unfold cubic_w, keys_inner, keys_outer, half, two. cbn [fnat].
  field. exact H.
Qed.

Lemma onehot_sum_one c : (c < 4)%nat -> onehot c 0 + onehot c 1 + onehot c 2 + onehot c 3 = 1.
Proof.
  intros Hc. unfold onehot.
  destruct c as [|[|[|[|c]]]]; cbn [Nat.eqb]; try ring. lia.
Qed.
Lemma onehot_apply c (f : nat -> car) : (c < 4)%nat ->
  onehot c 0 * f 0%nat + onehot c 1 * f 1%nat + onehot c 2 * f 2%nat + onehot c 3 * f 3%nat = f c.
Proof.
  intros Hc. unfold onehot.
  destruct c as [|[|[|[|c]]]]; cbn [Nat.eqb]; try ring. lia.
Qed.

(* ---- d dimensions: weights multiply *)

Lemma entries_apply_app l1 l2 f :
  entries_apply (l1 ++ l2) f = entries_apply l1 f + entries_apply l2 f.
Proof.
  unfold entries_apply. induction l1 as [|e l1 IH]; cbn [fold_right app]; [ring|].
  rewrite IH. ring.
Qed.

Lemma entries_apply_cons_map k w l (f : list nat -> car) :
  entries_apply (map (fun e => (k :: fst e, w * snd e)) l) f
  = w * entries_apply l (fun ks => f (k :: ks)).
Proof.
  unfold entries_apply. induction l as [|e l IH]; cbn [fold_right map fst snd]; [ring|].
  rewrite IH. ring.
Qed.

(* separable function prod_i f_i(k_i) *)
Fixpoint sep (fs : list (nat -> car)) (ks : list nat) : car :=
  match fs, ks with
  | f :: fr, k :: kr => f k * sep fr kr
  | _, _ => 1
  end.
Fixpoint dim_products (dims : list (nat * (nat -> car))) (fs : list (nat -> car)) : car :=
  match dims, fs with
  | (lo, w) :: dr, f :: fr =>
      (w 0%nat * f (lo + 0)%nat + w 1%nat * f (lo + 1)%nat + w 2%nat * f (lo + 2)%nat
       + w 3%nat * f (lo + 3)%nat) * dim_products dr fr
  | _, _ => 1
  end.

Lemma entries_apply_ext l f g : (forall ks, f ks = g ks) ->
  entries_apply l f = entries_apply l g.
Proof.
  intros H. unfold entries_apply. induction l as [|e l IH]; cbn [fold_right]; [reflexivity|].
  rewrite IH, H. reflexivity.
Qed.

Lemma entries_apply_scale l c (f : list nat -> car) :
  entries_apply l (fun ks => c * f ks) = c * entries_apply l f.
Proof.
  unfold entries_apply. induction l as [|e l IH]; cbn [fold_right]; [ring|]. rewrite IH. ring.
Qed.

Lemma interp_entries_separable dims : forall fs, length fs = length dims ->
  entries_apply (interp_entries dims) (sep fs) = dim_products dims fs.
Proof.
  induction dims as [|[lo w] dr IH]; intros fs Hl.
  - destruct fs; [|discriminate]. unfold entries_apply. cbn. ring.
  - destruct fs as [|f fr]; [discriminate|]. cbn [length] in Hl.
    cbn [interp_entries dim_products seq flat_map].
    rewrite !entries_apply_app. rewrite !entries_apply_cons_map.
    cbn [sep]. rewrite !entries_apply_scale. rewrite IH by lia.
    unfold entries_apply at 1. cbn [fold_right]. ring.
Qed.

Lemma entries_total_apply l : entries_total l = entries_apply l (fun _ => 1).
Proof.
  unfold entries_total, entries_apply. induction l as [|e l IH]; cbn [fold_right]; [reflexivity|].
  rewrite IH. ring.
Qed.

Definition sums_to_one (w : nat -> car) : Prop := w 0%nat + w 1%nat + w 2%nat + w 3%nat = 1.

Lemma interp_entries_total_one dims :
  Forall (fun d => sums_to_one (snd d)) dims -> entries_total (interp_entries dims) = 1.
Proof.
  intros H. rewrite entries_total_apply.
  rewrite (entries_apply_ext _ _ (sep (map (fun _ => fun _ => 1) dims))).
  2:{ intros ks. clear H. revert ks. induction dims as [|d dr IH]; intros ks; [reflexivity|].
      cbn [map sep]. destruct ks as [|k kr]; [reflexivity|]. rewrite <- IH. ring. }
  rewrite interp_entries_separable by (rewrite map_length; reflexivity).
  induction H as [|[lo w] dr Hw _ IH]; [reflexivity|].
  cbn [map dim_products]. rewrite IH. cbn [snd] in Hw. unfold sums_to_one in Hw.
  transitivity ((w 0%nat + w 1%nat + w 2%nat + w 3%nat) * 1); [ring|]. rewrite Hw. ring.
Qed.

(* ================================================================== flat indices *)

Lemma prodn_pos gs ks : valid_multi gs ks -> (0 < prodn gs)%nat.
Proof.
  revert ks. induction gs as [|g gr IH]; intros ks H; cbn [prodn fold_right]; [lia|].
  destruct ks as [|k kr]; [contradiction|]. destruct H as [Hk Hr].
  specialize (IH kr Hr). unfold prodn in IH. nia.
Qed.

Lemma lex_index_lt gs : forall ks, valid_multi gs ks -> (lex_index gs ks < prodn gs)%nat.
Proof.
  induction gs as [|g gr IH]; intros ks H.
  - destruct ks; [cbn; lia|contradiction].
  - destruct ks as [|k kr]; [contradiction|]. destruct H as [Hk Hr].
    specialize (IH kr Hr). cbn [lex_index prodn fold_right]. unfold prodn in *. nia.
Qed.

Lemma colmajor_index_lt gs : forall ks, valid_multi gs ks -> (colmajor_index gs ks < prodn gs)%nat.
Proof.
  induction gs as [|g gr IH]; intros ks H.
  - destruct ks; [cbn; lia|contradiction].
  - destruct ks as [|k kr]; [contradiction|]. destruct H as [Hk Hr].
    specialize (IH kr Hr). cbn [colmajor_index prodn fold_right]. unfold prodn in *. nia.
Qed.

Lemma colmajor_sum_spec gs : forall acc ks,
  colmajor_sum acc gs ks = (acc * colmajor_index gs ks)%nat.
Proof.
  induction gs as [|g gr IH]; intros acc ks; cbn [colmajor_sum colmajor_index]; [lia|].
  destruct ks as [|k kr]; [lia|]. rewrite IH. ring.
Qed.

Lemma divmod_lo k g r : (k < g)%nat -> ((k + g * r) mod g = k /\ (k + g * r) / g = r)%nat.
Proof.
  intros Hk. split.
  - rewrite Nat.mul_comm, Nat.mod_add by lia. apply Nat.mod_small; exact Hk.
  - rewrite Nat.mul_comm, Nat.div_add by lia. rewrite Nat.div_small by exact Hk. lia.
Qed.
Lemma divmod_hi k p r : (r < p)%nat -> ((k * p + r) / p = k /\ (k * p + r) mod p = r)%nat.
Proof.
  intros Hr. split.
  - rewrite Nat.add_comm, Nat.div_add by lia. rewrite Nat.div_small by exact Hr. lia.
  - rewrite Nat.add_comm, Nat.mod_add by lia. apply Nat.mod_small; exact Hr.
Qed.

(* decoding: the row of create_data_from_grid at the column-major index of ks holds ks *)
Lemma colmajor_digits_index gs : forall ks, valid_multi gs ks ->
  colmajor_digits gs (colmajor_index gs ks) = ks.
Proof.
  induction gs as [|g gr IH]; intros ks H.
  - destruct ks; [reflexivity|contradiction].
  - destruct ks as [|k kr]; [contradiction|]. destruct H as [Hk Hr].
    cbn [colmajor_digits colmajor_index].
    destruct (divmod_lo k g (colmajor_index gr kr) Hk) as [E1 E2].
    rewrite E1, E2, IH by exact Hr. reflexivity.
Qed.
Lemma lex_digits_index gs : forall ks, valid_multi gs ks ->
  lex_digits gs (lex_index gs ks) = ks.
Proof.
  induction gs as [|g gr IH]; intros ks H.
  - destruct ks; [reflexivity|contradiction].
  - destruct ks as [|k kr]; [contradiction|]. destruct H as [Hk Hr].
    cbn [lex_digits lex_index].
    destruct (divmod_hi k (prodn gr) (lex_index gr kr) (lex_index_lt gr kr Hr)) as [E1 E2].
    rewrite E1, E2, IH by exact Hr. reflexivity.
Qed.

Lemma grid_data_row_colmajor (grids : list (nat -> car)) gs ks :
  valid_multi gs ks ->
  grid_data_row grids gs (colmajor_index gs ks) = map (fun gk => fst gk (snd gk)) (combine grids ks).
Proof. intros H. unfold grid_data_row. rewrite colmajor_digits_index by exact H. reflexivity. Qed.

(* ---- Kronecker chains *)

Lemma kron_entry p q A B i j a b : (a < p)%nat -> (b < q)%nat ->
  kron p q A B (i * p + a)%nat (j * q + b)%nat = A i j * B a b.
Proof.
  intros Ha Hb. unfold kron.
  destruct (divmod_hi i p a Ha) as [E1 E2]. destruct (divmod_hi j q b Hb) as [E3 E4].
  rewrite E1, E2, E3, E4. reflexivity.
Qed.

(* K_0 kron ... kron K_{d-1} is addressed by the lexicographic index *)
Lemma kron_chain_lex fs : forall ks ls,
  valid_multi (map fst fs) ks -> valid_multi (map fst fs) ls ->
  kron_chain fs (lex_index (map fst fs) ks) (lex_index (map fst fs) ls) = prod_entry fs ks ls.
Proof.
  induction fs as [|[g A] r IH]; intros ks ls Hk Hl.
  - destruct ks, ls; try contradiction. reflexivity.
  - destruct ks as [|k kr]; [contradiction|]. destruct ls as [|l lr]; [contradiction|].
    cbn [map fst] in Hk, Hl. destruct Hk as [Hk Hkr]. destruct Hl as [Hl Hlr].
    cbn [kron_chain map fst lex_index prod_entry].
    rewrite kron_entry by (apply lex_index_lt; assumption).
    rewrite IH by assumption. reflexivity.
Qed.

(* appending a factor at the END of the chain makes it the fastest index *)
Lemma prodn_app a : forall b, prodn (a ++ b) = (prodn a * prodn b)%nat.
Proof.
  unfold prodn. induction a as [|y a IHa]; intros b; cbn [app fold_right]; [lia|].
  rewrite IHa. ring.
Qed.
Lemma prodn_rev xs : prodn (rev xs) = prodn xs.
Proof.
  induction xs as [|x xs IHx]; [reflexivity|]. cbn [rev].
  rewrite prodn_app, IHx. unfold prodn. cbn [fold_right]. ring.
Qed.

Lemma kron_chain_snoc l g A : (0 < g)%nat -> (0 < prodn (map fst l))%nat -> forall i j,
  (i < prodn (map fst l) * g)%nat -> (j < prodn (map fst l) * g)%nat ->
  kron_chain (l ++ [(g, A)]) i j = kron_chain l (i / g)%nat (j / g)%nat * A (i mod g)%nat (j mod g)%nat.
Proof.
  intros Hg. induction l as [|[h B] l IH]; intros HP i j Hi Hj.
  - cbn [app kron_chain map fst prodn fold_right] in *. unfold kron.
    rewrite !Nat.div_1_r. rewrite (Nat.mod_small i g), (Nat.mod_small j g) by lia. ring.
  - cbn [map fst prodn fold_right] in HP.
    assert (HPl : (0 < prodn (map fst l))%nat) by (unfold prodn in *; nia).
    cbn [app kron_chain]. rewrite map_app. cbn [map fst].
    rewrite prodn_app. cbn [prodn fold_right]. rewrite Nat.mul_1_r.
    set (P := prodn (map fst l)) in *.
    unfold kron at 1.
    rewrite IH; [|exact HPl|apply Nat.mod_upper_bound; nia|apply Nat.mod_upper_bound; nia].
    unfold kron.
    assert (D : forall x, (x / (P * g) = x / g / P)%nat).
    { intros x. rewrite Nat.div_div by lia. f_equal. lia. }
    assert (Md : forall x, ((x mod (P * g)) / g = (x / g) mod P)%nat).
    { intros x. rewrite (Nat.mul_comm P g). rewrite Nat.mod_mul_r by lia.
      rewrite (Nat.mul_comm g), Nat.div_add by lia.
      rewrite Nat.div_small by (apply Nat.mod_upper_bound; lia). lia. }
    assert (Mm : forall x, ((x mod (P * g)) mod g = x mod g)%nat).
    { intros x. rewrite (Nat.mul_comm P g). rewrite Nat.mod_mul_r by lia.
      rewrite (Nat.mul_comm g), Nat.mod_add by lia. apply Nat.mod_mod. lia. }
    rewrite !D, !Md, !Mm. ring.
Qed.

(* GridKernel's K_{d-1} kron ... kron K_0 is addressed by the column-major index, i.e. by the
   rows of create_data_from_grid *)
Lemma grid_kernel_kron_colmajor fs : forall ks ls,
  valid_multi (map fst fs) ks -> valid_multi (map fst fs) ls ->
  grid_kernel_kron fs (colmajor_index (map fst fs) ks) (colmajor_index (map fst fs) ls)
  = prod_entry fs ks ls.
Proof.
  unfold grid_kernel_kron.
  induction fs as [|[g A] r IH]; intros ks ls Hk Hl.
  - destruct ks, ls; try contradiction. reflexivity.
  - destruct ks as [|k kr]; [contradiction|]. destruct ls as [|l lr]; [contradiction|].
    cbn [map fst] in Hk, Hl. destruct Hk as [Hk Hkr]. destruct Hl as [Hl Hlr].
    cbn [rev map fst colmajor_index prod_entry].
    assert (EP : prodn (map fst (rev r)) = prodn (map fst r)) by (rewrite map_rev; apply prodn_rev).
    assert (HP : (0 < prodn (map fst r))%nat) by (apply (prodn_pos _ kr); exact Hkr).
    pose proof (colmajor_index_lt _ _ Hkr) as Bk. pose proof (colmajor_index_lt _ _ Hlr) as Bl.
    rewrite kron_chain_snoc; [|lia|lia|rewrite EP; nia|rewrite EP; nia].
    destruct (divmod_lo k g (colmajor_index (map fst r) kr) Hk) as [E1 E2].
    destruct (divmod_lo l g (colmajor_index (map fst r) lr) Hl) as [E3 E4].
    rewrite E1, E2, E3, E4, IH by assumption. ring.
Qed.

(* ---- Toeplitz: a stationary (even) kernel on an equispaced grid *)

Lemma toeplitz_stationary (kappa : car -> car) x0 h n :
  (forall z, kappa (- z) = kappa z) ->
  meq n n (stationary_gram kappa (equi x0 h))
          (toeplitz (toeplitz_first_row kappa (equi x0 h))).
Proof.
  intros Heven i j _ _. unfold stationary_gram, toeplitz, toeplitz_first_row, equi.
  destruct (Nat.leb_spec j i) as [Hji|Hji].
  - replace i with ((i - j) + j)%nat at 1 by lia. rewrite fnat_add.
    rewrite <- Heven. f_equal. cbn [fnat]. ring.
  - replace j with ((j - i) + i)%nat at 1 by lia. rewrite fnat_add.
    f_equal. cbn [fnat]. ring.
Qed.

(* ================================================================== multitask kernels *)

Lemma multitask_entry t r Kx F v i j a b : (a < t)%nat -> (b < t)%nat ->
  multitask_kernel t r Kx F v (i * t + a)%nat (j * t + b)%nat
  = Kx i j * (sum r (fun l => F a l * F b l) + (if Nat.eqb a b then v a else 0)).
Proof.
  intros Ha Hb. unfold multitask_kernel. rewrite kron_entry by assumption.
  unfold index_covar, madd, mmul, mT, mdiag. reflexivity.
Qed.

Lemma index_kernel_entry r F v i1 i2 a b :
  index_kernel r F v i1 i2 a b
  = sum r (fun l => F (i1 a) l * F (i2 b) l) + (if Nat.eqb (i1 a) (i2 b) then v (i1 a) else 0).
Proof. reflexivity. Qed.

Lemma hadamard_entry r Kx F v i1 i2 a b :
  hadamard_multitask r Kx F v i1 i2 a b
  = Kx a b * (sum r (fun l => F (i1 a) l * F (i2 b) l)
              + (if Nat.eqb (i1 a) (i2 b) then v (i1 a) else 0)).
Proof. reflexivity. Qed.

Fixpoint lcm_entry (terms : list (nat * M * M * (nat -> car))) (i j a b : nat) : car :=
  match terms with
  | [] => 0
  | (r, Kx, F, v) :: rest =>
      Kx i j * (sum r (fun l => F a l * F b l) + (if Nat.eqb a b then v a else 0))
      + lcm_entry rest i j a b
  end.
Lemma lcm_kernel_entry t terms i j a b : (a < t)%nat -> (b < t)%nat ->
  lcm_kernel t terms (i * t + a)%nat (j * t + b)%nat = lcm_entry terms i j a b.
Proof.
  intros Ha Hb. induction terms as [|[[[r Kx] F] v] rest IH]; [reflexivity|].
  cbn [lcm_kernel lcm_entry]. unfold madd at 1. rewrite IH, multitask_entry by assumption.
  reflexivity.
Qed.

(* mixed product: (A kron B)(C kron D) = (A C) kron (B D) *)
Lemma sum_mul n p (f : nat -> car) :
  sum (n * p) f = sum n (fun i => sum p (fun a => f (i * p + a)%nat)).
Proof.
  induction n as [|n IH]; [reflexivity|].
  replace (S n * p)%nat with (n * p + p)%nat by lia. rewrite sum_split, IH. cbn [sum]. reflexivity.
Qed.
Lemma kron_mixed_product p q s n k A B C D : (0 < s)%nat ->
  meq (n * p) (k * q) (mmul (n * s) (kron p s A B) (kron s q C D))
                      (kron p q (mmul n A C) (mmul s B D)).
Proof.
  intros Hs i j _ _. unfold mmul at 1. rewrite sum_mul.
  unfold kron, mmul. rewrite <- sum_scale_r.
  apply sum_ext. intros x _. rewrite <- sum_scale_l.
  apply sum_ext. intros y Hy.
  destruct (divmod_hi x s y Hy) as [E1 E2]. rewrite E1, E2. ring.
Qed.

(* ================================================================== roots, Nystrom *)

Lemma root_sandwich a b n r B C R Ainv :
  meq n n (mmul r R (mT R)) Ainv ->
  meq a b (mmul r (mmul n B R) (mT (mmul n C R))) (mmul n B (mmul n Ainv (mT C))).
Proof.
  intros HR.
  transitivity (mmul r (mmul n B R) (mmul n (mT R) (mT C))).
  { apply mmul_compat_r. apply mT_mmul. }
  transitivity (mmul n B (mmul r R (mmul n (mT R) (mT C)))).
  { apply mmul_assoc. }
  apply mmul_compat_r.
  transitivity (mmul n (mmul r R (mT R)) (mT C)).
  { symmetry. apply mmul_assoc. }
  apply mmul_compat_l. exact HR.
Qed.

(* InducingPointKernel: with ANY root R of K_zz^-1 the low-rank form is the Nystrom matrix *)
Lemma nystrom_root_correct a b m r Kxz Kyz R Kzzi :
  meq m m (mmul r R (mT R)) Kzzi ->
  meq a b (nystrom_root m r Kxz Kyz R) (nystrom m Kxz Kzzi Kyz).
Proof. intros HR. unfold nystrom_root, nystrom. apply root_sandwich. exact HR. Qed.

(* ================================================================== Woodbury / SGPR *)

Lemma woodbury n m R D Di Ci :
  is_inverse n D Di -> is_inverse m (woodbury_inner n m R Di) Ci ->
  is_inverse n (madd (mmul m R (mT R)) D) (woodbury_inverse n m R Di Ci).
Proof.
  intros [HD1 HD2] [HC1 HC2]. unfold woodbury_inverse, woodbury_inner in *.
  set (Rt := mT R) in *. set (U := mmul n Di R) in *. set (V := mmul n Rt Di) in *.
  set (C := madd mI (mmul n Rt U)) in *. set (A := madd (mmul m R Rt) D).
  assert (F1 : meq n m (mmul n D U) R).
  { transitivity (mmul n (mmul n D Di) R); [symmetry; apply mmul_assoc|].
    transitivity (mmul n mI R); [apply mmul_compat_l; exact HD1|apply mmul_I_l]. }
  assert (F2 : meq m n (mmul n V D) Rt).
  { transitivity (mmul n Rt (mmul n Di D)); [apply mmul_assoc|].
    transitivity (mmul n Rt mI); [apply mmul_compat_r; exact HD2|apply mmul_I_r]. }
  assert (F3 : meq n m (mmul n A U) (mmul m R C)).
  { transitivity (madd (mmul n (mmul m R Rt) U) (mmul n D U)); [apply mmul_add_distr_r|].
    transitivity (madd (mmul m R (mmul n Rt U)) R).
    { apply madd_compat; [apply mmul_assoc|exact F1]. }
    symmetry.
    transitivity (madd (mmul m R mI) (mmul m R (mmul n Rt U))); [apply mmul_add_distr_l|].
    transitivity (madd R (mmul m R (mmul n Rt U))).
    { apply madd_compat; [apply mmul_I_r|reflexivity]. }
    apply madd_comm. }
  assert (F4 : meq m n (mmul n V A) (mmul m C Rt)).
  { transitivity (madd (mmul n V (mmul m R Rt)) (mmul n V D)); [apply mmul_add_distr_l|].
    transitivity (madd (mmul m (mmul n Rt U) Rt) Rt).
    { apply madd_compat; [|exact F2].
      transitivity (mmul m (mmul n V R) Rt); [symmetry; apply mmul_assoc|].
      apply mmul_compat_l. apply mmul_assoc. }
    symmetry.
    transitivity (madd (mmul m mI Rt) (mmul m (mmul n Rt U) Rt)); [apply mmul_add_distr_r|].
    transitivity (madd Rt (mmul m (mmul n Rt U) Rt)).
    { apply madd_compat; [apply mmul_I_l|reflexivity]. }
    apply madd_comm. }
  split.
  - assert (G1 : meq n n (mmul n A Di) (madd (mmul m R V) mI)).
    { transitivity (madd (mmul n (mmul m R Rt) Di) (mmul n D Di)); [apply mmul_add_distr_r|].
      apply madd_compat; [apply mmul_assoc|exact HD1]. }
    assert (G2 : meq n n (mmul n A (mmul m (mmul m U Ci) V)) (mmul m R V)).
    { transitivity (mmul m (mmul n A (mmul m U Ci)) V); [symmetry; apply mmul_assoc|].
      apply mmul_compat_l.
      transitivity (mmul m (mmul n A U) Ci); [symmetry; apply mmul_assoc|].
      transitivity (mmul m (mmul m R C) Ci); [apply mmul_compat_l; exact F3|].
      transitivity (mmul m R (mmul m C Ci)); [apply mmul_assoc|].
      transitivity (mmul m R mI); [apply mmul_compat_r; exact HC1|apply mmul_I_r]. }
    transitivity (msub (mmul n A Di) (mmul n A (mmul m (mmul m U Ci) V)));
      [apply mmul_sub_distr_l|].
    intros i j Hi Hj. unfold msub. rewrite (G1 i j Hi Hj), (G2 i j Hi Hj). unfold madd. ring.
  - assert (G1 : meq n n (mmul n Di A) (madd (mmul m U Rt) mI)).
    { transitivity (madd (mmul n Di (mmul m R Rt)) (mmul n Di D)); [apply mmul_add_distr_l|].
      apply madd_compat; [symmetry; apply mmul_assoc|exact HD2]. }
    assert (G2 : meq n n (mmul n (mmul m (mmul m U Ci) V) A) (mmul m U Rt)).
    { transitivity (mmul m (mmul m U Ci) (mmul n V A)); [apply mmul_assoc|].
      transitivity (mmul m (mmul m U Ci) (mmul m C Rt)); [apply mmul_compat_r; exact F4|].
      transitivity (mmul m U (mmul m Ci (mmul m C Rt))); [apply mmul_assoc|].
      apply mmul_compat_r.
      transitivity (mmul m (mmul m Ci C) Rt); [symmetry; apply mmul_assoc|].
      transitivity (mmul m mI Rt); [apply mmul_compat_l; exact HC2|apply mmul_I_l]. }
    transitivity (msub (mmul n Di A) (mmul n (mmul m (mmul m U Ci) V) A));
      [apply mmul_sub_distr_r|].
    intros i j Hi Hj. unfold msub. rewrite (G1 i j Hi Hj), (G2 i j Hi Hj). unfold madd. ring.
Qed.

(* covar_cache = R^T (R R^T + D)^-1 R for ANY inverse of the represented train covariance *)
Lemma sgpr_covar_cache_correct n m R D Di Ci Ainv :
  is_inverse n D Di -> is_inverse m (woodbury_inner n m R Di) Ci ->
  is_inverse n (madd (mmul m R (mT R)) D) Ainv ->
  meq m m (sgpr_covar_cache n m R Di Ci) (mmul n (mT R) (mmul n Ainv R)).
Proof.
  intros HD HC HA. unfold sgpr_covar_cache.
  apply mmul_compat_r. apply mmul_compat_l.
  apply (inverse_unique n (madd (mmul m R (mT R)) D)); [|exact HA].
  apply woodbury; assumption.
Qed.

(* predictive covariance: test_test - L cache L^T is the dense conditional covariance with
   train covariance R R^T + D and cross covariance L R^T *)
Lemma sgpr_pred_cov_dense n m t Tss L R D Di Ci Ainv :
  is_inverse n D Di -> is_inverse m (woodbury_inner n m R Di) Ci ->
  is_inverse n (madd (mmul m R (mT R)) D) Ainv ->
  meq t t (sgpr_pred_cov n m Tss L R Di Ci) (dense_cov n Tss (mmul m L (mT R)) Ainv).
Proof.
  intros HD HC HA. unfold sgpr_pred_cov, dense_cov. apply msub_compat; [reflexivity|].
  transitivity (mmul m L (mmul m (mmul n (mT R) (mmul n Ainv R)) (mT L))).
  { apply mmul_compat_r. apply mmul_compat_l.
    apply (sgpr_covar_cache_correct n m R D Di Ci Ainv); assumption. }
  transitivity (mmul m L (mmul n (mT R) (mmul m (mmul n Ainv R) (mT L)))).
  { apply mmul_compat_r. apply mmul_assoc. }
  transitivity (mmul n (mmul m L (mT R)) (mmul m (mmul n Ainv R) (mT L))).
  { symmetry. apply mmul_assoc. }
  apply mmul_compat_r.
  transitivity (mmul n Ainv (mmul m R (mT L))); [apply mmul_assoc|].
  apply mmul_compat_r. symmetry. apply (mT_mmul n t m L (mT R)).
Qed.

(* the dense conditional of this file is C01's closed form on the assembled joint matrix *)
Lemma dense_cov_is_c01 n t Kxx Csx Tss Ainv :
  meq t t (dense_cov n Tss Csx Ainv) (post_cov n (blk n n Kxx (mT Csx) Csx Tss) Ainv).
Proof.
  unfold dense_cov, post_cov, Kss, Ksx.
  assert (E1 : meq t t (sub n n (blk n n Kxx (mT Csx) Csx Tss)) Tss) by apply sub_blk_11.
  assert (E2 : meq t n (sub n 0 (blk n n Kxx (mT Csx) Csx Tss)) Csx) by (apply sub_blk_10; lia).
  apply msub_compat; [symmetry; exact E1|].
  apply mmul_compat; [symmetry; exact E2|].
  apply mmul_compat_r. apply mT_compat. symmetry. exact E2.
Qed.

Lemma dense_mean_is_c01 n t Kxx Csx Tss Ainv mx ms y :
  meq t 1 (dense_mean n ms Csx Ainv (msub y mx))
          (post_mean n (blk n n Kxx (mT Csx) Csx Tss) (vstack n mx ms) Ainv y).
Proof.
  unfold dense_mean, post_mean, mean_cache, Ksx.
  assert (E2 : meq t n (sub n 0 (blk n n Kxx (mT Csx) Csx Tss)) Csx) by (apply sub_blk_10; lia).
  apply madd_compat.
  - apply mmul_compat; [symmetry; exact E2|]. apply mmul_compat_r.
    intros i j Hi Hj. unfold msub, sub, vstack. cbn [Nat.add].
    destruct (Nat.ltb_spec i n); [reflexivity|lia].
  - intros i j Hi Hj. unfold sub, vstack.
    destruct (Nat.ltb_spec (n + i) n); [lia|]. f_equal. lia.
Qed.

(* Titsias regularisation term with homoskedastic noise: -tr(K - Q) / (2 s2) *)
Lemma titsias_trace n Kd Q s2 : (1 + 1 : car) <> 0 -> s2 <> 0 ->
  titsias_added_loss n Kd Q (fun _ => s2) = - ((sum n Kd - trace n Q) / ((1 + 1) * s2)).
Proof.
  intros H2 Hs. unfold titsias_added_loss, trace, half.
  rewrite <- sum_sub.
  transitivity (- (1 / (1 + 1)) * (sum n (fun i => Kd i - Q i i) * (1 / s2))).
  { f_equal. rewrite <- sum_scale_r. apply sum_ext. intros i _. field. exact Hs. }
  field. split; assumption.
Qed.

(* ================================================================== interpolation strategy *)

Lemma interp_pred_mean_dense n g t Kuu W Ws Ainv r ms :
  meq t 1 (interp_pred_mean n g Kuu W Ws Ainv r ms) (dense_mean n ms (ski g Ws Kuu W) Ainv r).
Proof.
  unfold interp_pred_mean, interp_mean_cache, dense_mean, ski.
  apply madd_compat; [|reflexivity]. symmetry.
  transitivity (mmul g Ws (mmul n (mmul g Kuu (mT W)) (mmul n Ainv r))); [apply mmul_assoc|].
  apply mmul_compat_r. apply mmul_assoc.
Qed.

Lemma interp_pred_cov_root_dense n g q t Tss Kuu W Ws S Ainv :
  meq n n (mmul q S (mT S)) Ainv ->
  meq t t (interp_pred_cov_root n g q Tss Kuu W Ws S) (dense_cov n Tss (ski g Ws Kuu W) Ainv).
Proof.
  intros HS. unfold interp_pred_cov_root, interp_covar_cache, dense_cov.
  apply msub_compat; [reflexivity|].
  set (Ksx := ski g Ws Kuu W).
  assert (E : meq t q (mmul g Ws (mmul g Kuu (mmul n (mT W) S))) (mmul n Ksx S)).
  { unfold Ksx, ski. symmetry.
    transitivity (mmul g Ws (mmul n (mmul g Kuu (mT W)) S)); [apply mmul_assoc|].
    apply mmul_compat_r. apply mmul_assoc. }
  transitivity (mmul q (mmul n Ksx S) (mT (mmul n Ksx S))).
  { apply mmul_compat; [exact E|apply mT_compat; exact E]. }
  apply root_sandwich. exact HS.
Qed.

(* WISKI: the W^T D^-1 W cache of the concatenated data is the old cache plus the fantasy term *)
Lemma wiski_inner_update n f g Wt Wft Di Dfi :
  meq g g (wiski_inner (n + f) (hstack n Wt Wft) (blk n n Di mzero mzero Dfi))
          (madd (wiski_inner n Wt Di) (wiski_inner f Wft Dfi)).
Proof.
  intros i j _ _. unfold wiski_inner, madd. unfold mmul at 1. rewrite sum_split.
  f_equal.
  - unfold mmul at 3. apply sum_ext. intros l Hl. unfold hstack at 1.
    destruct (Nat.ltb_spec l n); [|lia]. f_equal.
    unfold mmul. rewrite sum_split.
    rewrite (sum_zero f) by (intros k Hk; unfold blk, mzero;
      destruct (Nat.ltb_spec l n); [|lia]; destruct (Nat.ltb_spec (n + k) n); [lia|ring]).
    transitivity (sum n (fun k => Di l k * mT Wt k j)); [|ring_simplify; reflexivity].
    assert (E : sum n (fun l0 => blk n n Di mzero mzero Dfi l l0 * mT (hstack n Wt Wft) l0 j)
                = sum n (fun k => Di l k * mT Wt k j)).
    { apply sum_ext. intros k Hk. unfold blk, mT, hstack.
      destruct (Nat.ltb_spec l n); [|lia]. destruct (Nat.ltb_spec k n); [|lia]. reflexivity. }
    rewrite E. ring.
  - unfold mmul at 3. apply sum_ext. intros l Hl. unfold hstack at 1.
    destruct (Nat.ltb_spec (n + l) n); [lia|]. replace (n + l - n)%nat with l by lia. f_equal.
    unfold mmul. rewrite sum_split.
    rewrite (sum_zero n) by (intros k Hk; unfold blk, mzero;
      destruct (Nat.ltb_spec (n + l) n); [lia|]; destruct (Nat.ltb_spec k n); [ring|lia]).
    assert (E : sum f (fun i0 => blk n n Di mzero mzero Dfi (n + l)%nat (n + i0)%nat * mT (hstack n Wt Wft) (n + i0)%nat j)
                = sum f (fun k => Dfi l k * mT Wft k j)).
    { apply sum_ext. intros k Hk. unfold blk, mT, hstack.
      destruct (Nat.ltb_spec (n + l) n); [lia|]. destruct (Nat.ltb_spec (n + k) n); [lia|].
      replace (n + l - n)%nat with l by lia. replace (n + k - n)%nat with k by lia. reflexivity. }
    rewrite E. ring.
Qed.

(* ================================================================== RFF strategy *)

Lemma rff_pred_cov_dense n q t c F Fs L Ainv :
  meq q q (mmul q L (mT L)) (rff_inner n c F Ainv) ->
  meq t t (rff_pred_cov q c Fs L)
          (dense_cov n (rff_gram q c Fs Fs) (rff_gram q c Fs F) Ainv).
Proof.
  intros HL. unfold rff_pred_cov, dense_cov, rff_gram.
  set (X := mmul q Fs (mT F)).
  assert (E1 : meq t t (mmul q (mmul q Fs L) (mT (mmul q Fs L)))
                       (mmul q Fs (mmul q (rff_inner n c F Ainv) (mT Fs)))).
  { apply root_sandwich. exact HL. }
  assert (E2 : meq t t (mmul q Fs (mmul q (mmul n (mT F) (mmul n Ainv F)) (mT Fs)))
                       (mmul n X (mmul n Ainv (mT X)))).
  { unfold X.
    transitivity (mmul q Fs (mmul n (mT F) (mmul q (mmul n Ainv F) (mT Fs)))).
    { apply mmul_compat_r. apply mmul_assoc. }
    transitivity (mmul n (mmul q Fs (mT F)) (mmul q (mmul n Ainv F) (mT Fs))).
    { symmetry. apply mmul_assoc. }
    apply mmul_compat_r.
    transitivity (mmul n Ainv (mmul q F (mT Fs))); [apply mmul_assoc|].
    apply mmul_compat_r. symmetry. apply (mT_mmul n t q Fs (mT F)). }
  assert (E3 : meq t t (mmul q Fs (mmul q (rff_inner n c F Ainv) (mT Fs)))
                 (msub (mmul q Fs (mT Fs)) (mscale c (mmul n X (mmul n Ainv (mT X)))))).
  { unfold rff_inner.
    transitivity (mmul q Fs (msub (mmul q mI (mT Fs))
                    (mmul q (mscale c (mmul n (mT F) (mmul n Ainv F))) (mT Fs)))).
    { apply mmul_compat_r. apply mmul_sub_distr_r. }
    transitivity (msub (mmul q Fs (mmul q mI (mT Fs)))
                   (mmul q Fs (mmul q (mscale c (mmul n (mT F) (mmul n Ainv F))) (mT Fs)))).
    { apply mmul_sub_distr_l. }
    apply msub_compat.
    { apply mmul_compat_r. apply mmul_I_l. }
    transitivity (mmul q Fs (mscale c (mmul q (mmul n (mT F) (mmul n Ainv F)) (mT Fs)))).
    { apply mmul_compat_r. apply mmul_scale_l. }
    transitivity (mscale c (mmul q Fs (mmul q (mmul n (mT F) (mmul n Ainv F)) (mT Fs)))).
    { apply mmul_scale_r. }
    apply mscale_compat. exact E2. }
  assert (E4 : meq t t (mmul n (mscale c X) (mmul n Ainv (mT (mscale c X))))
                       (mscale c (mscale c (mmul n X (mmul n Ainv (mT X)))))).
  { transitivity (mscale c (mmul n X (mmul n Ainv (mT (mscale c X))))); [apply mmul_scale_l|].
    apply mscale_compat.
    transitivity (mmul n X (mscale c (mmul n Ainv (mT X)))).
    { apply mmul_compat_r. apply (mmul_scale_r n t n c Ainv (mT X)). }
    apply mmul_scale_r. }
  intros i j Hi Hj. unfold mscale at 1. rewrite (E1 i j Hi Hj), (E3 i j Hi Hj).
  unfold msub. rewrite (E4 i j Hi Hj). unfold mscale. ring.
Qed.

End Proofs.

(* ================================================================== witnesses (Qc, nat) *)

(* the index as coded (lexicographic) is NOT the row of create_data_from_grid / the position in
   GridKernel's K_{d-1} kron ... kron K_0: node (2,3) of a 4 x 5 grid gets 13, the node sits at 14 *)
Lemma lex_vs_colmajor_witness :
  exists gs ks, valid_multi gs ks /\ lex_index gs ks = 13%nat /\ colmajor_index gs ks = 14%nat
                /\ colmajor_digits gs (lex_index gs ks) = [1; 3]%nat.
Proof. exists [4; 5]%nat, [2; 3]%nat. cbn. repeat split; lia. Qed.

Lemma qc_neq (a b : Qc) : Qc_eqb a b = false -> a <> b.
Proof.
  intros H E. subst b. unfold Qc_eqb in H.
  assert (T : Qeq_bool (this a) (this a) = true) by (apply Qeq_bool_iff; reflexivity).
  rewrite T in H. discriminate.
Qed.

(* the pairing used by the current code (lexicographic flat index into K_{d-1} kron ... kron K_0)
   does not address the product kernel *)
Lemma lex_into_grid_kernel_kron_witness :
  exists (fs : list (nat * @M QcF)) ks ls,
    valid_multi (map fst fs) ks /\ valid_multi (map fst fs) ls /\
    grid_kernel_kron fs (lex_index (map fst fs) ks) (lex_index (map fst fs) ls)
      <> prod_entry fs ks ls.
Proof.
  exists [(4%nat, @mI QcF); (5%nat, fun _ _ => 1%Qc)], [2; 3]%nat, [1; 0]%nat.
  split; [cbn; repeat split; lia|]. split; [cbn; repeat split; lia|].
  apply qc_neq. vm_compute. reflexivity.
Qed.

Lemma qc_char_not_2 : (@fadd QcF (@f1 QcF) (@f1 QcF)) <> (@f0 QcF).
Proof. apply qc_neq. vm_compute. reflexivity. Qed.

(* hypotheses of the Woodbury / SGPR theorems are satisfiable (n = 2, m = 1) *)
Definition exR : @M QcF := of_list [[1%Qc]; [qc 1 2]].
Definition exD : @M QcF := @mdiag QcF (fun _ => qc 1 4).
Definition exDi : @M QcF := @mdiag QcF (fun _ => qc 4 1).
Definition exCi : @M QcF := of_list [[qc 1 6]].
Definition exAinv : @M QcF := of_list [[qc 4 3; qc (-4) 3]; [qc (-4) 3; qc 10 3]].
Lemma ex_woodbury_hyps :
  is_inverse 2 exD exDi /\ is_inverse 1 (woodbury_inner 2 1 exR exDi) exCi
  /\ is_inverse 2 (madd (mmul 1 exR (mT exR)) exD) exAinv.
Proof. repeat split; apply meqb_sound; vm_compute; reflexivity. Qed.

Lemma ex_root_hyp : meq 1 1 (mmul 1 (of_list [[qc 1 2]]) (mT (of_list [[qc 1 2]]))) (of_list [[qc 1 4]] : @M QcF).
Proof. apply meqb_sound. vm_compute. reflexivity. Qed.

Lemma colmajor_is_sum gs ks : colmajor_sum 1 gs ks = colmajor_index gs ks.
Proof. rewrite colmajor_sum_spec. apply Nat.mul_1_l. Qed.

Lemma index_roundtrip gs ks : valid_multi gs ks ->
  lex_digits gs (lex_index gs ks) = ks /\ colmajor_digits gs (colmajor_index gs ks) = ks
  /\ (lex_index gs ks < prodn gs)%nat /\ (colmajor_index gs ks < prodn gs)%nat.
Proof.
  intros H. repeat split;
    [apply lex_digits_index|apply colmajor_digits_index|apply lex_index_lt|apply colmajor_index_lt];
    exact H.
Qed.

Lemma snapped_row_is_onehot (K : Fld) c (f : nat -> car) : (c < 4)%nat ->
  (onehot c 0 + onehot c 1 + onehot c 2 + onehot c 3 = 1
   /\ onehot c 0 * f 0%nat + onehot c 1 * f 1%nat + onehot c 2 * f 2%nat + onehot c 3 * f 3%nat = f c)%F.
Proof. intros H. split; [exact (@onehot_sum_one K c H)|exact (@onehot_apply K c f H)]. Qed.

Lemma ex_valid_multi_45 : valid_multi [4; 5]%nat [2; 3]%nat.
Proof. cbn. repeat split; auto with arith. Qed.
