(* C06 (ii) — the slice division of LazyEvaluatedKernelTensor._getitem, proved over the text
   REGENERATED from /repo (Gen/LazySlice_gen.v): a wrong edit of that arithmetic breaks a proof here. *)
From Coq Require Import ZArith List Bool Lia.
From GPV Require Import Base.PySlice Models.C06_lazyslice Gen.LazySlice_gen.
Import ListNotations.
Local Open Scope Z_scope.

(* ------------------------------------------------------------------ ranges with step 1 *)

Lemma range_len_unit a b : range_len a b 1 = Z.max 0 (b - a).
Proof.
  unfold range_len. cbn [Z.ltb Z.compare]. destruct (a <? b) eqn:E.
  - apply Z.ltb_lt in E. rewrite Z.div_1_r. lia.
  - apply Z.ltb_ge in E. lia.
Qed.

Lemma range_list_unit a b :
  range_list a b 1 = map (fun k => a + Z.of_nat k) (seq 0 (Z.to_nat (b - a))).
Proof.
  unfold range_list. rewrite range_len_unit.
  replace (Z.to_nat (Z.max 0 (b - a))) with (Z.to_nat (b - a)) by lia.
  apply map_ext. intros k. lia.
Qed.

Lemma range_list_empty a b : b <= a -> range_list a b 1 = [].
Proof. intros H. rewrite range_list_unit. replace (Z.to_nat (b - a)) with 0%nat by lia. reflexivity. Qed.

Lemma range_list_cons a b : a < b -> range_list a b 1 = a :: range_list (a + 1) b 1.
Proof.
  intros H. rewrite !range_list_unit.
  replace (Z.to_nat (b - a)) with (S (Z.to_nat (b - (a + 1)))) by lia.
  cbn [seq map]. f_equal; [lia|]. rewrite <- seq_shift, map_map. apply map_ext. intros k. lia.
Qed.

Lemma range_list_app a b c : a <= b -> b <= c -> range_list a c 1 = range_list a b 1 ++ range_list b c 1.
Proof.
  intros Hab Hbc. remember (Z.to_nat (b - a)) as d eqn:Hd. revert a Hab Hd.
  induction d as [|d IH]; intros a Hab Hd.
  - assert (a = b) by lia. subst a. rewrite (range_list_empty b b) by lia. reflexivity.
  - assert (Hlt : a < b) by lia.
    rewrite (range_list_cons a c) by lia. rewrite (range_list_cons a b) by lia.
    cbn [app]. f_equal. apply IH; lia.
Qed.

(* ------------------------------------------------------------------ expand *)

Lemma expand_cons p r l : expand p (r :: l) = map (fun a => r * p + a) (zrange p) ++ expand p l.
Proof. reflexivity. Qed.

Lemma block_range p r : 0 <= p -> map (fun a => r * p + a) (zrange p) = range_list (r * p) ((r + 1) * p) 1.
Proof.
  intros Hp. rewrite range_list_unit. unfold zrange. rewrite map_map.
  replace ((r + 1) * p - r * p) with p by lia. reflexivity.
Qed.

Lemma expand_range p s e : 0 < p -> expand p (range_list s e 1) = range_list (s * p) (e * p) 1.
Proof.
  intros Hp. remember (Z.to_nat (e - s)) as d eqn:Hd. revert s Hd.
  induction d as [|d IH]; intros s Hd.
  - rewrite (range_list_empty s e) by lia. rewrite range_list_empty by nia. reflexivity.
  - assert (Hlt : s < e) by lia.
    rewrite (range_list_cons s e) by lia. rewrite expand_cons, block_range by lia.
    rewrite IH by lia. symmetry. apply range_list_app; nia.
Qed.

(* ------------------------------------------------------------------ one dimension *)

(* a' / b' are what the code uses for a missing start / stop *)
Definition canon_start (s : option Z) (a' : Z) : Prop := (s = None /\ a' = 0) \/ s = Some a'.
Definition canon_stop (N : Z) (s : option Z) (b' : Z) : Prop := (s = None /\ b' = N) \/ s = Some b'.

Lemma clamp_scale p n q : 0 < p -> 0 <= n ->
  clamp_bound (n * p) 0 (n * p) (q * p) = clamp_bound n 0 n q * p.
Proof.
  intros Hp Hn. unfold clamp_bound.
  destruct (q * p <? 0) eqn:E1; destruct (q <? 0) eqn:E2;
    try apply Z.ltb_lt in E1; try apply Z.ltb_ge in E1; try apply Z.ltb_lt in E2; try apply Z.ltb_ge in E2;
    try nia.
Qed.

Lemma divide_dim_ok p n s a' b' : 0 < p -> 0 <= n -> s_step s = None ->
  canon_start (s_start s) a' -> canon_stop (n * p) (s_stop s) b' ->
  a' mod p = 0 -> b' mod p = 0 ->
  exists rows, slice_positions n (mks (Some (a' / p)) (Some (b' / p)) None) = Some rows /\
               slice_positions (n * p) s = Some (expand p rows).
Proof.
  intros Hp Hn Hstep Ha Hb Hma Hmb.
  assert (Ea : a' = (a' / p) * p) by (pose proof (Z_div_mod_eq_full a' p); lia).
  assert (Eb : b' = (b' / p) * p) by (pose proof (Z_div_mod_eq_full b' p); lia).
  set (qa := a' / p) in *. set (qb := b' / p) in *.
  unfold slice_positions, slice_indices. cbn [mks s_start s_stop s_step]. rewrite Hstep.
  cbn [Z.eqb Z.ltb Z.compare].
  eexists. split; [reflexivity|].
  rewrite expand_range by lia. f_equal. f_equal.
  - rewrite <- clamp_scale by lia. rewrite <- Ea.
    destruct Ha as [[-> ->] | ->]; [|reflexivity].
    unfold clamp_bound. cbn [Z.ltb Z.compare]. lia.
  - rewrite <- clamp_scale by lia. rewrite <- Eb.
    destruct Hb as [[-> ->] | ->]; [|reflexivity].
    unfold clamp_bound. destruct (n * p <? 0) eqn:E; [apply Z.ltb_lt in E; nia|]. lia.
Qed.

Lemma truthy_mod_false a p : truthy_z (a mod p) = false -> a mod p = 0.
Proof. unfold truthy_z. destruct (a mod p =? 0) eqn:E; [apply Z.eqb_eq in E; auto|discriminate]. Qed.

Lemma py_or_start s : canon_start s (py_or_oz s 0).
Proof.
  destruct s as [v|]; [|left; auto]. cbn. destruct (v =? 0) eqn:E; [apply Z.eqb_eq in E; subst|]; right; reflexivity.
Qed.

Lemma py_or_stop N s : s <> Some 0 -> canon_stop N s (py_or_oz s N).
Proof.
  intros H. destruct s as [v|]; [|left; auto]. cbn. destruct (v =? 0) eqn:E; [|right; reflexivity].
  apply Z.eqb_eq in E. subst. congruence.
Qed.

Lemma default_start s : canon_start s (oz_default s 0).
Proof. destruct s; [right|left]; auto. Qed.
Lemma default_stop N s : canon_stop N s (oz_default s N).
Proof. destruct s; [right|left]; auto. Qed.

#[export] Hint Resolve py_or_start py_or_stop default_start default_stop : canon.

(* the conclusion about one request *)
Definition division_correct (pr pc n m : Z) (ri ci : pyslice) (r c : midx) : Prop :=
  exists r' c' rows cols, r = MSlice r' /\ c = MSlice c' /\
    slice_positions n r' = Some rows /\ slice_positions m c' = Some cols /\
    slice_positions (n * pr) ri = Some (expand pr rows) /\
    slice_positions (m * pc) ci = Some (expand pc cols).

(* generic closing step, independent of how the code computes a', b' *)
Lemma close_division pr pc n m ri ci ra rb ca cb : 0 < pr -> 0 < pc -> 0 <= n -> 0 <= m ->
  s_step ri = None -> s_step ci = None ->
  canon_start (s_start ri) ra -> canon_stop (n * pr) (s_stop ri) rb ->
  canon_start (s_start ci) ca -> canon_stop (m * pc) (s_stop ci) cb ->
  ra mod pr = 0 -> rb mod pr = 0 -> ca mod pc = 0 -> cb mod pc = 0 ->
  division_correct pr pc n m ri ci (MSlice (mks (Some (ra / pr)) (Some (rb / pr)) None))
                                   (MSlice (mks (Some (ca / pc)) (Some (cb / pc)) None)).
Proof.
  intros Hpr Hpc Hn Hm Hsr Hsc Hra Hrb Hca Hcb M1 M2 M3 M4.
  destruct (divide_dim_ok pr n ri ra rb Hpr Hn Hsr Hra Hrb M1 M2) as [rows [R1 R2]].
  destruct (divide_dim_ok pc m ci ca cb Hpc Hm Hsc Hca Hcb M3 M4) as [cols [C1 C2]].
  exists (mks (Some (ra / pr)) (Some (rb / pr)) None), (mks (Some (ca / pc)) (Some (cb / pc)) None), rows, cols.
  repeat split; assumption.
Qed.

(* script shared by the partial theorem below and the run-time full obligation
   (harness/translators/lazyslice_tr.py): unfold the REGENERATED code, follow its branches *)
Ltac slice_ok_core :=
  match goal with
  | H : gen_mo_getitem ?pr ?pc _ _ (MSlice ?ri) (MSlice ?ci) = Divided _ _ |- _ =>
      unfold gen_mo_getitem in H; cbn [is_slice negb orb sl_start sl_stop sl_step] in H;
      match type of H with
      | (if ?outer then _ else _) = _ =>
          destruct outer eqn:Houter;
          [ | exfalso;
              match goal with Hne : _ <> 1 \/ _ <> 1 |- _ =>
                apply orb_false_iff in Houter; destruct Houter as [Ho1 Ho2];
                apply negb_false_iff in Ho1; apply negb_false_iff in Ho2;
                apply Z.eqb_eq in Ho1; apply Z.eqb_eq in Ho2; lia end ]
      end;
      match type of H with
      | (if ?steps then _ else _) = _ =>
          destruct steps eqn:Hsteps; [discriminate H|];
          apply orb_false_iff in Hsteps; destruct Hsteps as [Hs1 Hs2];
          unfold not_none in Hs1, Hs2; apply negb_false_iff in Hs1; apply negb_false_iff in Hs2
      end;
      match type of H with
      | (if ?al then _ else _) = _ =>
          destruct al eqn:Hal; [discriminate H|];
          repeat (apply orb_false_iff in Hal; let Hx := fresh "Hm" in destruct Hal as [Hal Hx]);
          repeat match goal with Hm : truthy_z _ = false |- _ => apply truthy_mod_false in Hm end
      end;
      injection H as <- <-
  end.

Ltac none_of_is_none :=
  repeat match goal with
         | H : is_none ?x = true |- _ => destruct x; [discriminate H|clear H]
         end.

Ltac full_slice_ok_tac :=
  intros pr pc n m ri ci r c Hpr Hpc Hn Hm Hne H;
  slice_ok_core;
  destruct ri as [rs re rk]; destruct ci as [cs ce ck]; cbn [s_start s_stop s_step] in *;
  none_of_is_none;
  apply close_division; cbn [s_start s_stop s_step]; auto with canon.

(* what holds of the code as it is (snapshot 66db6d9 and after the repair): whenever the fast path is
   taken, the divided slices select exactly the requested output rows / columns -- for all output
   counts, sizes, negative / None / out-of-range bounds -- PROVIDED no explicit stop is 0.
   _partial: for stop = 0 the snapshot's `stop or size` reads the bound as "missing"
   (Proofs: pinned_stop0_refuted); the full statement is re-attempted at run time. *)
Theorem multi_output_slice_ok_partial : forall pr pc n m ri ci r c,
  0 < pr -> 0 < pc -> 0 <= n -> 0 <= m -> (pr <> 1 \/ pc <> 1) ->
  s_stop ri <> Some 0 -> s_stop ci <> Some 0 ->
  gen_mo_getitem pr pc (n * pr) (m * pc) (MSlice ri) (MSlice ci) = Divided r c ->
  division_correct pr pc n m ri ci r c.
Proof.
  intros pr pc n m ri ci r c Hpr Hpc Hn Hm Hne Hz1 Hz2 H.
  slice_ok_core.
  destruct ri as [rs re rk]; destruct ci as [cs ce ck]; cbn [s_start s_stop s_step] in *.
  none_of_is_none.
  apply close_division; cbn [s_start s_stop s_step]; auto with canon.
Qed.

(* single-output kernels: the indices are handed on unchanged, whatever they are *)
Theorem single_output_untouched : forall sr sc ri ci, gen_mo_getitem 1 1 sr sc ri ci = Divided ri ci.
Proof. intros. reflexivity. Qed.

(* anything that is not a pair of step-free slices is evaluated first *)
Theorem multi_output_other_falls_back : forall pr pc sr sc ri ci, (pr <> 1 \/ pc <> 1) ->
  (is_slice ri = false \/ is_slice ci = false \/ sl_step ri <> None \/ sl_step ci <> None) ->
  gen_mo_getitem pr pc sr sc ri ci = Fallback.
Proof.
  intros pr pc sr sc ri ci Hne H. unfold gen_mo_getitem.
  assert (Ho : negb (pr =? 1) || negb (pc =? 1) = true).
  { destruct Hne as [Hx|Hx]; apply Z.eqb_neq in Hx; rewrite Hx; cbn; auto using orb_true_r. }
  rewrite Ho.
  destruct ri as [rs|]; destruct ci as [cs|]; cbn [is_slice negb orb]; try reflexivity.
  destruct H as [H|[H|[H|H]]]; try discriminate.
  - cbn [sl_step] in *. destruct (s_step rs); [reflexivity|congruence].
  - cbn [sl_step] in *. destruct (s_step cs); [|congruence].
    cbn [not_none is_none negb]. rewrite orb_true_r. reflexivity.
Qed.

(* ------------------------------------------------------------------ hand-pinned copies *)

(* the repaired arithmetic is right without the side condition *)
Theorem ref_slice_ok : forall pr pc n m ri ci r c,
  0 < pr -> 0 < pc -> 0 <= n -> 0 <= m -> (pr <> 1 \/ pc <> 1) ->
  ref_mo_getitem pr pc (n * pr) (m * pc) (MSlice ri) (MSlice ci) = Divided r c ->
  division_correct pr pc n m ri ci r c.
Proof.
  intros pr pc n m ri ci r c Hpr Hpc Hn Hm Hne H.
  unfold ref_mo_getitem in H. cbn [is_slice negb orb sl_start sl_stop sl_step] in H.
  destruct (negb (pr =? 1) || negb (pc =? 1)) eqn:Houter.
  2:{ exfalso. apply orb_false_iff in Houter. destruct Houter as [Ho1 Ho2].
      apply negb_false_iff in Ho1. apply negb_false_iff in Ho2.
      apply Z.eqb_eq in Ho1. apply Z.eqb_eq in Ho2. lia. }
  destruct (not_none (s_step ri) || not_none (s_step ci)) eqn:Hsteps; [discriminate H|].
  apply orb_false_iff in Hsteps. destruct Hsteps as [Hs1 Hs2].
  unfold not_none in Hs1, Hs2. apply negb_false_iff in Hs1. apply negb_false_iff in Hs2.
  match type of H with (if ?al then _ else _) = _ => destruct al eqn:Hal; [discriminate H|] end.
  repeat (apply orb_false_iff in Hal; let Hx := fresh "Hm" in destruct Hal as [Hal Hx]).
  repeat match goal with Hm : truthy_z _ = false |- _ => apply truthy_mod_false in Hm end.
  injection H as <- <-.
  destruct ri as [rs re rk]; destruct ci as [cs ce ck]; cbn [s_start s_stop s_step] in *.
  none_of_is_none.
  apply close_division; cbn [s_start s_stop s_step]; auto with canon.
Qed.

(* snapshot 66db6d9: K[0:0, :] of a 2-output kernel on 3 inputs takes the fast path and selects ALL rows *)
Theorem pinned_stop0_refuted :
  exists pr pc n m ri ci r c,
    0 < pr /\ 0 < pc /\ 0 <= n /\ 0 <= m /\ (pr <> 1 \/ pc <> 1) /\
    pinned_mo_getitem pr pc (n * pr) (m * pc) (MSlice ri) (MSlice ci) = Divided (MSlice r) (MSlice c) /\
    slice_positions (n * pr) ri = Some [] /\
    slice_positions n r = Some [0; 1; 2].
Proof.
  exists 2, 2, 3, 4, (mks (Some 0) (Some 0) None), (mks None None None),
         (mks (Some 0) (Some 3) None), (mks (Some 0) (Some 4) None).
  vm_compute. repeat split; try discriminate; auto.
  left. discriminate.
Qed.

(* without the alignment guard the division is wrong: K[1:3, :] (2 outputs per input) would become
   inputs 0:1, i.e. output rows 0,1 instead of 1,2 *)
Theorem unguarded_refuted :
  exists pr pc n m ri ci r c,
    unguarded_mo_getitem pr pc (n * pr) (m * pc) (MSlice ri) (MSlice ci) = Divided (MSlice r) (MSlice c) /\
    slice_positions (n * pr) ri = Some [1; 2] /\
    option_map (expand pr) (slice_positions n r) = Some [0; 1].
Proof.
  exists 2, 2, 3, 4, (mks (Some 1) (Some 3) None), (mks None None None),
         (mks (Some 0) (Some 1) None), (mks (Some 0) (Some 4) None).
  vm_compute. repeat split.
Qed.

(* the executable test used by the search agrees with the proposition *)
Lemma list_eqb_eq a b : list_eqb a b = true -> a = b.
Proof.
  unfold list_eqb. revert b. induction a as [|x a IH]; intros [|y b]; cbn; try discriminate; auto.
  intros H. apply andb_true_iff in H. destruct H as [Hl H]. apply andb_true_iff in H. destruct H as [Hxy H].
  apply Z.eqb_eq in Hxy. subst. f_equal. apply IH. rewrite Hl. exact H.
Qed.

Lemma outcome_ok_sound pr pc n m ri ci r c :
  outcome_ok pr pc n m (MSlice ri) (MSlice ci) (Divided r c) = true -> division_correct pr pc n m ri ci r c.
Proof.
  cbn [outcome_ok]. intros H. apply andb_true_iff in H. destruct H as [H1 H2].
  unfold dim_ok in H1, H2. destruct r as [r'|]; [|discriminate]. destruct c as [c'|]; [|discriminate].
  destruct (slice_positions (n * pr) ri) as [w1|] eqn:E1; [|discriminate].
  destruct (slice_positions n r') as [rows|] eqn:E2; [|discriminate].
  destruct (slice_positions (m * pc) ci) as [w2|] eqn:E3; [|discriminate].
  destruct (slice_positions m c') as [cols|] eqn:E4; [|discriminate].
  apply list_eqb_eq in H1. apply list_eqb_eq in H2. subst.
  exists r', c', rows, cols. repeat split; auto.
Qed.
