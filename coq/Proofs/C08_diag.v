From Coq Require Import Arith Lia List Bool ZArith.
From GPV Require Import Models.C08_shape Models.C08_diag Proofs.C08_shape.
Import ListNotations.

(* ------------------------------------------------------------------ rank of a broadcast *)

Lemma bc_rev_length a b r : bc_rev a b = Some r -> length r = Nat.max (length a) (length b).
Proof.
  revert b r. induction a as [|x a IH]; intros b r H.
  - cbn [bc_rev] in H. injection H as <-. reflexivity.
  - destruct b as [|y b].
    + cbn [bc_rev] in H. injection H as <-. cbn [length]. lia.
    + cbn [bc_rev] in H. destruct (bc_dim x y) as [d|]; [|discriminate].
      destruct (bc_rev a b) as [r'|] eqn:E; [|discriminate].
      injection H as <-. cbn [length]. rewrite (IH b r' E). lia.
Qed.

Lemma broadcast_length sp sd t :
  broadcast_shapes sp sd = Some t -> length t = Nat.max (length sp) (length sd).
Proof.
  unfold broadcast_shapes. destruct (bc_rev (rev sp) (rev sd)) as [r|] eqn:E; [|discriminate].
  cbn [option_map]. intros H. injection H as <-.
  rewrite rev_length, (bc_rev_length _ _ _ E), !rev_length. reflexivity.
Qed.

(* ------------------------------------------------------------------ the diag decision *)

Lemma last_two_full t n : last_two_are (t ++ [n; n]) n = true.
Proof.
  unfold last_two_are. rewrite rev_app_distr. cbn [rev app]. rewrite Nat.eqb_refl. reflexivity.
Qed.

Lemma last_two_diag t n :
  last_two_are (t ++ [n]) n = true <-> exists t', t = t' ++ [n].
Proof.
  unfold last_two_are. rewrite rev_app_distr. cbn [rev app].
  destruct (rev t) as [|b r] eqn:E.
  - split; [discriminate|]. intros [t' ->]. rewrite rev_app_distr in E. discriminate.
  - rewrite Nat.eqb_refl. cbn [andb]. split.
    + intros H. apply Nat.eqb_eq in H. subst b. exists (rev r).
      rewrite <- (rev_involutive t), E. reflexivity.
    + intros [t' ->]. rewrite rev_app_distr in E. cbn [rev app] in E. injection E as <- _.
      apply Nat.eqb_refl.
Qed.

(* the exact class of inputs on which the code's test mistakes a correct diagonal for a full matrix *)
Lemma takes_diagonal_on_diag_iff t sd n d :
  takes_diagonal (t ++ [n]) (sd ++ [n; d]) n = true <->
  length t = S (length sd) /\ exists t', t = t' ++ [n].
Proof.
  unfold takes_diagonal. rewrite andb_true_iff, Nat.eqb_eq, last_two_diag, !app_length.
  cbn [length]. split; intros [H1 H2]; (split; [lia|exact H2]).
Qed.

Lemma diag_heuristic_partial sp sd t n d :
  broadcast_shapes sp sd = Some t -> length sp <= length sd ->
  takes_diagonal (t ++ [n]) (sd ++ [n; d]) n = false /\
  takes_diagonal (t ++ [n; n]) (sd ++ [n; d]) n = true.
Proof.
  intros Hb Hl. pose proof (broadcast_length _ _ _ Hb) as Ht.
  assert (Hts : length t = length sd) by lia. split.
  - destruct (takes_diagonal (t ++ [n]) (sd ++ [n; d]) n) eqn:E; [|reflexivity].
    apply takes_diagonal_on_diag_iff in E. lia.
  - unfold takes_diagonal. rewrite last_two_full, !app_length. cbn [length].
    rewrite Hts, Nat.eqb_refl. reflexivity.
Qed.

Lemma call_diag_shape_partial sp sd t n d :
  broadcast_shapes sp sd = Some t -> length sp <= length sd ->
  call_diag_shape (t ++ [n]) (sd ++ [n; d]) n = t ++ [n] /\
  call_diag_shape (t ++ [n; n]) (sd ++ [n; d]) n = t ++ [n].
Proof.
  intros Hb Hl. destruct (diag_heuristic_partial sp sd t n d Hb Hl) as [H1 H2].
  unfold call_diag_shape. rewrite H1, H2. split; [reflexivity|].
  change [n; n] with ([n] ++ [n]). rewrite app_assoc. apply removelast_last.
Qed.

Lemma diag_heuristic_refuted :
  exists sp sd t n d, broadcast_shapes sp sd = Some t /\
    call_diag_shape (t ++ [n]) (sd ++ [n; d]) n <> t ++ [n].
Proof.
  exists [3], [], [3], 3, 2. split; [reflexivity|]. vm_compute. discriminate.
Qed.

Lemma diag_heuristic_fixed t n :
  takes_diagonal_fixed (t ++ [n]) t n = false /\ takes_diagonal_fixed (t ++ [n; n]) t n = true.
Proof.
  unfold takes_diagonal_fixed. rewrite last_two_full, !app_length. cbn [length]. split.
  - replace (length t + 1 =? length t + 2) with false; [reflexivity|].
    symmetry. apply Nat.eqb_neq. lia.
  - rewrite Nat.eqb_refl. reflexivity.
Qed.

Lemma call_diag_shape_fixed_ok t n :
  call_diag_shape_fixed (t ++ [n]) t n = t ++ [n] /\ call_diag_shape_fixed (t ++ [n; n]) t n = t ++ [n].
Proof.
  destruct (diag_heuristic_fixed t n) as [H1 H2]. unfold call_diag_shape_fixed. rewrite H1, H2.
  split; [reflexivity|]. change [n; n] with ([n] ++ [n]). rewrite app_assoc. apply removelast_last.
Qed.

(* ------------------------------------------------------------------ Tensor.expand *)

Lemma bc_dim_keeps_right x y : bc_dim x y = Some y <-> (Nat.eqb x y || Nat.eqb x 1) = true.
Proof.
  unfold bc_dim. destruct (Nat.eqb_spec x y) as [->|Hxy]; cbn [orb].
  - tauto.
  - destruct (Nat.eqb_spec x 1) as [->|Hx1]; [tauto|].
    destruct (Nat.eqb_spec y 1) as [->|Hy1]; split; try discriminate.
    intros H. injection H as H. contradiction.
Qed.

Lemma expand_rev_iff s target : expand_rev s target = true <-> bc_rev s target = Some target.
Proof.
  revert target. induction s as [|x s IH]; intros target.
  - cbn [expand_rev bc_rev]. tauto.
  - destruct target as [|y target]; cbn [expand_rev bc_rev]; [split; discriminate|].
    rewrite andb_true_iff, IH, <- bc_dim_keeps_right. split.
    + intros [-> ->]. reflexivity.
    + destruct (bc_dim x y) as [d|]; [|discriminate].
      destruct (bc_rev s target) as [r|]; [|discriminate].
      intros H. injection H as -> ->. split; reflexivity.
Qed.

Lemma expands_to_iff sp sd : expands_to sp sd = true <-> broadcast_shapes sp sd = Some sd.
Proof.
  unfold expands_to, broadcast_shapes. rewrite expand_rev_iff. split.
  - intros ->. cbn [option_map]. rewrite rev_involutive. reflexivity.
  - destruct (bc_rev (rev sp) (rev sd)) as [r|]; [|discriminate]. cbn [option_map].
    intros H. injection H as H. rewrite <- H, rev_involutive. reflexivity.
Qed.

Lemma mt_noise_batch_partial sp sd :
  expands_to sp sd = true -> mt_noise_batch sp sd = broadcast_shapes sp sd.
Proof.
  intros H. unfold mt_noise_batch. rewrite H. symmetry. apply expands_to_iff. exact H.
Qed.

Lemma mt_noise_batch_sound sp sd t : mt_noise_batch sp sd = Some t -> broadcast_shapes sp sd = Some t.
Proof.
  unfold mt_noise_batch. destruct (expands_to sp sd) eqn:E; [|discriminate].
  intros H. injection H as <-. apply expands_to_iff. exact E.
Qed.

Lemma mt_noise_batch_refuted :
  exists sp sd t, broadcast_shapes sp sd = Some t /\ mt_noise_batch sp sd = None.
Proof. exists [2], [], [2]. split; reflexivity. Qed.

Lemma mt_noise_batch_fixed_ok sp sd : mt_noise_batch_fixed sp sd = broadcast_shapes sp sd.
Proof. unfold mt_noise_batch_fixed. apply broadcast_shapes_comm. Qed.

(* the failing class is exactly "the broadcast batch is not the data batch" *)
Lemma mt_noise_batch_fails_iff sp sd t :
  broadcast_shapes sp sd = Some t -> (mt_noise_batch sp sd = None <-> t <> sd).
Proof.
  intros Hb. unfold mt_noise_batch. destruct (expands_to sp sd) eqn:E.
  - apply expands_to_iff in E. rewrite Hb in E. injection E as ->. split; [discriminate|congruence].
  - split; [|reflexivity]. intros _ ->. apply expands_to_iff in Hb. congruence.
Qed.
