(* C12 lemmas: the noise operators are the documented dense matrices, are added once; the
   elementwise closed forms of expected_log_prob / log_marginal are the moment-functional
   expectation of the Gaussian log density / the Gaussian log density of the marginal;
   LikelihoodList routes argument k to member k. *)
From Coq Require Import Arith Lia Ring Field Setoid Morphisms List Bool Reals Lra QArith Qcanon Qreals.
From GPV Require Import Base.LinAlg Base.Exec Base.Expr Models.C12_noise Proofs.C12_kron.
Import ListNotations.

Section Generic.
Context {K : Fld}.
Add Field Ff_c12 : (@FT K).
Local Open Scope fld_scope.

(* ---- marginal: noise added exactly once, mean untouched ------------------------------- *)
Lemma marginal_adds_once N C R : meq N N (msub (marginal_cov C R) C) R.
Proof. intros i j _ _. unfold marginal_cov, madd, msub. ring. Qed.

Lemma marginal_mean_unchanged N m : meq N 1 (marginal_mean m) m.
Proof. intros i j _ _. reflexivity. Qed.

(* ---- homoskedastic -------------------------------------------------------------------- *)
Lemma R_homo_entry s2 i j : R_homo s2 i j = if Nat.eqb i j then s2 else 0.
Proof. unfold R_homo, mscale, mI. destruct (Nat.eqb i j); ring. Qed.

Lemma learned_part_entry l i j :
  learned_part l i j = if Nat.eqb i j then (match l with Some s => s | None => 0 end) else 0.
Proof.
  destruct l as [s|]; cbn [learned_part]; [apply R_homo_entry|].
  unfold mzero. destruct (Nat.eqb i j); reflexivity.
Qed.

(* ---- fixed noise ---------------------------------------------------------------------- *)
Definition opt0 (l : option car) : car := match l with Some s => s | None => 0 end.

(* stored noise used when no call-time noise is given and the sizes match *)
Lemma R_fixed_stored n stored l i j :
  R_fixed n n stored None l i j = if Nat.eqb i j then stored i + opt0 l else 0.
Proof.
  unfold R_fixed, madd, fixed_base. rewrite Nat.eqb_refl, learned_part_entry.
  unfold mdiag, opt0. destruct (Nat.eqb i j); ring.
Qed.

(* call-time noise: R = diag(call) + learned I, whatever is stored *)
Lemma R_fixed_call n len stored c l i j :
  R_fixed n len stored (Some c) l i j = if Nat.eqb i j then c i + opt0 l else 0.
Proof.
  unfold R_fixed, madd, fixed_base. rewrite learned_part_entry.
  unfold mdiag, opt0. destruct (Nat.eqb i j); ring.
Qed.

Lemma R_fixed_call_ignores_stored n len len' stored stored' c l i j :
  R_fixed n len stored (Some c) l i j = R_fixed n len' stored' (Some c) l i j.
Proof. rewrite !R_fixed_call. reflexivity. Qed.

(* size mismatch and no call-time noise: documented no-op for the fixed part *)
Lemma R_fixed_mismatch n len stored l i j : n <> len ->
  R_fixed n len stored None l i j = learned_part l i j.
Proof.
  intros Hne. unfold R_fixed, madd, fixed_base.
  destruct (Nat.eqb_spec n len); [contradiction|]. unfold mzero. ring.
Qed.

(* ---- fantasy likelihood: [old noise; new noise] in the order of the joint inputs ---------- *)
Lemma R_fantasy_entry n m old new l i j :
  R_fantasy n m old new l i j =
  if Nat.eqb i j then (if Nat.ltb i n then old i else new (i - n)%nat) + opt0 l else 0.
Proof. unfold R_fantasy. rewrite R_fixed_stored. reflexivity. Qed.

(* block diagonal of the two likelihoods' own operators: old points first, appended points last *)
Lemma R_fantasy_blocks n m old new l :
  meq (n + m) (n + m) (R_fantasy n m old new l)
      (blk n n (R_fixed n n old None l) mzero mzero (R_fixed m m new None l)).
Proof.
  intros i j Hi Hj. rewrite R_fantasy_entry. unfold blk. rewrite !R_fixed_stored. unfold mzero.
  destruct (Nat.ltb_spec i n) as [Hin|Hin], (Nat.ltb_spec j n) as [Hjn|Hjn].
  - reflexivity.
  - destruct (Nat.eqb_spec i j); [lia|reflexivity].
  - destruct (Nat.eqb_spec i j); [lia|reflexivity].
  - destruct (Nat.eqb_spec i j) as [->|Hne].
    + rewrite Nat.eqb_refl. reflexivity.
    + destruct (Nat.eqb_spec (i - n) (j - n)); [lia|reflexivity].
Qed.

(* two successive fantasy steps store old ++ new1 ++ new2 *)
Lemma cat_fn_assoc n m1 (old new1 new2 : nat -> car) i :
  cat_fn (n + m1) (cat_fn n old new1) new2 i = cat_fn n old (cat_fn m1 new1 new2) i.
Proof.
  unfold cat_fn.
  destruct (Nat.ltb_spec i (n + m1)) as [H1|H1], (Nat.ltb_spec i n) as [H2|H2]; try reflexivity; try lia.
  - destruct (Nat.ltb_spec (i - n) m1); [reflexivity|lia].
  - destruct (Nat.ltb_spec (i - n) m1); [lia|]. f_equal. lia.
Qed.

Lemma R_fantasy_twice n m1 m2 old new1 new2 l :
  meq (n + m1 + m2) (n + m1 + m2)
      (R_fantasy (n + m1) m2 (cat_fn n old new1) new2 l)
      (R_fantasy n (m1 + m2) old (cat_fn m1 new1 new2) l).
Proof.
  intros i j Hi Hj. rewrite !R_fantasy_entry.
  destruct (Nat.eqb i j); [|reflexivity]. f_equal.
  exact (cat_fn_assoc n m1 old new1 new2 i).
Qed.

(* without a learned part the forwarding variant coincides with the specification *)
Lemma R_fixed_forwarding_no_learned n len stored call i j :
  R_fixed_forwarding n len stored call None i j = R_fixed n len stored call None i j.
Proof. unfold R_fixed_forwarding, R_fixed. destruct call; reflexivity. Qed.

Lemma R_fixed_forwarding_no_call n len stored l i j :
  R_fixed_forwarding n len stored None l i j = R_fixed n len stored None l i j.
Proof. unfold R_fixed_forwarding, R_fixed. destruct l; reflexivity. Qed.

(* ---- multitask ------------------------------------------------------------------------ *)
Lemma Dt_rank0_entry d F g a b :
  Dt 0 d F g a b = if Nat.eqb a b then d a + opt0 g else 0.
Proof.
  unfold Dt, madd. rewrite learned_part_entry. unfold mdiag, opt0.
  destruct (Nat.eqb a b); ring.
Qed.

Lemma Dt_rank_r_entry r d F g a b :
  Dt (S r) d F g a b
  = sum (S r) (fun k => F a k * F b k) + (if Nat.eqb a b then opt0 g else 0).
Proof.
  unfold Dt, madd. rewrite learned_part_entry. unfold mmul, mT, opt0.
  destruct (Nat.eqb a b); ring.
Qed.

Lemma Dt_symmetric t r d F g : symmetric t (Dt r d F g).
Proof.
  intros a b _ _. unfold mT. destruct r as [|r].
  - rewrite !Dt_rank0_entry. rewrite (Nat.eqb_sym b a).
    destruct (Nat.eqb_spec a b) as [->|]; reflexivity.
  - rewrite !Dt_rank_r_entry. rewrite (Nat.eqb_sym b a). f_equal.
    apply sum_ext. intros k _. ring.
Qed.

(* entries of R in the layout of the input: point block (i,j), task entry (a,b) *)
Lemma R_mt_entry_il n t r d F g i j a b : (a < t)%nat -> (b < t)%nat ->
  R_mt n t r true true d F g (i * t + a)%nat (j * t + b)%nat
  = if Nat.eqb i j then Dt r d F g a b else 0.
Proof. intros Ha Hb. unfold R_mt, R_mt_il. apply kron_I_D_entry; assumption. Qed.

Lemma R_mt_entry_nil n t r d F g i j a b : (i < n)%nat -> (j < n)%nat ->
  R_mt n t r true false d F g (a * n + i)%nat (b * n + j)%nat
  = if Nat.eqb i j then Dt r d F g a b else 0.
Proof. intros Hi Hj. unfold R_mt, R_mt_nil. apply kron_D_I_entry; assumption. Qed.

Lemma R_mt_layout n t r d F g :
  meq (n * t) (n * t) (R_mt n t r true true d F g)
      (gather (shuf n t) (shuf n t) (R_mt n t r true false d F g)).
Proof. unfold R_mt. apply kron_layout. Qed.

(* the comment in the code: I (x) D_T + s2 I_{NT} = I (x) (D_T + s2 I_T), both layouts *)
Lemma R_mt_global_inside_il n t r d F s k l : (0 < t)%nat ->
  R_mt n t r true true d F (Some s) k l
  = madd (R_mt n t r true true d F None) (R_homo s) k l.
Proof.
  intros Ht. unfold R_mt, R_mt_il.
  assert (E : forall a b, Dt r d F (Some s) a b = madd (Dt r d F None) (R_homo s) a b).
  { intros a b. unfold Dt, madd, learned_part, mzero. ring. }
  unfold kron at 1. rewrite E. fold (kron t mI (madd (Dt r d F None) (R_homo s)) k l).
  apply kron_I_global. exact Ht.
Qed.

Lemma R_mt_global_inside_nil n t r d F s k l : (0 < n)%nat ->
  R_mt n t r true false d F (Some s) k l
  = madd (R_mt n t r true false d F None) (R_homo s) k l.
Proof.
  intros Hn. unfold R_mt, R_mt_nil.
  assert (E : forall a b, Dt r d F (Some s) a b = madd (Dt r d F None) (R_homo s) a b).
  { intros a b. unfold Dt, madd, learned_part, mzero. ring. }
  unfold kron at 1. rewrite E. fold (kron n (madd (Dt r d F None) (R_homo s)) mI k l).
  apply kron_global_I. exact Hn.
Qed.

(* global noise only: s2 I_{nt} in either layout *)
Lemma R_mt_global_only n t r il d F s i j :
  R_mt n t r false il d F (Some s) i j = if Nat.eqb i j then s else 0.
Proof. unfold R_mt. cbn [learned_part]. apply R_homo_entry. Qed.

End Generic.

(* ---- the forwarding variant (pinned snapshot) is refuted by a 1-point witness ---------- *)
Lemma R_fixed_forwarding_refuted :
  exists (c : nat -> Qc) (s : Qc),
    R_fixed_forwarding (K:=QcF) 1%nat 1%nat (fun _ => 0%Qc) (Some c) (Some s) O O
    <> R_fixed (K:=QcF) 1%nat 1%nat (fun _ => 0%Qc) (Some c) (Some s) O O.
Proof.
  exists (fun _ => qc 2 5), (qc 1 20). intros H.
  apply (f_equal (fun q : Qc => Qeq_bool (this q) (9 # 20))) in H.
  vm_compute in H. discriminate H.
Qed.

(* ---- the swapped order [new noise; old noise] is NOT the fantasy likelihood: 1 + 1 points ---- *)
Lemma R_fantasy_new_first_refuted :
  exists (old new : nat -> Qc),
    R_fixed (K:=QcF) 2%nat 2%nat (cat_fn (K:=QcF) 1%nat new old) None None O O
    <> R_fantasy (K:=QcF) 1%nat 1%nat old new None O O.
Proof.
  exists (fun _ => qc 1 4), (fun _ => qc 3 1). intros H.
  apply (f_equal (fun q : Qc => Qeq_bool (this q) (1 # 4))) in H.
  vm_compute in H. discriminate H.
Qed.

(* the executable layer: list concatenation is cat_fn (used by R_of for LFantasy) *)
Lemma fn_of_list_app (old nw : list Qc) i :
  fn_of_list (old ++ nw) i = cat_fn (K:=QcF) (length old) (fn_of_list old) (fn_of_list nw) i.
Proof.
  unfold fn_of_list, cat_fn. destruct (Nat.ltb_spec i (length old)).
  - apply app_nth1. assumption.
  - apply app_nth2. assumption.
Qed.

(* ---- LikelihoodList routing ---------------------------------------------------------- *)
Section Routing.
Context {L A N O : Type}.
Variable f : L -> A -> option N -> O.

Lemma zip2_spec ls : forall xs r, zip2 f ls xs = Some r ->
  length xs = length ls /\ length r = length ls /\
  forall k dl dx dr, (k < length ls)%nat -> nth k r dr = f (nth k ls dl) (nth k xs dx) None.
Proof.
  induction ls as [|l ls IH]; intros [|x xs] r H; cbn [zip2] in H; try discriminate.
  - injection H as <-. repeat split. intros k dl dx dr Hk. cbn in Hk. lia.
  - destruct (zip2 f ls xs) as [r'|] eqn:E; [|discriminate]. injection H as <-.
    destruct (IH xs r' E) as (H1 & H2 & H3). cbn [length]. repeat split; try lia.
    intros [|k] dl dx dr Hk; cbn [nth]; [reflexivity|]. apply H3. cbn [length] in Hk. lia.
Qed.

Lemma zip3_spec ls : forall xs ns r, zip3 f ls xs ns = Some r ->
  length xs = length ls /\ length ns = length ls /\ length r = length ls /\
  forall k dl dx dn dr, (k < length ls)%nat ->
    nth k r dr = f (nth k ls dl) (nth k xs dx) (Some (nth k ns dn)).
Proof.
  induction ls as [|l ls IH]; intros [|x xs] [|n ns] r H; cbn [zip3] in H; try discriminate.
  - injection H as <-. repeat split. intros k dl dx dn dr Hk. cbn in Hk. lia.
  - destruct (zip3 f ls xs ns) as [r'|] eqn:E; [|discriminate]. injection H as <-.
    destruct (IH xs ns r' E) as (H1 & H2 & H3 & H4). cbn [length]. repeat split; try lia.
    intros [|k] dl dx dn dr Hk; cbn [nth]; [reflexivity|]. apply H4. cbn [length] in Hk. lia.
Qed.

Lemma zip2_total ls : forall xs, length xs = length ls -> exists r, zip2 f ls xs = Some r.
Proof.
  induction ls as [|l ls IH]; intros [|x xs] H; cbn [length] in H; try discriminate.
  - exists []. reflexivity.
  - destruct (IH xs ltac:(lia)) as [r E]. exists (f l x None :: r). cbn [zip2]. rewrite E.
    reflexivity.
Qed.

Lemma zip3_total ls : forall xs ns, length xs = length ls -> length ns = length ls ->
  exists r, zip3 f ls xs ns = Some r.
Proof.
  induction ls as [|l ls IH]; intros [|x xs] [|n ns] H1 H2; cbn [length] in H1, H2;
    try discriminate.
  - exists []. reflexivity.
  - destruct (IH xs ns ltac:(lia) ltac:(lia)) as [r E]. exists (f l x (Some n) :: r).
    cbn [zip3]. rewrite E. reflexivity.
Qed.

(* member k is applied to argument k and noise k, for lists of any length *)
Lemma list_call_routes ls xs ns r : list_call f ls xs ns = Some r ->
  length r = length ls /\
  forall k dl dx dn dr, (k < length ls)%nat ->
    nth k r dr = f (nth k ls dl) (nth k xs dx)
                   (match ns with Some l => Some (nth k l dn) | None => None end).
Proof.
  destruct ns as [ns|]; cbn [list_call]; intros H.
  - destruct (zip3_spec ls xs ns r H) as (_ & _ & H3 & H4). split; [exact H3|].
    intros k dl dx dn dr Hk. apply H4. exact Hk.
  - destruct (zip2_spec ls xs r H) as (_ & H2 & H3). split; [exact H2|].
    intros k dl dx _ dr Hk. apply H3. exact Hk.
Qed.

Lemma list_call_defined ls xs ns :
  length xs = length ls -> (match ns with Some l => length l = length ls | None => True end) ->
  exists r, list_call f ls xs ns = Some r.
Proof.
  destruct ns as [ns|]; cbn [list_call]; intros H1 H2.
  - apply zip3_total; assumption.
  - apply zip2_total; assumption.
Qed.
End Routing.

(* ---- closed forms over R ---------------------------------------------------------------- *)
Local Open Scope R_scope.

(* density of N(mu, s2) at y *)
Definition normal_pdf (y mu s2 : R) : R :=
  exp (- ((y - mu) * (y - mu)) / (2 * s2)) / sqrt (2 * PI * s2).

(* polynomials of degree <= 2 in f as coefficient triples; the moment functional of N(m, v)
   on them is generated by E 1 = 1, E f = m, E (f-m)^2 = v *)
Definition poly2 : Type := (R * R * R)%type.
Definition peval2 (p : poly2) (f : R) : R := let '(c0, c1, c2) := p in c0 + c1 * f + c2 * (f * f).
Definition padd2 (p q : poly2) : poly2 :=
  let '(a0, a1, a2) := p in let '(b0, b1, b2) := q in (a0 + b0, a1 + b1, a2 + b2).
Definition pscale2 (a : R) (p : poly2) : poly2 := let '(c0, c1, c2) := p in (a * c0, a * c1, a * c2).
Definition E2 (m v : R) (p : poly2) : R := let '(c0, c1, c2) := p in c0 + c1 * m + c2 * (m * m + v).

(* log N(y | f, r) as a polynomial in f *)
Definition loglik_poly (y r : R) : poly2 :=
  (- / 2 * (y * y / r + ln r + ln (2 * PI)), y / r, - / (2 * r)).

Lemma ln_sqrt_half x : 0 < x -> ln (sqrt x) = / 2 * ln x.
Proof.
  intros Hx. assert (Hs : 0 < sqrt x) by (apply sqrt_lt_R0; exact Hx).
  assert (E : ln x = ln (sqrt x) + ln (sqrt x)).
  { rewrite <- ln_mult by assumption. rewrite sqrt_sqrt by lra. reflexivity. }
  lra.
Qed.

Lemma ln_normal_pdf y mu s2 : 0 < s2 ->
  ln (normal_pdf y mu s2) = - / 2 * ((y - mu) * (y - mu) / s2 + ln s2 + ln (2 * PI)).
Proof.
  intros Hs. unfold normal_pdf.
  assert (Hpi : 0 < 2 * PI) by (pose proof PI_RGT_0; lra).
  assert (Hq : 0 < 2 * PI * s2) by (apply Rmult_lt_0_compat; assumption).
  assert (Hsq : 0 < sqrt (2 * PI * s2)) by (apply sqrt_lt_R0; exact Hq).
  unfold Rdiv at 1. rewrite ln_mult; [|apply exp_pos|apply Rinv_0_lt_compat; exact Hsq].
  rewrite ln_exp, ln_Rinv by exact Hsq. rewrite ln_sqrt_half by exact Hq.
  rewrite ln_mult by assumption. field. lra.
Qed.

Lemma loglik_poly_is_log_density y r f : 0 < r ->
  peval2 (loglik_poly y r) f = ln (normal_pdf y f r).
Proof.
  intros Hr. rewrite ln_normal_pdf by exact Hr. unfold peval2, loglik_poly. field. lra.
Qed.

Lemma E2_values m v :
  E2 m v (1, 0, 0) = 1 /\ E2 m v (0, 1, 0) = m /\ E2 m v (m * m, - (2 * m), 1) = v.
Proof. unfold E2. repeat split; ring. Qed.

Lemma E2_linear m v a p q : E2 m v (padd2 (pscale2 a p) q) = a * E2 m v p + E2 m v q.
Proof. destruct p as [[a0 a1] a2], q as [[b0 b1] b2]. unfold E2, padd2, pscale2. ring. Qed.

(* E2 is the only linear functional with mean m and variance v *)
Lemma E2_unique m v (Lf : poly2 -> R) :
  (forall a p q, Lf (padd2 (pscale2 a p) q) = a * Lf p + Lf q) ->
  Lf (1, 0, 0) = 1 -> Lf (0, 1, 0) = m -> Lf (m * m, - (2 * m), 1) = v ->
  forall p, Lf p = E2 m v p.
Proof.
  intros Hlin H0 H1 H2 [[c0 c1] c2].
  assert (Hz : Lf (0, 0, 0) = 0).
  { pose proof (Hlin 1 (0, 0, 0) (0, 0, 0)) as H. unfold padd2, pscale2 in H.
    replace (1 * 0 + 0) with 0 in H by ring. lra. }
  assert (E : (c0, c1, c2) =
     padd2 (pscale2 c2 (m * m, - (2 * m), 1))
       (padd2 (pscale2 (c1 + 2 * m * c2) (0, 1, 0))
          (padd2 (pscale2 (c0 - c2 * (m * m)) (1, 0, 0)) (0, 0, 0)))).
  { unfold padd2, pscale2. f_equal; [f_equal|]; ring. }
  set (rhs := E2 m v (c0, c1, c2)).
  rewrite E, !Hlin, H0, H1, H2, Hz. unfold rhs, E2. ring.
Qed.

Lemma E2_square_residual y m v : E2 m v (y * y, - (2 * y), 1) = (y - m) * (y - m) + v.
Proof. unfold E2. ring. Qed.

Lemma den_half_neg : den e_half_neg = - / 2.
Proof.
  unfold e_half_neg. cbn [den]. unfold Q2R'.
  replace (this (qc (-1) 2)) with (-1 # 2)%Q by (vm_compute; reflexivity).
  unfold Q2R. cbn [Qnum Qden]. field.
Qed.

Lemma den_ln2pi : den e_ln2pi = ln (2 * PI).
Proof.
  unfold e_ln2pi. cbn [den]. unfold Q2R'.
  replace (this (qc 2 1)) with (2 # 1)%Q by (vm_compute; reflexivity).
  unfold Q2R. cbn [Qnum Qden]. f_equal. field.
Qed.

(* what the model prints for expected_log_prob is the moment-functional expectation of the
   log density *)
Lemma elp_expr_correct y m v r : den r <> 0 ->
  den (elp_expr y m v r) = E2 (den m) (den v) (loglik_poly (den y) (den r)).
Proof.
  intros Hr. unfold elp_expr. cbn [den]. rewrite den_half_neg, den_ln2pi.
  unfold E2, loglik_poly. field. exact Hr.
Qed.

(* ... which, for r > 0, is E[ ln N(y | f, r) ] with ln N(y | . , r) the polynomial above *)
Lemma elp_expr_is_expected_log_density y m v r : 0 < den r ->
  (forall f, peval2 (loglik_poly (den y) (den r)) f = ln (normal_pdf (den y) f (den r))) /\
  den (elp_expr y m v r) = E2 (den m) (den v) (loglik_poly (den y) (den r)).
Proof.
  intros Hr. split.
  - intros f. apply loglik_poly_is_log_density. exact Hr.
  - apply elp_expr_correct. lra.
Qed.

(* the code's formula: -1/2 ( ((y-m)^2 + v)/r + ln r + ln 2pi ) *)
Lemma elp_expr_code_formula y m v r :
  den (elp_expr y m v r)
  = - / 2 * (((den y - den m) * (den y - den m) + den v) / den r + ln (den r) + ln (2 * PI)).
Proof. unfold elp_expr. cbn [den]. rewrite den_half_neg, den_ln2pi. reflexivity. Qed.

Lemma lm_expr_correct y m v r : 0 < den v + den r ->
  den (lm_expr y m v r) = ln (normal_pdf (den y) (den m) (den v + den r)).
Proof.
  intros H. rewrite ln_normal_pdf by exact H. unfold lm_expr. cbn [den].
  rewrite den_half_neg, den_ln2pi. reflexivity.
Qed.
